From Coq Require Import ExtrOcamlBasic.
From HV Require Import Base.Res Base.Str Model.Bids.
Extraction Language OCaml.
Extraction "../ocaml/build/c16_model.ml"
  force_types parse_bids_filename check_filename is_sidecar_for walk get_file_list
  get_sidecars_from_path group_init applicableb merge_dicts raw_of.
