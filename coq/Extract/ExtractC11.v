From Coq Require Import ExtrOcamlBasic.
From Coq Require Import QArith.
From HV Require Import Base.Res Base.Str Model.Units.
Extraction Language OCaml.
Extraction "../ocaml/build/c11_model.ml"
  force_types validate_units validate_units_string check_units_valid value_as_default_unit tag_unit_classes
  get_tag_units_portion cands factor_spec float_factor Qred mkSchema mkClass mkUnit mkMod mkUTag.
