From Coq Require Import ExtrOcamlBasic.
From HV Require Import Base.Res Base.Str Model.Dups Gen.C04Codes.
Extraction Language OCaml.
Extraction "../ocaml/build/c04_model.ml"
  force_types mode_of all_tags_issues tag_level_issues check_for_duplicate_groups
  validate_duration_tags group_checks validate_onset_offset full_string_checks code_of.
