From Coq Require Import ExtrOcamlBasic.
From HV Require Import Base.Res Base.Str Model.Schema Model.Resolve.
From HV Require Gen.FoldTable.
Extraction Language OCaml.
Extraction "../ocaml/build/c03_model.ml"
  force_types FoldTable.py_fold build_table get_entry WFschema hedtag_init find_tag_entry
  short_tag long_tag base_tag short_base_tag org_base_tag extension takes_value_child repaired unrepaired.
