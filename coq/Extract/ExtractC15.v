From Coq Require Import ExtrOcamlBasic.
From HV Require Import Base.Res Base.Str Model.Query Model.QueryParse Model.QueryEdit.
Extraction Language OCaml.
Extraction "../ocaml/build/c15_model.ml"
  force_types compile search matches handle tokenize balanced_groupers apply_edit obj_search run_step.
