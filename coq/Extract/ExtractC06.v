From Coq Require Import ExtrOcamlBasic.
From HV Require Import Base.Res Base.Str Model.Parse Model.RefSplice Model.Assemble Model.AssembleOps.
Extraction Language OCaml.
Extraction "../ocaml/build/c06_model.ml"
  force_types replace_ref find_refs column_refs detect_column_type final_column_map
  assemble series_a wf_delim isspace is_ref_char hedstring_init run.
