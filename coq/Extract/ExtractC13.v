From Coq Require Import ExtrOcamlBasic.
From HV Require Import Base.Res Base.Str Base.SchemaData Model.Namespace Model.NamespaceX Model.NamespaceHist.
Extraction Language OCaml.
Extraction "../ocaml/build/c13_model.ml"
  force_types get_schema_namespace x_prefix_issues x_set_schema_prefix x_char_issues x_check_tag_formatting
  x_check_capitalization parse_version_list x_load_schema_version cfg_of x_resolve x_get_tag_entry
  x_group_rules schema83_single schema83_group sch_of table_get contains_standard lib_entries std_entries
  long_tag org_base_tag x_verdict loaderr_exn reidentify tag_text ext_value invalid_parent_span.
