From Coq Require Import ExtrOcamlBasic.
From HV Require Import Base.Res Base.Str Gen.SidecarCodes Model.Sidecar.
Extraction Language OCaml.
Extraction "../ocaml/build/c08_model.ml"
  force_types validate_sidecar find_refs find_non_matching_braces braces_ok is_ref_char
  detect_column_type kind_code kind_is_error struct_ok struct_ok_but_hash.
