From Coq Require Import ExtrOcamlBasic.
From HV Require Import Base.Res Base.Str Base.C14Base Gen.ComplianceTables Model.Compliance.
Extraction Language OCaml.
Extraction "../ocaml/build/c14_model.ml"
  force_types fixed_all fixed_none check_compliance load check_loaded i_code is_error errors_of
  parse_float float_le_zero parse_int parse_version.
