From Coq Require Import ExtrOcamlBasic.
From HV Require Import Base.Res Base.Str Model.Backup.
Extraction Language OCaml.
Extraction "../ocaml/build/c18_model.ml"
  force_types lookup set remove read apply partial exec crash create_effects create_backup
  get_backups mgr_init restore_backup restore_effects remodel_effects rexec run_remodel
  uapply exists_ backup_dir mgr_get dump_fs dump load get_file_key key_path get_backup_path get_task keys_of.
