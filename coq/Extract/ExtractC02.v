From Coq Require Import ExtrOcamlBasic.
From HV Require Import Base.Res Base.Str Model.Parse.
Extraction Language OCaml.
Extraction "../ocaml/build/c02_model.ml"
  force_types split_hed_string hedstring_init print_forest spec_parse balanced paren_mismatch.
