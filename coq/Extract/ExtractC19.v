From Coq Require Import ExtrOcamlBasic.
From HV Require Import Base.Res Base.Str Model.Cache.
Extraction Language OCaml.
Extraction "../ocaml/build/c19_model.ml"
  force_types mkCfg mkSh mkW start step run trace init fget good content_eqb holding outcome_of.
