From Coq Require Import ExtrOcamlBasic.
From HV Require Import Base.Res Base.Str Model.Onset Model.Timeline.
Extraction Language OCaml.
Extraction "../ocaml/build/c10_model.ml"
  force_types run_trace process_file validate_seq casefold.
