From Coq Require Import ExtrOcamlBasic.
From HV Require Import Base.Res Base.Str Base.IssueTypes Gen.ErrorCodes Model.Issues Model.IssuePaths.
Extraction Language OCaml.
Extraction "../ocaml/build/c12_model.ml"
  force_types code_is_fixed kind_table sev_error sev_warning default_sort_list int_sort_list ckey_name
  format_error format_error_with_context push_error_context pop_error_context
  add_context_and_filter validate filter_issues_by_severity check_for_any_errors
  sort_issues get_keys export issue_py replace_tag_references json_ok py_code py_items
  code_sorts_early sidecar_validate table_validate table_validate_gen gate_nonempty onset_processed.
