From Coq Require Import ExtrOcamlBasic.
From HV Require Import Base.Res Base.Str Model.RemodelJson Gen.RemodelParams Model.Remodel.
Extraction Language OCaml.
Extraction "../ocaml/build/c17_model.ml"
  force_types remodel parse_operations validate run_tables no_fixes all_fixes observed_order read_table.
