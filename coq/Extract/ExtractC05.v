From Coq Require Import ExtrOcamlBasic.
From HV Require Import Base.Res Base.Str Base.StrOps Model.AttrCodec Model.WikiCodec Model.Traversal Model.TsvCodec Model.TsvFiles.
Extraction Language OCaml.
Extraction "../ocaml/build/c05_model.ml"
  force_types parse_attribute_string format_tag_attributes attribute_disallowed_df
  AttrCodec.attribute_disallowed parse_header_attributes_line get_attribs_string
  compare_attributes_no_order attr_ok
  write_tag_line write_entry_line read_tag_line read_entry_line
  name_ok desc_ok wiki_attr_ok row_free_of_reserved
  tsv_write_tag_row tsv_write_entry_row tsv_read_row tsv_desc_ok xml_read_desc desc_text_ok
  df_suffixes files_written output_tables csv_write_cell csv_read_cell cell_value writer_files reader_files open_file_lines xml_read_name xml_name_text read_tag_section write_tag_section rebuild_names merged_library ename_ok can_save
  process_schema.
