From Coq Require Import ExtrOcamlBasic.
From HV Require Import Base.Res Base.Str Model.Events.
Extraction Language OCaml.
Extraction "../ocaml/build/c20_model.ml"
  force_types event_manager create_event_list split_delay_tags bisect_left.
