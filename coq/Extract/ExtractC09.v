From Coq Require Import ExtrOcamlBasic.
From HV Require Import Base.Res Base.Str Model.Defs Model.DefStore Model.DefObj.
Extraction Language OCaml.
Extraction "../ocaml/build/c09_model.ml"
  force_types add_definitions check_for_definitions str_forest str_node
  expand_t shrink_t validate_def_tags defexpand_accepted
  load abs tag_flags parents_ok step run step_ts run_ts run_t
  load_o abs_of step_os run_os run_o flags_o wf_dict.
