From Coq Require Import ExtrOcamlBasic.
From HV Require Import Base.Res Base.Str Model.FileValidate.
Extraction Language OCaml.
Extraction "../ocaml/build/c07_model.ml"
  force_types validate run_history value_as_default_unit needs_sorting.
