From Coq Require Import ExtrOcamlBasic.
From HV Require Import Base.Res Base.Str Model.Parse Model.ValKinds Model.ValStr Model.Validate Model.ValValue.
Extraction Language OCaml.
Extraction "../ocaml/build/c01_model.ml"
  force_types validate run_basic_checks validate_forest fprint icode isev is_err has_error
  hedstring_init shape_of shapes_eqb value_class_issues vrun.
