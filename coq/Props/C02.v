(* C02 -- Parsing is total and the parse tree mirrors the source text.
   Property theorems only; each closed with [exact] and followed by
   Print Assumptions. *)
From Coq Require Import List NArith.
From HV Require Import Base.Res Base.Str Model.Parse Proofs.ParseProofs Proofs.ParseRefine Proofs.ParsePrint Proofs.ParseDecl.
Import ListNotations.

(* Constructing an annotation object from any text never raises. *)
Theorem C02_init_never_raises : forall s : str, exists f, hedstring_init s = Ok f.
Proof. exact init_never_raises. Qed.
Print Assumptions C02_init_never_raises.

(* The tokens of any text are non-empty, consecutive and cover it exactly. *)
Theorem C02_tokens_tile : forall s : str,
  exists ts, split_hed_string s = Some ts /\ tiles ts 0 (length s).
Proof. exact split_total_tiles. Qed.
Print Assumptions C02_tokens_tile.

(* For EVERY text the tree is the one the character-level specification
   prescribes: one tag per maximal run of non-delimiter characters trimmed of
   blanks (none for an all-blank run), tag spans = the trimmed run, nesting =
   parenthesis nesting, group spans from '(' to just after the matching ')';
   and [] when some ')' has no partner or some '(' stays open. *)
Theorem C02_init_refines_spec : forall s : str, hedstring_init s = Ok (spec_parse s).
Proof. exact init_refines_spec. Qed.
Print Assumptions C02_init_refines_spec.

(* Unbalanced text gives the empty tree (all strings). *)
Theorem C02_unbalanced_empty : forall s : str, balanced s = false -> hedstring_init s = Ok [].
Proof. exact unbalanced_empty. Qed.
Print Assumptions C02_unbalanced_empty.

(* Balanced text is parsed by the specification's success branch (all strings). *)
Theorem C02_balanced_parses : forall s : str, balanced s = true ->
  exists a ch, spec_loop s 0 0 [] [(0, [])] = Some [(a, ch)] /\ hedstring_init s = Ok (rev ch).
Proof. exact balanced_parses. Qed.
Print Assumptions C02_balanced_parses.

(* Content of the tokens of every text: blanks only / blanks-delimiter-blanks /
   trimmed delimiter-free tag text, covering the text, in grammar order. *)
Theorem C02_token_content : forall s : str,
  exists cts qf, split_hed_string s = Some (spans_of cts 0) /\ s = cconcat cts /\
                 Forall ctok_ok cts /\ arun Q0 (map fst cts) = Some qf.
Proof. exact split_content. Qed.
Print Assumptions C02_token_content.

(* Printing the tree in original form and re-parsing yields an equal tree
   (same nesting, same tag texts) -- for EVERY text. *)
Theorem C02_print_reparse : forall s : str, forall f, hedstring_init s = Ok f ->
  exists f', hedstring_init (print_forest s f) = Ok f' /\
             map (shape_of (print_forest s f)) f' = map (shape_of s) f.
Proof. exact init_print_reparse. Qed.
Print Assumptions C02_print_reparse.

(* The same for ANY rendering of the tags that yields well-formed tag texts
   (non-empty, free of ",()", no outer blanks): short form and long form are
   such renderings (their texts are schema names plus the verbatim extension,
   see C03) -- for EVERY text. *)
Theorem C02_render_reparse : forall (s : str) (r : str -> str),
  (forall t, tagbody t -> tagbody (r t)) ->
  parse_sh (pr_list (map (map_sh r) (parse_sh s))) = map (map_sh r) (parse_sh s).
Proof. exact render_reparse. Qed.
Print Assumptions C02_render_reparse.

(* parse_sh is the shape view of the constructor: same nesting, tag = source slice *)
Theorem C02_parse_sh_is_init : forall s : str,
  hedstring_init s = Ok (spec_parse s) /\ parse_sh s = map (shape_of s) (spec_parse s).
Proof. exact (fun s => conj (init_refines_spec s) (parse_sh_spec s)). Qed.
Print Assumptions C02_parse_sh_is_init.

(* DECLARATIVE reading of the tree, with no reference to any scanner -- for EVERY
   text: the constructor succeeds with a tree in which every Tag a b (at any
   depth) is a non-empty, delimiter-free slice s[a:b] without outer blanks that
   is separated from the neighbouring delimiter (or text end) by blanks only
   (hence the WHOLE trimmed run: "one tag per maximal run"), every Group a b
   has s[a] = "(" and s[b-1] = ")" with its children strictly in between, and
   siblings are in source order without overlap (node_ok, ordered: see
   Proofs/ParseDecl.v).  Coverage of every non-blank, non-delimiter character
   by a tag is the token-level statement C02_token_content above. *)
Theorem C02_tree_declarative : forall s : str,
  exists f, hedstring_init s = Ok f /\ Forall (node_ok s) f /\ ordered 0 (length s) (map span f).
Proof. exact init_declarative. Qed.
Print Assumptions C02_tree_declarative.

(* Independent kernel-evaluated cross-check of all clauses at once, exhaustive
   over the delimiter alphabet up to length 6 (redundant with the unbounded
   theorems above; kept as a sanity net for the model definitions). *)
Theorem C02_spec_bounded : forall s : str,
  length s <= 6 -> Forall (fun c => In c sigma6) s -> spec_ok s = true.
Proof. exact (check_upto_sound 6 check_upto_6). Qed.
Print Assumptions C02_spec_bounded.

(* Validation reports a parenthesis mismatch exactly for unbalanced text
   (holds since fix commit 5df7886; the count-only check is refuted below). *)
Theorem C02_unbalanced_iff_mismatch : forall s : str,
  balanced s = false <-> paren_mismatch s = true.
Proof. exact unbalanced_iff_mismatch. Qed.
Print Assumptions C02_unbalanced_iff_mismatch.

(* A reported parenthesis-count mismatch is always a real imbalance. *)
Theorem C02_count_mismatch_sound : forall s : str,
  paren_count_mismatch s = true -> balanced s = false.
Proof. exact count_mismatch_unbalanced. Qed.
Print Assumptions C02_count_mismatch_sound.

(* "unbalanced => mismatch" is FALSE of the count-only check the code used
   before fix commit 5df7886; kept as the record of the repaired defect. *)
Theorem C02_unbalanced_reports_mismatch_refuted :
  exists s, balanced s = false /\ paren_count_mismatch s = false.
Proof. exact unbalanced_reports_mismatch_refuted. Qed.
Print Assumptions C02_unbalanced_reports_mismatch_refuted.

Example C02_nonvacuous :
  balanced ex_nested = true /\
  hedstring_init ex_nested = Ok [Group 0 8 [Tag 1 2; Group 3 7 [Tag 4 5]]; Tag 9 10].
Proof. exact ex_nested_parse. Qed.
