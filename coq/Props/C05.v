(* C05 -- Schemas survive saving and reloading in every format.
   Property theorems only; each closed with [exact] and followed by Print Assumptions.

   What is proved here (for ALL inputs in the stated classes) is the logical core: the
   attribute-string grammar shared by MediaWiki and TSV, one MediaWiki tag line (writer and
   reader, including the nowiki wrapper and the tag-name expression), and the traversal that
   selects entries/attributes per save mode, plus the multi-library refusal.  XML lexing,
   pandas CSV I/O, the loaders' parent tracking / partnered merge and whole-file equality are
   outside the model and are exercised end-to-end on the implementation only (harness/c05*.py). *)
From Coq Require Import List NArith ZArith Bool.
From HV Require Import Base.Res Base.Str Base.StrOps Model.AttrCodec Model.WikiCodec Model.Traversal
     Model.TsvCodec Proofs.AttrCodecProofs Proofs.WikiCodecProofs Proofs.TsvCodecProofs
     Proofs.TraversalProofs Proofs.C05Examples.
Import ListNotations.

(* attr_roundtrip, exact form: for every writer mode (which attributes it suppresses), parsing the
   formatted attribute string gives back exactly the attributes that were written, in order.
   attr_ok = keys unique, keys non-empty ASCII letters, every comma-separated value piece non-empty,
   free of ',' '=' LF and of outer blanks. *)
Theorem C05_attr_roundtrip_exact : forall (disallowed : str -> bool) (a : attrs),
  attr_ok a = true ->
  parse_attribute_string (format_tag_attributes disallowed a)
  = Ok (filter (fun kv => negb (disallowed (fst kv))) a).
Proof. exact attr_roundtrip_exact. Qed.
Print Assumptions C05_attr_roundtrip_exact.

(* attr_roundtrip as the design states it: equal up to the schema's own order-insensitive
   comparison HedSchemaEntry._compare_attributes_no_order *)
Theorem C05_attr_roundtrip : forall a : attrs,
  attr_ok a = true ->
  exists b, parse_attribute_string (format_tag_attributes (fun _ => false) a) = Ok b
            /\ compare_attributes_no_order b a = true.
Proof. exact attr_roundtrip. Qed.
Print Assumptions C05_attr_roundtrip.

(* wiki_line_roundtrip: a tag written at any level >= 1 by _write_tag_entry/_format_props_and_desc/
   _flush_current_tag is read back (strip, nowiki removal, level, tag-name expression, {..} and [..]
   sections, attribute grammar) as the same level, name, attributes and description.
   name_ok: non-empty, no outer blanks, none of [ ] { } LF < ' /, not ending in #.
   desc_ok: absent, or non-empty, no outer blanks, none of [ ] { } LF, no '<' followed by n or /.
   The last hypothesis is the reader's own reserved-word test: the row must not contain
   'extend here' or the zero-width-space entity. *)
Theorem C05_wiki_line_roundtrip :
  forall (disallowed : str -> bool) (lvl : nat) (n : str) (a : attrs) (d : option str) (line : str),
  name_ok n = true -> desc_ok d = true ->
  attr_ok a = true -> wiki_text_ok (format_tag_attributes disallowed a) = true ->
  write_tag_line disallowed n (S lvl) a d = Some line ->
  row_free_of_reserved line = true ->
  read_tag_line line
  = Ok (Some (mkParsed false (S lvl) n (filter (fun kv => negb (disallowed (fst kv))) a) d)).
Proof. exact wiki_line_roundtrip. Qed.
Print Assumptions C05_wiki_line_roundtrip.

(* The same statement over the text class that schema compliance allows in descriptions (printable
   ASCII except brackets/braces, or non-ASCII) is FALSE of the faithful model: a description with an
   outer blank comes back stripped.  Replayed on the implementation this is finding C05-F1; the
   reserved-word witnesses below are finding C05-F3. *)
Theorem C05_wiki_line_roundtrip_schema_class_refuted :
  exists d, schema_text_ok d = true /\ d <> [] /\
            read_tag_line (line_of d) <> Ok (Some (mkParsed false 1 n_zork [] (Some d))).
Proof. exact wiki_line_roundtrip_schema_class_refuted. Qed.
Print Assumptions C05_wiki_line_roundtrip_schema_class_refuted.

(* tsv_row_roundtrip: a row of the TSV tag table (name, attributes, description columns; the entry has
   no hedId, which travels in its own column) is read back as the same name, the attributes the TSV
   writer keeps (never hedId/annotationProperty, inLibrary unless merging) and the description.
   The cell layer (pandas to_csv/read_csv quoting) is outside the model: finding C05-F2 lives there. *)
Theorem C05_tsv_row_roundtrip : forall (strip_lib : bool) (n : str) (a : attrs) (d : option str),
  attr_ok a = true -> dict_get s_hedId a = None -> tsv_desc_ok d = true ->
  memb ch_slash n = false -> endswith [ch_slash; ch_hash] n = false ->
  endswith [ch_hash] n = false -> endswith s_dash_hash n = false ->
  tsv_read_row (tsv_write_tag_row strip_lib n a d)
  = Ok (n, filter (fun kv => negb (attribute_disallowed_df strip_lib (fst kv))) a, d).
Proof. exact tsv_row_roundtrip. Qed.
Print Assumptions C05_tsv_row_roundtrip.

(* traversal: an unmerged save of a partnered library writes exactly the entries that carry
   inLibrary, in order, and nothing else *)
Theorem C05_unmerged_only_library : forall (ws : str) (tags : list tag_entry),
  nonempty ws = true ->
  map w_entry (output_tags (compute_flags ws false) tags) = filter te_inlib tags.
Proof. exact unmerged_only_library. Qed.
Print Assumptions C05_unmerged_only_library.

(* traversal: a merged save, and any save of a schema without a partner, writes every entry
   exactly once, in order *)
Theorem C05_merged_emits_all_once : forall (ws : str) (m : bool) (tags : list tag_entry),
  nonempty ws = false \/ m = true ->
  map w_entry (output_tags (compute_flags ws m) tags) = tags.
Proof. exact merged_emits_all_once. Qed.
Print Assumptions C05_merged_emits_all_once.

(* attribute inLibrary is kept verbatim in a merged save of a partnered library and stripped (and
   only it) in every other save *)
Theorem C05_inlibrary_stripped_or_kept : forall ws m tags w,
  In w (output_tags (compute_flags ws m) tags) ->
  (nonempty ws = true /\ m = true -> w_attrs w = te_attrs (w_entry w)) /\
  (nonempty ws = false \/ m = false ->
     ~ In a_inLibrary (w_attrs w) /\
     forall a, a <> a_inLibrary -> In a (te_attrs (w_entry w)) -> In a (w_attrs w)).
Proof. exact inlibrary_stripped_or_kept. Qed.
Print Assumptions C05_inlibrary_stripped_or_kept.

(* in a merged save the level handed to the writers is the depth of the tag (no rooted adjustment) *)
Theorem C05_merged_levels : forall ws m tags w,
  nonempty ws = false \/ m = true ->
  In w (output_tags (compute_flags ws m) tags) ->
  w_level w = Z.of_nat (length (te_name (w_entry w)) - 1).
Proof. exact merged_levels. Qed.
Print Assumptions C05_merged_levels.

(* A schema merged from several libraries refuses to save, in every mode and whatever it holds;
   a single library never refuses. *)
Theorem C05_multi_library_refuses : forall library ws m tags ucs secs,
  memb ch_comma library = true ->
  process_schema library ws m tags ucs secs = Exn HedFileError.
Proof. exact multi_library_refuses. Qed.
Print Assumptions C05_multi_library_refuses.

Theorem C05_single_library_saves : forall library ws m tags ucs secs,
  memb ch_comma library = false ->
  exists o, process_schema library ws m tags ucs secs = Ok o.
Proof. exact single_library_saves. Qed.
Print Assumptions C05_single_library_saves.

(* ---- non-vacuity: a real line of HED8.3.0 meets every hypothesis and round-trips ---- *)
Example C05_nonvacuous_wiki :
  name_ok ex_name = true /\ desc_ok (Some ex_desc) = true /\ attr_ok ex_attrs = true
  /\ wiki_text_ok (format_tag_attributes no_dis ex_attrs) = true
  /\ write_tag_line no_dis ex_name 1 ex_attrs (Some ex_desc) = Some ex_line
  /\ row_free_of_reserved ex_line = true.
Proof. exact ex_hyps. Qed.

Example C05_nonvacuous_attr :
  format_tag_attributes no_dis ex_attrs = ex_attr_string
  /\ parse_attribute_string ex_attr_string = Ok ex_attrs.
Proof. exact ex_attr. Qed.

Example C05_nonvacuous_traversal :
  map (fun w => (te_name (w_entry w), w_level w, w_parent w, w_attrs w))
      (output_tags (compute_flags ws83 false) ex_tags)
  = [([1; 2; 3], 0%Z, None, [7]); ([1; 2; 3; 4], 1%Z, Some [1; 2; 3], [])].
Proof. exact ex_unmerged. Qed.

(* ---- the boundary of the attribute grammar (what happens just outside attr_ok) ---- *)
Example C05_attr_eq_truncates :
  parse_attribute_string s_abc = Ok [(k_a, AStr v_b)] /\
  parse_attribute_string (format_tag_attributes no_dis [(k_a, AStr v_beqc)]) = Ok [(k_a, AStr v_b)].
Proof. exact attr_eq_truncates. Qed.

Example C05_attr_trailing_blank_lost :
  parse_attribute_string (format_tag_attributes no_dis [(k_a, AStr v_sp_b)]) = Ok [(k_a, AStr v_b)].
Proof. exact attr_outer_blank_stripped. Qed.

Example C05_attr_empty_piece_rejected :
  parse_attribute_string (format_tag_attributes no_dis [(k_a, AStr v_xey)]) = Exn ValueError.
Proof. exact attr_empty_piece_rejected. Qed.

Example C05_attr_bool_then_value_raises : parse_attribute_string s_a_ab = Exn TypeError.
Proof. exact attr_bool_then_value_raises. Qed.

Example C05_desc_extend_here_refused :
  schema_text_ok d_extend = true /\ read_tag_line (line_of d_extend) = Exn HedFileError.
Proof. exact desc_extend_here_refused. Qed.

Example C05_desc_nowiki_removed :
  schema_text_ok d_nowiki = true /\
  read_tag_line (line_of d_nowiki) = Ok (Some (mkParsed false 1 n_zork [] (Some d_nowiki_gone))).
Proof. exact desc_nowiki_removed. Qed.
