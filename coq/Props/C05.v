(* C05 -- Schemas survive saving and reloading in every format.
   Property theorems only; each closed with [exact] and followed by Print Assumptions.

   "The code as it is" = the current /repo, which contains every repair of this property:
     C05-F1 4719ff8 (XML reader strips descriptions)      C05-F2 394565c (TSV read without quote processing)
     C05-F3 784517a ('extend here' looked for in the name) C05-F4 8fb8446 (TSV unit class stub)
     C05-F5 4b4f5c6 (XML/TSV readers strip names)          C05-F7 f2636f2 (trees arranged parents-first)
     C05-F8 b5f4533 (TSV reader ignores the case of the .tsv suffix)
   The model switches fixed / fixed5 select the behaviour before (false) or after (true) these commits; theorems
   named without suffix are stated at the CURRENT mode (true).  Every theorem whose name ends in _refuted, and every
   statement at mode false, is the RECORD of a repaired defect (behaviour before the commit named next to it) or of
   a variant that is NOT the code (labelled so); none of them says the property is false of the implementation.
   Open findings: C05-F3 rest (nowiki words inside a description) and C05-F6 (tab / line feed in a name).

   WHAT IS PROVED (all inputs in the stated classes):
     - schema level, MediaWiki tag section of a merged save: decoding the lines written for a list of tag entries
       gives back the same entries -- long names (hence parents), attributes, descriptions
       (C05_wiki_tag_section_roundtrip, composed from the root-line and level>=1 line theorems and the rebuilding of
       names from order and level);
     - one line of every other MediaWiki section (units, unit classes, modifiers, value classes, attributes,
       properties): C05_wiki_entry_line_roundtrip;
     - the attribute-string grammar shared by MediaWiki and TSV, one TSV tag row, the TSV unit class stub row;
     - the traversal that selects entries/attributes per save mode; the refusal of every multi-library merge;
     - under the stated abstraction: line splitting at LF, the TSV file set, the XML name element.
   WHAT HOLDS ONLY BY CONSTRUCTION OF THE MODEL: that the writer's entry list is parents-first
   (HedSchemaTagSection._finalize_section is not modelled; tested, and repaired by f2636f2); that a TSV location
   is a map from the ten suffixes (file naming is not modelled).
   WHAT IS TESTED ONLY (harness/c05*.py, on the implementation): the headline clause at the level of whole
   schemas -- save;load == original for XML, MediaWiki, TSV x merged/unmerged over all bundled schemas and generated
   edits --, cross-format equality, the independent ElementTree listing, the TSV tag table as a whole (parents
   by rdfs:subClassOf), header/prologue/epilogue, the '#' line layout, unmerged (rooted / level-adjusted) MediaWiki
   sections, XML lexing and pretty printing, pandas CSV I/O, section splitting, the partnered merge on load. *)
From Coq Require Import List NArith ZArith Bool.
From HV Require Import Base.Res Base.Str Base.StrOps Model.AttrCodec Model.WikiCodec Model.Traversal
     Model.TsvCodec Model.TsvFiles Proofs.C05Current Proofs.TsvFilesProofs Proofs.AttrCodecProofs Proofs.WikiCodecProofs Proofs.TsvCodecProofs
     Proofs.TraversalProofs Proofs.C05Examples.
Import ListNotations.

(* attr_roundtrip, exact form: for every writer mode (which attributes it suppresses), parsing the
   formatted attribute string gives back exactly the attributes that were written, in order.
   attr_ok = keys unique, keys non-empty ASCII letters, every comma-separated value piece non-empty,
   free of ',' '=' LF and of outer blanks. *)
Theorem C05_attr_roundtrip_exact : forall (disallowed : str -> bool) (a : attrs),
  attr_ok a = true ->
  parse_attribute_string (format_tag_attributes disallowed a)
  = Ok (filter (fun kv => negb (disallowed (fst kv))) a).
Proof. exact attr_roundtrip_exact. Qed.
Print Assumptions C05_attr_roundtrip_exact.

(* attr_roundtrip as the design states it: equal up to the schema's own order-insensitive
   comparison HedSchemaEntry._compare_attributes_no_order *)
Theorem C05_attr_roundtrip : forall a : attrs,
  attr_ok a = true ->
  exists b, parse_attribute_string (format_tag_attributes (fun _ => false) a) = Ok b
            /\ compare_attributes_no_order b a = true.
Proof. exact attr_roundtrip. Qed.
Print Assumptions C05_attr_roundtrip.

(* SCHEMA LEVEL (MediaWiki tag section, merged save, current reader).  [write_tag_section] is the traversal of a
   merged save (one line per entry, level = depth) through the line writer; [read_tag_section] is the loop of
   SchemaLoaderWiki._read_schema (root lines start a tree, other lines keep the first `level` terms of the previous
   long name, a skipped generation or a rejected line fails the load).  If the entry list is parents-first and every
   entry is in the class of the line theorems, decoding the written lines gives back exactly the entries: long names
   (so every parent), attributes (minus those the save mode suppresses) and descriptions.  Hypothesis 3 is the
   reader's reserved-word test per line (inputs-only form: C05_wiki_line_roundtrip_inputs).
   Not covered: value-taking '#' children (own line layout: correspondence only) and unmerged saves. *)
Theorem C05_wiki_tag_section_roundtrip :
  forall (disallowed : str -> bool) (es : list tag_item) (lines : list str),
  write_tag_section disallowed es = map Some lines ->
  Forall (fun e => name_ok (last (ti_path e) []) = true /\ desc_ok (ti_desc e) = true /\ attr_ok (ti_attrs e) = true
                   /\ wiki_text_ok (format_tag_attributes disallowed (ti_attrs e)) = true) es ->
  Forall2 (fun e line => row_free_of_reserved true (last (ti_path e) []) line = true) es lines ->
  paths_parents_first [] (map ti_path es) ->
  read_tag_section true [] lines = Ok (map (kept_item disallowed) es).
Proof. exact cur_wiki_tag_section_roundtrip. Qed.
Print Assumptions C05_wiki_tag_section_roundtrip.

(* a root line (level 0), current reader *)
Theorem C05_wiki_root_line_roundtrip :
  forall (disallowed : str -> bool) (n : str) (a : attrs) (d : option str) (line : str),
  name_ok n = true -> desc_ok d = true ->
  attr_ok a = true -> wiki_text_ok (format_tag_attributes disallowed a) = true ->
  write_tag_line disallowed n 0 a d = Some line ->
  row_free_of_reserved true n line = true ->
  read_tag_line true line = Ok (Some (mkParsed true 0 n (filter (fun kv => negb (disallowed (fst kv))) a) d)).
Proof. exact cur_wiki_root_line_roundtrip. Qed.
Print Assumptions C05_wiki_root_line_roundtrip.

(* the level>=1 line with every hypothesis on the INPUTS (audit: the zero-width-entity condition used to be stated on
   the written line): no '&' in name, attribute string and description keeps the entity out of the row *)
Theorem C05_wiki_line_roundtrip_inputs :
  forall (disallowed : str -> bool) (lvl : nat) (n : str) (a : attrs) (d : option str),
  name_ok n = true -> desc_ok d = true ->
  attr_ok a = true -> wiki_text_ok (format_tag_attributes disallowed a) = true ->
  contains s_extend_here n = false ->
  memb ch_amp n = false -> memb ch_amp (format_tag_attributes disallowed a) = false ->
  match d with Some D => memb ch_amp D = false | None => True end ->
  exists line, write_tag_line disallowed n (S lvl) a d = Some line /\
    read_tag_line true line
    = Ok (Some (mkParsed false (S lvl) n (filter (fun kv => negb (disallowed (fst kv))) a) d)).
Proof. exact wiki_line_roundtrip_inputs. Qed.
Print Assumptions C05_wiki_line_roundtrip_inputs.

(* wiki_line_roundtrip for the code AS IT NOW IS (repairs of C05-F1 4719ff8 and C05-F3 784517a: fixed = true).
   A tag written at any level >= 1 by _write_tag_entry/_format_props_and_desc/_flush_current_tag is read
   back (strip, nowiki removal, level, tag-name expression, {..} and [..] sections, attribute grammar)
   as the same level, name, attributes and description, for EVERY description the XML reader can
   deliver: [xml_read_desc true text] for an arbitrary element text.  Compared with the statement for
   the unrepaired code below, two hypotheses are gone because the repairs make them unnecessary:
     - no outer blanks / non-empty description: now an invariant of loaded schemas (C05_xml_desc_normal);
     - 'extend here' absent from the row: now only the NAME must not contain the words.
   What remains are true limits of the MediaWiki format, not of this proof:
     - name_ok: non-empty, no outer blanks, none of [ ] { } LF < ' /, not ending in # (the '#' layout is
       covered by the correspondence run only);
     - desc_text_ok: none of [ ] { } LF (outside the schema text class anyway) and no '<' followed by
       'n' or '/': the reader deletes every <nowiki> / </nowiki> it finds, also inside a description
       (C05_desc_nowiki_still_removed; the rest of finding C05-F3, not repaired, see the report);
     - the zero-width-space entity is absent from the row (the reader deletes it before locating the
       name; a limit of the proof only -- the correspondence run covers rows that contain it). *)
Theorem C05_wiki_line_roundtrip :
  forall (disallowed : str -> bool) (lvl : nat) (n : str) (a : attrs) (text line : str),
  name_ok n = true -> desc_text_ok (xml_read_desc true text) = true ->
  attr_ok a = true -> wiki_text_ok (format_tag_attributes disallowed a) = true ->
  contains s_extend_here n = false ->
  write_tag_line disallowed n (S lvl) a (xml_read_desc true text) = Some line ->
  contains s_zw (remove_nowiki line) = false ->
  read_tag_line true line
  = Ok (Some (mkParsed false (S lvl) n (filter (fun kv => negb (disallowed (fst kv))) a)
                       (xml_read_desc true text))).
Proof. exact wiki_line_roundtrip_loaded. Qed.
Print Assumptions C05_wiki_line_roundtrip.

(* the invariant the repaired XML reader establishes (it agrees with the strip of the MediaWiki and TSV
   readers, so the three formats deliver the same description) *)
Theorem C05_xml_desc_normal : forall text d,
  xml_read_desc true text = Some d -> nonempty d = true /\ no_outer_ws d = true.
Proof. exact xml_desc_normal. Qed.
Print Assumptions C05_xml_desc_normal.

(* NON-TAG ENTRIES.  A line of the unit class / unit / unit modifier / value class / attribute / property
   sections (Schema2Wiki._write_entry, depth 1 or 2 for units) round-trips for every name that is ONE OPAQUE
   TERM: ename_ok asks only for non-empty, no outer blanks, none of [ ] { } LF < ' -- a slash ('m/s', 'km/h'),
   '$', '^', inner blanks or a final '#', admitted e.g. through the entry's own allowedCharacter attribute, are
   ordinary characters of the name.  This statement covers both versions of the reader (the same conclusion
   under each version's own reserved-word test; it is not a 'then/else refutation'). *)
Theorem C05_wiki_entry_line_roundtrip_both :
  forall (fixed : bool) (disallowed : str -> bool) (lvl : nat) (n : str) (a : attrs) (d : option str) (line : str),
  ename_ok n = true -> desc_ok d = true ->
  attr_ok a = true -> wiki_text_ok (format_tag_attributes disallowed a) = true ->
  write_entry_line disallowed n (S lvl) true a d = Some line ->
  row_free_of_reserved fixed n line = true ->
  read_entry_line fixed line
  = Ok (Some (mkParsed false (S lvl) n (filter (fun kv => negb (disallowed (fst kv))) a) d)).
Proof. exact wiki_entry_line_roundtrip. Qed.
Print Assumptions C05_wiki_entry_line_roundtrip_both.

(* the same at the current mode, as its own statement *)
Theorem C05_wiki_entry_line_roundtrip :
  forall (disallowed : str -> bool) (lvl : nat) (n : str) (a : attrs) (d : option str) (line : str),
  ename_ok n = true -> desc_ok d = true ->
  attr_ok a = true -> wiki_text_ok (format_tag_attributes disallowed a) = true ->
  write_entry_line disallowed n (S lvl) true a d = Some line ->
  row_free_of_reserved true n line = true ->
  read_entry_line true line = Ok (Some (mkParsed false (S lvl) n (filter (fun kv => negb (disallowed (fst kv))) a) d)).
Proof. exact cur_wiki_entry_line_roundtrip. Qed.
Print Assumptions C05_wiki_entry_line_roundtrip.

(* The XML writer is modelled at the level of the name element only: for a non-tag entry its text is the whole
   name (tied to Schema2XML._write_entry/_write_tag_entry by the correspondence kind 'xmlname' and by the
   independent ElementTree listing).  Writing 'the last term' for every entry is not the same thing. *)
Theorem C05_xml_name_text_entry : forall name : str, xml_name_text false name = name.
Proof. exact xml_name_text_entry. Qed.
Print Assumptions C05_xml_name_text_entry.

Theorem C05_xml_name_last_term_variant_refuted :
  exists name, ename_ok name = true /\ last_component name <> name.
Proof. exact xml_name_text_last_term_refuted. Qed.
Print Assumptions C05_xml_name_last_term_variant_refuted.

(* LINE SPLITTING.  All per-line statements model the reader's line splitting (SchemaLoaderWiki._open_file:
   readlines() / split(LF)) as splitting at U+000A only -- NOT at U+0085, U+2028, U+2029, VT, FF, FS, GS, RS,
   which are ordinary characters of the text class.  Under that model: the lines the reader sees are exactly
   the lines that were written, whatever other code points they hold, and a written tag line never holds
   an LF (so it is one line).  The assumption itself is tied to the code by the harness clause
   lines-split-only-at-LF (the lines the real reader delivers for every saved MediaWiki text = its
   LF-separated lines) and by the correspondence kind 'lines'; it is tested, not proved. *)
Theorem C05_wiki_lines_split_only_at_lf : forall (l : str) (ls : list str),
  Forall (fun x => memb ch_nl x = false) (l :: ls) ->
  open_file_lines (join [ch_nl] (l :: ls)) = l :: ls.
Proof. exact open_file_lines_join. Qed.
Print Assumptions C05_wiki_lines_split_only_at_lf.

Theorem C05_written_line_has_no_lf : forall disallowed lvl n a d line,
  name_ok n = true -> desc_text_ok d = true ->
  wiki_text_ok (format_tag_attributes disallowed a) = true ->
  write_tag_line disallowed n (S lvl) a d = Some line ->
  memb ch_nl line = false.
Proof. exact written_line_lf_free. Qed.
Print Assumptions C05_written_line_has_no_lf.

(* Names.  name_ok asks for no outer white space.  The name class of the compliance check admits every
   non-ASCII character, also blanks (U+00A0, U+2028, U+0085 ...): a name ENDING in one is kept by the XML and
   TSV readers BEFORE fix commit 4b4f5c6 (xml_read_name false) but cannot be expressed in a MediaWiki line --
   the repaired finding C05-F5; the _refuted statement below is its record.  In the current code
   (xml_read_name true) the hypothesis is an invariant of loaded schemas (C05_xml_name_normal_after_fix). *)
Theorem C05_xml_name_not_normal_refuted : exists text, no_outer_ws (xml_read_name false text) = false.
Proof. exact xml_name_not_normal_before. Qed.
Print Assumptions C05_xml_name_not_normal_refuted.

Theorem C05_xml_name_normal_after_fix : forall text, no_outer_ws (xml_read_name true text) = true.
Proof. exact xml_name_normal. Qed.
Print Assumptions C05_xml_name_normal_after_fix.

(* the same line round trip for both versions of the reader (mode false = before 4719ff8 / 784517a), with the description class as an explicit
   hypothesis (desc_ok adds: non-empty, no outer blanks) and the version's own reserved-word test *)
Theorem C05_wiki_line_roundtrip_both :
  forall (fixed : bool) (disallowed : str -> bool) (lvl : nat) (n : str) (a : attrs) (d : option str) (line : str),
  name_ok n = true -> desc_ok d = true ->
  attr_ok a = true -> wiki_text_ok (format_tag_attributes disallowed a) = true ->
  write_tag_line disallowed n (S lvl) a d = Some line ->
  row_free_of_reserved fixed n line = true ->
  read_tag_line fixed line
  = Ok (Some (mkParsed false (S lvl) n (filter (fun kv => negb (disallowed (fst kv))) a) d)).
Proof. exact wiki_line_roundtrip. Qed.
Print Assumptions C05_wiki_line_roundtrip_both.

(* RECORD OF THE REPAIRED DEFECTS (fixed = false, the reader before fix commits 4719ff8 (F1) and 784517a (F3)): over the text class
   that schema compliance allows in descriptions the round trip was FALSE -- a description with an outer
   blank came back stripped while the XML reader kept it (C05-F1), and 'extend here' in a description
   made the load fail (C05-F3, C05_desc_extend_here_refused below). *)
Theorem C05_wiki_line_roundtrip_schema_class_refuted :
  exists d, schema_text_ok d = true /\ d <> [] /\
            read_tag_line false (line_of d) <> Ok (Some (mkParsed false 1 n_zork [] (Some d))).
Proof. exact wiki_line_roundtrip_schema_class_refuted. Qed.
Print Assumptions C05_wiki_line_roundtrip_schema_class_refuted.

Theorem C05_xml_desc_not_normal_before_refuted :
  exists text d, xml_read_desc false text = Some d /\ no_outer_ws d = false.
Proof. exact xml_desc_not_normal_before. Qed.
Print Assumptions C05_xml_desc_not_normal_before_refuted.

(* C05-F4, repaired by 8fb8446: a unit class row written without its properties (a standard unit class that holds
   library units, unmerged save) is read back as a bare name and, once tagged with the library, is exactly
   the placeholder HedSchemaUnitClassSection._check_if_duplicate accepts -- for every content of the entry *)
Theorem C05_tsv_stub_row_both : forall (fixed5 strip_lib : bool) (n : str) (a : attrs) (d : option str) (library : str),
  (if fixed5 then no_outer_ws n else true) = true ->
  endswith s_dash_hash n = false ->
  exists a',
    tsv_read_row fixed5 (tsv_write_entry_row true strip_lib false n a d) = Ok (n, a', None)
    /\ unit_class_stub (tag_with_library library a') = true.
Proof. exact tsv_stub_row_fixed. Qed.
Print Assumptions C05_tsv_stub_row_both.

Theorem C05_tsv_stub_row : forall (strip_lib : bool) (n : str) (a : attrs) (d : option str) (library : str),
  no_outer_ws n = true -> endswith s_dash_hash n = false ->
  exists a',
    tsv_read_row true (tsv_write_entry_row true strip_lib false n a d) = Ok (n, a', None)
    /\ unit_class_stub (tag_with_library library a') = true.
Proof. exact cur_tsv_stub_row. Qed.
Print Assumptions C05_tsv_stub_row.

(* record of the repaired defect (behaviour before 8fb8446): the writer that ignored include_props *)
Theorem C05_tsv_stub_row_unfixed_refuted :
  exists n a library,
    attr_ok a = true /\ endswith s_dash_hash n = false /\
    exists a', tsv_read_row false (tsv_write_entry_row false true false n a None) = Ok (n, a', None)
               /\ unit_class_stub (tag_with_library library a') = false.
Proof. exact tsv_stub_row_unfixed_refuted. Qed.
Print Assumptions C05_tsv_stub_row_unfixed_refuted.

(* tsv_row_roundtrip: a row of the TSV tag table (name, attributes, description columns; the entry has
   no hedId, which travels in its own column) is read back as the same name, the attributes the TSV
   writer keeps (never hedId/annotationProperty, inLibrary unless merging) and the description.
   The cell layer (pandas to_csv/read_csv quoting) is outside the model: the repaired finding C05-F2 (394565c)
   lived there. *)
Theorem C05_tsv_row_roundtrip_both : forall (fixed5 strip_lib : bool) (n : str) (a : attrs) (d : option str),
  (if fixed5 then no_outer_ws n else true) = true ->      (* since 4b4f5c6 the reader strips the name cell *)
  attr_ok a = true -> dict_get s_hedId a = None -> tsv_desc_ok d = true ->
  memb ch_slash n = false -> endswith [ch_slash; ch_hash] n = false ->
  endswith [ch_hash] n = false -> endswith s_dash_hash n = false ->
  tsv_read_row fixed5 (tsv_write_tag_row strip_lib n a d)
  = Ok (n, filter (fun kv => negb (attribute_disallowed_df strip_lib (fst kv))) a, d).
Proof. exact tsv_row_roundtrip. Qed.
Print Assumptions C05_tsv_row_roundtrip_both.

(* current mode (the TSV reader strips the name cell since 4b4f5c6) *)
Theorem C05_tsv_row_roundtrip : forall (strip_lib : bool) (n : str) (a : attrs) (d : option str),
  no_outer_ws n = true ->
  attr_ok a = true -> dict_get s_hedId a = None -> tsv_desc_ok d = true ->
  memb ch_slash n = false -> endswith [ch_slash; ch_hash] n = false ->
  endswith [ch_hash] n = false -> endswith s_dash_hash n = false ->
  tsv_read_row true (tsv_write_tag_row strip_lib n a d)
  = Ok (n, filter (fun kv => negb (attribute_disallowed_df strip_lib (fst kv))) a, d).
Proof. exact cur_tsv_row_roundtrip. Qed.
Print Assumptions C05_tsv_row_roundtrip.

(* A TSV save is a TOTAL OVERWRITE of the section files of its location: Schema2DF always hands the full
   fixed set of ten tables to save_dataframes, which writes one file per table whatever the table holds, so
   loading after a save gives exactly what was saved -- for every earlier content of the location (a file
   left by an earlier save of another schema cannot leak into the reload).  SCOPE (audit): a location is modelled as a
   map from the ten suffixes, so this is get-after-set over a fixed key list -- its content is that the key list does
   not depend on the tables; file NAMING and paths, where a leak could also arise, are not modelled and are covered
   only by the harness clauses tsv-file-set / save-overwrites-location.  Tied to the code by checking the
   list of files every save writes (harness clause tsv-file-set) and by save/save/load histories. *)
Theorem C05_tsv_save_total_overwrite : forall (rows_of : str -> list row) (loc : location),
  load_dataframes (save_dataframes false (output_tables rows_of) loc) = output_tables rows_of.
Proof. exact save_total_overwrite. Qed.
Print Assumptions C05_tsv_save_total_overwrite.

Theorem C05_tsv_files_written_full : forall rows_of : str -> list row,
  files_written false (output_tables rows_of) = df_suffixes.
Proof. exact files_written_full. Qed.
Print Assumptions C05_tsv_files_written_full.

(* TSV CELLS.  to_csv / read_csv are modelled at the level of one cell with the two parameters that decide what
   happens to a cell without a value (na_rep) and to special texts (na_values).  The code uses NO marker (na_rep = '',
   na_filter=False): every non-empty text comes back as itself -- 'n/a', 'NA', 'nan', 'None', 'null', '#N/A', '<NA>',
   'true', '1.0' included -- and an absent value comes back absent.  The pandas machinery itself is not modelled:
   the tie is the harness check tsv-cell-texts (the real save_dataframes / load_dataframes on a table of such texts). *)
Theorem C05_tsv_cell_roundtrip : forall c : option str,
  c <> Some [] -> cell_value (csv_read_cell [] (csv_write_cell [] c)) = c.
Proof. exact cell_roundtrip. Qed.
Print Assumptions C05_tsv_cell_roundtrip.

(* not the code: with any marker for the empty cell the text that equals the marker is lost *)
Theorem C05_tsv_cell_marker_variant_refuted :
  exists marker c, c <> Some [] /\ cell_value (csv_read_cell [marker] (csv_write_cell marker c)) <> c.
Proof. exact cell_marker_variant_loses_text. Qed.
Print Assumptions C05_tsv_cell_marker_variant_refuted.

(* TSV SAVE LOCATIONS.  The ten file names the writer (save_dataframes) and the reader (convert_filenames_to_dict)
   derive from a location: they agree for every FOLDER name whatever dots it holds (HED8.3.0, a.b.c, trailing dot) and
   for a name ending in .tsv; tied by the correspondence kind 'tsvloc' and the location names of the end-to-end runs.
   The current reader (fixed8 = true, since fix commit b5f4533) ignores the letter case of the suffix as the writer
   always did, so they agree on EVERY location; before that commit (fixed8 = false) a name ending in .TSV / .Tsv was
   a file base for the writer and a folder for the reader -- the repaired finding C05-F8, kept below as a record. *)
Theorem C05_tsv_location_files_agree : forall (parent : list str) (name : str),
  reader_files true parent name = writer_files parent name.
Proof. exact location_files_agree_fixed. Qed.
Print Assumptions C05_tsv_location_files_agree.

(* every folder name, whatever dots it holds, names <parent>/<name>/<name>_<Suffix>.tsv for the reader and the writer *)
Theorem C05_tsv_folder_files_agree : forall (parent : list str) (name : str),
  is_dot_tsv_ci name = false ->
  reader_files true parent name = map (tsv_file (parent ++ [name]) name) df_suffixes
  /\ writer_files parent name = map (tsv_file (parent ++ [name]) name) df_suffixes.
Proof. exact folder_files_current. Qed.
Print Assumptions C05_tsv_folder_files_agree.

(* RECORDS (behaviour before fix commit b5f4533, fixed8 = false; not about the current code): the reader that compared
   the suffix exactly agreed with the writer only when the name had no capital-letter .tsv suffix, and disagreed on x.TSV *)
Theorem C05_tsv_location_files_agree_before_b5f4533 : forall (parent : list str) (name : str),
  is_dot_tsv_ci name = is_dot_tsv_cs name -> reader_files false parent name = writer_files parent name.
Proof. exact location_files_agree. Qed.
Print Assumptions C05_tsv_location_files_agree_before_b5f4533.

Theorem C05_tsv_folder_files_agree_before_b5f4533 : forall (parent : list str) (name : str),
  is_dot_tsv_ci name = false -> reader_files false parent name = writer_files parent name.
Proof. exact folder_files_agree. Qed.
Print Assumptions C05_tsv_folder_files_agree_before_b5f4533.

Theorem C05_tsv_location_upper_suffix_refuted :
  exists parent name, reader_files false parent name <> writer_files parent name.
Proof. exact location_upper_suffix_disagrees. Qed.
Print Assumptions C05_tsv_location_upper_suffix_refuted.

(* not the code: a save that leaves out the file of an empty table is not an overwrite (the reason the
   full file set matters; a change of save_dataframes in this direction is caught by the harness) *)
Theorem C05_tsv_skip_empty_variant_refuted :
  exists rows_of loc,
    load_dataframes (save_dataframes true (output_tables rows_of) loc) <> output_tables rows_of.
Proof. exact skip_empty_keeps_old_files. Qed.
Print Assumptions C05_tsv_skip_empty_variant_refuted.

(* traversal: an unmerged save of a partnered library writes exactly the entries that carry
   inLibrary, in order, and nothing else *)
Theorem C05_unmerged_only_library : forall (ws : str) (tags : list tag_entry),
  nonempty ws = true ->
  map w_entry (output_tags (compute_flags ws false) tags) = filter te_inlib tags.
Proof. exact unmerged_only_library. Qed.
Print Assumptions C05_unmerged_only_library.

(* traversal: a merged save, and any save of a schema without a partner, writes every entry
   exactly once, in order *)
Theorem C05_merged_emits_all_once : forall (ws : str) (m : bool) (tags : list tag_entry),
  nonempty ws = false \/ m = true ->
  map w_entry (output_tags (compute_flags ws m) tags) = tags.
Proof. exact merged_emits_all_once. Qed.
Print Assumptions C05_merged_emits_all_once.

(* attribute inLibrary is kept verbatim in a merged save of a partnered library and stripped (and
   only it) in every other save *)
Theorem C05_inlibrary_stripped_or_kept : forall ws m tags w,
  In w (output_tags (compute_flags ws m) tags) ->
  (nonempty ws = true /\ m = true -> w_attrs w = te_attrs (w_entry w)) /\
  (nonempty ws = false \/ m = false ->
     ~ In a_inLibrary (w_attrs w) /\
     forall a, a <> a_inLibrary -> In a (te_attrs (w_entry w)) -> In a (w_attrs w)).
Proof. exact inlibrary_stripped_or_kept. Qed.
Print Assumptions C05_inlibrary_stripped_or_kept.

(* in a merged save the level handed to the writers is the depth of the tag (no rooted adjustment) *)
Theorem C05_merged_levels : forall ws m tags w,
  nonempty ws = false \/ m = true ->
  In w (output_tags (compute_flags ws m) tags) ->
  w_level w = Z.of_nat (length (te_name (w_entry w)) - 1).
Proof. exact merged_levels. Qed.
Print Assumptions C05_merged_levels.

(* THE TREE.  The MediaWiki reader rebuilds the long name of every tag from the order and level of the lines
   (rebuild_names <- SchemaLoaderWiki._read_schema).  If a merged save lists the tags parents-first -- every tag
   directly behind its parent or a node of its parent's subtree -- every long name comes back intact; the levels
   are the depths (C05_merged_levels) and the order is that of the entry list (C05_merged_emits_all_once).
   Whether the entry list IS parents-first is a property of HedSchemaTagSection._finalize_section, not modelled --
   TESTED ONLY, for schemas loaded from files and for schemas edited in memory (nodes added to the loaded object below
   the first / a middle / the last subtree of every top-level tree): harness clause wiki-independent-listing reads the
   saved MediaWiki text with an independent line reader and requires every tag under its own parent:
   it is tested end-to-end, and it was FALSE of the code before fix commit f2636f2 for a library node rooted in a top-level tree
   that does not allow extensions (the repaired finding C05-F7; the _refuted statement below records its shape, it is not about the current code). *)
Theorem C05_wiki_names_rebuilt : forall names : list tname,
  parents_first [] names -> rebuild_names [] (map wiki_tag_line names) = Ok names.
Proof. exact wiki_names_rebuilt. Qed.
Print Assumptions C05_wiki_names_rebuilt.

Theorem C05_wiki_names_wrong_parent_refuted :
  exists names, rebuild_names [] (map wiki_tag_line names) <> Ok names
                /\ exists wrong, rebuild_names [] (map wiki_tag_line names) = Ok wrong.
Proof. exact wiki_names_wrong_parent. Qed.
Print Assumptions C05_wiki_names_wrong_parent_refuted.

(* AUDIT NOTE: C05_multi_library_refuses and C05_single_library_saves are the first line of process_schema unfolded
   (can_save = no comma in the library attribute); they carry no content beyond the transcription and are kept as
   the interface lemma.  C05_merged_libraries_refuse below adds only that merge_library (Model/Traversal.v: old ++ ',' ::
   new) always yields a comma: it holds BY CONSTRUCTION OF THE MODEL.  What carries the clause is the tie to the real
   loader -- which header the loader produces for each way of building a multi-library schema, and that every save entry
   point then refuses -- and that tie is TESTED by the harness only (clause multi-library-refuses, kind mergelib). *)
(* A schema merged from several libraries refuses to save, in every mode and whatever it holds;
   a single library never refuses. *)
Theorem C05_multi_library_refuses : forall library ws m tags ucs secs,
  memb ch_comma library = true ->
  process_schema library ws m tags ucs secs = Exn HedFileError.
Proof. exact multi_library_refuses. Qed.
Print Assumptions C05_multi_library_refuses.

(* ... and, in the MODEL, every way of building a schema from two or more library files yields such a comma (this is
   merge_library unfolded; that the real loader behaves like merge_library is tested, not proved): the loader
   appends ',' + name for each further file, also when the files belong to the same library (testlib_2.0.0 +
   testlib_3.0.0), so the refusal holds for all names, any number of files, every mode and content.  Tied to
   the code by the harness clause multi-library-refuses over all bundled legal merges and construction paths. *)
Theorem C05_merged_libraries_refuse : forall first m more ws mode tags ucs secs,
  process_schema (merged_library false first (m :: more)) ws mode tags ucs secs = Exn HedFileError.
Proof. exact merged_libraries_refuse. Qed.
Print Assumptions C05_merged_libraries_refuse.

(* not the code: a header that does not repeat a library name would let two files of one library save *)
Theorem C05_merged_dedupe_variant_refuted :
  exists l ws mode tags ucs secs,
    is_ok (process_schema (merged_library true l [l]) ws mode tags ucs secs) = true.
Proof. exact merged_dedupe_saves. Qed.
Print Assumptions C05_merged_dedupe_variant_refuted.

Theorem C05_single_library_saves : forall library ws m tags ucs secs,
  memb ch_comma library = false ->
  exists o, process_schema library ws m tags ucs secs = Ok o.
Proof. exact single_library_saves. Qed.
Print Assumptions C05_single_library_saves.

(* ---- non-vacuity: a real line of HED8.3.0 meets every hypothesis and round-trips ---- *)
Example C05_nonvacuous_wiki :
  name_ok ex_name = true /\ desc_ok (Some ex_desc) = true /\ attr_ok ex_attrs = true
  /\ wiki_text_ok (format_tag_attributes no_dis ex_attrs) = true
  /\ write_tag_line no_dis ex_name 1 ex_attrs (Some ex_desc) = Some ex_line
  /\ row_free_of_reserved false ex_name ex_line = true /\ row_free_of_reserved true ex_name ex_line = true.
Proof. exact ex_hyps. Qed.

(* ALL FOUR premises of the section theorem hold on a real subtree of HED8.3.0 (Event, Sensory-event with its attributes
   and description, two further nodes) and the conclusion is the identity there *)
Example C05_nonvacuous_section :
  exists lines,
    write_tag_section no_dis sec_items = map Some lines /\
    Forall (fun e => name_ok (last (ti_path e) []) = true /\ desc_ok (ti_desc e) = true /\ attr_ok (ti_attrs e) = true
                     /\ wiki_text_ok (format_tag_attributes no_dis (ti_attrs e)) = true) sec_items /\
    Forall2 (fun e line => row_free_of_reserved true (last (ti_path e) []) line = true) sec_items lines /\
    paths_parents_first [] (map ti_path sec_items) /\
    read_tag_section true [] lines = Ok sec_items.
Proof. exact ex_section. Qed.

Example C05_nonvacuous_attr :
  format_tag_attributes no_dis ex_attrs = ex_attr_string
  /\ parse_attribute_string ex_attr_string = Ok ex_attrs.
Proof. exact ex_attr. Qed.

Example C05_nonvacuous_traversal :
  map (fun w => (te_name (w_entry w), w_level w, w_parent w, w_attrs w))
      (output_tags (compute_flags ws83 false) ex_tags)
  = [([1; 2; 3], 0%Z, None, [7]); ([1; 2; 3; 4], 1%Z, Some [1; 2; 3], [])].
Proof. exact ex_unmerged. Qed.

(* ---- the boundary of the attribute grammar (what happens just outside attr_ok) ---- *)
Example C05_attr_eq_truncates :
  parse_attribute_string s_abc = Ok [(k_a, AStr v_b)] /\
  parse_attribute_string (format_tag_attributes no_dis [(k_a, AStr v_beqc)]) = Ok [(k_a, AStr v_b)].
Proof. exact attr_eq_truncates. Qed.

Example C05_attr_trailing_blank_lost :
  parse_attribute_string (format_tag_attributes no_dis [(k_a, AStr v_sp_b)]) = Ok [(k_a, AStr v_b)].
Proof. exact attr_outer_blank_stripped. Qed.

Example C05_attr_empty_piece_rejected :
  parse_attribute_string (format_tag_attributes no_dis [(k_a, AStr v_xey)]) = Exn ValueError.
Proof. exact attr_empty_piece_rejected. Qed.

Example C05_attr_bool_then_value_raises : parse_attribute_string s_a_ab = Exn TypeError.
Proof. exact attr_bool_then_value_raises. Qed.

(* records for the reader before 784517a / 4719ff8 (fixed = false) and the same witnesses on the current one *)
Example C05_desc_extend_here_refused :
  schema_text_ok d_extend = true /\ read_tag_line false (line_of d_extend) = Exn HedFileError.
Proof. exact desc_extend_here_refused. Qed.

Example C05_desc_extend_here_after_fix :
  read_tag_line true (line_of d_extend) = Ok (Some (mkParsed false 1 n_zork [] (Some d_extend))).
Proof. exact desc_extend_here_after_fix. Qed.

Example C05_desc_outer_blank_after_fix :
  xml_read_desc true d_lead = Some d_lead_stripped /\
  read_tag_line true (match write_tag_line no_dis n_zork 1 [] (xml_read_desc true d_lead) with Some l => l | None => [] end)
  = Ok (Some (mkParsed false 1 n_zork [] (xml_read_desc true d_lead))).
Proof. exact desc_outer_blank_after_fix. Qed.

(* still true of the CURRENT reader: the open rest of C05-F3 *)
Example C05_desc_nowiki_still_removed :
  schema_text_ok d_nowiki = true /\
  read_tag_line true (line_of d_nowiki) = Ok (Some (mkParsed false 1 n_zork [] (Some d_nowiki_gone))).
Proof. exact desc_nowiki_still_removed. Qed.
