(* C05 -- Schemas survive saving and reloading in every format.
   Property theorems only; each closed with [exact] and followed by Print Assumptions.

   What is proved here (for ALL inputs in the stated classes) is the logical core: the
   attribute-string grammar shared by MediaWiki and TSV, one MediaWiki tag line (writer and
   reader, including the nowiki wrapper and the tag-name expression), and the traversal that
   selects entries/attributes per save mode, plus the multi-library refusal.  XML lexing,
   pandas CSV I/O, the loaders' parent tracking / partnered merge and whole-file equality are
   outside the model and are exercised end-to-end on the implementation only (harness/c05*.py). *)
From Coq Require Import List NArith ZArith Bool.
From HV Require Import Base.Res Base.Str Base.StrOps Model.AttrCodec Model.WikiCodec Model.Traversal
     Model.TsvCodec Model.TsvFiles Proofs.TsvFilesProofs Proofs.AttrCodecProofs Proofs.WikiCodecProofs Proofs.TsvCodecProofs
     Proofs.TraversalProofs Proofs.C05Examples.
Import ListNotations.

(* attr_roundtrip, exact form: for every writer mode (which attributes it suppresses), parsing the
   formatted attribute string gives back exactly the attributes that were written, in order.
   attr_ok = keys unique, keys non-empty ASCII letters, every comma-separated value piece non-empty,
   free of ',' '=' LF and of outer blanks. *)
Theorem C05_attr_roundtrip_exact : forall (disallowed : str -> bool) (a : attrs),
  attr_ok a = true ->
  parse_attribute_string (format_tag_attributes disallowed a)
  = Ok (filter (fun kv => negb (disallowed (fst kv))) a).
Proof. exact attr_roundtrip_exact. Qed.
Print Assumptions C05_attr_roundtrip_exact.

(* attr_roundtrip as the design states it: equal up to the schema's own order-insensitive
   comparison HedSchemaEntry._compare_attributes_no_order *)
Theorem C05_attr_roundtrip : forall a : attrs,
  attr_ok a = true ->
  exists b, parse_attribute_string (format_tag_attributes (fun _ => false) a) = Ok b
            /\ compare_attributes_no_order b a = true.
Proof. exact attr_roundtrip. Qed.
Print Assumptions C05_attr_roundtrip.

(* wiki_line_roundtrip for the code AS IT NOW IS (repairs of C05-F1 and C05-F3: fixed = true).
   A tag written at any level >= 1 by _write_tag_entry/_format_props_and_desc/_flush_current_tag is read
   back (strip, nowiki removal, level, tag-name expression, {..} and [..] sections, attribute grammar)
   as the same level, name, attributes and description, for EVERY description the XML reader can
   deliver: [xml_read_desc true text] for an arbitrary element text.  Compared with the statement for
   the unrepaired code below, two hypotheses are gone because the repairs make them unnecessary:
     - no outer blanks / non-empty description: now an invariant of loaded schemas (C05_xml_desc_normal);
     - 'extend here' absent from the row: now only the NAME must not contain the words.
   What remains are true limits of the MediaWiki format, not of this proof:
     - name_ok: non-empty, no outer blanks, none of [ ] { } LF < ' /, not ending in # (the '#' layout is
       covered by the correspondence run only);
     - desc_text_ok: none of [ ] { } LF (outside the schema text class anyway) and no '<' followed by
       'n' or '/': the reader deletes every <nowiki> / </nowiki> it finds, also inside a description
       (C05_desc_nowiki_still_removed; the rest of finding C05-F3, not repaired, see the report);
     - the zero-width-space entity is absent from the row (the reader deletes it before locating the
       name; a limit of the proof only -- the correspondence run covers rows that contain it). *)
Theorem C05_wiki_line_roundtrip :
  forall (disallowed : str -> bool) (lvl : nat) (n : str) (a : attrs) (text line : str),
  name_ok n = true -> desc_text_ok (xml_read_desc true text) = true ->
  attr_ok a = true -> wiki_text_ok (format_tag_attributes disallowed a) = true ->
  contains s_extend_here n = false ->
  write_tag_line disallowed n (S lvl) a (xml_read_desc true text) = Some line ->
  contains s_zw (remove_nowiki line) = false ->
  read_tag_line true line
  = Ok (Some (mkParsed false (S lvl) n (filter (fun kv => negb (disallowed (fst kv))) a)
                       (xml_read_desc true text))).
Proof. exact wiki_line_roundtrip_loaded. Qed.
Print Assumptions C05_wiki_line_roundtrip.

(* the invariant the repaired XML reader establishes (it agrees with the strip of the MediaWiki and TSV
   readers, so the three formats deliver the same description) *)
Theorem C05_xml_desc_normal : forall text d,
  xml_read_desc true text = Some d -> nonempty d = true /\ no_outer_ws d = true.
Proof. exact xml_desc_normal. Qed.
Print Assumptions C05_xml_desc_normal.

(* NON-TAG ENTRIES.  A line of the unit class / unit / unit modifier / value class / attribute / property
   sections (Schema2Wiki._write_entry, depth 1 or 2 for units) round-trips for every name that is ONE OPAQUE
   TERM: ename_ok asks only for non-empty, no outer blanks, none of [ ] { } LF < ' -- a slash ('m/s', 'km/h'),
   '$', '^', inner blanks or a final '#', admitted e.g. through the entry's own allowedCharacter attribute, are
   ordinary characters of the name.  Both versions of the reader. *)
Theorem C05_wiki_entry_line_roundtrip :
  forall (fixed : bool) (disallowed : str -> bool) (lvl : nat) (n : str) (a : attrs) (d : option str) (line : str),
  ename_ok n = true -> desc_ok d = true ->
  attr_ok a = true -> wiki_text_ok (format_tag_attributes disallowed a) = true ->
  write_entry_line disallowed n (S lvl) true a d = Some line ->
  row_free_of_reserved fixed n line = true ->
  read_entry_line fixed line
  = Ok (Some (mkParsed false (S lvl) n (filter (fun kv => negb (disallowed (fst kv))) a) d)).
Proof. exact wiki_entry_line_roundtrip. Qed.
Print Assumptions C05_wiki_entry_line_roundtrip.

(* The XML writer is modelled at the level of the name element only: for a non-tag entry its text is the whole
   name (tied to Schema2XML._write_entry/_write_tag_entry by the correspondence kind 'xmlname' and by the
   independent ElementTree listing).  Writing 'the last term' for every entry is not the same thing. *)
Theorem C05_xml_name_text_entry : forall name : str, xml_name_text false name = name.
Proof. exact xml_name_text_entry. Qed.
Print Assumptions C05_xml_name_text_entry.

Theorem C05_xml_name_last_term_variant_refuted :
  exists name, ename_ok name = true /\ last_component name <> name.
Proof. exact xml_name_text_last_term_refuted. Qed.
Print Assumptions C05_xml_name_last_term_variant_refuted.

(* LINE SPLITTING.  All per-line statements model the reader's line splitting (SchemaLoaderWiki._open_file:
   readlines() / split(LF)) as splitting at U+000A only -- NOT at U+0085, U+2028, U+2029, VT, FF, FS, GS, RS,
   which are ordinary characters of the text class.  Under that model: the lines the reader sees are exactly
   the lines that were written, whatever other code points they hold, and a written tag line never holds
   an LF (so it is one line).  The assumption itself is tied to the code by the harness clause
   lines-split-only-at-LF (the lines the real reader delivers for every saved MediaWiki text = its
   LF-separated lines) and by the correspondence kind 'lines'; it is tested, not proved. *)
Theorem C05_wiki_lines_split_only_at_lf : forall (l : str) (ls : list str),
  Forall (fun x => memb ch_nl x = false) (l :: ls) ->
  open_file_lines (join [ch_nl] (l :: ls)) = l :: ls.
Proof. exact open_file_lines_join. Qed.
Print Assumptions C05_wiki_lines_split_only_at_lf.

Theorem C05_written_line_has_no_lf : forall disallowed lvl n a d line,
  name_ok n = true -> desc_text_ok d = true ->
  wiki_text_ok (format_tag_attributes disallowed a) = true ->
  write_tag_line disallowed n (S lvl) a d = Some line ->
  memb ch_nl line = false.
Proof. exact written_line_lf_free. Qed.
Print Assumptions C05_written_line_has_no_lf.

(* Names.  name_ok asks for no outer white space.  The name class of the compliance check admits every
   non-ASCII character, also blanks (U+00A0, U+2028, U+0085 ...): a name ENDING in one is kept by the XML and
   TSV readers of the current code (xml_read_name false) but cannot be expressed in a MediaWiki line --
   finding C05-F5, refuted statement below.  With fix-F5 (xml_read_name true) the hypothesis is an invariant
   of loaded schemas. *)
Theorem C05_xml_name_not_normal_refuted : exists text, no_outer_ws (xml_read_name false text) = false.
Proof. exact xml_name_not_normal_before. Qed.
Print Assumptions C05_xml_name_not_normal_refuted.

Theorem C05_xml_name_normal_after_fix : forall text, no_outer_ws (xml_read_name true text) = true.
Proof. exact xml_name_normal. Qed.
Print Assumptions C05_xml_name_normal_after_fix.

(* the same line round trip for both versions of the reader, with the description class as an explicit
   hypothesis (desc_ok adds: non-empty, no outer blanks) and the version's own reserved-word test *)
Theorem C05_wiki_line_roundtrip_both :
  forall (fixed : bool) (disallowed : str -> bool) (lvl : nat) (n : str) (a : attrs) (d : option str) (line : str),
  name_ok n = true -> desc_ok d = true ->
  attr_ok a = true -> wiki_text_ok (format_tag_attributes disallowed a) = true ->
  write_tag_line disallowed n (S lvl) a d = Some line ->
  row_free_of_reserved fixed n line = true ->
  read_tag_line fixed line
  = Ok (Some (mkParsed false (S lvl) n (filter (fun kv => negb (disallowed (fst kv))) a) d)).
Proof. exact wiki_line_roundtrip. Qed.
Print Assumptions C05_wiki_line_roundtrip_both.

(* RECORD OF THE REPAIRED DEFECTS (fixed = false, the reader before fix-F1/fix-F3): over the text class
   that schema compliance allows in descriptions the round trip was FALSE -- a description with an outer
   blank came back stripped while the XML reader kept it (C05-F1), and 'extend here' in a description
   made the load fail (C05-F3, C05_desc_extend_here_refused below). *)
Theorem C05_wiki_line_roundtrip_schema_class_refuted :
  exists d, schema_text_ok d = true /\ d <> [] /\
            read_tag_line false (line_of d) <> Ok (Some (mkParsed false 1 n_zork [] (Some d))).
Proof. exact wiki_line_roundtrip_schema_class_refuted. Qed.
Print Assumptions C05_wiki_line_roundtrip_schema_class_refuted.

Theorem C05_xml_desc_not_normal_before_refuted :
  exists text d, xml_read_desc false text = Some d /\ no_outer_ws d = false.
Proof. exact xml_desc_not_normal_before. Qed.
Print Assumptions C05_xml_desc_not_normal_before_refuted.

(* C05-F4, repaired: a unit class row written without its properties (a standard unit class that holds
   library units, unmerged save) is read back as a bare name and, once tagged with the library, is exactly
   the placeholder HedSchemaUnitClassSection._check_if_duplicate accepts -- for every content of the entry *)
Theorem C05_tsv_stub_row : forall (fixed5 strip_lib : bool) (n : str) (a : attrs) (d : option str) (library : str),
  (if fixed5 then no_outer_ws n else true) = true ->
  endswith s_dash_hash n = false ->
  exists a',
    tsv_read_row fixed5 (tsv_write_entry_row true strip_lib false n a d) = Ok (n, a', None)
    /\ unit_class_stub (tag_with_library library a') = true.
Proof. exact tsv_stub_row_fixed. Qed.
Print Assumptions C05_tsv_stub_row.

(* record of the repaired defect: the writer that ignored include_props *)
Theorem C05_tsv_stub_row_unfixed_refuted :
  exists n a library,
    attr_ok a = true /\ endswith s_dash_hash n = false /\
    exists a', tsv_read_row false (tsv_write_entry_row false true false n a None) = Ok (n, a', None)
               /\ unit_class_stub (tag_with_library library a') = false.
Proof. exact tsv_stub_row_unfixed_refuted. Qed.
Print Assumptions C05_tsv_stub_row_unfixed_refuted.

(* tsv_row_roundtrip: a row of the TSV tag table (name, attributes, description columns; the entry has
   no hedId, which travels in its own column) is read back as the same name, the attributes the TSV
   writer keeps (never hedId/annotationProperty, inLibrary unless merging) and the description.
   The cell layer (pandas to_csv/read_csv quoting) is outside the model: finding C05-F2 lives there. *)
Theorem C05_tsv_row_roundtrip : forall (fixed5 strip_lib : bool) (n : str) (a : attrs) (d : option str),
  (if fixed5 then no_outer_ws n else true) = true ->      (* with fix-F5 the reader strips the name cell *)
  attr_ok a = true -> dict_get s_hedId a = None -> tsv_desc_ok d = true ->
  memb ch_slash n = false -> endswith [ch_slash; ch_hash] n = false ->
  endswith [ch_hash] n = false -> endswith s_dash_hash n = false ->
  tsv_read_row fixed5 (tsv_write_tag_row strip_lib n a d)
  = Ok (n, filter (fun kv => negb (attribute_disallowed_df strip_lib (fst kv))) a, d).
Proof. exact tsv_row_roundtrip. Qed.
Print Assumptions C05_tsv_row_roundtrip.

(* A TSV save is a TOTAL OVERWRITE of the section files of its location: Schema2DF always hands the full
   fixed set of ten tables to save_dataframes, which writes one file per table whatever the table holds, so
   loading after a save gives exactly what was saved -- for every earlier content of the location (a file
   left by an earlier save of another schema cannot leak into the reload).  Tied to the code by checking the
   list of files every save writes (harness clause tsv-file-set) and by save/save/load histories. *)
Theorem C05_tsv_save_total_overwrite : forall (rows_of : str -> list row) (loc : location),
  load_dataframes (save_dataframes false (output_tables rows_of) loc) = output_tables rows_of.
Proof. exact save_total_overwrite. Qed.
Print Assumptions C05_tsv_save_total_overwrite.

Theorem C05_tsv_files_written_full : forall rows_of : str -> list row,
  files_written false (output_tables rows_of) = df_suffixes.
Proof. exact files_written_full. Qed.
Print Assumptions C05_tsv_files_written_full.

(* not the code: a save that leaves out the file of an empty table is not an overwrite (the reason the
   full file set matters; a change of save_dataframes in this direction is caught by the harness) *)
Theorem C05_tsv_skip_empty_variant_refuted :
  exists rows_of loc,
    load_dataframes (save_dataframes true (output_tables rows_of) loc) <> output_tables rows_of.
Proof. exact skip_empty_keeps_old_files. Qed.
Print Assumptions C05_tsv_skip_empty_variant_refuted.

(* traversal: an unmerged save of a partnered library writes exactly the entries that carry
   inLibrary, in order, and nothing else *)
Theorem C05_unmerged_only_library : forall (ws : str) (tags : list tag_entry),
  nonempty ws = true ->
  map w_entry (output_tags (compute_flags ws false) tags) = filter te_inlib tags.
Proof. exact unmerged_only_library. Qed.
Print Assumptions C05_unmerged_only_library.

(* traversal: a merged save, and any save of a schema without a partner, writes every entry
   exactly once, in order *)
Theorem C05_merged_emits_all_once : forall (ws : str) (m : bool) (tags : list tag_entry),
  nonempty ws = false \/ m = true ->
  map w_entry (output_tags (compute_flags ws m) tags) = tags.
Proof. exact merged_emits_all_once. Qed.
Print Assumptions C05_merged_emits_all_once.

(* attribute inLibrary is kept verbatim in a merged save of a partnered library and stripped (and
   only it) in every other save *)
Theorem C05_inlibrary_stripped_or_kept : forall ws m tags w,
  In w (output_tags (compute_flags ws m) tags) ->
  (nonempty ws = true /\ m = true -> w_attrs w = te_attrs (w_entry w)) /\
  (nonempty ws = false \/ m = false ->
     ~ In a_inLibrary (w_attrs w) /\
     forall a, a <> a_inLibrary -> In a (te_attrs (w_entry w)) -> In a (w_attrs w)).
Proof. exact inlibrary_stripped_or_kept. Qed.
Print Assumptions C05_inlibrary_stripped_or_kept.

(* in a merged save the level handed to the writers is the depth of the tag (no rooted adjustment) *)
Theorem C05_merged_levels : forall ws m tags w,
  nonempty ws = false \/ m = true ->
  In w (output_tags (compute_flags ws m) tags) ->
  w_level w = Z.of_nat (length (te_name (w_entry w)) - 1).
Proof. exact merged_levels. Qed.
Print Assumptions C05_merged_levels.

(* THE TREE.  The MediaWiki reader rebuilds the long name of every tag from the order and level of the lines
   (rebuild_names <- SchemaLoaderWiki._read_schema).  If a merged save lists the tags parents-first -- every tag
   directly behind its parent or a node of its parent's subtree -- every long name comes back intact; the levels
   are the depths (C05_merged_levels) and the order is that of the entry list (C05_merged_emits_all_once).
   Whether the entry list IS parents-first is a property of HedSchemaTagSection._finalize_section, not modelled:
   it is tested end-to-end, and it is FALSE of the code before fix-F7 for a library node rooted in a top-level tree
   that does not allow extensions (finding C05-F7; the refuted statement below is its shape). *)
Theorem C05_wiki_names_rebuilt : forall names : list tname,
  parents_first [] names -> rebuild_names [] (map wiki_tag_line names) = Ok names.
Proof. exact wiki_names_rebuilt. Qed.
Print Assumptions C05_wiki_names_rebuilt.

Theorem C05_wiki_names_wrong_parent_refuted :
  exists names, rebuild_names [] (map wiki_tag_line names) <> Ok names
                /\ exists wrong, rebuild_names [] (map wiki_tag_line names) = Ok wrong.
Proof. exact wiki_names_wrong_parent. Qed.
Print Assumptions C05_wiki_names_wrong_parent_refuted.

(* A schema merged from several libraries refuses to save, in every mode and whatever it holds;
   a single library never refuses. *)
Theorem C05_multi_library_refuses : forall library ws m tags ucs secs,
  memb ch_comma library = true ->
  process_schema library ws m tags ucs secs = Exn HedFileError.
Proof. exact multi_library_refuses. Qed.
Print Assumptions C05_multi_library_refuses.

(* ... and EVERY way of building a schema from two or more library files yields such a comma: the loader
   appends ',' + name for each further file, also when the files belong to the same library (testlib_2.0.0 +
   testlib_3.0.0), so the refusal holds for all names, any number of files, every mode and content.  Tied to
   the code by the harness clause multi-library-refuses over all bundled legal merges and construction paths. *)
Theorem C05_merged_libraries_refuse : forall first m more ws mode tags ucs secs,
  process_schema (merged_library false first (m :: more)) ws mode tags ucs secs = Exn HedFileError.
Proof. exact merged_libraries_refuse. Qed.
Print Assumptions C05_merged_libraries_refuse.

(* not the code: a header that does not repeat a library name would let two files of one library save *)
Theorem C05_merged_dedupe_variant_refuted :
  exists l ws mode tags ucs secs,
    is_ok (process_schema (merged_library true l [l]) ws mode tags ucs secs) = true.
Proof. exact merged_dedupe_saves. Qed.
Print Assumptions C05_merged_dedupe_variant_refuted.

Theorem C05_single_library_saves : forall library ws m tags ucs secs,
  memb ch_comma library = false ->
  exists o, process_schema library ws m tags ucs secs = Ok o.
Proof. exact single_library_saves. Qed.
Print Assumptions C05_single_library_saves.

(* ---- non-vacuity: a real line of HED8.3.0 meets every hypothesis and round-trips ---- *)
Example C05_nonvacuous_wiki :
  name_ok ex_name = true /\ desc_ok (Some ex_desc) = true /\ attr_ok ex_attrs = true
  /\ wiki_text_ok (format_tag_attributes no_dis ex_attrs) = true
  /\ write_tag_line no_dis ex_name 1 ex_attrs (Some ex_desc) = Some ex_line
  /\ row_free_of_reserved false ex_name ex_line = true /\ row_free_of_reserved true ex_name ex_line = true.
Proof. exact ex_hyps. Qed.

Example C05_nonvacuous_attr :
  format_tag_attributes no_dis ex_attrs = ex_attr_string
  /\ parse_attribute_string ex_attr_string = Ok ex_attrs.
Proof. exact ex_attr. Qed.

Example C05_nonvacuous_traversal :
  map (fun w => (te_name (w_entry w), w_level w, w_parent w, w_attrs w))
      (output_tags (compute_flags ws83 false) ex_tags)
  = [([1; 2; 3], 0%Z, None, [7]); ([1; 2; 3; 4], 1%Z, Some [1; 2; 3], [])].
Proof. exact ex_unmerged. Qed.

(* ---- the boundary of the attribute grammar (what happens just outside attr_ok) ---- *)
Example C05_attr_eq_truncates :
  parse_attribute_string s_abc = Ok [(k_a, AStr v_b)] /\
  parse_attribute_string (format_tag_attributes no_dis [(k_a, AStr v_beqc)]) = Ok [(k_a, AStr v_b)].
Proof. exact attr_eq_truncates. Qed.

Example C05_attr_trailing_blank_lost :
  parse_attribute_string (format_tag_attributes no_dis [(k_a, AStr v_sp_b)]) = Ok [(k_a, AStr v_b)].
Proof. exact attr_outer_blank_stripped. Qed.

Example C05_attr_empty_piece_rejected :
  parse_attribute_string (format_tag_attributes no_dis [(k_a, AStr v_xey)]) = Exn ValueError.
Proof. exact attr_empty_piece_rejected. Qed.

Example C05_attr_bool_then_value_raises : parse_attribute_string s_a_ab = Exn TypeError.
Proof. exact attr_bool_then_value_raises. Qed.

(* records for the unrepaired reader (fixed = false) and the same witnesses on the repaired one *)
Example C05_desc_extend_here_refused :
  schema_text_ok d_extend = true /\ read_tag_line false (line_of d_extend) = Exn HedFileError.
Proof. exact desc_extend_here_refused. Qed.

Example C05_desc_extend_here_after_fix :
  read_tag_line true (line_of d_extend) = Ok (Some (mkParsed false 1 n_zork [] (Some d_extend))).
Proof. exact desc_extend_here_after_fix. Qed.

Example C05_desc_outer_blank_after_fix :
  xml_read_desc true d_lead = Some d_lead_stripped /\
  read_tag_line true (match write_tag_line no_dis n_zork 1 [] (xml_read_desc true d_lead) with Some l => l | None => [] end)
  = Ok (Some (mkParsed false 1 n_zork [] (xml_read_desc true d_lead))).
Proof. exact desc_outer_blank_after_fix. Qed.

(* still true of the repaired reader: the unrepaired rest of C05-F3 *)
Example C05_desc_nowiki_still_removed :
  schema_text_ok d_nowiki = true /\
  read_tag_line true (line_of d_nowiki) = Ok (Some (mkParsed false 1 n_zork [] (Some d_nowiki_gone))).
Proof. exact desc_nowiki_still_removed. Qed.
