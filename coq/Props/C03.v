(* C03 -- Every spelling of a schema tag resolves to the same node and canonical forms.
   Property theorems only; each closed with [exact] and followed by Print Assumptions.

   Vocabulary (all from Model/Schema.v, Model/Resolve.v):
     S            the schema: long names of the tag section in registration order ("A/B/C", "A/B/#")
     foldc        case folding of one code point; the theorems need only that it keeps '/' and '#' apart
                  from everything else (ascii_lower, used by the correspondence run, satisfies this)
     WFschema     boolean well-formedness: names non-empty, no trailing '/', no ':'; every slash-prefix of a
                  name is a name; '#' only as the last component; folded short names pairwise different
     build_table  HedSchemaTagSection after loading; find_tag_entry / hedtag_init: HedSchema.find_tag_entry
                  and HedTag.__init__; short_tag / long_tag: the HedTag properties. *)
From Coq Require Import List NArith.
From HV Require Import Base.Res Base.Str Base.SchemaData Model.Schema Model.Resolve.
From HV Require Import Proofs.SchemaProofs Proofs.ResolveProofs Proofs.ResolveExamples.
From HV Require Gen.Schema_8_0_0 Gen.SchemaWF_8_0_0 Gen.Schema_8_1_0 Gen.SchemaWF_8_1_0 Gen.Schema_8_2_0 Gen.SchemaWF_8_2_0 Gen.Schema_8_3_0 Gen.SchemaWF_8_3_0 Gen.Schema_score_1_0_0 Gen.SchemaWF_score_1_0_0 Gen.Schema_score_1_1_0 Gen.SchemaWF_score_1_1_0 Gen.Schema_score_2_0_0 Gen.SchemaWF_score_2_0_0 Gen.Schema_testlib_1_0_2 Gen.SchemaWF_testlib_1_0_2 Gen.Schema_testlib_2_0_0 Gen.SchemaWF_testlib_2_0_0 Gen.Schema_testlib_2_1_0 Gen.SchemaWF_testlib_2_1_0 Gen.Schema_testlib_3_0_0 Gen.SchemaWF_testlib_3_0_0.
Import ListNotations.

Section C03.
  Variable foldc : N -> N.
  Hypothesis fold_slash : forall c, N.eqb (foldc c) ch_slash = N.eqb c ch_slash.
  Hypothesis fold_hash : forall c, N.eqb (foldc c) ch_hash = N.eqb c ch_hash.

  (* Loading a well-formed schema never raises and records no duplicate name. *)
  Theorem C03_load_total : forall S, WFschema foldc S = true ->
    exists T, build_table foldc S = Ok T /\ duplicate_names T = [].
  Proof. exact (table_total foldc fold_slash fold_hash). Qed.

  (* The lookup table holds exactly the case-folded forms (all '/'-suffixes, the bare '#' dropped) of the
     schema's names, each mapped to the entry of its own name. *)
  Theorem C03_table_exact : forall S, WFschema foldc S = true -> forall T, build_table foldc S = Ok T ->
    forall k e, lookup k (long_form_tags T) = Some e <->
      exists n nk forms f, In n S /\ get_tag_forms n = Ok (nk, forms) /\ In f forms /\
                           create_tag_entry n = Ok e /\ fold foldc f = k.
  Proof. exact (table_exact foldc fold_slash fold_hash). Qed.

  (* suffix_resolves: every registered spelling f of a node n (short form, partial path, full path), in any
     letter case p, behind any namespace prefix ns, is identified as n; nothing is left over (for the
     placeholder child itself the code keeps "/#"). *)
  Theorem C03_suffix_resolves : forall S, WFschema foldc S = true -> forall T, build_table foldc S = Ok T ->
    forall n k forms f e p ns,
      In n S -> get_tag_forms n = Ok (k, forms) -> In f forms -> create_tag_entry n = Ok e ->
      fold foldc p = fold foldc f ->
      find_tag_entry foldc T ns (ns ++ p) ns = Found e (if is_value n then s_slash_hash else []).
  Proof. exact (suffix_resolves foldc fold_slash fold_hash). Qed.

  (* the same at the level of HedTag, where the namespace is read off the text *)
  Theorem C03_hedtag_suffix : forall S, WFschema foldc S = true -> forall T, build_table foldc S = Ok T ->
    forall n k forms f e p sns,
      In n S -> get_tag_forms n = Ok (k, forms) -> In f forms -> create_tag_entry n = Ok e ->
      fold foldc p = fold foldc f -> get_schema_namespace (sns ++ p) = sns ->
      hedtag_init foldc T sns (sns ++ p)
      = mkHedTag (sns ++ p) sns (Some e) (if is_value n then s_slash_hash else []).
  Proof. exact (hedtag_suffix foldc fold_slash fold_hash). Qed.

  (* remainder_verbatim: after a spelling p of node n, text r that does not continue to a deeper registered
     form (no_longer_form) is carried over verbatim as "/r", on the '#' child of n when n has one (then
     any r is accepted), otherwise on n provided no term of r is itself a tag (else the code reports
     INVALID_PARENT_NODE).  The '#' child has the same long and short name as n. *)
  Theorem C03_remainder_verbatim : forall S, WFschema foldc S = true -> forall T, build_table foldc S = Ok T ->
    forall n k forms f e p r ns,
      In n S -> is_value n = false ->
      get_tag_forms n = Ok (k, forms) -> In f forms -> create_tag_entry n = Ok e ->
      fold foldc p = fold foldc f ->
      no_longer_form foldc T p r = true ->
      (takes_value_child foldc T e <> None \/ ext_terms_free foldc T r = true) ->
      find_tag_entry foldc T ns (ns ++ p ++ ch_slash :: r) ns
      = Found (match takes_value_child foldc T e with Some v => v | None => e end) (ch_slash :: r)
      /\ (forall v, takes_value_child foldc T e = Some v ->
            create_tag_entry (n ++ s_slash_hash) = Ok v /\ In (n ++ s_slash_hash) S /\
            e_long v = e_long e /\ e_short v = e_short e).
  Proof. exact (remainder_verbatim foldc fold_slash fold_hash). Qed.

  (* long_short_inverse, for EVERY text t that does not contain "/#/" (identified or not, any namespace):
     long(short t) = long t, short(long t) = short t, both idempotent, and all three texts are identified
     with the same entry and the same value/extension. *)
  Theorem C03_long_short_inverse : forall S, WFschema foldc S = true -> forall T, build_table foldc S = Ok T ->
    forall sns t, ~ has_hash_mid t ->
      let h := hedtag_init foldc T sns t in
      let hs := hedtag_init foldc T sns (short_tag h) in
      let hl := hedtag_init foldc T sns (long_tag h) in
      long_tag hs = long_tag h /\ short_tag hl = short_tag h /\
      short_tag hs = short_tag h /\ long_tag hl = long_tag h /\
      ht_entry hs = ht_entry h /\ ht_entry hl = ht_entry h /\
      ht_ext hs = ht_ext h /\ ht_ext hl = ht_ext h.
  Proof. exact (long_short_inverse foldc fold_slash fold_hash). Qed.
End C03.
Print Assumptions C03_load_total.
Print Assumptions C03_table_exact.
Print Assumptions C03_suffix_resolves.
Print Assumptions C03_hedtag_suffix.
Print Assumptions C03_remainder_verbatim.
Print Assumptions C03_long_short_inverse.

(* The full statement "for ALL texts t" is FALSE of the code: without the "/#/" restriction the round trip
   fails (schema A, A/# and t = "A/#/#/x": short t = "A/#/x" but short(short t) = "A/x").  Replayed on the
   implementation as finding C03-F2 (Duration/#/#/more). *)
Theorem C03_long_short_inverse_refuted :
  exists (S : list str) (sns t : str),
    WFschema ascii_lower S = true /\
    match build_table ascii_lower S with
    | Ok T =>
        let h := hedtag_init ascii_lower T sns t in
        let hs := hedtag_init ascii_lower T sns (short_tag h) in
        short_tag hs <> short_tag h /\ long_tag hs <> long_tag h
    | Exn _ => False
    end.
Proof. exact long_short_unrestricted_refuted. Qed.
Print Assumptions C03_long_short_inverse_refuted.

(* the folding used by the correspondence run satisfies the two laws *)
Theorem C03_ascii_lower_laws :
  (forall c, N.eqb (ascii_lower c) ch_slash = N.eqb c ch_slash) /\
  (forall c, N.eqb (ascii_lower c) ch_hash = N.eqb c ch_hash).
Proof. exact (conj ascii_lower_slash ascii_lower_hash). Qed.
Print Assumptions C03_ascii_lower_laws.

(* the hypotheses are met by every bundled vocabulary (kernel evaluation on the T4 terms) *)
Example C03_wf_8_0_0 : WFschema ascii_lower (map td_long Schema_8_0_0.tags) = true.
Proof. exact SchemaWF_8_0_0.wf. Qed.
Example C03_wf_8_1_0 : WFschema ascii_lower (map td_long Schema_8_1_0.tags) = true.
Proof. exact SchemaWF_8_1_0.wf. Qed.
Example C03_wf_8_2_0 : WFschema ascii_lower (map td_long Schema_8_2_0.tags) = true.
Proof. exact SchemaWF_8_2_0.wf. Qed.
Example C03_wf_8_3_0 : WFschema ascii_lower (map td_long Schema_8_3_0.tags) = true.
Proof. exact SchemaWF_8_3_0.wf. Qed.
Example C03_wf_score_1_0_0 : WFschema ascii_lower (map td_long Schema_score_1_0_0.tags) = true.
Proof. exact SchemaWF_score_1_0_0.wf. Qed.
Example C03_wf_score_1_1_0 : WFschema ascii_lower (map td_long Schema_score_1_1_0.tags) = true.
Proof. exact SchemaWF_score_1_1_0.wf. Qed.
Example C03_wf_score_2_0_0 : WFschema ascii_lower (map td_long Schema_score_2_0_0.tags) = true.
Proof. exact SchemaWF_score_2_0_0.wf. Qed.
Example C03_wf_testlib_1_0_2 : WFschema ascii_lower (map td_long Schema_testlib_1_0_2.tags) = true.
Proof. exact SchemaWF_testlib_1_0_2.wf. Qed.
Example C03_wf_testlib_2_0_0 : WFschema ascii_lower (map td_long Schema_testlib_2_0_0.tags) = true.
Proof. exact SchemaWF_testlib_2_0_0.wf. Qed.
Example C03_wf_testlib_2_1_0 : WFschema ascii_lower (map td_long Schema_testlib_2_1_0.tags) = true.
Proof. exact SchemaWF_testlib_2_1_0.wf. Qed.
Example C03_wf_testlib_3_0_0 : WFschema ascii_lower (map td_long Schema_testlib_3_0_0.tags) = true.
Proof. exact SchemaWF_testlib_3_0_0.wf. Qed.

(* non-vacuity: "ts:temporal-VALUE/duration/3 ms" against 8.3.0 loaded under namespace "ts:" is identified
   with .../Duration/#, short "ts:Duration/3 ms", long "ts:Property/.../Duration/3 ms", extension "3 ms" *)
Example C03_nonvacuous : ex_check = true.
Proof. exact ex_resolution. Qed.
