(* C03 -- Every spelling of a schema tag resolves to the same node and canonical forms.
   Property theorems only; each closed with [exact] and followed by Print Assumptions.

   Vocabulary (all from Model/Schema.v, Model/Resolve.v):
     S            the schema: long names of the tag section in registration order ("A/B/C", "A/B/#")
     foldc        case folding of one code point, as a string (str.casefold maps some code points to several);
                  the theorems need only that it erases nothing and keeps '/' and '#' apart from everything
                  else; CPython's table (Gen/FoldTable.v, used by the correspondence run) satisfies this
     fx           which repairs of hed_schema.py the model follows: [repaired] = the code as it is in /repo
                  (fix_index = fix commit de8c862: indexes refer to the text as written; fix_hash = fix
                  commit 03a83bd: the walk never steps onto a '#' placeholder).  The behaviour BEFORE these
                  two commits is kept only as the record of the repaired defects, at the end of the section
     WFschema     boolean well-formedness: names non-empty, no trailing '/', no ':'; every slash-prefix of a
                  name is a name; '#' only as the last component; folded short names pairwise different
     build_table  HedSchemaTagSection after loading; find_tag_entry / hedtag_init: HedSchema.find_tag_entry
                  and HedTag.__init__; short_tag / long_tag: the HedTag properties. *)
From Coq Require Import List NArith.
From HV Require Import Base.Res Base.Str Base.SchemaData Model.Schema Model.Resolve.
From HV Require Import Model.Parse Proofs.ParseRefine Proofs.ParsePrint.
From HV Require Import Model.Schema Model.Resolve Model.Histories Proofs.HistoriesProofs.
From HV Require Import Proofs.SchemaProofs Proofs.ResolveProofs Proofs.ResolveExamples Proofs.FormsWellFormed.
From HV Require Gen.FoldTable Gen.Schema_8_0_0 Gen.SchemaWF_8_0_0 Gen.Schema_8_1_0 Gen.SchemaWF_8_1_0 Gen.Schema_8_2_0 Gen.SchemaWF_8_2_0 Gen.Schema_8_3_0 Gen.SchemaWF_8_3_0 Gen.Schema_score_1_0_0 Gen.SchemaWF_score_1_0_0 Gen.Schema_score_1_1_0 Gen.SchemaWF_score_1_1_0 Gen.Schema_score_2_0_0 Gen.SchemaWF_score_2_0_0 Gen.Schema_testlib_1_0_2 Gen.SchemaWF_testlib_1_0_2 Gen.Schema_testlib_2_0_0 Gen.SchemaWF_testlib_2_0_0 Gen.Schema_testlib_2_1_0 Gen.SchemaWF_testlib_2_1_0 Gen.Schema_testlib_3_0_0 Gen.SchemaWF_testlib_3_0_0.
Import ListNotations.

Section C03.
  Variable foldc : N -> str.
  Hypothesis fold_slash : foldc ch_slash = [ch_slash] /\ forall c, In ch_slash (foldc c) -> c = ch_slash.
  Hypothesis fold_hash : foldc ch_hash = [ch_hash] /\ (forall c, foldc c = [ch_hash] -> c = ch_hash) /\
                         forall c, foldc c <> [].

  (* Loading a well-formed schema never raises and records no duplicate name. *)
  Theorem C03_load_total : forall S, WFschema foldc S = true ->
    exists T, build_table foldc S = Ok T /\ duplicate_names T = [].
  Proof. exact (table_total foldc fold_slash fold_hash). Qed.

  (* The lookup table holds exactly the case-folded forms (all '/'-suffixes, the bare '#' dropped) of the
     schema's names, each mapped to the entry of its own name. *)
  Theorem C03_table_exact : forall S, WFschema foldc S = true -> forall T, build_table foldc S = Ok T ->
    forall k e, lookup k (long_form_tags T) = Some e <->
      exists n nk forms f, In n S /\ get_tag_forms n = Ok (nk, forms) /\ In f forms /\
                           create_tag_entry n = Ok e /\ fold foldc f = k.
  Proof. exact (table_exact foldc fold_slash fold_hash). Qed.

  (* suffix_resolves: every registered spelling f of a node n (short form, partial path, full path), in any
     letter case p (any text with the same case folding), behind any namespace prefix ns, is identified as n;
     nothing is left over (for the placeholder child itself the code keeps "/#").  Holds before and after the
     repairs. *)
  Theorem C03_suffix_resolves : forall S, WFschema foldc S = true -> forall T, build_table foldc S = Ok T ->
    forall fx n k forms f e p ns,
      In n S -> get_tag_forms n = Ok (k, forms) -> In f forms -> create_tag_entry n = Ok e ->
      fold foldc p = fold foldc f ->
      find_tag_entry foldc fx T ns (ns ++ p) ns = Found e (if is_value n then s_slash_hash else []).
  Proof. exact (suffix_resolves foldc fold_slash fold_hash). Qed.

  (* the same at the level of HedTag, where the namespace is read off the text *)
  Theorem C03_hedtag_suffix : forall S, WFschema foldc S = true -> forall T, build_table foldc S = Ok T ->
    forall fx n k forms f e p sns,
      In n S -> get_tag_forms n = Ok (k, forms) -> In f forms -> create_tag_entry n = Ok e ->
      fold foldc p = fold foldc f -> get_schema_namespace (sns ++ p) = sns ->
      hedtag_init foldc fx T sns (sns ++ p)
      = mkHedTag (sns ++ p) sns (Some e) (if is_value n then s_slash_hash else []).
  Proof. exact (hedtag_suffix foldc fold_slash fold_hash). Qed.

  (* remainder_verbatim (the code as it is in /repo -- with de8c862 --, for EVERY admissible folding -- also those that change the
     length of the text): after a spelling p of node n, text r that does not continue to a deeper registered
     form (no_longer_form) is carried over verbatim as "/r", on the '#' child of n when n has one (then any r
     is accepted), otherwise on n provided no term of r is itself a tag (else the code reports
     INVALID_PARENT_NODE).  The '#' child has the same long and short name as n. *)
  Theorem C03_remainder_verbatim : forall S, WFschema foldc S = true -> forall T, build_table foldc S = Ok T ->
    forall fx, fix_index fx = true ->
    forall n k forms f e p r ns,
      In n S -> is_value n = false ->
      get_tag_forms n = Ok (k, forms) -> In f forms -> create_tag_entry n = Ok e ->
      fold foldc p = fold foldc f ->
      no_longer_form foldc T p r = true ->
      (takes_value_child foldc T e <> None \/ ext_terms_free foldc T r = true) ->
      find_tag_entry foldc fx T ns (ns ++ p ++ ch_slash :: r) ns
      = Found (match takes_value_child foldc T e with Some v => v | None => e end) (ch_slash :: r)
      /\ (forall v, takes_value_child foldc T e = Some v ->
            create_tag_entry (n ++ s_slash_hash) = Ok v /\ In (n ++ s_slash_hash) S /\
            e_long v = e_long e /\ e_short v = e_short e).
  Proof. exact (remainder_verbatim foldc fold_slash fold_hash). Qed.

  (* long_short_inverse, the FULL statement, for the code as it is in /repo (de8c862 + 03a83bd): for EVERY text t (identified or not,
     any namespace, any admissible folding): long(short t) = long t, short(long t) = short t, both idempotent,
     and all three texts are identified with the same entry and the same value/extension. *)
  Theorem C03_long_short_inverse : forall S, WFschema foldc S = true -> forall T, build_table foldc S = Ok T ->
    forall sns t,
      let h := hedtag_init foldc repaired T sns t in
      let hs := hedtag_init foldc repaired T sns (short_tag h) in
      let hl := hedtag_init foldc repaired T sns (long_tag h) in
      long_tag hs = long_tag h /\ short_tag hl = short_tag h /\
      short_tag hs = short_tag h /\ long_tag hl = long_tag h /\
      ht_entry hs = ht_entry h /\ ht_entry hl = ht_entry h /\
      ht_ext hs = ht_ext h /\ ht_ext hl = ht_ext h.
  Proof.
    exact (fun S HWF T HB sns t =>
             long_short_inverse foldc fold_slash fold_hash S HWF T HB repaired eq_refl sns t
               (fun H : fix_hash repaired = false => False_ind _ (Bool.diff_true_false H))).
  Qed.

  (* the value/extension of an identified tag is literally a piece of the text as written (or the "/#" of the
     placeholder spelling): for EVERY table, every text, every namespace, before and after the repairs -- no
     well-formedness hypothesis.  Hence texts that are equal up to letter case but differ in the case of a value
     or extension keep different values in both forms.  The COLUMN entry points (df_util.convert_to_form on a
     Series/DataFrame, TabularInput/SpreadsheetInput.convert_to_long/short) are not modelled: that they convert
     every cell as the cell alone is converted is TESTED (harness/c03_cols.py), not proved. *)
  Theorem C03_extension_is_written : forall fx T sns t,
    let h := hedtag_init foldc fx T sns t in
    ht_entry h <> None ->
    ht_ext h = s_slash_hash \/ exists i, ht_ext h = skipn i (skipn (length (get_schema_namespace t)) t).
  Proof. exact (hedtag_extension_is_written foldc). Qed.

  (* ---- link to C02: the short and the long form are well-formed tag texts ----
     [tagbody] (Proofs/ParseRefine.v) = non-empty, first and last code point not U+0020, no ',' '(' ')': what
     the parser yields as a tag text and what C02's render_reparse asks of a rendering.
     [names_clean S]: no schema name contains ',' '(' ')', no component starts with U+0020 (or is empty), no
     name ends with U+0020.  Holds for resolved AND unresolved texts (an unresolved tag renders as itself), for
     every schema namespace [sns] whatsoever, before and after the repairs. *)
  Theorem C03_short_form_wellformed : forall S, WFschema foldc S = true -> names_clean S = true ->
    forall T, build_table foldc S = Ok T ->
    forall fx sns t, tagbody t -> tagbody (short_tag (hedtag_init foldc fx T sns t)).
  Proof. exact (short_form_wellformed foldc fold_slash fold_hash). Qed.

  Theorem C03_long_form_wellformed : forall S, WFschema foldc S = true -> names_clean S = true ->
    forall T, build_table foldc S = Ok T ->
    forall fx sns t, tagbody t -> tagbody (long_tag (hedtag_init foldc fx T sns t)).
  Proof. exact (long_form_wellformed foldc fold_slash fold_hash). Qed.

  (* hence (C02_render_reparse): for EVERY annotation text s, printing its parse tree with every tag in short
     form -- or every tag in long form -- and parsing the result gives the same nesting with the same
     (short resp. long) tag texts *)
  Theorem C03_print_short_long_reparse : forall S, WFschema foldc S = true -> names_clean S = true ->
    forall T, build_table foldc S = Ok T ->
    forall fx sns (s : str),
      (let l := map (map_sh (fun t => short_tag (hedtag_init foldc fx T sns t))) (parse_sh s) in
       parse_sh (pr_list l) = l) /\
      (let l := map (map_sh (fun t => long_tag (hedtag_init foldc fx T sns t))) (parse_sh s) in
       parse_sh (pr_list l) = l).
  Proof. exact (print_short_long_reparse foldc fold_slash fold_hash). Qed.

  (* ---- histories: one schema object, one HedTag object (Model/Histories.v) ----
     A schema object answers lookups and gets further vocabularies merged into the SAME tag section (the
     partnered library is built that way on a copy of the standard schema; load_schema(..., schema=existing)).

     What is PROVED here and what is not.  The code in /repo keeps no memo of lookups and HedTag computes its
     forms from (namespace, entry, value) on every read, so the faithful model has no such state either: a
     lookup step leaves the table as it is and TRead/TCopy are identity steps BY CONSTRUCTION of the model.
     Hence "what was looked up / read before does not matter" (the lookup half of C03_schema_history and all
     of C03_tag_reads_invisible) is immediate from the model's shape -- these two theorems only record that
     shape; that the IMPLEMENTATION has no stale state of this kind is TESTED, not proved (harness/c03_hist.py:
     histories on one object against fresh objects, the model and the T4 specification; two seeded memo
     faults are caught that way).  The content with a proof is the merge half: registering further names into
     a table that was built earlier gives exactly the table built from scratch out of all names
     (C03_merge_incremental), so a merged / derived schema answers like a schema loaded in one go. *)
  Theorem C03_merge_incremental : forall S more,
    build_table foldc (S ++ more) = (let* T := build_table foldc S in add_all foldc T more).
  Proof. exact (build_table_app foldc). Qed.

  (* corollary: after ANY history of lookups and merges every answer is the one of a table built from scratch
     out of the names held at that moment (lookups leave the model's table untouched by construction) *)
  Theorem C03_schema_history : forall fx ops S,
    srun foldc fx (build_table foldc S) ops = sref foldc fx S ops.
  Proof. exact (schema_history foldc). Qed.

  Theorem C03_lookup_after_history : forall fx S a sns t b,
    exists pre post,
      srun foldc fx (build_table foldc S) (a ++ SLookup sns t :: b)
      = pre ++ resolve foldc fx (S ++ merged a) sns t :: post /\ length pre = length (sref foldc fx S a).
  Proof. exact (lookup_after_history foldc). Qed.

  (* schema configurations: a schema used under a namespace prefix -- a single library, or several libraries
     merged into one tag section (C03_schema_history) -- identifies prefix ++ t as the un-prefixed schema
     identifies t: same entry (in particular the same '#' child), same value/extension, forms with the prefix *)
  Theorem C03_namespace_transparent : forall fx T sns t,
    get_schema_namespace (sns ++ t) = sns -> get_schema_namespace t = [] ->
    let h := hedtag_init foldc fx T sns (sns ++ t) in
    let h0 := hedtag_init foldc fx T [] t in
    ht_entry h = ht_entry h0 /\ ht_ext h = ht_ext h0 /\
    short_tag h = sns ++ short_tag h0 /\ long_tag h = sns ++ long_tag h0.
  Proof. exact (namespace_transparent foldc). Qed.

  (* by construction of the model (see above): read and copy steps can be dropped from a HedTag history *)
  Theorem C03_tag_reads_invisible : forall T sns ops h,
    trun foldc T sns h ops = trun foldc T sns h (filter mutating ops).
  Proof. exact (tag_reads_invisible foldc). Qed.

  (* a HedTag on node n (or its '#' child) whose value/extension has become "/r" by whatever operations
     (replace_placeholder, extension setter, short_base_tag setter) and the tag freshly parsed from its short
     form or from its long form are the same tag -- hence the four equations hold for mutated tags too *)
  Theorem C03_mutated_tag_reparses : forall S, WFschema foldc S = true -> forall T, build_table foldc S = Ok T ->
    forall fx, fix_index fx = true ->
    forall n r sns t0 text,
      In n S -> is_value n = false ->
      no_longer_form foldc T (last_comp n) r = true ->
      (takes_value_child foldc T (ent n) <> None \/ ext_terms_free foldc T r = true) ->
      str_eqb (get_schema_namespace t0) sns = true ->
      let e' := match takes_value_child foldc T (ent n) with Some v => v | None => ent n end in
      let h := mkHedTag text (get_schema_namespace t0) (Some e') (ch_slash :: r) in
      hedtag_init foldc fx T sns (short_tag h)
        = mkHedTag (short_tag h) (get_schema_namespace t0) (Some e') (ch_slash :: r) /\
      hedtag_init foldc fx T sns (long_tag h)
        = mkHedTag (long_tag h) (get_schema_namespace t0) (Some e') (ch_slash :: r).
  Proof. exact (mutated_tag_reparses foldc fold_slash fold_hash). Qed.

  (* ---- record of the repaired defects: behaviour BEFORE fix commits de8c862 (C03-F1) and 03a83bd (C03-F2).
     Nothing below is a statement about the code that is in /repo now. ---- *)

  (* behaviour before fix commit 03a83bd (C03-F2): the round trip held only for texts without "/#/" *)
  Theorem C03_long_short_inverse_before_hash_fix :
    forall S, WFschema foldc S = true -> forall T, build_table foldc S = Ok T ->
    forall sns t, ~ has_hash_mid t ->
      let fx := mkFixes true false in
      let h := hedtag_init foldc fx T sns t in
      let hs := hedtag_init foldc fx T sns (short_tag h) in
      let hl := hedtag_init foldc fx T sns (long_tag h) in
      long_tag hs = long_tag h /\ short_tag hl = short_tag h /\
      short_tag hs = short_tag h /\ long_tag hl = long_tag h /\
      ht_entry hs = ht_entry h /\ ht_entry hl = ht_entry h /\
      ht_ext hs = ht_ext h /\ ht_ext hl = ht_ext h.
  Proof.
    exact (fun S HWF T HB sns t NH =>
             long_short_inverse foldc fold_slash fold_hash S HWF T HB (mkFixes true false) eq_refl sns t
               (fun _ => NH)).
  Qed.

  (* behaviour before fix commit de8c862 (C03-F1): the code agreed with the repaired code exactly for foldings that map
     every code point to ONE code point; all theorems above then transfer *)
  Theorem C03_before_index_fix_same_on_simple_foldings :
    (forall c, length (foldc c) = 1) ->
    forall h T sns t, hedtag_init foldc (mkFixes false h) T sns t = hedtag_init foldc (mkFixes true h) T sns t.
  Proof. exact (unrepaired_index_same_hedtag foldc fold_slash). Qed.
End C03.
Print Assumptions C03_load_total.
Print Assumptions C03_table_exact.
Print Assumptions C03_suffix_resolves.
Print Assumptions C03_hedtag_suffix.
Print Assumptions C03_remainder_verbatim.
Print Assumptions C03_long_short_inverse.
Print Assumptions C03_extension_is_written.
Print Assumptions C03_short_form_wellformed.
Print Assumptions C03_long_form_wellformed.
Print Assumptions C03_print_short_long_reparse.
Print Assumptions C03_merge_incremental.
Print Assumptions C03_schema_history.
Print Assumptions C03_lookup_after_history.
Print Assumptions C03_namespace_transparent.
Print Assumptions C03_tag_reads_invisible.
Print Assumptions C03_mutated_tag_reparses.
Print Assumptions C03_long_short_inverse_before_hash_fix.
Print Assumptions C03_before_index_fix_same_on_simple_foldings.

(* REPAIRED DEFECT C03-F2 (behaviour before fix commit 03a83bd; not true of /repo any more): without the '#'
   repair the unrestricted round trip was FALSE
   (schema A, A/# and t = "A/#/#/x": short t = "A/#/x" but short(short t) = "A/x"). *)
Theorem C03_long_short_inverse_refuted_before_hash_fix :
  exists (S : list str) (sns t : str),
    WFschema ascii_fold S = true /\
    match build_table ascii_fold S with
    | Ok T =>
        let h := hedtag_init ascii_fold (mkFixes true false) T sns t in
        let hs := hedtag_init ascii_fold (mkFixes true false) T sns (short_tag h) in
        short_tag hs <> short_tag h /\ long_tag hs <> long_tag h
    | Exn _ => False
    end.
Proof. exact long_short_unrestricted_refuted_before_fix. Qed.
Print Assumptions C03_long_short_inverse_refuted_before_hash_fix.

(* REPAIRED DEFECT C03-F1 (behaviour before fix commit de8c862; not true of /repo any more): without the index
   repair a folding that changes the length of the text broke
   "carried over verbatim" (schema Press, U+00DF -> "ss", t = "Preß/abc": short form "Pressabc";
   with the repair "Press/abc"). *)
Theorem C03_remainder_verbatim_refuted_before_index_fix :
  exists (tbl : list (N * str)) (S : list str) (t : str),
    table_ok tbl = true /\ WFschema (table_fold tbl) S = true /\
    match build_table (table_fold tbl) S with
    | Ok T =>
        short_tag (hedtag_init (table_fold tbl) (mkFixes false true) T [] t) = f1_bad /\
        short_tag (hedtag_init (table_fold tbl) (mkFixes true true) T [] t) = f1_good
    | Exn _ => False
    end.
Proof. exact remainder_not_verbatim_before_fix. Qed.
Print Assumptions C03_remainder_verbatim_refuted_before_index_fix.

(* every folding given by a table without empty entries, '/' or '#' satisfies the two hypotheses;
   CPython's table (translator T6, every code point) is such a table *)
Theorem C03_table_fold_laws : forall tbl, table_ok tbl = true ->
  (table_fold tbl ch_slash = [ch_slash] /\ forall c, In ch_slash (table_fold tbl c) -> c = ch_slash) /\
  (table_fold tbl ch_hash = [ch_hash] /\ (forall c, table_fold tbl c = [ch_hash] -> c = ch_hash) /\
   forall c, table_fold tbl c <> []).
Proof. exact (fun tbl OK => conj (table_fold_slash tbl OK) (table_fold_hash tbl OK)). Qed.
Print Assumptions C03_table_fold_laws.

Example C03_casefold_table_ok : table_ok FoldTable.casefold_table = true.
Proof. exact casefold_table_ok. Qed.

(* the hypotheses are met by every bundled vocabulary (kernel evaluation on the T4 terms) *)
Example C03_wf_8_0_0 : WFschema FoldTable.py_fold (map td_long Schema_8_0_0.tags) = true.
Proof. exact SchemaWF_8_0_0.wf. Qed.
Example C03_wf_8_1_0 : WFschema FoldTable.py_fold (map td_long Schema_8_1_0.tags) = true.
Proof. exact SchemaWF_8_1_0.wf. Qed.
Example C03_wf_8_2_0 : WFschema FoldTable.py_fold (map td_long Schema_8_2_0.tags) = true.
Proof. exact SchemaWF_8_2_0.wf. Qed.
Example C03_wf_8_3_0 : WFschema FoldTable.py_fold (map td_long Schema_8_3_0.tags) = true.
Proof. exact SchemaWF_8_3_0.wf. Qed.
Example C03_wf_score_1_0_0 : WFschema FoldTable.py_fold (map td_long Schema_score_1_0_0.tags) = true.
Proof. exact SchemaWF_score_1_0_0.wf. Qed.
Example C03_wf_score_1_1_0 : WFschema FoldTable.py_fold (map td_long Schema_score_1_1_0.tags) = true.
Proof. exact SchemaWF_score_1_1_0.wf. Qed.
Example C03_wf_score_2_0_0 : WFschema FoldTable.py_fold (map td_long Schema_score_2_0_0.tags) = true.
Proof. exact SchemaWF_score_2_0_0.wf. Qed.
Example C03_wf_testlib_1_0_2 : WFschema FoldTable.py_fold (map td_long Schema_testlib_1_0_2.tags) = true.
Proof. exact SchemaWF_testlib_1_0_2.wf. Qed.
Example C03_wf_testlib_2_0_0 : WFschema FoldTable.py_fold (map td_long Schema_testlib_2_0_0.tags) = true.
Proof. exact SchemaWF_testlib_2_0_0.wf. Qed.
Example C03_wf_testlib_2_1_0 : WFschema FoldTable.py_fold (map td_long Schema_testlib_2_1_0.tags) = true.
Proof. exact SchemaWF_testlib_2_1_0.wf. Qed.
Example C03_wf_testlib_3_0_0 : WFschema FoldTable.py_fold (map td_long Schema_testlib_3_0_0.tags) = true.
Proof. exact SchemaWF_testlib_3_0_0.wf. Qed.

(* ... and so is names_clean *)
Example C03_clean_8_0_0 : names_clean (map td_long Schema_8_0_0.tags) = true.
Proof. exact SchemaWF_8_0_0.clean. Qed.
Example C03_clean_8_1_0 : names_clean (map td_long Schema_8_1_0.tags) = true.
Proof. exact SchemaWF_8_1_0.clean. Qed.
Example C03_clean_8_2_0 : names_clean (map td_long Schema_8_2_0.tags) = true.
Proof. exact SchemaWF_8_2_0.clean. Qed.
Example C03_clean_8_3_0 : names_clean (map td_long Schema_8_3_0.tags) = true.
Proof. exact SchemaWF_8_3_0.clean. Qed.
Example C03_clean_score_1_0_0 : names_clean (map td_long Schema_score_1_0_0.tags) = true.
Proof. exact SchemaWF_score_1_0_0.clean. Qed.
Example C03_clean_score_1_1_0 : names_clean (map td_long Schema_score_1_1_0.tags) = true.
Proof. exact SchemaWF_score_1_1_0.clean. Qed.
Example C03_clean_score_2_0_0 : names_clean (map td_long Schema_score_2_0_0.tags) = true.
Proof. exact SchemaWF_score_2_0_0.clean. Qed.
Example C03_clean_testlib_1_0_2 : names_clean (map td_long Schema_testlib_1_0_2.tags) = true.
Proof. exact SchemaWF_testlib_1_0_2.clean. Qed.
Example C03_clean_testlib_2_0_0 : names_clean (map td_long Schema_testlib_2_0_0.tags) = true.
Proof. exact SchemaWF_testlib_2_0_0.clean. Qed.
Example C03_clean_testlib_2_1_0 : names_clean (map td_long Schema_testlib_2_1_0.tags) = true.
Proof. exact SchemaWF_testlib_2_1_0.clean. Qed.
Example C03_clean_testlib_3_0_0 : names_clean (map td_long Schema_testlib_3_0_0.tags) = true.
Proof. exact SchemaWF_testlib_3_0_0.clean. Qed.

(* the side conditions of C03_remainder_verbatim are met on the bundled vocabulary 8.3.0 (kernel evaluation):
   node .../Red (no '#' child), spelling "rED-color/RED", r = "Qzx9/my ext": no_longer_form and ext_terms_free
   hold and the code keeps "/Qzx9/my ext" on Red; node .../Duration (has a '#' child), spelling
   "temporal-VALUE/duration", r = "3 ms": no_longer_form holds, takes_value_child is the '#' child and the
   value is kept on it; and a r that DOES continue to a deeper form ("Red-color/Red" after "CSS-color") makes
   no_longer_form false.  For generated schemas WFschema is evaluated by the extracted model in the harness
   (a well-formed generated vocabulary on which it is false is reported), not in the kernel. *)
Example C03_remainder_verbatim_premises_met : ex_premises = true.
Proof. exact ex_premises_ok. Qed.

(* non-vacuity: "ts:temporal-VALUE/duration/3 ms" against 8.3.0 loaded under namespace "ts:" is identified
   with .../Duration/#, short "ts:Duration/3 ms", long "ts:Property/.../Duration/3 ms", extension "3 ms";
   the two old witnesses now give "Press/abc" and "Duration/#/#/more" *)
Example C03_nonvacuous : ex_check = true.
Proof. exact ex_resolution. Qed.
