(* C04 -- Validation outcome does not depend on how an annotation is written.
   Property theorems only; each closed with [exact] and followed by
   Print Assumptions.

   Vocabulary (Model/Dups.v, Proofs/Dups*.v):
     PermForest top top'  siblings reordered at any level of the annotation
     Respell top top'     the two annotations agree after forgetting, for every tag,
                          the two fields that hold its SPELLING (short_tag text and
                          case-folded original text); the case-folded short form and
                          the attributes of the resolved schema node are kept
     Fx                   THE CODE AS IT IS (current /repo, harness FIXED = True):
                          [mode_of true], i.e. with fix commits 7597eca (canonical,
                          case-folded sort key), 2492808 (tag equality = equality of the
                          case-folded short form) and 3e47c8c (repeated groups of empty
                          groups reported instead of IndexError)
     Orig                 [mode_of false]: the behaviour BEFORE those fix commits; it no
                          longer exists in /repo and appears only in the theorems named
                          *_refuted_* / *_before_fix, which are the record of the repaired
                          defects (former findings C04-F1, C04-F2; see known_findings.json "fixed")
     Half                 a partial repair that was never committed (canonical group key and
                          folded equality, tags still ordered by case-sensitive text)
     wft                  folded short forms are non-empty and free of ",()"

   What is a result and what is an input.  The theorems about sibling ORDER are results
   about the modelled rules.  Of the theorems about SPELLING only the ones for the
   duplicate check have content (the sort key and the equality really read the spelled
   text, and before 2492808 they depended on it); for the placement, unique/required,
   Duration/Delay and Onset rules spelling invariance holds BY CONSTRUCTION, because these
   rules never read the two spelling fields.  That another valid spelling (short / partial /
   full path, other letter case) of a tag yields the same folded short form, base tag and
   attributes is NOT proved here: it is the statement of property C03 and an input of this
   model (the harness reads those values from the implementation's HedTag objects).
   Basic-phase checks and re-blanking: tested only (metamorphic oracle). *)
From Coq Require Import List NArith Permutation Sorted.
From HV Require Import Base.Res Base.Str Model.Dups Gen.C04Codes
  Proofs.DupsProofs Proofs.DupsCount Proofs.DupsRules Proofs.DupsKey Proofs.DupsSession Proofs.DupsOnset.
Import ListNotations.

(* ---- placement rules (tagGroup / topLevelTagGroup / several top-level tags / empty group) ---- *)

Theorem C04_placement_never_raises : forall top, exists l, tag_level_issues top = Ok l.
Proof. exact placement_never_raises. Qed.
Print Assumptions C04_placement_never_raises.

Theorem C04_placement_invariant_order : forall top top',
  PermForest top top' ->
  exists l l', tag_level_issues top = Ok l /\ tag_level_issues top' = Ok l' /\ Permutation l l'.
Proof. exact placement_perm. Qed.
Print Assumptions C04_placement_invariant_order.

(* by construction: the placement rules do not read the spelling fields (see header) *)
Theorem C04_placement_invariant_spelling : forall top top',
  Respell top top' -> tag_level_issues top = tag_level_issues top'.
Proof. exact placement_respell. Qed.
Print Assumptions C04_placement_invariant_spelling.

(* the empty-group rule: an empty group "()" anywhere in the annotation is reported
   (HED_GROUP_EMPTY, published as TAG_EMPTY -- C04_empty_group_code), and only then *)
Theorem C04_empty_group_reported : forall top,
  existsb has_empty_group top = true ->
  exists iss, tag_level_issues top = Ok iss /\ In K_GROUP_EMPTY iss.
Proof. exact empty_group_reported. Qed.
Print Assumptions C04_empty_group_reported.

Theorem C04_empty_group_only : forall top,
  existsb has_empty_group top = false ->
  exists iss, tag_level_issues top = Ok iss /\ ~ In K_GROUP_EMPTY iss.
Proof. exact empty_group_only. Qed.
Print Assumptions C04_empty_group_only.

Theorem C04_empty_group_code : code_of K_GROUP_EMPTY = 1.   (* 1 = TAG_EMPTY in Gen/C04Codes.v *)
Proof. exact empty_group_code. Qed.
Print Assumptions C04_empty_group_code.

(* ---- unique / required tags, Duration / Delay groups ---- *)

Theorem C04_unique_required_invariant_order : forall nreq nuniq top top',
  PermForest top top' -> all_tags_issues nreq nuniq top = all_tags_issues nreq nuniq top'.
Proof. exact all_tags_issues_perm. Qed.
Print Assumptions C04_unique_required_invariant_order.

Theorem C04_duration_invariant_order : forall top top',
  PermForest top top' -> Permutation (validate_duration_tags top) (validate_duration_tags top').
Proof. exact duration_perm. Qed.
Print Assumptions C04_duration_invariant_order.

(* by construction: these rules do not read the spelling fields (see header) *)
Theorem C04_unique_required_duration_invariant_spelling : forall nreq nuniq top top',
  Respell top top' ->
  all_tags_issues nreq nuniq top = all_tags_issues nreq nuniq top' /\
  validate_duration_tags top = validate_duration_tags top'.
Proof. exact other_rules_respell. Qed.
Print Assumptions C04_unique_required_duration_invariant_spelling.

(* ---- duplicate detection ----
   The code as it is (Fx): invariance under sibling order and spelling, completeness at any
   depth and totality are proved below for all well-formed trees.

   RECORD OF REPAIRED DEFECTS.  The four theorems named *_refuted_* are about mode Orig /
   Half, i.e. about behaviour that is no longer in /repo; they document what the statement
     forall top top', PermForest top top' \/ Respell top top' ->
       dup_issue_count m top = dup_issue_count m top'
   was false of, and why each part of the repair is needed:
     refuted_order      behaviour before fix commit 7597eca (former finding C04-F1)
     refuted_spelling   behaviour before fix commit 2492808 (former finding C04-F2)
     count_refuted      behaviour before fix commit 2492808 (count depends on sibling order)
     refuted_half_fix   a partial repair that was never committed
   They do NOT say that the property is false of the implementation. *)

Theorem C04_dup_invariant_refuted_order :
  PermForest w_order_1 w_order_2 /\ forallb wft w_order_1 = true /\
  check_for_duplicate_groups Orig w_order_1 = Ok [] /\
  check_for_duplicate_groups Orig w_order_2 = Ok [K_TAG_REPEATED_GROUP].
Proof. exact dup_invariant_refuted_order. Qed.
Print Assumptions C04_dup_invariant_refuted_order.

Theorem C04_dup_invariant_refuted_spelling :
  Respell w_spell_1 w_spell_2 /\
  check_for_duplicate_groups Orig w_spell_1 = Ok [] /\
  check_for_duplicate_groups Orig w_spell_2 = Ok [K_TAG_REPEATED].
Proof. exact dup_invariant_refuted_spelling. Qed.
Print Assumptions C04_dup_invariant_refuted_spelling.

Theorem C04_dup_count_refuted_order :
  PermForest w_count_1 w_count_2 /\
  check_for_duplicate_groups Orig w_count_1 = Ok [K_TAG_REPEATED] /\
  check_for_duplicate_groups Orig w_count_2 = Ok [K_TAG_REPEATED; K_TAG_REPEATED].
Proof. exact dup_count_refuted_order. Qed.
Print Assumptions C04_dup_count_refuted_order.

(* a partial repair (never committed) that folds the equality and canonicalises the group
   key but keeps ordering tags by the case-sensitive text would still be order dependent;
   last two conjuncts: the code as it is reports the repeat in both orders *)
Theorem C04_dup_invariant_refuted_half_fix :
  check_for_duplicate_groups Half w_half_1 = Ok [] /\
  check_for_duplicate_groups Orig w_half_1 = Ok [] /\
  check_for_duplicate_groups Half [l_aB; l_ab] = Ok [K_TAG_REPEATED] /\
  check_for_duplicate_groups Fx w_half_1 = Ok [K_TAG_REPEATED] /\
  check_for_duplicate_groups Fx w_half_2 = Ok [K_TAG_REPEATED].
Proof. exact dup_invariant_refuted_half_fix. Qed.
Print Assumptions C04_dup_invariant_refuted_half_fix.

(* the code as it is *)
Theorem C04_dup_invariant_order_fixed : forall top top',
  PermForest top top' -> forallb wft top = true ->
  exists iss, check_for_duplicate_groups Fx top = Ok iss /\
              check_for_duplicate_groups Fx top' = Ok iss.
Proof. exact check_dup_perm_fixed. Qed.
Print Assumptions C04_dup_invariant_order_fixed.

Theorem C04_dup_count_invariant_order_fixed : forall top top',
  PermForest top top' -> forallb wft top = true ->
  exists n, dup_issue_count Fx top = Some n /\ dup_issue_count Fx top' = Some n.
Proof. exact dup_count_perm_fixed. Qed.
Print Assumptions C04_dup_count_invariant_order_fixed.

(* a result, not by construction: the sort key and the equality read the spelled text
   (before fix commit 2492808 the outcome depended on it: C04_dup_invariant_refuted_spelling) *)
Theorem C04_dup_invariant_spelling_fixed : forall top top',
  Respell top top' -> forallb wft top = true ->
  exists iss, check_for_duplicate_groups Fx top = Ok iss /\
              check_for_duplicate_groups Fx top' = Ok iss.
Proof. exact check_dup_respell_fixed. Qed.
Print Assumptions C04_dup_invariant_spelling_fixed.

(* "a repeated tag or group is reported no matter where the two copies sit or how their own
   members are ordered": two members a, b of the top level or of ANY group at any depth
   (all_levels top) that are equal up to recursive reordering or spelling are reported -- as
   K_TAG_REPEATED when they are tags, as K_TAG_REPEATED_GROUP when they are groups *)
Theorem C04_dup_complete_fixed : forall top g l1 a l2 b l3,
  forallb wft top = true -> In g (all_levels top) -> g = l1 ++ a :: l2 ++ b :: l3 ->
  (PermTree a b \/ strip a = strip b) ->
  exists iss, check_for_duplicate_groups Fx top = Ok iss /\ In (kind_of_tree a) iss.
Proof. exact check_dup_complete_fixed. Qed.
Print Assumptions C04_dup_complete_fixed.

(* since fix commit 3e47c8c the duplicate check, the group rules and the full-string
   checks are total (no hypothesis on the annotation) *)
Theorem C04_dup_check_never_raises : forall top, exists iss, check_for_duplicate_groups Fx top = Ok iss.
Proof. exact check_dup_never_raises. Qed.
Print Assumptions C04_dup_check_never_raises.

Theorem C04_group_rules_never_raise : forall nreq nuniq top, exists iss, group_checks Fx nreq nuniq top = Ok iss.
Proof. exact group_checks_never_raise. Qed.
Print Assumptions C04_group_rules_never_raise.

Theorem C04_full_string_checks_never_raise : forall nreq nuniq top,
  exists iss, full_string_checks Fx nreq nuniq top = Ok iss.
Proof. exact full_checks_never_raise. Qed.
Print Assumptions C04_full_string_checks_never_raise.

(* the text key of the canonical sort (HedGroup._sort_key) can be decoded uniquely *)
Theorem C04_canonical_key_injective : forall v w,
  wfc (canon v) = true -> wfc (canon w) = true -> vkey Fx v = vkey Fx w -> veq Fx v w = true.
Proof. exact vkey_injective. Qed.
Print Assumptions C04_canonical_key_injective.

(* What the check needs of the key of the second (canonical) sort, with the
   sorted view recomputed for an ARBITRARY key ([sorted_view_k]; the code as it
   is is the instance key = _sort_key = vkey Fx):
   a key that only depends on the canonical form and separates well-formed
   canonical forms -- in particular groups that differ only in nesting --
   gives order invariance ... *)
Theorem C04_dup_invariant_order_any_injective_key :
  forall (key : view -> str) (kc : cview -> str),
  (forall v, key v = kc (canon v)) ->
  (forall c d, wfc c = true -> wfc d = true -> kc c = kc d -> c = d) ->
  forall top top', PermForest top top' -> forallb wft top = true ->
  dup_p Fx (VL (sorted_view_k key top)) = dup_p Fx (VL (sorted_view_k key top')).
Proof. exact dup_perm_good_key. Qed.
Print Assumptions C04_dup_invariant_order_any_injective_key.

(* ... the real key is such a key and sorted_view_k instantiates to the model ... *)
Theorem C04_real_key_is_good :
  (forall v, vkey Fx v = ckey (canon v)) /\
  (forall c d, wfc c = true -> wfc d = true -> ckey c = ckey d -> c = d).
Proof. exact real_key_is_good. Qed.
Print Assumptions C04_real_key_is_good.

Theorem C04_sorted_view_k_real : forall top, sorted_view_k (vkey Fx) top = sorted_view Fx top.
Proof. exact sorted_view_k_real. Qed.
Print Assumptions C04_sorted_view_k_real.

(* ... and a key that forgets nesting (the flattened case-folded tags) is not
   injective and makes the check order dependent again *)
Theorem C04_dup_invariant_refuted_flat_key :
  PermForest w_flat_1 w_flat_2 /\ forallb wft w_flat_1 = true /\
  flatkey (sv_k flatkey (G [Blue; G [Red]])) = flatkey (sv_k flatkey (G [G [Red; Blue]])) /\
  dup_p Fx (VL (sorted_view_k flatkey w_flat_1)) = [] /\
  dup_p Fx (VL (sorted_view_k flatkey w_flat_2)) = [K_TAG_REPEATED_GROUP] /\
  check_for_duplicate_groups Fx w_flat_1 = Ok [K_TAG_REPEATED_GROUP] /\
  check_for_duplicate_groups Fx w_flat_2 = Ok [K_TAG_REPEATED_GROUP].
Proof. exact dup_invariant_refuted_flat_key. Qed.
Print Assumptions C04_dup_invariant_refuted_flat_key.

(* ... and so does a key that normalises VALUES (here: ignores the character "0", the effect of
   zero-padding digit runs): Duration/3.5 s and Duration/3.05 s get one key, and the look-alike
   sibling separates two differently written copies.  The key of the code as it is reports both. *)
Theorem C04_dup_invariant_refuted_value_normalising_key :
  PermForest w_zero_1 w_zero_2 /\ forallb wft w_zero_1 = true /\
  zerokey (sv_k zerokey (G [D35; G [Red]])) = zerokey (sv_k zerokey (G [D305; G [Red]])) /\
  dup_p Fx (VL (sorted_view_k zerokey w_zero_1)) = [] /\
  dup_p Fx (VL (sorted_view_k zerokey w_zero_2)) = [K_TAG_REPEATED_GROUP] /\
  check_for_duplicate_groups Fx w_zero_1 = Ok [K_TAG_REPEATED_GROUP] /\
  check_for_duplicate_groups Fx w_zero_2 = Ok [K_TAG_REPEATED_GROUP].
Proof. exact dup_invariant_refuted_value_normalising_key. Qed.
Print Assumptions C04_dup_invariant_refuted_value_normalising_key.

(* the model of list.sort is a stable sort *)
Theorem C04_sort_is_stable_sort : forall (l : list (str * view)),
  Permutation (sort_k l) l /\
  StronglySorted (fun p q => str_leb (fst p) (fst q) = true) (sort_k l) /\
  forall k, filter (fun p => str_eqb (fst p) k) (sort_k l) = filter (fun p => str_eqb (fst p) k) l.
Proof. exact sort_k_is_stable_sort. Qed.
Print Assumptions C04_sort_is_stable_sort.

(* ---- all group rules together ---- *)

(* the code as it is: the multiset of issues (hence of published codes) is
   unchanged by sibling reordering ... *)
Theorem C04_group_rules_invariant_order_fixed : forall nreq nuniq top top',
  PermForest top top' -> forallb wft top = true ->
  exists l l', group_checks Fx nreq nuniq top = Ok l /\ group_checks Fx nreq nuniq top' = Ok l' /\
               Permutation l l'.
Proof. exact group_checks_perm_fixed. Qed.
Print Assumptions C04_group_rules_invariant_order_fixed.

(* ... and by respelling *)
Theorem C04_group_rules_invariant_spelling_fixed : forall nreq nuniq top top',
  Respell top top' -> forallb wft top = true ->
  exists l, group_checks Fx nreq nuniq top = Ok l /\ group_checks Fx nreq nuniq top' = Ok l.
Proof. exact group_checks_respell_fixed. Qed.
Print Assumptions C04_group_rules_invariant_spelling_fixed.

(* for EVERY state m of the duplicate check (before or after the fix commits): everything
   except the duplicate reports is invariant -- the repaired defects were confined to the
   duplicate check *)
Theorem C04_group_rules_invariant_order_partial : forall m nreq nuniq top top',
  PermForest top top' ->
  forall d d', check_for_duplicate_groups m top = Ok d -> check_for_duplicate_groups m top' = Ok d' ->
  exists l l', group_checks m nreq nuniq top = Ok (l ++ d ++ validate_duration_tags top) /\
               group_checks m nreq nuniq top' = Ok (l' ++ d' ++ validate_duration_tags top') /\
               Permutation l l' /\
               Permutation (validate_duration_tags top) (validate_duration_tags top').
Proof. exact group_checks_perm_except_dups. Qed.
Print Assumptions C04_group_rules_invariant_order_partial.

(* ---- the shape rule of Onset / Inset / Offset groups (DefValidator.validate_onset_offset) ----
   okl top: every tag recognised as a temporal key by its case-folded
   short_base_tag also is one by its short_base_tag, and every Def / Def-expand
   name is declared with the right placeholder use (t_def = 0: what the basic
   phase guarantees before the full-string checks run).
   Full statement without the second hypothesis is FALSE (refuted below; not
   reachable through HedString.validate). *)
Theorem C04_onset_invariant_order : forall top top',
  PermForest top top' -> okl top = true ->
  map code_of (validate_onset_offset top) = map code_of (validate_onset_offset top').
Proof. exact onset_perm. Qed.
Print Assumptions C04_onset_invariant_order.

(* by construction: the rule does not read the spelling fields (see header) *)
Theorem C04_onset_invariant_spelling : forall top top',
  Respell top top' -> validate_onset_offset top = validate_onset_offset top'.
Proof. exact onset_respell. Qed.
Print Assumptions C04_onset_invariant_spelling.

Theorem C04_onset_order_refuted_unresolved_def :
  PermForest w_onset_1 w_onset_2 /\
  validate_onset_offset w_onset_1 = [K_ONSET_TAG_OUTSIDE_OF_GROUP; K_ONSET_DEF_UNMATCHED] /\
  validate_onset_offset w_onset_2 = [K_ONSET_WRONG_NUMBER_GROUPS].
Proof. exact onset_order_refuted_unresolved_def. Qed.
Print Assumptions C04_onset_order_refuted_unresolved_def.

(* HedValidator.run_full_string_checks as a whole (the code as it is): the multiset of
   published codes is unchanged by sibling reordering, the list by respelling *)
Theorem C04_full_string_checks_invariant_order_fixed : forall nreq nuniq top top',
  PermForest top top' -> forallb wft top = true -> okl top = true ->
  exists l l', full_string_checks Fx nreq nuniq top = Ok l /\ full_string_checks Fx nreq nuniq top' = Ok l' /\
               Permutation (map code_of l) (map code_of l').
Proof. exact full_checks_perm_fixed. Qed.
Print Assumptions C04_full_string_checks_invariant_order_fixed.

Theorem C04_full_string_checks_invariant_spelling_fixed : forall nreq nuniq top top',
  Respell top top' -> forallb wft top = true ->
  exists l, full_string_checks Fx nreq nuniq top = Ok l /\ full_string_checks Fx nreq nuniq top' = Ok l.
Proof. exact full_checks_respell_fixed. Qed.
Print Assumptions C04_full_string_checks_invariant_spelling_fixed.

(* ---- sessions: rows validated one after the other with one object ----
   BY CONSTRUCTION OF THE MODEL: session_step returns the session object unchanged, because
   the modelled rules (GroupValidator, DefValidator.validate_onset_offset, HedGroup, HedTag)
   assign to nothing that outlives a call.  C04_session_state_constant and
   C04_history_independent are therefore immediate from the definition, and
   C04_history_order_invariant / _spelling_invariant restate the theorems above after an
   arbitrary history; they record the claim, they do not establish it for the implementation.
   What could carry history in the implementation is the schema object behind tag resolution
   (an input of this model): that it does not is TESTED by the history stream of
   harness/c04.py (one schema object over a sequence of annotations vs a fresh one). *)
Theorem C04_history_independent : forall s h row,
  nth (length h) (snd (session_run s (h ++ [row]))) (Exn Unmodelled)
  = group_checks (s_mode s) (s_nreq s) (s_nuniq s) row.
Proof. exact history_independent. Qed.
Print Assumptions C04_history_independent.

Theorem C04_session_state_constant : forall s rows, fst (session_run s rows) = s.
Proof. exact session_state_constant. Qed.
Print Assumptions C04_session_state_constant.

Theorem C04_history_order_invariant : forall nreq nuniq h h' top top',
  PermForest top top' -> forallb wft top = true ->
  exists l l',
    nth (length h) (snd (session_run (fixed_session nreq nuniq) (h ++ [top]))) (Exn Unmodelled) = Ok l /\
    nth (length h') (snd (session_run (fixed_session nreq nuniq) (h' ++ [top']))) (Exn Unmodelled) = Ok l' /\
    Permutation l l'.
Proof. exact history_order_invariant. Qed.
Print Assumptions C04_history_order_invariant.

Theorem C04_history_spelling_invariant : forall nreq nuniq h h' top top',
  Respell top top' -> forallb wft top = true ->
  exists l,
    nth (length h) (snd (session_run (fixed_session nreq nuniq) (h ++ [top]))) (Exn Unmodelled) = Ok l /\
    nth (length h') (snd (session_run (fixed_session nreq nuniq) (h' ++ [top']))) (Exn Unmodelled) = Ok l.
Proof. exact history_spelling_invariant. Qed.
Print Assumptions C04_history_spelling_invariant.

(* non-vacuity: a depth-3 annotation with a planted reordered duplicate meets the hypotheses *)
Example C04_nonvacuous :
  forallb wft ex_nested = true /\ forallb noempty_t ex_nested = true /\
  PermForest ex_nested ex_nested' /\
  check_for_duplicate_groups Fx ex_nested = Ok [K_TAG_REPEATED_GROUP] /\
  check_for_duplicate_groups Fx ex_nested' = Ok [K_TAG_REPEATED_GROUP].
Proof. exact ex_nested_ok. Qed.

(* RECORD of the defect repaired by fix commit 3e47c8c (mode Orig, not in /repo any more):
   before it the check raised IndexError on a repeated group that begins with an empty group *)
Example C04_dup_raised_on_empty_group_before_fix_3e47c8c :
  check_for_duplicate_groups Orig [G []; G []] = Exn IndexError.
Proof. exact dup_raises_on_empty_group. Qed.

(* the code as it is reports them:  (),()   (()),(())   ((),(Red)),((Red),()) *)
Example C04_dup_reports_repeated_empty_groups :
  check_for_duplicate_groups Fx [G []; G []] = Ok [K_TAG_REPEATED_GROUP] /\
  check_for_duplicate_groups Fx [G [G []]; G [G []]] = Ok [K_TAG_REPEATED_GROUP] /\
  check_for_duplicate_groups Fx [G [G []; G [Red]]; G [G [Red]; G []]] = Ok [K_TAG_REPEATED_GROUP].
Proof. exact dup_total_on_empty_groups. Qed.

(* non-vacuity of C04_dup_complete_fixed below the top level: a reordered copy two levels down *)
Example C04_nonvacuous_deep :
  forallb wft ex_deep = true /\
  In [G [Red; Blue]; Green; G [Blue; Red]] (all_levels ex_deep) /\
  check_for_duplicate_groups Fx ex_deep = Ok [K_TAG_REPEATED_GROUP].
Proof. exact ex_deep_ok. Qed.
