(* C04 -- Validation outcome does not depend on how an annotation is written.
   Property theorems only; each closed with [exact] and followed by
   Print Assumptions.

   Vocabulary (Model/Dups.v, Proofs/Dups*.v):
     PermForest top top'  siblings reordered at any level of the annotation
     Respell top top'     same annotation after forgetting the spelling of every
                          tag (short_tag, original text); the folded short form
                          and the attributes of the resolved node are kept
     Fx / Orig            the repaired duplicate check (canonical folded sort
                          key, folded short-form equality) / the code as it is
     wft                  folded short forms are non-empty and free of ",()"
     noempty_t            no empty group *)
From Coq Require Import List NArith Permutation Sorted.
From HV Require Import Base.Res Base.Str Model.Dups Gen.C04Codes
  Proofs.DupsProofs Proofs.DupsCount Proofs.DupsRules Proofs.DupsKey Proofs.DupsSession Proofs.DupsOnset.
Import ListNotations.

(* ---- placement rules (tagGroup / topLevelTagGroup / several top-level tags / empty group) ---- *)

Theorem C04_placement_never_raises : forall top, exists l, tag_level_issues top = Ok l.
Proof. exact placement_never_raises. Qed.
Print Assumptions C04_placement_never_raises.

Theorem C04_placement_invariant_order : forall top top',
  PermForest top top' ->
  exists l l', tag_level_issues top = Ok l /\ tag_level_issues top' = Ok l' /\ Permutation l l'.
Proof. exact placement_perm. Qed.
Print Assumptions C04_placement_invariant_order.

Theorem C04_placement_invariant_spelling : forall top top',
  Respell top top' -> tag_level_issues top = tag_level_issues top'.
Proof. exact placement_respell. Qed.
Print Assumptions C04_placement_invariant_spelling.

(* ---- unique / required tags, Duration / Delay groups ---- *)

Theorem C04_unique_required_invariant_order : forall nreq nuniq top top',
  PermForest top top' -> all_tags_issues nreq nuniq top = all_tags_issues nreq nuniq top'.
Proof. exact all_tags_issues_perm. Qed.
Print Assumptions C04_unique_required_invariant_order.

Theorem C04_duration_invariant_order : forall top top',
  PermForest top top' -> Permutation (validate_duration_tags top) (validate_duration_tags top').
Proof. exact duration_perm. Qed.
Print Assumptions C04_duration_invariant_order.

Theorem C04_unique_required_duration_invariant_spelling : forall nreq nuniq top top',
  Respell top top' ->
  all_tags_issues nreq nuniq top = all_tags_issues nreq nuniq top' /\
  validate_duration_tags top = validate_duration_tags top'.
Proof. exact other_rules_respell. Qed.
Print Assumptions C04_unique_required_duration_invariant_spelling.

(* ---- duplicate detection ----
   Full statement (FALSE of the code as it is):
     forall top top', PermForest top top' \/ Respell top top' ->
       dup_issue_count Orig top = dup_issue_count Orig top'.
   Refuted below by three witnesses; proved for the repaired variant Fx. *)

Theorem C04_dup_invariant_refuted_order :
  PermForest w_order_1 w_order_2 /\ forallb wft w_order_1 = true /\
  check_for_duplicate_groups Orig w_order_1 = Ok [] /\
  check_for_duplicate_groups Orig w_order_2 = Ok [K_TAG_REPEATED_GROUP].
Proof. exact dup_invariant_refuted_order. Qed.
Print Assumptions C04_dup_invariant_refuted_order.

Theorem C04_dup_invariant_refuted_spelling :
  Respell w_spell_1 w_spell_2 /\
  check_for_duplicate_groups Orig w_spell_1 = Ok [] /\
  check_for_duplicate_groups Orig w_spell_2 = Ok [K_TAG_REPEATED].
Proof. exact dup_invariant_refuted_spelling. Qed.
Print Assumptions C04_dup_invariant_refuted_spelling.

Theorem C04_dup_count_refuted_order :
  PermForest w_count_1 w_count_2 /\
  check_for_duplicate_groups Orig w_count_1 = Ok [K_TAG_REPEATED] /\
  check_for_duplicate_groups Orig w_count_2 = Ok [K_TAG_REPEATED; K_TAG_REPEATED].
Proof. exact dup_count_refuted_order. Qed.
Print Assumptions C04_dup_count_refuted_order.

(* a repair that folds the equality and canonicalises the group key but keeps
   ordering tags by the case-sensitive text is still order dependent *)
Theorem C04_dup_invariant_refuted_half_fix :
  check_for_duplicate_groups Half w_half_1 = Ok [] /\
  check_for_duplicate_groups Orig w_half_1 = Ok [] /\
  check_for_duplicate_groups Half [l_aB; l_ab] = Ok [K_TAG_REPEATED] /\
  check_for_duplicate_groups Fx w_half_1 = Ok [K_TAG_REPEATED] /\
  check_for_duplicate_groups Fx w_half_2 = Ok [K_TAG_REPEATED].
Proof. exact dup_invariant_refuted_half_fix. Qed.
Print Assumptions C04_dup_invariant_refuted_half_fix.

Theorem C04_dup_invariant_order_fixed : forall top top',
  PermForest top top' -> forallb wft top = true -> forallb noempty_t top = true ->
  exists iss, check_for_duplicate_groups Fx top = Ok iss /\
              check_for_duplicate_groups Fx top' = Ok iss.
Proof. exact check_dup_perm_fixed. Qed.
Print Assumptions C04_dup_invariant_order_fixed.

Theorem C04_dup_count_invariant_order_fixed : forall top top',
  PermForest top top' -> forallb wft top = true -> forallb noempty_t top = true ->
  exists n, dup_issue_count Fx top = Some n /\ dup_issue_count Fx top' = Some n.
Proof. exact dup_count_perm_fixed. Qed.
Print Assumptions C04_dup_count_invariant_order_fixed.

Theorem C04_dup_invariant_spelling_fixed : forall top top',
  Respell top top' -> forallb wft top = true -> forallb noempty_t top = true ->
  exists iss, check_for_duplicate_groups Fx top = Ok iss /\
              check_for_duplicate_groups Fx top' = Ok iss.
Proof. exact check_dup_respell_fixed. Qed.
Print Assumptions C04_dup_invariant_spelling_fixed.

(* two siblings equal up to recursive reordering or spelling are reported *)
Theorem C04_dup_complete_fixed : forall l1 a l2 b l3,
  let top := l1 ++ a :: l2 ++ b :: l3 in
  forallb wft top = true -> forallb noempty_t top = true ->
  (PermTree a b \/ strip a = strip b) ->
  exists k iss, check_for_duplicate_groups Fx top = Ok (k :: iss).
Proof. exact check_dup_complete_fixed. Qed.
Print Assumptions C04_dup_complete_fixed.

(* the text key of the repaired sort can be decoded uniquely *)
Theorem C04_canonical_key_injective : forall v w,
  wfc (canon v) = true -> wfc (canon w) = true -> vkey Fx v = vkey Fx w -> veq Fx v w = true.
Proof. exact vkey_injective. Qed.
Print Assumptions C04_canonical_key_injective.

(* What the check needs of the key of the second (canonical) sort, with the
   sorted view recomputed for an ARBITRARY key ([sorted_view_k]; the repaired
   code is the instance key = _sort_key = vkey Fx):
   a key that only depends on the canonical form and separates well-formed
   canonical forms -- in particular groups that differ only in nesting --
   gives order invariance ... *)
Theorem C04_dup_invariant_order_any_injective_key :
  forall (key : view -> str) (kc : cview -> str),
  (forall v, key v = kc (canon v)) ->
  (forall c d, wfc c = true -> wfc d = true -> kc c = kc d -> c = d) ->
  forall top top', PermForest top top' -> forallb wft top = true ->
  dup_p Fx (VL (sorted_view_k key top)) = dup_p Fx (VL (sorted_view_k key top')).
Proof. exact dup_perm_good_key. Qed.
Print Assumptions C04_dup_invariant_order_any_injective_key.

(* ... the real key is such a key and sorted_view_k instantiates to the model ... *)
Theorem C04_real_key_is_good :
  (forall v, vkey Fx v = ckey (canon v)) /\
  (forall c d, wfc c = true -> wfc d = true -> ckey c = ckey d -> c = d).
Proof. exact real_key_is_good. Qed.
Print Assumptions C04_real_key_is_good.

Theorem C04_sorted_view_k_real : forall top, sorted_view_k (vkey Fx) top = sorted_view Fx top.
Proof. exact sorted_view_k_real. Qed.
Print Assumptions C04_sorted_view_k_real.

(* ... and a key that forgets nesting (the flattened case-folded tags) is not
   injective and makes the check order dependent again *)
Theorem C04_dup_invariant_refuted_flat_key :
  PermForest w_flat_1 w_flat_2 /\ forallb wft w_flat_1 = true /\
  flatkey (sv_k flatkey (G [Blue; G [Red]])) = flatkey (sv_k flatkey (G [G [Red; Blue]])) /\
  dup_p Fx (VL (sorted_view_k flatkey w_flat_1)) = [] /\
  dup_p Fx (VL (sorted_view_k flatkey w_flat_2)) = [K_TAG_REPEATED_GROUP] /\
  check_for_duplicate_groups Fx w_flat_1 = Ok [K_TAG_REPEATED_GROUP] /\
  check_for_duplicate_groups Fx w_flat_2 = Ok [K_TAG_REPEATED_GROUP].
Proof. exact dup_invariant_refuted_flat_key. Qed.
Print Assumptions C04_dup_invariant_refuted_flat_key.

(* the model of list.sort is a stable sort *)
Theorem C04_sort_is_stable_sort : forall (l : list (str * view)),
  Permutation (sort_k l) l /\
  StronglySorted (fun p q => str_leb (fst p) (fst q) = true) (sort_k l) /\
  forall k, filter (fun p => str_eqb (fst p) k) (sort_k l) = filter (fun p => str_eqb (fst p) k) l.
Proof. exact sort_k_is_stable_sort. Qed.
Print Assumptions C04_sort_is_stable_sort.

(* ---- all group rules together ---- *)

(* repaired variant: the multiset of issues (hence of published codes) is
   unchanged by sibling reordering ... *)
Theorem C04_group_rules_invariant_order_fixed : forall nreq nuniq top top',
  PermForest top top' -> forallb wft top = true -> forallb noempty_t top = true ->
  exists l l', group_checks Fx nreq nuniq top = Ok l /\ group_checks Fx nreq nuniq top' = Ok l' /\
               Permutation l l'.
Proof. exact group_checks_perm_fixed. Qed.
Print Assumptions C04_group_rules_invariant_order_fixed.

(* ... and by respelling *)
Theorem C04_group_rules_invariant_spelling_fixed : forall nreq nuniq top top',
  Respell top top' -> forallb wft top = true -> forallb noempty_t top = true ->
  exists l, group_checks Fx nreq nuniq top = Ok l /\ group_checks Fx nreq nuniq top' = Ok l.
Proof. exact group_checks_respell_fixed. Qed.
Print Assumptions C04_group_rules_invariant_spelling_fixed.

(* the code as it is (any variant m): everything except the duplicate reports is invariant *)
Theorem C04_group_rules_invariant_order_partial : forall m nreq nuniq top top',
  PermForest top top' ->
  forall d d', check_for_duplicate_groups m top = Ok d -> check_for_duplicate_groups m top' = Ok d' ->
  exists l l', group_checks m nreq nuniq top = Ok (l ++ d ++ validate_duration_tags top) /\
               group_checks m nreq nuniq top' = Ok (l' ++ d' ++ validate_duration_tags top') /\
               Permutation l l' /\
               Permutation (validate_duration_tags top) (validate_duration_tags top').
Proof. exact group_checks_perm_except_dups. Qed.
Print Assumptions C04_group_rules_invariant_order_partial.

(* ---- the shape rule of Onset / Inset / Offset groups (DefValidator.validate_onset_offset) ----
   okl top: every tag recognised as a temporal key by its case-folded
   short_base_tag also is one by its short_base_tag, and every Def / Def-expand
   name is declared with the right placeholder use (t_def = 0: what the basic
   phase guarantees before the full-string checks run).
   Full statement without the second hypothesis is FALSE (refuted below; not
   reachable through HedString.validate). *)
Theorem C04_onset_invariant_order : forall top top',
  PermForest top top' -> okl top = true ->
  map code_of (validate_onset_offset top) = map code_of (validate_onset_offset top').
Proof. exact onset_perm. Qed.
Print Assumptions C04_onset_invariant_order.

Theorem C04_onset_invariant_spelling : forall top top',
  Respell top top' -> validate_onset_offset top = validate_onset_offset top'.
Proof. exact onset_respell. Qed.
Print Assumptions C04_onset_invariant_spelling.

Theorem C04_onset_order_refuted_unresolved_def :
  PermForest w_onset_1 w_onset_2 /\
  validate_onset_offset w_onset_1 = [K_ONSET_TAG_OUTSIDE_OF_GROUP; K_ONSET_DEF_UNMATCHED] /\
  validate_onset_offset w_onset_2 = [K_ONSET_WRONG_NUMBER_GROUPS].
Proof. exact onset_order_refuted_unresolved_def. Qed.
Print Assumptions C04_onset_order_refuted_unresolved_def.

(* HedValidator.run_full_string_checks as a whole (repaired code): the multiset of
   published codes is unchanged by sibling reordering, the list by respelling *)
Theorem C04_full_string_checks_invariant_order_fixed : forall nreq nuniq top top',
  PermForest top top' -> forallb wft top = true -> forallb noempty_t top = true -> okl top = true ->
  exists l l', full_string_checks Fx nreq nuniq top = Ok l /\ full_string_checks Fx nreq nuniq top' = Ok l' /\
               Permutation (map code_of l) (map code_of l').
Proof. exact full_checks_perm_fixed. Qed.
Print Assumptions C04_full_string_checks_invariant_order_fixed.

Theorem C04_full_string_checks_invariant_spelling_fixed : forall nreq nuniq top top',
  Respell top top' -> forallb wft top = true -> forallb noempty_t top = true ->
  exists l, full_string_checks Fx nreq nuniq top = Ok l /\ full_string_checks Fx nreq nuniq top' = Ok l.
Proof. exact full_checks_respell_fixed. Qed.
Print Assumptions C04_full_string_checks_invariant_spelling_fixed.

(* ---- sessions: rows validated one after the other with one object ----
   The group rules keep no state: the verdict of a row after any history is the
   verdict of the row alone, so the invariance theorems hold after any history.
   (Tag resolution is an input of the model; that the schema object does not
   remember earlier spellings is TESTED by the history oracle, not proved here.) *)
Theorem C04_history_independent : forall s h row,
  nth (length h) (snd (session_run s (h ++ [row]))) (Exn Unmodelled)
  = group_checks (s_mode s) (s_nreq s) (s_nuniq s) row.
Proof. exact history_independent. Qed.
Print Assumptions C04_history_independent.

Theorem C04_session_state_constant : forall s rows, fst (session_run s rows) = s.
Proof. exact session_state_constant. Qed.
Print Assumptions C04_session_state_constant.

Theorem C04_history_order_invariant : forall nreq nuniq h h' top top',
  PermForest top top' -> forallb wft top = true -> forallb noempty_t top = true ->
  exists l l',
    nth (length h) (snd (session_run (fixed_session nreq nuniq) (h ++ [top]))) (Exn Unmodelled) = Ok l /\
    nth (length h') (snd (session_run (fixed_session nreq nuniq) (h' ++ [top']))) (Exn Unmodelled) = Ok l' /\
    Permutation l l'.
Proof. exact history_order_invariant. Qed.
Print Assumptions C04_history_order_invariant.

Theorem C04_history_spelling_invariant : forall nreq nuniq h h' top top',
  Respell top top' -> forallb wft top = true -> forallb noempty_t top = true ->
  exists l,
    nth (length h) (snd (session_run (fixed_session nreq nuniq) (h ++ [top]))) (Exn Unmodelled) = Ok l /\
    nth (length h') (snd (session_run (fixed_session nreq nuniq) (h' ++ [top']))) (Exn Unmodelled) = Ok l.
Proof. exact history_spelling_invariant. Qed.
Print Assumptions C04_history_spelling_invariant.

(* non-vacuity: a depth-3 annotation with a planted reordered duplicate meets the hypotheses *)
Example C04_nonvacuous :
  forallb wft ex_nested = true /\ forallb noempty_t ex_nested = true /\
  PermForest ex_nested ex_nested' /\
  check_for_duplicate_groups Fx ex_nested = Ok [K_TAG_REPEATED_GROUP] /\
  check_for_duplicate_groups Fx ex_nested' = Ok [K_TAG_REPEATED_GROUP].
Proof. exact ex_nested_ok. Qed.

(* the check raises IndexError on a repeated group that begins with an empty group *)
Example C04_dup_raises_on_empty_group :
  check_for_duplicate_groups Orig [G []; G []] = Exn IndexError.
Proof. exact dup_raises_on_empty_group. Qed.
