(* C20 -- Temporal context of every event equals the set of processes ongoing at that time.
   Property theorems only; each closed with [exact] and followed by Print Assumptions.

   Vocabulary (Model/Events.v): a history [h] is the list of file rows (onset, top-level items);
   [event_manager h] is EventManager.__init__ on it.  Its output [o] has the time line [o_rows o]
   (after Delay shifting and merging of equal onsets), [o_events] (event_list), [o_base],
   [o_contexts], [o_hed] (hed_strings).  Times are integers in a fixed dyadic unit.
   [valid_timeline]: per time point a definition name occurs in at most one Onset/Offset group and
   every Offset finds a process of its name open (what the onset validator enforces).
   All theorems are for ALL histories (no bound on length, names, times).
   "The code" is the CURRENT /repo: stable sort of equal onsets (fix commit 29fcd01), unconvertible
   Delay groups stay in their row (ef31cc7, e4bce88), Onset/Offset markers recognised by short base
   tag also under a schema namespace (4d37e17).  No theorem here is a refutation of the property;
   C20_ghost_row_context and C20_reuse_changes_store are contrasts/observations, labelled as such. *)
From Coq Require Import List NArith ZArith Arith Bool.
From HV Require Import Base.Res Model.Events Model.EventQueries Proofs.EventsProofs Proofs.EventsTime
  Proofs.EventQueriesProofs Proofs.EventsAudit.
Import ListNotations.

(* Files whose onsets are not non-decreasing are rejected (HedFileError).  This direction is the
   first test of the model's [event_manager] (a transcription of the first statement of
   EventManager.__init__), i.e. it holds by construction of the model; what ties it to the code is
   the correspondence run. *)
Theorem C20_unordered_rejected : forall h,
  mono (map r_onset h) = false -> event_manager h = Exn HedFileError.
Proof. exact unordered_rejected. Qed.
Print Assumptions C20_unordered_rejected.

(* The converse has content: HedFileError is raised for NOTHING else -- whatever else goes wrong in an
   ordered file (an Offset without open process is a KeyError) it is never reported as "onsets not
   ordered" (every partial operation of the loops is followed through). *)
Theorem C20_rejected_iff_unordered : forall h,
  event_manager h = Exn HedFileError <-> mono (map r_onset h) = false.
Proof. exact rejected_iff_unordered. Qed.
Print Assumptions C20_rejected_iff_unordered.

(* ... and every valid time-ordered file is accepted: no exception of any kind (no KeyError from an
   Offset, no IndexError from contexts[i] or onsets[mid], bisection terminates). *)
Theorem C20_valid_accepted : forall h,
  mono (map r_onset h) = true -> valid_timeline (split_delay_tags h) ->
  exists o, event_manager h = Ok o.
Proof. exact valid_accepted. Qed.
Print Assumptions C20_valid_accepted.

(* The manager's rows ARE the Delay-shifted, merged time line, so the hypothesis
   [valid_timeline (o_rows o)] of the theorems below is the hypothesis of C20_valid_accepted; the
   accepted manager of a valid file satisfies it (and C20_rows_valid_instance shows a concrete one). *)
Theorem C20_rows_are_time_line : forall h o, event_manager h = Ok o -> o_rows o = split_delay_tags h.
Proof. exact em_rows. Qed.
Print Assumptions C20_rows_are_time_line.

Theorem C20_valid_accepted_rows : forall h,
  mono (map r_onset h) = true -> valid_timeline (split_delay_tags h) ->
  exists o, event_manager h = Ok o /\ o_rows o = split_delay_tags h /\ valid_timeline (o_rows o).
Proof. exact valid_accepted_rows. Qed.
Print Assumptions C20_valid_accepted_rows.

Theorem C20_rows_valid_instance :
  exists o, event_manager ex_history = Ok o /\ o_rows o = split_delay_tags ex_history /\
            valid_timeline (o_rows o).
Proof. exact ex_history_rows_valid. Qed.
Print Assumptions C20_rows_valid_instance.

(* Entries come in time order; rows that share an onset act as one time point (only the first of
   them carries annotation); every top-level group of the file sits at exactly its row's onset plus
   its Delay, and nothing else appears (Delay-shifted groups start at their shifted time). *)
Theorem C20_time_line : forall h o, event_manager h = Ok o ->
  mono (map r_onset h) = true /\
  mono (map r_onset (o_rows o)) = true /\
  (forall i j ri rj, nth_error (o_rows o) i = Some ri -> nth_error (o_rows o) j = Some rj ->
     i < j -> r_onset ri = r_onset rj -> r_items rj = []) /\
  (forall t it, In (t, it) (timed (o_rows o)) <->
     exists r, In r h /\ In it (r_items r) /\ t = (delay_of it + r_onset r)%Z).
Proof. exact em_time_line. Qed.
Print Assumptions C20_time_line.

(* The order inside a time point is the file order (the sort is stable): a time point holds what the
   rows of that time hold after Delay shifting -- first the rows without their Delay groups in file
   order, then the Delay-shifted groups in file order. *)
Theorem C20_time_point_order : forall h o i r,
  event_manager h = Ok o -> nth_error (o_rows o) i = Some r -> time_point (o_rows o) i ->
  r_items r = concat (map r_items (filter (same_onset (r_onset r)) (shifted_rows h))).
Proof. exact time_point_items. Qed.
Print Assumptions C20_time_point_order.

(* Each started process is listed at its start point: the events of row i are exactly its Onset
   groups followed by its Duration groups, in file order, with start index i and the row's time;
   [base] lists the same events; and there are no other events anywhere. *)
Theorem C20_started_listed : forall h o, event_manager h = Ok o -> valid_timeline (o_rows o) ->
  forall i r, nth_error (o_rows o) i = Some r ->
    map ev_item (nth i (o_events o) []) =
      filter is_onset_item (r_items r) ++ filter is_duration_item (r_items r) /\
    Forall (fun e => ev_start e = i /\ ev_start_time e = r_onset r) (nth i (o_events o) []) /\
    nth i (o_base o) [] = nth i (o_events o) [].
Proof. exact em_started_listed. Qed.
Print Assumptions C20_started_listed.

Theorem C20_every_event_listed : forall h o, event_manager h = Ok o -> valid_timeline (o_rows o) ->
  forall e, In e (all_events o) ->
    exists i r, nth_error (o_rows o) i = Some r /\ In e (nth i (o_events o) []) /\ ev_start e = i /\
      In (ev_item e) (r_items r).
Proof. exact em_every_event_listed. Qed.
Print Assumptions C20_every_event_listed.

(* A process started by an Onset lasts until the next Onset or Offset of the same name (no row
   strictly between marks the name, row j does and gives the end time), or else to the end of the
   file (j = number of rows, no end time). *)
Theorem C20_end_onset : forall h o, event_manager h = Ok o -> valid_timeline (o_rows o) ->
  forall e a, In e (all_events o) -> it_kind (ev_item e) = KOnset a ->
    exists j, ev_end e = Some j /\ ev_start e < j /\ j <= length (o_rows o) /\
      (forall k r, ev_start e < k -> k < j -> nth_error (o_rows o) k = Some r -> row_marks a r = false) /\
      (j < length (o_rows o) ->
         exists r, nth_error (o_rows o) j = Some r /\ row_marks a r = true /\ ev_end_time e = Some (r_onset r)) /\
      (j = length (o_rows o) -> ev_end_time e = None).
Proof. exact em_end_onset. Qed.
Print Assumptions C20_end_onset.

(* A process given by a Duration group lasts until the first time point at or after
   start + duration, or else to the end of the file. *)
Theorem C20_end_duration : forall h o, event_manager h = Ok o -> valid_timeline (o_rows o) ->
  forall e d, In e (all_events o) -> it_kind (ev_item e) = KDuration d ->
    exists j, ev_end e = Some j /\ j <= length (o_rows o) /\
      ev_end_time e = Some (ev_start_time e + d)%Z /\
      (forall k, k < j -> (nth k (map r_onset (o_rows o)) 0 < ev_start_time e + d)%Z) /\
      (forall k, j <= k -> k < length (o_rows o) -> (ev_start_time e + d <= nth k (map r_onset (o_rows o)) 0)%Z).
Proof. exact em_end_duration. Qed.
Print Assumptions C20_end_duration.

(* The context of row i is exactly the set of processes that started strictly earlier and have
   not ended ... *)
Theorem C20_context_iff : forall h o, event_manager h = Ok o -> valid_timeline (o_rows o) ->
  forall i e,
    In e (nth i (o_contexts o) []) <-> In e (all_events o) /\ ev_start e < i /\ i < ev_end_index e.
Proof. exact em_context_iff. Qed.
Print Assumptions C20_context_iff.

(* [ev_end_index] reads the end index of an event and would give 0 for an event without one; that case
   does not occur: every listed event of a valid file has an end index (at most the number of rows),
   and the context can be stated with it explicitly. *)
Theorem C20_every_event_ended : forall h o, event_manager h = Ok o -> valid_timeline (o_rows o) ->
  forall e, In e (all_events o) ->
    exists j, ev_end e = Some j /\ j <= length (o_rows o) /\ ev_end_index e = j.
Proof. exact every_event_ended. Qed.
Print Assumptions C20_every_event_ended.

Theorem C20_context_iff_end : forall h o, event_manager h = Ok o -> valid_timeline (o_rows o) ->
  forall i e,
    In e (nth i (o_contexts o) []) <->
    In e (all_events o) /\ exists j, ev_end e = Some j /\ ev_start e < i /\ i < j.
Proof. exact context_iff_end. Qed.
Print Assumptions C20_context_iff_end.

(* ... as a list: those events, once each, in event_list order. *)
Theorem C20_context_eq : forall h o, event_manager h = Ok o -> valid_timeline (o_rows o) ->
  forall i, nth i (o_contexts o) [] =
            filter (fun e => (ev_start e <? i) && (i <? ev_end_index e)) (all_events o).
Proof. exact em_context_eq. Qed.
Print Assumptions C20_context_eq.

(* The same in terms of TIME, as the property states it: at a time point (the first row with its
   onset) the context is exactly the processes that started strictly earlier and have not ended
   (no end time = lasts to the end of the file; otherwise the end time is strictly later). *)
Theorem C20_context_time_iff : forall h o, event_manager h = Ok o -> valid_timeline (o_rows o) ->
  forall i e, time_point (o_rows o) i ->
    (In e (nth i (o_contexts o) []) <->
     In e (all_events o) /\ (ev_start_time e < nth i (map r_onset (o_rows o)) 0)%Z /\
     (forall te, ev_end_time e = Some te -> (nth i (map r_onset (o_rows o)) 0 < te)%Z)).
Proof. exact context_time_iff. Qed.
Print Assumptions C20_context_time_iff.

(* The hypothesis [time_point] is needed: the later rows of one time point (emptied by the merge)
   get, as context, also the processes that start at that very time.  Such rows are not time
   points of the property; recorded as an observation about the implementation. *)
Theorem C20_ghost_row_context :
  exists h o i e, event_manager h = Ok o /\ valid_timeline (o_rows o) /\
    In e (nth i (o_contexts o) []) /\ ev_start_time e = nth i (map r_onset (o_rows o)) 0%Z.
Proof. exact ghost_row_context. Qed.
Print Assumptions C20_ghost_row_context.

(* The remaining annotation of each point is kept without the temporal groups.  In this row-level form
   the statement restates how the model computes [o_hed] (what is left after both extractors removed
   their groups), i.e. it holds by construction of the model and is tied to the code by the
   correspondence run; C20_remaining_from_file below is the statement in terms of the FILE. *)
Theorem C20_remaining_kept : forall h o, event_manager h = Ok o ->
  o_hed o = map (fun r => filter is_plain (r_items r)) (o_rows o).
Proof. exact em_remaining. Qed.
Print Assumptions C20_remaining_kept.

(* In terms of the file: an item is in the remaining annotation of a row with onset t exactly when it
   is a non-temporal top-level item of some file row whose onset plus the item's Delay is t (nothing
   lost, nothing invented, nothing temporal left; holds for every accepted file, valid or not). *)
Theorem C20_remaining_from_file : forall h o, event_manager h = Ok o ->
  forall t it,
    (exists i r, nth_error (o_rows o) i = Some r /\ r_onset r = t /\ In it (nth i (o_hed o) [])) <->
    (is_plain it = true /\ exists r, In r h /\ In it (r_items r) /\ t = (delay_of it + r_onset r)%Z).
Proof. exact remaining_from_file. Qed.
Print Assumptions C20_remaining_from_file.

(* "The remaining annotation of each point is kept", across consumers: for ANY sequence of reports
   asked of one constructed manager (unfold_context / tag-manager objects with any remove_types, or
   the stored strings; Model/EventQueries.v: objects in a store, _filter_hed edits a fresh copy), and
   for any effect [strip] of type removal on an item: no query raises, the manager's stored row
   annotations are unchanged, and every answer is the one the freshly constructed manager gives to
   that query alone.  (The implementation side of this clause is tested: consumer histories against a
   freshly built manager.) *)
Theorem C20_queries_history_independent :
  forall (strip : list N -> bool -> item -> list item) (o : output) (qs : list query),
  exists s' answers,
    run_history strip (manager_of o) (store_of o) qs = Ok (s', answers) /\
    firstn (length (store_of o)) s' = store_of o /\
    Forall2 (fun q a => exists s1, run_query strip (manager_of o) (store_of o) q = Ok (s1, a)) qs answers.
Proof. exact history_independent. Qed.
Print Assumptions C20_queries_history_independent.

(* Contrast (why the copy in _filter_hed matters): a variant that edits the stored object changes
   what the manager holds after one filtered report. *)
Theorem C20_reuse_changes_store :
  exists (s : store) s' r, filter_hed_obj_reuse drop_typed s 0 [7%N] false = Ok (s', r) /\
                          read s' 0 <> read s 0.
Proof. exact reuse_changes_store. Qed.
Print Assumptions C20_reuse_changes_store.

(* Tag spelling (for instance a schema namespace prefix 'ts:' on every tag) only changes the opaque
   payload of the items; on the example history, relabelling every payload relabels the output and
   changes nothing else (kernel evaluation of one instance; that the implementation treats a
   namespaced schema like the plain one is checked by the correspondence run). *)
Example C20_relabel_instance :
  event_manager (map (relabel_row (N.add 100)) ex_history) =
  match event_manager ex_history with Ok o => Ok (relabel_out (N.add 100) o) | Exn e => Exn e end.
Proof. exact relabel_example. Qed.

(* Duration ends are found by bisection: on any non-decreasing onset list bisect_left never raises,
   needs no more than the given fuel, and returns the unique index splitting "< x" from ">= x". *)
Theorem C20_bisect_left : forall a x, mono a = true ->
  exists j, bisect_left a x = Ok j /\ j <= length a /\
    (forall k, k < j -> (nth k a 0 < x)%Z) /\ (forall k, j <= k -> k < length a -> (x <= nth k a 0)%Z).
Proof. exact bisect_left_spec. Qed.
Print Assumptions C20_bisect_left.

(* Non-vacuity: a concrete valid history with a restarted process, an Offset, equal-onset rows,
   a Duration ending between time points, and Delay-shifted groups (one landing on a new time
   point); times in 1/8 s. *)
Example C20_nonvacuous :
  mono (map r_onset ex_history) = true /\
  valid_timeline (split_delay_tags ex_history) /\
  (match event_manager ex_history with
   | Ok o => Some (map r_onset (o_rows o),
                   map (map (fun e => (it_id (ev_item e), ev_end e))) (o_events o),
                   map (map (fun e => it_id (ev_item e))) (o_contexts o),
                   map (map it_id) (o_hed o))
   | Exn _ => None
   end) =
  Some ([0; 8; 8; 12; 16; 24; 24]%Z,
        [[(1%N, Some 1)]; [(5%N, Some 5); (4%N, Some 5)]; []; [(3%N, Some 4)]; []; []; []],
        [[]; []; [5%N; 4%N]; [5%N; 4%N]; [5%N; 4%N]; []; []],
        [[2%N]; []; []; []; []; [8%N]; []]).
Proof. exact ex_history_ok. Qed.
