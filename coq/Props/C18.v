(* C18 -- Backups restore byte-for-byte and are never half-valid.
   Property theorems only; each closed with [exact] and followed by
   Print Assumptions.  Model: Model/Backup.v (BackupManager over an explicit
   file system with atomic effects and crash = trace prefix + partial write). *)
From Coq Require Import List NArith.
From HV Require Import Base.Res Base.Str Model.Backup Proofs.BackupProofs.
Import ListNotations.

(* Crash consistency.  For EVERY crash point of create_backup -- [i] completed
   file-system effects (directory creations, file copies, the record write),
   optionally followed by effect [i] interrupted after [k] bytes (a partial copy
   or a partially written backup_lock.json), or the trace cut short by an
   exception (missing source file) -- a BackupManager constructed afterwards
   either raises, or does not list the backup, or lists it with exactly the
   record of the requested files and every recorded file present in the backup
   with the bytes the data file had when create_backup started.
   NOTE on the outcomes: the property text names two ("does not list" / "lists it
   complete"); the code has a THIRD one, which this theorem counts as "does not
   list": the constructor raises.  C18_crash_midway_raises below proves that this
   is exactly what happens at every crash point between the first directory
   creation and the completed record (half-made directory => HedFileError, torn
   record => ValueError).  Consequence (behaviour of the code, not excluded by the
   property): while the half-made backups/<name> exists NO BackupManager can be
   constructed for that backups directory, so every OTHER backup in it is
   unavailable too until the directory is removed by hand.
   Hypotheses: nothing exists at or below the backup's directory beforehand
   (a fresh manager on a parent-closed tree that does not list the name), the
   selected files are not inside that directory, file-name components are
   non-empty, not "." or "..", without '/' and without control characters
   (valid_file; a leading period, blanks, length are not restricted). *)
Theorem C18_crash_consistent :
  forall (b : name) (files : list path) (ts : str) (f0 : fs),
    (forall p, under (backup_dir b) p = true -> lookup f0 p = None) ->
    Forall (fun f => under (backup_dir b) f = false) files ->
    Forall valid_file files -> json_ok ts ->
    forall (i : nat) (k : option nat) (m : mgr) (rec : list str),
      get_backups (crash f0 (create_effects b files ts) i k) = Ok m ->
      mgr_get m b = Some rec ->
      rec = keys_of files [] /\
      forall key, In key rec ->
        exists c, read f0 (key_path key) = Some c /\
                  read (crash f0 (create_effects b files ts) i k)
                       (backup_root b ++ key_path key) = Some c.
Proof. exact crash_consistent_lemma. Qed.
Print Assumptions C18_crash_consistent.

(* The third outcome made precise: at every crash point after the first directory
   creation at which the record is not yet complete, the constructor RAISES (for a
   backup name resolving to one valid directory entry [n]). *)
Theorem C18_crash_midway_raises :
  forall (b n : name) (files : list path) (ts : str) (f0 : fs),
    key_path b = [n] -> key_path n = [n] ->
    (forall p, under (backup_dir b) p = true -> lookup f0 p = None) ->
    Forall (fun f => under (backup_dir b) f = false) files ->
    Forall valid_file files -> json_ok ts ->
    forall (i : nat) (k : option nat),
      let fc := crash f0 (create_effects b files ts) i k in
      1 <= i ->
      lookup fc (backup_lock b) <> Some (File (dump (keys_of files []) ts)) ->
      exists e, get_backups fc = Exn e.
Proof. exact crash_midway_raises. Qed.
Print Assumptions C18_crash_midway_raises.

(* The record file is the linch-pin: it parses back to the recorded keys, and
   NO proper prefix of it parses (so a torn record always makes the constructor
   raise). *)
Theorem C18_record_prefix_free :
  forall (ks : list str) (ts : str) (n : nat),
    Forall json_ok ks -> json_ok ts ->
    load (dump ks ts) = Some ks /\
    (n < length (dump ks ts) -> load (firstn n (dump ks ts)) = None).
Proof. exact record_prefix_free_lemma. Qed.
Print Assumptions C18_record_prefix_free.

(* File and directory NAMES: the key recorded for a file and the place of its copy
   keep EVERY directory component (also names that start with a period, contain
   blanks, are long ...; only "", ".", "..", '/' and control characters are excluded):
   the key maps back to the file, distinct files have distinct keys and distinct
   copies, and the record has exactly one entry per distinct file. *)
Theorem C18_record_one_entry_per_file :
  forall files : list path,
    NoDup files -> Forall valid_file files ->
    length (keys_of files []) = length files /\
    (forall f g, In f files -> In g files -> get_file_key f = get_file_key g -> f = g) /\
    (forall f, In f files -> key_path (get_file_key f) = f).
Proof. exact record_one_entry_per_file. Qed.
Print Assumptions C18_record_one_entry_per_file.

Theorem C18_backup_path_injective :
  forall (b : name) (f g : path),
    valid_file f -> valid_file g -> get_backup_path b f = get_backup_path b g -> f = g.
Proof. exact backup_path_injective. Qed.
Print Assumptions C18_backup_path_injective.

(* sub/.orig/a, its twin sub/a and "..x y"/a are valid, keep their keys apart *)
Example C18_dot_directories :
  Forall valid_file ex_twins /\ NoDup ex_twins /\
  map (fun f => key_path (get_file_key f)) ex_twins = ex_twins /\
  length (keys_of ex_twins []) = 3.
Proof. exact ex_dot_keys. Qed.

(* Restore is byte-identical (conditional form; C18_restore_total below discharges the
   premise "the restore completes"): after a successful create_backup, ANY sequence of
   writes, deletions and directory creations outside the backup's directory,
   followed by a restore that completes, returns every backed-up file to the
   content it had at backup time. *)
Theorem C18_restore_identical :
  forall (fixed : bool) b files ts f0 m f1 m1 (us : list uop) f3,
    (forall p, under (backup_dir b) p = true -> lookup f0 p = None) ->
    Forall (fun f => under (backup_dir b) f = false) files ->
    Forall valid_file files -> json_ok ts ->
    mgr_get m b = None ->
    create_backup fixed m f0 files b ts = (f1, m1, Ok true) ->
    Forall (fun u => under (backup_dir b) (utarget u) = false) us ->
    restore_backup m1 (fold_left (fun f u => uapply u f) us f1) b [] = (f3, Ok tt) ->
    forall f, In f files -> exists c, read f0 f = Some c /\ read f3 f = Some c.
Proof. exact restore_identical_lemma. Qed.
Print Assumptions C18_restore_identical.

(* C18_restore_identical with its premise ESTABLISHED: after a completed
   create_backup of a non-empty selection, any sequence of edits of the data tree
   that stays outside the backup and is [harmless] -- anything except writing a
   FILE where an ancestor directory of a backed-up file must be, or making a
   DIRECTORY where a backed-up file must be (deleting, overwriting, truncating,
   re-creating the backed-up files, adding other files and directories are all
   allowed) -- the full restore DOES complete and every file is back to its
   original bytes.  [anc_ok f0 files]: no ancestor path of a selected file is a
   file (true of every real tree). *)
Theorem C18_restore_total :
  forall (fixed : bool) b files ts f0 m f1 m1 (us : list uop),
    (forall p, under (backup_dir b) p = true -> lookup f0 p = None) ->
    Forall (fun f => under (backup_dir b) f = false) files ->
    Forall valid_file files -> json_ok ts -> files <> [] ->
    anc_ok f0 files ->
    mgr_get m b = None ->
    create_backup fixed m f0 files b ts = (f1, m1, Ok true) ->
    Forall (fun u => under (backup_dir b) (utarget u) = false) us ->
    Forall (harmless files) us ->
    exists f3,
      restore_backup m1 (fold_left (fun f u => uapply u f) us f1) b [] = (f3, Ok tt) /\
      forall f, In f files -> exists c, read f0 f = Some c /\ read f3 f = Some c.
Proof. exact restore_total_lemma. Qed.
Print Assumptions C18_restore_total.

(* the premises of C18_restore_total hold on the concrete tree (one backed-up file
   overwritten, one deleted) and the restore completes with the original bytes *)
Example C18_restore_total_nonvacuous :
  anc_ok ex_f0 ex_files /\ Forall (harmless ex_files) ex_us /\
  Forall (fun u => under (backup_dir ex_b) (utarget u) = false) ex_us /\ ex_files <> [] /\
  (let '(f1, m1, _) := create_backup true [] ex_f0 ex_files ex_b ex_ts in
   let f3 := fst (restore_backup m1 (fold_left (fun f u => uapply u f) ex_us f1) ex_b []) in
   snd (restore_backup m1 (fold_left (fun f u => uapply u f) ex_us f1) ex_b []) = Ok tt /\
   read f3 [ex_sub; ex_a] = Some [1;2;3]%N /\ read f3 [ex_c] = Some [7]%N).
Proof. exact ex_restore_total. Qed.

(* The task filter looks at the BASE NAME of the file only: whether a recorded
   file is selected does not depend on the backup's name or location (nor, the
   model being relative to the data root, on the dataset directory or its
   ancestors), so 'task_<name>' inside those names selects nothing. *)
Theorem C18_task_filter_basename_only :
  forall (b b' : name) (tasks : list str) (k : str),
    key_path k <> [] ->
    task_selected tasks (backup_root b ++ key_path k) = task_selected tasks [last (key_path k) []] /\
    task_selected tasks (backup_root b ++ key_path k) = task_selected tasks (backup_root b' ++ key_path k).
Proof. exact task_filter_basename_only. Qed.
Print Assumptions C18_task_filter_basename_only.

(* A completed restore (task-filtered or not, any manager record, ANY prior state
   of the data tree) leaves every selected recorded file with exactly the bytes of
   its backup copy.  The model has NO file metadata and restore_backup copies every
   selected file unconditionally: a restore that decides from size / time stamps
   whether to copy is not this program (tied by the restore effect-trace
   correspondence and by size- and mtime-preserving edits in the histories). *)
Theorem C18_restore_selected_from_backup :
  forall (m : mgr) (f : fs) (b : name) (tasks : list str) keys f',
    mgr_get m b = Some keys ->
    Forall (fun k => under (backup_dir b) (key_path k) = false) keys ->
    restore_backup m f b tasks = (f', Ok tt) ->
    forall k, In k keys ->
      (tasks = [] \/ task_selected tasks (backup_root b ++ key_path k) = true) ->
      exists c, read f (backup_root b ++ key_path k) = Some c /\ read f' (key_path k) = Some c.
Proof. exact restore_selected_lemma. Qed.
Print Assumptions C18_restore_selected_from_backup.

(* The restored content is a function of the backup alone: two data trees with
   arbitrary different histories but the same backup restore to the same bytes. *)
Theorem C18_restore_history_independent :
  forall (m : mgr) (b : name) (tasks : list str) keys (f g f' g' : fs),
    mgr_get m b = Some keys ->
    Forall (fun k => under (backup_dir b) (key_path k) = false) keys ->
    (forall p, under (backup_dir b) p = true -> lookup f p = lookup g p) ->
    restore_backup m f b tasks = (f', Ok tt) ->
    restore_backup m g b tasks = (g', Ok tt) ->
    forall k, In k keys ->
      (tasks = [] \/ task_selected tasks (backup_root b ++ key_path k) = true) ->
      read f' (key_path k) = read g' (key_path k).
Proof. exact restore_history_independent. Qed.
Print Assumptions C18_restore_history_independent.

(* A restore (task-filtered or not, completed or aborted by an exception)
   changes no path other than the recorded files selected by the filter (as
   implemented: base name contains "task_<name>" for a non-empty requested name) and their ancestor
   directories. *)
Theorem C18_restore_tasks_touches_only :
  forall (m : mgr) (f : fs) (b : name) (tasks : list str) f' r (p : path),
    restore_backup m f b tasks = (f', r) ->
    (forall keys k, mgr_get m b = Some keys -> In k keys ->
       (tasks = [] \/ task_selected tasks (backup_root b ++ key_path k) = true) ->
       ~ is_prefix p (key_path k)) ->
    lookup f' p = lookup f p.
Proof. exact restore_touches_only_lemma. Qed.
Print Assumptions C18_restore_tasks_touches_only.

(* Never overwritten (the current code of /repo = after fix commit fb42f68,
   [create_backup true]).  This first statement is the modelled guard read back (a
   two-case unfolding of the definition): it documents the repaired behaviour and
   is tied to the code by the correspondence run (stale-manager and alias
   histories, crash-then-create retries); the statements with content of their
   own are C18_never_overwritten_listed / _alias and C18_crash_then_create(_alias)
   below.  For
   ANY manager object -- fresh, or constructed before the backup existed -- and
   ANY file system in which backups/<name> exists on disk, create_backup returns
   False and performs no effect at all. *)
Theorem C18_never_overwritten :
  forall (m : mgr) (f : fs) files (b : name) ts,
    exists_ f (backup_dir b) = true ->
    create_backup true m f files b ts = (f, m, Ok false).
Proof. exact never_overwritten_lemma. Qed.
Print Assumptions C18_never_overwritten.

(* ... hence for every backup that a fresh manager lists on that file system,
   whatever the calling manager object [m] has cached. *)
Theorem C18_never_overwritten_listed :
  forall (m : mgr) (f : fs) files (b : name) ts mdisk rec,
    get_backups f = Ok mdisk -> mgr_get mdisk b = Some rec ->
    create_backup true m f files b ts = (f, m, Ok false).
Proof. exact never_overwritten_listed_on_disk. Qed.
Print Assumptions C18_never_overwritten_listed.

(* Backup names are strings as the API / CLI accept them; every path is built with
   realpath(join(backups_path, name, ...)), so these spellings resolve to the same
   directory as [b] (the model's backup_dir is backups_path ++ key_path name).
   Covered: every spelling resolving to one directory entry; nested names, ".." and
   absolute names are outside the model. *)
Theorem C18_alias_spellings :
  forall b : str,
    key_path (b ++ [ch_slash]) = key_path b /\
    key_path (ch_dot :: ch_slash :: b) = key_path b /\
    key_path (b ++ [ch_slash; ch_dot]) = key_path b /\
    key_path (b ++ [ch_slash; ch_slash]) = key_path b /\
    key_path (ch_dot :: ch_slash :: b ++ [ch_slash; ch_slash; ch_dot; ch_slash]) = key_path b.
Proof. exact alias_spellings. Qed.
Print Assumptions C18_alias_spellings.

(* Never overwritten under ANY spelling: a name b' that resolves to the directory
   of a backup [b] which a fresh manager lists is refused without any effect, for
   any manager object.  (C18_never_overwritten itself is already about resolution:
   its hypothesis is that the RESOLVED path backup_dir b' exists.) *)
Theorem C18_never_overwritten_alias :
  forall (m : mgr) (f : fs) files (b b' : name) ts mdisk rec,
    key_path b' = key_path b ->
    get_backups f = Ok mdisk -> mgr_get mdisk b = Some rec ->
    create_backup true m f files b' ts = (f, m, Ok false).
Proof. exact never_overwritten_alias. Qed.
Print Assumptions C18_never_overwritten_alias.

(* ... and after any crash of create_backup b, a later create_backup under any
   spelling of the same directory refuses (or nothing had happened yet). *)
Theorem C18_crash_then_create_alias :
  forall (b b' : name) (files : list path) (ts : str) (f0 : fs),
    key_path b' = key_path b ->
    (forall p, under (backup_dir b) p = true -> lookup f0 p = None) ->
    forall (i : nat) (k : option nat) (m : mgr) files' ts',
      let fc := crash f0 (create_effects b files ts) i k in
      fc = f0 \/ create_backup true m fc files' b' ts' = (fc, m, Ok false).
Proof. exact crash_then_create_alias. Qed.
Print Assumptions C18_crash_then_create_alias.

(* A crash of create_backup followed by a later create_backup of the same name
   (current code, after fix commit fb42f68; any manager object, any new selection): either the crash
   happened before the first effect (the tree is the untouched initial one), or
   the later call refuses and changes nothing -- so the outcome stays the one
   C18_crash_consistent describes (raises / not listed / listed and complete);
   a half-made backups/<name> is never completed, overwritten or made listable. *)
Theorem C18_crash_then_create :
  forall (b : name) (files : list path) (ts : str) (f0 : fs),
    (forall p, under (backup_dir b) p = true -> lookup f0 p = None) ->
    forall (i : nat) (k : option nat) (m : mgr) files' ts',
      let fc := crash f0 (create_effects b files ts) i k in
      fc = f0 \/ create_backup true m fc files' b ts' = (fc, m, Ok false).
Proof. exact crash_then_create_lemma. Qed.
Print Assumptions C18_crash_then_create.

(* RECORD OF THE REPAIRED DEFECT C18-F1: behaviour BEFORE fix commit fb42f68
   ([create_backup false]); NOT a statement about the current /repo, for which
   C18_never_overwritten* above hold: the existence test was made against the manager's
   cached dictionary only, so a manager constructed before the backup existed
   copied the (modified) data files over the existing backup. *)
Theorem C18_never_overwritten_stale_refuted :
  exists (m : mgr) (f : fs) files b ts f' m' file,
    mgr_get m b = None /\
    (exists rec, get_backups f = Ok [(b, rec)]) /\
    create_backup false m f files b ts = (f', m', Ok true) /\
    In file files /\
    read f' (get_backup_path b file) <> read f (get_backup_path b file).
Proof. exact stale_manager_overwrites. Qed.
Print Assumptions C18_never_overwritten_stale_refuted.

(* Remodelling twice equals remodelling once (for any operation list [op], any
   task filter, any state of the data files): if a run of run_remodel's effect
   program completes, a second run with the same backup record completes and
   leaves every path exactly as the first run left it ... *)
Theorem C18_remodel_idempotent :
  forall (op : str -> str) b tasks keys targets f f1,
    Forall (fun k => under (backup_dir b) (key_path k) = false) keys ->
    Forall (fun t => under (backup_dir b) t = false) targets ->
    rexec op f (remodel_effects b tasks keys targets) = (f1, Ok tt) ->
    exists f2, rexec op f1 (remodel_effects b tasks keys targets) = (f2, Ok tt) /\
               forall p, lookup f2 p = lookup f1 p.
Proof. exact remodel_idempotent_lemma. Qed.
Print Assumptions C18_remodel_idempotent.

(* ... because every target is computed from its backup copy, never from the
   current data file, and the run never writes into the backup. *)
Theorem C18_remodel_from_backup :
  forall (op : str -> str) b tasks keys targets f f1,
    Forall (fun k => under (backup_dir b) (key_path k) = false) keys ->
    Forall (fun t => under (backup_dir b) t = false) targets ->
    rexec op f (remodel_effects b tasks keys targets) = (f1, Ok tt) ->
    (forall t, In t targets ->
       exists c, read f (get_backup_path b t) = Some c /\ read f1 t = Some (op c)) /\
    (forall p, under (backup_dir b) p = true -> lookup f1 p = lookup f p).
Proof. exact remodel_from_backup_full. Qed.
Print Assumptions C18_remodel_from_backup.

(* Non-vacuity: a concrete tree meets the hypotheses of C18_crash_consistent;
   its completed trace IS listed with the full record, a torn record / a
   half-made directory make the constructor raise, and a task-filtered restore
   restores the task_x file and leaves the other modified file alone. *)
Example C18_nonvacuous :
  ((forall p, under (backup_dir ex_b) p = true -> lookup ex_f0 p = None) /\
   Forall (fun f => under (backup_dir ex_b) f = false) ex_files /\
   Forall valid_file ex_files /\ json_ok ex_ts) /\
  get_backups (crash ex_f0 (create_effects ex_b ex_files ex_ts) 100 None)
  = Ok [(ex_b, [[115;117;98;47;97;95;116;97;115;107;95;120;46;116]; [99;34;92]]%N)] /\
  (get_backups (crash ex_f0 (create_effects ex_b ex_files ex_ts) 5 (Some 20)) = Exn ValueError /\
   get_backups (crash ex_f0 (create_effects ex_b ex_files ex_ts) 4 (Some 0)) = Exn HedFileError).
Proof. exact ex_nonvacuous. Qed.

(* "b1/" on the witness tree: refused by the code under test; a guard that does not
   resolve the name (here: the program before fix commit fb42f68) overwrites the backup *)
Example C18_alias_refused_witness :
  create_backup true [] ex_f2 ex_files ex_b_slash ex_ts = (ex_f2, [], Ok false) /\
  (exists f' m', create_backup false [] ex_f2 ex_files ex_b_slash ex_ts = (f', m', Ok true) /\
     read f' (get_backup_path ex_b [ex_sub; ex_a]) <> read ex_f2 (get_backup_path ex_b [ex_sub; ex_a])).
Proof. exact ex_alias_refused. Qed.

(* the current code (after fix commit fb42f68) refuses on the witness of the repaired C18-F1 *)
Example C18_fixed_refuses_witness :
  create_backup true [] ex_f2 ex_files ex_b ex_ts = (ex_f2, [], Ok false).
Proof. exact ex_fixed_refuses. Qed.
