(* C17 -- facts about the tree AS TRANSLATED NOW (Gen/RemodelParams.v), which
   discharge the guards of Props/C17.v for the current code.  Built only when
   the check runs with VERIF_C17_FIXED=1 (the default): it does not compile
   against a tree without fix commit adebd46 (C17-F4), and that failure is the tie. *)
From Coq Require Import List NArith ZArith Bool.
From HV Require Import Base.Res Base.Str Model.RemodelJson Gen.RemodelParams Model.Remodel
  Proofs.RemodelProofs Proofs.RemodelNow Props.C17.
Import ListNotations.

Theorem C17_now_event_fetch_safe : event_fetch_safe = true.
Proof. exact now_event_fetch_safe. Qed.
Print Assumptions C17_now_event_fetch_safe.

(* every new_events entry accepted by the schema can be read by _split_rows *)
Theorem C17_now_split_event_fetch_total :
  exists sch, event_schema = Some sch /\
    forall ev, check sch ev = true -> exists a, split_rows_event_fetch ev = Ok a.
Proof. exact (C17_split_event_fetch_total C17_now_event_fetch_safe). Qed.
Print Assumptions C17_now_split_event_fetch_total.

(* merge_consecutive: an absent match_columns is stored as the empty list *)
Theorem C17_now_match_columns_default :
  forall p, lookup k_match_columns p = None ->
    (exists a, merge_consecutive_init (JObj p) = Ok a) ->
    exists a, merge_consecutive_init (JObj p) = Ok a /\ lookup k_match_columns a = Some (JArr []).
Proof. exact now_match_columns_default. Qed.
Print Assumptions C17_now_match_columns_default.
