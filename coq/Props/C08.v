(* C08 -- Sidecar validation is total and flags each structural fault.
   Property theorems only; each closed with [exact] and followed by
   Print Assumptions.

   [validate_sidecar fixed Vd Vb Vc Vh Vf j] is the model of
   Sidecar(io.StringIO(json_text)).validate(schema).  Vd..Vf are the abstract
   string-level validators -- ALL theorems quantify over them and over ALL
   JSON values.  [fixed = true] is the code as it is in /repo now (it contains
   the fix commits ae9929b, 8a59f35, f477d0a; the correspondence run executes
   the model in this mode, harness FIXED = 1); [fixed = false] is the behaviour
   before those three commits
   and only appears in part II, the record of the repaired defects. *)
From Coq Require Import List NArith.
From HV Require Import Base.Res Base.Str Gen.SidecarCodes Model.Sidecar
                       Proofs.SidecarProofs Proofs.SidecarClean Proofs.SidecarRefsSpec.
Import ListNotations.

(* ====================================================================== *)
(* I. The code as it is now                                               *)

(* Clause 1: validating any JSON object never raises, whatever the types and
   nesting of its values ... *)
Theorem C08_never_raises : forall Vd Vb Vc Vh Vf kvs,
  exists l, validate_sidecar true Vd Vb Vc Vh Vf (JObj kvs) = Ok l.
Proof. exact never_raises_fixed. Qed.
Print Assumptions C08_never_raises.

(* DECLARED DEVIATION from the literal statement.  The statement says "any
   JSON-decodable sidecar ... never raises".  That is proved above for every
   document whose root is a JSON object -- which is what a sidecar is.  For any
   other JSON document (scalar, string, list) the literal reading is FALSE of
   the current code: since fix commit 8a59f35 the Sidecar constructor refuses
   it with the documented HedFileError (before 8a59f35: TypeError/ValueError,
   see part II).  The theorem below states exactly this behaviour; it is the
   precise form of the exception to "never raises", not a proof of that clause
   for non-object roots.  The oracle accepts HedFileError for this input class
   only. *)
Theorem C08_nonobject_refused : forall Vd Vb Vc Vh Vf j,
  is_obj j = false -> validate_sidecar true Vd Vb Vc Vh Vf j = Exn HedFileError.
Proof. exact nonobject_refused_fixed. Qed.
Print Assumptions C08_nonobject_refused.

(* Clause 2 (wellformed_clean): a sidecar obeying the structural rules
   (struct_ok, Model/Sidecar.v; it does not use the validator's column type
   detection: "HED-bearing" is spec_bearing, references are find_refs, which
   C08_find_refs_spec characterises declaratively; check_for_key is the plain
   recursive "key occurs at any depth").  HED entries are strings with exactly one '#' or
   non-empty maps of non-empty '#'-free strings whose keys are not n/a; HED is
   not a column name nor a key inside plain metadata; braces balanced and
   un-nested; references name HED or an existing HED-bearing column, not the
   column itself, and referenced columns hold no references) whose strings are
   individually valid yields no error-severity issue.
   "Individually valid" = the string-level validators report no error on the
   strings of the document and on their reference substitutions, count
   placeholders exactly on definition-free strings, and no column mixes
   definition and non-definition strings. *)
Theorem C08_wellformed_clean : forall Vd Vb Vc Vh Vf sc,
  struct_ok sc = true ->
  any_error (Vd (doc_strings sc)) = false ->
  (forall s, In s (doc_strings sc) -> any_error (Vb (doc_strings sc) s) = false) ->
  (forall s refs combo, In s (doc_strings sc) -> any_error (Vf (doc_strings sc) s refs combo) = false) ->
  (forall s, In s (doc_strings sc) -> Vc s = 0 -> Vh (doc_strings sc) s = count ch_hash s) ->
  (forall col, In col sc -> (forall s, In s (column_strings (snd col)) -> Vc s = 0) \/
                            (forall s, In s (column_strings (snd col)) -> Vc s <> 0)) ->
  exists out, validate_sidecar true Vd Vb Vc Vh Vf (JObj sc) = Ok out /\ error_codes out = [].
Proof. exact now_wellformed_clean. Qed.
Print Assumptions C08_wellformed_clean.

(* Clause 3 (fault_flagged), one theorem per structural rule.  Each holds for
   EVERY sidecar containing the fault (not only otherwise well-formed ones). *)

(* HED used as a column name *)
Theorem C08_fault_hed_column : forall Vd Vb Vc Vh Vf sc v,
  In (s_HED, v) sc ->
  exists out, validate_sidecar true Vd Vb Vc Vh Vf (JObj sc) = Ok out /\
              In c_SIDECAR_INVALID (error_codes out).
Proof. exact now_fault_hed_column. Qed.
Print Assumptions C08_fault_hed_column.

(* n/a used as a category key *)
Theorem C08_fault_na_key : forall Vd Vb Vc Vh Vf sc name kvs hv s,
  In (name, JObj kvs) sc -> name <> s_HED ->
  lookup s_HED kvs = Some (JObj hv) -> In (s_NA, JStr s) hv -> s <> [] ->
  exists out, validate_sidecar true Vd Vb Vc Vh Vf (JObj sc) = Ok out /\
              In c_SIDECAR_INVALID (error_codes out).
Proof. exact now_fault_na_key. Qed.
Print Assumptions C08_fault_na_key.

(* HED entry that is neither a string nor a map *)
Theorem C08_fault_hed_entry_type : forall Vd Vb Vc Vh Vf sc name kvs h,
  In (name, JObj kvs) sc -> name <> s_HED ->
  lookup s_HED kvs = Some h -> is_str h = false -> is_obj h = false ->
  exists out, validate_sidecar true Vd Vb Vc Vh Vf (JObj sc) = Ok out /\
              In c_sidecarUnknownColumn (error_codes out).
Proof. exact now_fault_hed_entry_type. Qed.
Print Assumptions C08_fault_hed_entry_type.

(* category value that is not a string (truthy / empty-or-falsy) *)
Theorem C08_fault_category_nonstring : forall Vd Vb Vc Vh Vf sc name kvs hv key val,
  In (name, JObj kvs) sc -> name <> s_HED ->
  lookup s_HED kvs = Some (JObj hv) -> In (key, val) hv -> truthy val = true -> is_str val = false ->
  exists out, validate_sidecar true Vd Vb Vc Vh Vf (JObj sc) = Ok out /\
              In c_wrongHedDataType (error_codes out).
Proof. exact now_fault_category_nonstring. Qed.
Print Assumptions C08_fault_category_nonstring.

Theorem C08_fault_category_blank : forall Vd Vb Vc Vh Vf sc name kvs hv key val,
  In (name, JObj kvs) sc -> name <> s_HED ->
  lookup s_HED kvs = Some (JObj hv) -> In (key, val) hv -> truthy val = false ->
  exists out, validate_sidecar true Vd Vb Vc Vh Vf (JObj sc) = Ok out /\
              In c_blankValueString (error_codes out).
Proof. exact now_fault_category_blank. Qed.
Print Assumptions C08_fault_category_blank.

(* '#' count.  The placeholder check runs after the only allowed early exit,
   so for EVERY sidecar with the fault either PLACEHOLDER_INVALID is reported,
   or the structure/reference screening already reported an error and the
   result is exactly the screening issues ([early_exit], which implies
   error_codes out <> [], C08_early_exit_has_error).  Hypotheses on the string
   level: the string holds no definition and its placeholders are counted
   exactly. *)
Theorem C08_fault_value_hash : forall Vd Vb Vc Vh Vf sc name kvs s,
  In (name, JObj kvs) sc -> lookup s_HED kvs = Some (JStr s) ->
  Vc s = 0 -> (forall ds, Vh ds s = count ch_hash s) -> count ch_hash s <> 1 ->
  exists out, validate_sidecar true Vd Vb Vc Vh Vf (JObj sc) = Ok out /\
              (In c_PLACEHOLDER_INVALID (error_codes out) \/ early_exit true sc out).
Proof. exact now_fault_value_hash. Qed.
Print Assumptions C08_fault_value_hash.

Theorem C08_fault_category_hash : forall Vd Vb Vc Vh Vf sc name kvs hv key s,
  In (name, JObj kvs) sc -> lookup s_HED kvs = Some (JObj hv) -> In (key, JStr s) hv ->
  Vc s = 0 -> (forall ds, Vh ds s = count ch_hash s) -> count ch_hash s <> 0 ->
  exists out, validate_sidecar true Vd Vb Vc Vh Vf (JObj sc) = Ok out /\
              (In c_PLACEHOLDER_INVALID (error_codes out) \/ early_exit true sc out).
Proof. exact now_fault_category_hash. Qed.
Print Assumptions C08_fault_category_hash.

(* The '#' rule is about characters, not tags: the surplus '#' may stand
   anywhere -- in the same tag as the first one ("Label/##", "Label/#_#",
   "Description/# and #"), in another tag or group, next to a reference -- and
   a value string may also hold no '#' at all. *)
Theorem C08_fault_value_hash_anywhere : forall Vd Vb Vc Vh Vf sc name kvs pre mid post,
  let s := pre ++ ch_hash :: mid ++ ch_hash :: post in
  In (name, JObj kvs) sc -> lookup s_HED kvs = Some (JStr s) ->
  Vc s = 0 -> (forall ds, Vh ds s = count ch_hash s) ->
  exists out, validate_sidecar true Vd Vb Vc Vh Vf (JObj sc) = Ok out /\
              (In c_PLACEHOLDER_INVALID (error_codes out) \/ early_exit true sc out).
Proof. exact now_fault_value_hash_anywhere. Qed.
Print Assumptions C08_fault_value_hash_anywhere.

Theorem C08_fault_value_hash_none : forall Vd Vb Vc Vh Vf sc name kvs s,
  In (name, JObj kvs) sc -> lookup s_HED kvs = Some (JStr s) -> has_hash s = false ->
  Vc s = 0 -> (forall ds, Vh ds s = count ch_hash s) ->
  exists out, validate_sidecar true Vd Vb Vc Vh Vf (JObj sc) = Ok out /\
              (In c_PLACEHOLDER_INVALID (error_codes out) \/ early_exit true sc out).
Proof. exact now_fault_value_hash_none. Qed.
Print Assumptions C08_fault_value_hash_none.

Theorem C08_fault_category_hash_anywhere : forall Vd Vb Vc Vh Vf sc name kvs hv key pre post,
  let s := pre ++ ch_hash :: post in
  In (name, JObj kvs) sc -> lookup s_HED kvs = Some (JObj hv) -> In (key, JStr s) hv ->
  Vc s = 0 -> (forall ds, Vh ds s = count ch_hash s) ->
  exists out, validate_sidecar true Vd Vb Vc Vh Vf (JObj sc) = Ok out /\
              (In c_PLACEHOLDER_INVALID (error_codes out) \/ early_exit true sc out).
Proof. exact now_fault_category_hash_anywhere. Qed.
Print Assumptions C08_fault_category_hash_anywhere.

(* The statement's own situation -- a sidecar that obeys every structural rule
   except the '#' counts (struct_ok_but_hash = struct_ok without the two count
   conditions; struct_ok implies it): the early exit is impossible and
   PLACEHOLDER_INVALID IS reported, no disjunct. *)
Theorem C08_fault_value_hash_wellformed : forall Vd Vb Vc Vh Vf sc name kvs s,
  struct_ok_but_hash sc = true ->
  In (name, JObj kvs) sc -> lookup s_HED kvs = Some (JStr s) ->
  Vc s = 0 -> (forall ds, Vh ds s = count ch_hash s) -> count ch_hash s <> 1 ->
  exists out, validate_sidecar true Vd Vb Vc Vh Vf (JObj sc) = Ok out /\
              In c_PLACEHOLDER_INVALID (error_codes out).
Proof. exact now_fault_value_hash_wellformed. Qed.
Print Assumptions C08_fault_value_hash_wellformed.

Theorem C08_fault_category_hash_wellformed : forall Vd Vb Vc Vh Vf sc name kvs hv key s,
  struct_ok_but_hash sc = true ->
  In (name, JObj kvs) sc -> lookup s_HED kvs = Some (JObj hv) -> In (key, JStr s) hv ->
  Vc s = 0 -> (forall ds, Vh ds s = count ch_hash s) -> count ch_hash s <> 0 ->
  exists out, validate_sidecar true Vd Vb Vc Vh Vf (JObj sc) = Ok out /\
              In c_PLACEHOLDER_INVALID (error_codes out).
Proof. exact now_fault_category_hash_wellformed. Qed.
Print Assumptions C08_fault_category_hash_wellformed.

Theorem C08_struct_ok_but_hash_weaker : forall sc, struct_ok sc = true -> struct_ok_but_hash sc = true.
Proof. exact struct_ok_weaken. Qed.
Print Assumptions C08_struct_ok_but_hash_weaker.

Theorem C08_but_hash_no_early_exit : forall sc out,
  struct_ok_but_hash sc = true -> ~ early_exit true sc out.
Proof. exact but_hash_no_early_exit. Qed.
Print Assumptions C08_but_hash_no_early_exit.

(* the same whenever the structure/reference screening reports no error *)
Theorem C08_fault_value_hash_screened : forall Vd Vb Vc Vh Vf sc name kvs s i1 i2,
  validate_structure sc = Ok i1 -> validate_refs true sc = Ok i2 -> any_error (i1 ++ i2) = false ->
  In (name, JObj kvs) sc -> lookup s_HED kvs = Some (JStr s) ->
  Vc s = 0 -> (forall ds, Vh ds s = count ch_hash s) -> count ch_hash s <> 1 ->
  exists out, validate_sidecar true Vd Vb Vc Vh Vf (JObj sc) = Ok out /\
              In c_PLACEHOLDER_INVALID (error_codes out).
Proof. exact now_fault_value_hash_screened. Qed.
Print Assumptions C08_fault_value_hash_screened.

Theorem C08_fault_category_hash_screened : forall Vd Vb Vc Vh Vf sc name kvs hv key s i1 i2,
  validate_structure sc = Ok i1 -> validate_refs true sc = Ok i2 -> any_error (i1 ++ i2) = false ->
  In (name, JObj kvs) sc -> lookup s_HED kvs = Some (JObj hv) -> In (key, JStr s) hv ->
  Vc s = 0 -> (forall ds, Vh ds s = count ch_hash s) -> count ch_hash s <> 0 ->
  exists out, validate_sidecar true Vd Vb Vc Vh Vf (JObj sc) = Ok out /\
              In c_PLACEHOLDER_INVALID (error_codes out).
Proof. exact now_fault_category_hash_screened. Qed.
Print Assumptions C08_fault_category_hash_screened.

(* non-vacuity of struct_ok_but_hash: the two faulty examples satisfy it (and
   violate struct_ok), the well-formed example satisfies both *)
Example C08_but_hash_examples :
  struct_ok_but_hash sc_hash0 = true /\ struct_ok sc_hash0 = false /\
  struct_ok_but_hash sc_hash_same_tag = true /\ struct_ok sc_hash_same_tag = false /\
  struct_ok_but_hash sc_good = true.
Proof. exact but_hash_examples. Qed.

(* concrete: {"c": {"HED": "Label/##"}} yields exactly PLACEHOLDER_INVALID *)
Example C08_same_tag_example :
  exists out, validate_sidecar true V0_defs V0_basic V0_defcount V0_hashes V0_full (JObj sc_hash_same_tag) = Ok out /\
              error_codes out = [c_PLACEHOLDER_INVALID].
Proof. exact same_tag_example. Qed.

Theorem C08_early_exit_has_error : forall fixed sc out,
  early_exit fixed sc out -> error_codes out <> [].
Proof. exact early_exit_has_error. Qed.
Print Assumptions C08_early_exit_has_error.

(* unbalanced or nested curly braces in a string of a HED-bearing column *)
Theorem C08_fault_braces : forall Vd Vb Vc Vh Vf sc name v s,
  In (name, v) sc -> hed_bearing v = true -> In s (column_strings v) -> braces_ok s = false ->
  exists out, validate_sidecar true Vd Vb Vc Vh Vf (JObj sc) = Ok out /\
              In c_SIDECAR_BRACES_INVALID (error_codes out).
Proof. exact now_fault_braces. Qed.
Print Assumptions C08_fault_braces.

(* reference to something that is neither HED nor a HED-bearing column *)
Theorem C08_fault_unknown_ref : forall Vd Vb Vc Vh Vf sc name v s m,
  In (name, v) sc -> hed_bearing v = true -> In s (column_strings v) ->
  In m (find_refs s) -> m <> s_HED -> ~ In m (all_hed_columns sc) ->
  exists out, validate_sidecar true Vd Vb Vc Vh Vf (JObj sc) = Ok out /\
              In c_SIDECAR_BRACES_INVALID (error_codes out).
Proof. exact now_fault_unknown_ref. Qed.
Print Assumptions C08_fault_unknown_ref.

(* a column referencing itself *)
Theorem C08_fault_self_ref : forall Vd Vb Vc Vh Vf sc name v s,
  In (name, v) sc -> hed_bearing v = true -> In s (column_strings v) -> In name (find_refs s) ->
  exists out, validate_sidecar true Vd Vb Vc Vh Vf (JObj sc) = Ok out /\
              In c_SIDECAR_BRACES_INVALID (error_codes out).
Proof. exact now_fault_self_ref. Qed.
Print Assumptions C08_fault_self_ref.

(* nested references: column n1 references column n2, which itself holds a
   reference -- wherever the two columns stand in the sidecar *)
Theorem C08_fault_nested_ref : forall Vd Vb Vc Vh Vf sc n1 v1 n2 v2,
  In (n1, v1) sc -> In (n2, v2) sc -> n1 <> n2 -> hed_bearing v1 = true -> hed_bearing v2 = true ->
  In n2 (col_refs v1) -> col_refs v2 <> [] ->
  exists out, validate_sidecar true Vd Vb Vc Vh Vf (JObj sc) = Ok out /\
              In c_SIDECAR_BRACES_INVALID (error_codes out).
Proof. exact now_fault_nested_ref. Qed.
Print Assumptions C08_fault_nested_ref.

(* Declarative readings of the notions the rules and hypotheses above use.
   A reference found by the scanner (the model of the re.findall call) is
   exactly an occurrence of '{', a non-empty run of reference characters, '}'. *)
Theorem C08_find_refs_spec : forall s m : str,
  In m (find_refs s) <->
  exists pre post, s = pre ++ ch_lbrace :: m ++ ch_rbrace :: post /\
                   m <> [] /\ forallb is_ref_char m = true.
Proof. exact find_refs_spec. Qed.
Print Assumptions C08_find_refs_spec.

(* hed_bearing (hypothesis of the brace/reference fault theorems): an object
   whose HED entry is a string with a '#' or a map of strings *)
Theorem C08_hed_bearing_spec : forall v,
  hed_bearing v = true <->
  exists kvs, v = JObj kvs /\
    ((exists s, lookup s_HED kvs = Some (JStr s) /\ has_hash s = true) \/
     (exists hv, lookup s_HED kvs = Some (JObj hv) /\ forallb is_str (map snd hv) = true)).
Proof. exact hed_bearing_spec. Qed.
Print Assumptions C08_hed_bearing_spec.

(* all_hed_columns (C08_fault_unknown_ref) lists the entries that are objects
   with a HED key *)
Theorem C08_is_hed_column_spec : forall v,
  is_hed_column v = true <-> exists kvs, v = JObj kvs /\ has_key s_HED kvs = true.
Proof. exact is_hed_column_spec. Qed.
Print Assumptions C08_is_hed_column_spec.

(* within struct_ok, the specification-level "HED-bearing" is the validator's *)
Theorem C08_spec_bearing_hed_bearing : forall sc name v,
  col_ok sc (name, v) = true -> spec_bearing v = true -> hed_bearing v = true.
Proof. exact spec_bearing_hed_bearing. Qed.
Print Assumptions C08_spec_bearing_hed_bearing.

(* Definition gathering (Sidecar.extract_definitions, the list every V_* of
   the string phase receives as [ds]): the model hands the string-level
   validators EVERY string of EVERY HED-bearing entry, in document order --
   no entry is skipped by a pre-filter; for a struct_ok sidecar that is all
   its strings.  Whether a string holds a definition (in whatever letter case
   the tag names are written) is decided inside the abstract V_defs, i.e. the
   letter-case insensitivity itself is TESTED only (letter case is a dimension
   of the rule-abiding and definition-bearing streams of the harness). *)
Theorem C08_definitions_from_every_string : forall sc,
  exists bhs, basic_strings true sc = Ok bhs /\ concat (map (map snd) bhs) = bearing_strings sc.
Proof. exact now_definitions_from_every_string. Qed.
Print Assumptions C08_definitions_from_every_string.

Theorem C08_bearing_strings_struct_ok : forall sc,
  struct_ok sc = true -> bearing_strings sc = doc_strings sc.
Proof. exact bearing_strings_struct_ok. Qed.
Print Assumptions C08_bearing_strings_struct_ok.

(* The validator's brace scan reports nothing exactly for balanced,
   un-nested braces (all strings). *)
Theorem C08_braces_spec : forall s : str,
  find_non_matching_braces s = [] <-> braces_ok s = true.
Proof. exact braces_spec. Qed.
Print Assumptions C08_braces_spec.

(* The published codes the theorems speak about are the ones registered in
   the sources (regenerated table = expected table). *)
Theorem C08_codes :
  kind_code K_SIDECAR_HED_USED_COLUMN = c_SIDECAR_INVALID /\
  kind_code K_SIDECAR_HED_USED = c_SIDECAR_INVALID /\
  kind_code K_SIDECAR_NA_USED = c_SIDECAR_INVALID /\
  kind_code K_MALFORMED_COLUMN_REF = c_SIDECAR_BRACES_INVALID /\
  kind_code K_INVALID_COLUMN_REF = c_SIDECAR_BRACES_INVALID /\
  kind_code K_SELF_COLUMN_REF = c_SIDECAR_BRACES_INVALID /\
  kind_code K_NESTED_COLUMN_REF = c_SIDECAR_BRACES_INVALID /\
  kind_code K_INVALID_POUND_SIGNS_VALUE = c_PLACEHOLDER_INVALID /\
  kind_code K_INVALID_POUND_SIGNS_CATEGORY = c_PLACEHOLDER_INVALID /\
  kind_code K_UNKNOWN_COLUMN_TYPE = c_sidecarUnknownColumn /\
  kind_code K_WRONG_HED_DATA_TYPE = c_wrongHedDataType /\
  kind_code K_BLANK_HED_STRING = c_blankValueString.
Proof. exact spec_codes. Qed.
Print Assumptions C08_codes.

(* non-vacuity: {"a": {"HED": "Label/#, {b}"}, "b": {"HED": {"x": "Red"}}}
   satisfies struct_ok and validates to no issue; the same sidecar without the
   '#' violates struct_ok and yields exactly PLACEHOLDER_INVALID *)
Example C08_nonvacuous :
  struct_ok sc_good = true /\
  validate_sidecar true V0_defs V0_basic V0_defcount V0_hashes V0_full (JObj sc_good) = Ok [] /\
  struct_ok sc_hash0 = false /\
  exists out, validate_sidecar true V0_defs V0_basic V0_defcount V0_hashes V0_full (JObj sc_hash0) = Ok out /\
              error_codes out = [c_PLACEHOLDER_INVALID].
Proof. exact now_example. Qed.

(* ====================================================================== *)
(* II. Record of the repaired defects: behaviour BEFORE the fix commits     *)
(*     ae9929b, 8a59f35, f477d0a ([fixed = false]).  /repo contains all      *)
(*     three; nothing below is false of the implementation as it is now.     *)

(* Behaviour before fix commits ae9929b / 8a59f35 / f477d0a: "never raises"
   was FALSE of that code:
   {"TaskName": "rest"} raised AttributeError (fixed by ae9929b), [1] raised
   TypeError while loading (8a59f35), {"onset": {"HED": "{col1}"}} raised
   KeyError (f477d0a). *)
Theorem C08_never_raises_refuted :
  exists j1 j2 j3, forall Vd Vb Vc Vh Vf,
    validate_sidecar false Vd Vb Vc Vh Vf j1 = Exn AttributeError /\
    validate_sidecar false Vd Vb Vc Vh Vf j2 = Exn TypeError /\
    validate_sidecar false Vd Vb Vc Vh Vf j3 = Exn KeyError.
Proof. exact never_raises_refuted. Qed.
Print Assumptions C08_never_raises_refuted.

(* what did hold before fix commits ae9929b / f477d0a: no exception on objects whose entries are
   all objects and whose '#'-less value strings reference only known columns *)
Theorem C08_never_raises_partial : forall Vd Vb Vc Vh Vf kvs,
  cols_objects kvs = true -> hashless_refs_known kvs = true ->
  exists l, validate_sidecar false Vd Vb Vc Vh Vf (JObj kvs) = Ok l.
Proof. exact never_raises_partial. Qed.
Print Assumptions C08_never_raises_partial.

(* the same three documents on the code as it is now (fixed = true) *)
Theorem C08_witnesses_fixed : forall Vd Vb Vc Vh Vf,
  (exists l, validate_sidecar true Vd Vb Vc Vh Vf w_taskname = Ok l) /\
  validate_sidecar true Vd Vb Vc Vh Vf w_toplist = Exn HedFileError /\
  (exists l, validate_sidecar true Vd Vb Vc Vh Vf w_keyerror = Ok l /\
             In c_SIDECAR_BRACES_INVALID (error_codes l)).
Proof. exact witnesses_fixed. Qed.
Print Assumptions C08_witnesses_fixed.
