(* C08 -- Sidecar validation is total and flags each structural fault.
   Property theorems only; each closed with [exact] and followed by
   Print Assumptions.

   [validate_sidecar fixed Vd Vb Vc Vh Vf j] is the model of
   Sidecar(io.StringIO(json_text)).validate(schema).  Vd..Vf are the abstract
   string-level validators -- ALL theorems quantify over them and over ALL
   JSON values.  [fixed = true] is the code as it is now (with the fix:
   commits ae9929b, 8a59f35, f477d0a); [fixed = false] is the code before them
   and only appears in part II, the record of the repaired defects. *)
From Coq Require Import List NArith.
From HV Require Import Base.Res Base.Str Gen.SidecarCodes Model.Sidecar
                       Proofs.SidecarProofs Proofs.SidecarClean.
Import ListNotations.

(* ====================================================================== *)
(* I. The code as it is now                                               *)

(* Clause 1: validating any JSON object never raises, whatever the types and
   nesting of its values ... *)
Theorem C08_never_raises : forall Vd Vb Vc Vh Vf kvs,
  exists l, validate_sidecar true Vd Vb Vc Vh Vf (JObj kvs) = Ok l.
Proof. exact never_raises_fixed. Qed.
Print Assumptions C08_never_raises.

(* ... and a document that is not an object is refused while loading with the
   documented HedFileError (it is not a sidecar). *)
Theorem C08_nonobject_refused : forall Vd Vb Vc Vh Vf j,
  is_obj j = false -> validate_sidecar true Vd Vb Vc Vh Vf j = Exn HedFileError.
Proof. exact nonobject_refused_fixed. Qed.
Print Assumptions C08_nonobject_refused.

(* Clause 2 (wellformed_clean): a sidecar obeying the structural rules
   (struct_ok, Model/Sidecar.v: HED entries are strings with exactly one '#' or
   non-empty maps of non-empty '#'-free strings whose keys are not n/a; HED is
   not a column name nor a key inside plain metadata; braces balanced and
   un-nested; references name HED or an existing HED-bearing column, not the
   column itself, and referenced columns hold no references) whose strings are
   individually valid yields no error-severity issue.
   "Individually valid" = the string-level validators report no error on the
   strings of the document and on their reference substitutions, count
   placeholders exactly on definition-free strings, and no column mixes
   definition and non-definition strings. *)
Theorem C08_wellformed_clean : forall Vd Vb Vc Vh Vf sc,
  struct_ok sc = true ->
  any_error (Vd (doc_strings sc)) = false ->
  (forall s, In s (doc_strings sc) -> any_error (Vb (doc_strings sc) s) = false) ->
  (forall s refs combo, In s (doc_strings sc) -> any_error (Vf (doc_strings sc) s refs combo) = false) ->
  (forall s, In s (doc_strings sc) -> Vc s = 0 -> Vh (doc_strings sc) s = count ch_hash s) ->
  (forall col, In col sc -> (forall s, In s (column_strings (snd col)) -> Vc s = 0) \/
                            (forall s, In s (column_strings (snd col)) -> Vc s <> 0)) ->
  exists out, validate_sidecar true Vd Vb Vc Vh Vf (JObj sc) = Ok out /\ error_codes out = [].
Proof. exact now_wellformed_clean. Qed.
Print Assumptions C08_wellformed_clean.

(* Clause 3 (fault_flagged), one theorem per structural rule.  Each holds for
   EVERY sidecar containing the fault (not only otherwise well-formed ones). *)

(* HED used as a column name *)
Theorem C08_fault_hed_column : forall Vd Vb Vc Vh Vf sc v,
  In (s_HED, v) sc ->
  exists out, validate_sidecar true Vd Vb Vc Vh Vf (JObj sc) = Ok out /\
              In c_SIDECAR_INVALID (error_codes out).
Proof. exact now_fault_hed_column. Qed.
Print Assumptions C08_fault_hed_column.

(* n/a used as a category key *)
Theorem C08_fault_na_key : forall Vd Vb Vc Vh Vf sc name kvs hv s,
  In (name, JObj kvs) sc -> name <> s_HED ->
  lookup s_HED kvs = Some (JObj hv) -> In (s_NA, JStr s) hv -> s <> [] ->
  exists out, validate_sidecar true Vd Vb Vc Vh Vf (JObj sc) = Ok out /\
              In c_SIDECAR_INVALID (error_codes out).
Proof. exact now_fault_na_key. Qed.
Print Assumptions C08_fault_na_key.

(* HED entry that is neither a string nor a map *)
Theorem C08_fault_hed_entry_type : forall Vd Vb Vc Vh Vf sc name kvs h,
  In (name, JObj kvs) sc -> name <> s_HED ->
  lookup s_HED kvs = Some h -> is_str h = false -> is_obj h = false ->
  exists out, validate_sidecar true Vd Vb Vc Vh Vf (JObj sc) = Ok out /\
              In c_sidecarUnknownColumn (error_codes out).
Proof. exact now_fault_hed_entry_type. Qed.
Print Assumptions C08_fault_hed_entry_type.

(* category value that is not a string (truthy / empty-or-falsy) *)
Theorem C08_fault_category_nonstring : forall Vd Vb Vc Vh Vf sc name kvs hv key val,
  In (name, JObj kvs) sc -> name <> s_HED ->
  lookup s_HED kvs = Some (JObj hv) -> In (key, val) hv -> truthy val = true -> is_str val = false ->
  exists out, validate_sidecar true Vd Vb Vc Vh Vf (JObj sc) = Ok out /\
              In c_wrongHedDataType (error_codes out).
Proof. exact now_fault_category_nonstring. Qed.
Print Assumptions C08_fault_category_nonstring.

Theorem C08_fault_category_blank : forall Vd Vb Vc Vh Vf sc name kvs hv key val,
  In (name, JObj kvs) sc -> name <> s_HED ->
  lookup s_HED kvs = Some (JObj hv) -> In (key, val) hv -> truthy val = false ->
  exists out, validate_sidecar true Vd Vb Vc Vh Vf (JObj sc) = Ok out /\
              In c_blankValueString (error_codes out).
Proof. exact now_fault_category_blank. Qed.
Print Assumptions C08_fault_category_blank.

(* '#' count.  The placeholder check runs after the only allowed early exit,
   so for EVERY sidecar with the fault either PLACEHOLDER_INVALID is reported,
   or the structure/reference screening already reported an error and the
   result is exactly the screening issues ([early_exit], which implies
   error_codes out <> [], C08_early_exit_has_error).  Hypotheses on the string
   level: the string holds no definition and its placeholders are counted
   exactly. *)
Theorem C08_fault_value_hash : forall Vd Vb Vc Vh Vf sc name kvs s,
  In (name, JObj kvs) sc -> lookup s_HED kvs = Some (JStr s) ->
  Vc s = 0 -> (forall ds, Vh ds s = count ch_hash s) -> count ch_hash s <> 1 ->
  exists out, validate_sidecar true Vd Vb Vc Vh Vf (JObj sc) = Ok out /\
              (In c_PLACEHOLDER_INVALID (error_codes out) \/ early_exit true sc out).
Proof. exact now_fault_value_hash. Qed.
Print Assumptions C08_fault_value_hash.

Theorem C08_fault_category_hash : forall Vd Vb Vc Vh Vf sc name kvs hv key s,
  In (name, JObj kvs) sc -> lookup s_HED kvs = Some (JObj hv) -> In (key, JStr s) hv ->
  Vc s = 0 -> (forall ds, Vh ds s = count ch_hash s) -> count ch_hash s <> 0 ->
  exists out, validate_sidecar true Vd Vb Vc Vh Vf (JObj sc) = Ok out /\
              (In c_PLACEHOLDER_INVALID (error_codes out) \/ early_exit true sc out).
Proof. exact now_fault_category_hash. Qed.
Print Assumptions C08_fault_category_hash.

(* The '#' rule is about characters, not tags: the surplus '#' may stand
   anywhere -- in the same tag as the first one ("Label/##", "Label/#_#",
   "Description/# and #"), in another tag or group, next to a reference -- and
   a value string may also hold no '#' at all. *)
Theorem C08_fault_value_hash_anywhere : forall Vd Vb Vc Vh Vf sc name kvs pre mid post,
  let s := pre ++ ch_hash :: mid ++ ch_hash :: post in
  In (name, JObj kvs) sc -> lookup s_HED kvs = Some (JStr s) ->
  Vc s = 0 -> (forall ds, Vh ds s = count ch_hash s) ->
  exists out, validate_sidecar true Vd Vb Vc Vh Vf (JObj sc) = Ok out /\
              (In c_PLACEHOLDER_INVALID (error_codes out) \/ early_exit true sc out).
Proof. exact now_fault_value_hash_anywhere. Qed.
Print Assumptions C08_fault_value_hash_anywhere.

Theorem C08_fault_value_hash_none : forall Vd Vb Vc Vh Vf sc name kvs s,
  In (name, JObj kvs) sc -> lookup s_HED kvs = Some (JStr s) -> has_hash s = false ->
  Vc s = 0 -> (forall ds, Vh ds s = count ch_hash s) ->
  exists out, validate_sidecar true Vd Vb Vc Vh Vf (JObj sc) = Ok out /\
              (In c_PLACEHOLDER_INVALID (error_codes out) \/ early_exit true sc out).
Proof. exact now_fault_value_hash_none. Qed.
Print Assumptions C08_fault_value_hash_none.

Theorem C08_fault_category_hash_anywhere : forall Vd Vb Vc Vh Vf sc name kvs hv key pre post,
  let s := pre ++ ch_hash :: post in
  In (name, JObj kvs) sc -> lookup s_HED kvs = Some (JObj hv) -> In (key, JStr s) hv ->
  Vc s = 0 -> (forall ds, Vh ds s = count ch_hash s) ->
  exists out, validate_sidecar true Vd Vb Vc Vh Vf (JObj sc) = Ok out /\
              (In c_PLACEHOLDER_INVALID (error_codes out) \/ early_exit true sc out).
Proof. exact now_fault_category_hash_anywhere. Qed.
Print Assumptions C08_fault_category_hash_anywhere.

(* concrete: {"c": {"HED": "Label/##"}} yields exactly PLACEHOLDER_INVALID *)
Example C08_same_tag_example :
  exists out, validate_sidecar true V0_defs V0_basic V0_defcount V0_hashes V0_full (JObj sc_hash_same_tag) = Ok out /\
              error_codes out = [c_PLACEHOLDER_INVALID].
Proof. exact same_tag_example. Qed.

Theorem C08_early_exit_has_error : forall fixed sc out,
  early_exit fixed sc out -> error_codes out <> [].
Proof. exact early_exit_has_error. Qed.
Print Assumptions C08_early_exit_has_error.

(* unbalanced or nested curly braces in a string of a HED-bearing column *)
Theorem C08_fault_braces : forall Vd Vb Vc Vh Vf sc name v s,
  In (name, v) sc -> hed_bearing v = true -> In s (column_strings v) -> braces_ok s = false ->
  exists out, validate_sidecar true Vd Vb Vc Vh Vf (JObj sc) = Ok out /\
              In c_SIDECAR_BRACES_INVALID (error_codes out).
Proof. exact now_fault_braces. Qed.
Print Assumptions C08_fault_braces.

(* reference to something that is neither HED nor a HED-bearing column *)
Theorem C08_fault_unknown_ref : forall Vd Vb Vc Vh Vf sc name v s m,
  In (name, v) sc -> hed_bearing v = true -> In s (column_strings v) ->
  In m (find_refs s) -> m <> s_HED -> ~ In m (all_hed_columns sc) ->
  exists out, validate_sidecar true Vd Vb Vc Vh Vf (JObj sc) = Ok out /\
              In c_SIDECAR_BRACES_INVALID (error_codes out).
Proof. exact now_fault_unknown_ref. Qed.
Print Assumptions C08_fault_unknown_ref.

(* a column referencing itself *)
Theorem C08_fault_self_ref : forall Vd Vb Vc Vh Vf sc name v s,
  In (name, v) sc -> hed_bearing v = true -> In s (column_strings v) -> In name (find_refs s) ->
  exists out, validate_sidecar true Vd Vb Vc Vh Vf (JObj sc) = Ok out /\
              In c_SIDECAR_BRACES_INVALID (error_codes out).
Proof. exact now_fault_self_ref. Qed.
Print Assumptions C08_fault_self_ref.

(* nested references: column n1 references column n2, which itself holds a
   reference -- wherever the two columns stand in the sidecar *)
Theorem C08_fault_nested_ref : forall Vd Vb Vc Vh Vf sc n1 v1 n2 v2,
  In (n1, v1) sc -> In (n2, v2) sc -> n1 <> n2 -> hed_bearing v1 = true -> hed_bearing v2 = true ->
  In n2 (col_refs v1) -> col_refs v2 <> [] ->
  exists out, validate_sidecar true Vd Vb Vc Vh Vf (JObj sc) = Ok out /\
              In c_SIDECAR_BRACES_INVALID (error_codes out).
Proof. exact now_fault_nested_ref. Qed.
Print Assumptions C08_fault_nested_ref.

(* The validator's brace scan reports nothing exactly for balanced,
   un-nested braces (all strings). *)
Theorem C08_braces_spec : forall s : str,
  find_non_matching_braces s = [] <-> braces_ok s = true.
Proof. exact braces_spec. Qed.
Print Assumptions C08_braces_spec.

(* The published codes the theorems speak about are the ones registered in
   the sources (regenerated table = expected table). *)
Theorem C08_codes :
  kind_code K_SIDECAR_HED_USED_COLUMN = c_SIDECAR_INVALID /\
  kind_code K_SIDECAR_HED_USED = c_SIDECAR_INVALID /\
  kind_code K_SIDECAR_NA_USED = c_SIDECAR_INVALID /\
  kind_code K_MALFORMED_COLUMN_REF = c_SIDECAR_BRACES_INVALID /\
  kind_code K_INVALID_COLUMN_REF = c_SIDECAR_BRACES_INVALID /\
  kind_code K_SELF_COLUMN_REF = c_SIDECAR_BRACES_INVALID /\
  kind_code K_NESTED_COLUMN_REF = c_SIDECAR_BRACES_INVALID /\
  kind_code K_INVALID_POUND_SIGNS_VALUE = c_PLACEHOLDER_INVALID /\
  kind_code K_INVALID_POUND_SIGNS_CATEGORY = c_PLACEHOLDER_INVALID /\
  kind_code K_UNKNOWN_COLUMN_TYPE = c_sidecarUnknownColumn /\
  kind_code K_WRONG_HED_DATA_TYPE = c_wrongHedDataType /\
  kind_code K_BLANK_HED_STRING = c_blankValueString.
Proof. exact spec_codes. Qed.
Print Assumptions C08_codes.

(* non-vacuity: {"a": {"HED": "Label/#, {b}"}, "b": {"HED": {"x": "Red"}}}
   satisfies struct_ok and validates to no issue; the same sidecar without the
   '#' violates struct_ok and yields exactly PLACEHOLDER_INVALID *)
Example C08_nonvacuous :
  struct_ok sc_good = true /\
  validate_sidecar true V0_defs V0_basic V0_defcount V0_hashes V0_full (JObj sc_good) = Ok [] /\
  struct_ok sc_hash0 = false /\
  exists out, validate_sidecar true V0_defs V0_basic V0_defcount V0_hashes V0_full (JObj sc_hash0) = Ok out /\
              error_codes out = [c_PLACEHOLDER_INVALID].
Proof. exact now_example. Qed.

(* ====================================================================== *)
(* II. Record of the repaired defects (code before the fix: commits)      *)

(* "never raises" was FALSE of the code before the repairs:
   {"TaskName": "rest"} raised AttributeError (fixed by ae9929b), [1] raised
   TypeError while loading (8a59f35), {"onset": {"HED": "{col1}"}} raised
   KeyError (f477d0a). *)
Theorem C08_never_raises_refuted :
  exists j1 j2 j3, forall Vd Vb Vc Vh Vf,
    validate_sidecar false Vd Vb Vc Vh Vf j1 = Exn AttributeError /\
    validate_sidecar false Vd Vb Vc Vh Vf j2 = Exn TypeError /\
    validate_sidecar false Vd Vb Vc Vh Vf j3 = Exn KeyError.
Proof. exact never_raises_refuted. Qed.
Print Assumptions C08_never_raises_refuted.

(* what did hold before the repairs: no exception on objects whose entries are
   all objects and whose '#'-less value strings reference only known columns *)
Theorem C08_never_raises_partial : forall Vd Vb Vc Vh Vf kvs,
  cols_objects kvs = true -> hashless_refs_known kvs = true ->
  exists l, validate_sidecar false Vd Vb Vc Vh Vf (JObj kvs) = Ok l.
Proof. exact never_raises_partial. Qed.
Print Assumptions C08_never_raises_partial.

(* the three refuting documents under the repaired code *)
Theorem C08_witnesses_fixed : forall Vd Vb Vc Vh Vf,
  (exists l, validate_sidecar true Vd Vb Vc Vh Vf w_taskname = Ok l) /\
  validate_sidecar true Vd Vb Vc Vh Vf w_toplist = Exn HedFileError /\
  (exists l, validate_sidecar true Vd Vb Vc Vh Vf w_keyerror = Ok l /\
             In c_SIDECAR_BRACES_INVALID (error_codes l)).
Proof. exact witnesses_fixed. Qed.
Print Assumptions C08_witnesses_fixed.
