(* C08 -- Sidecar validation is total and flags each structural fault.
   Property theorems only; each closed with [exact] and followed by
   Print Assumptions.

   [validate_sidecar fixed Vd Vb Vc Vh Vf j] is the model of
   Sidecar(io.StringIO(json_text)).validate(schema); Vd..Vf are the abstract
   string-level validators (ALL theorems quantify over them), [fixed = false]
   is the code as it exists, [fixed = true] the proposed repairs.

   FULL STATEMENT of the first clause (false of the code as it exists):
     forall Vd Vb Vc Vh Vf j, exists l, validate_sidecar false Vd Vb Vc Vh Vf j = Ok l *)
From Coq Require Import List NArith.
From HV Require Import Base.Res Base.Str Gen.SidecarCodes Model.Sidecar Proofs.SidecarProofs.
Import ListNotations.

(* The full statement is refuted by three documents: {"TaskName": "rest"}
   (AttributeError), [1] (TypeError while loading), {"onset": {"HED": "{col1}"}}
   (KeyError).  Replayed on the implementation: findings C08-F1, F2, F3. *)
Theorem C08_never_raises_refuted :
  exists j1 j2 j3, forall Vd Vb Vc Vh Vf,
    validate_sidecar false Vd Vb Vc Vh Vf j1 = Exn AttributeError /\
    validate_sidecar false Vd Vb Vc Vh Vf j2 = Exn TypeError /\
    validate_sidecar false Vd Vb Vc Vh Vf j3 = Exn KeyError.
Proof. exact never_raises_refuted. Qed.
Print Assumptions C08_never_raises_refuted.

(* Code as it exists: never raises on any object whose entries are all objects
   and whose '#'-less value strings reference only sidecar columns or HED. *)
Theorem C08_never_raises_partial : forall Vd Vb Vc Vh Vf kvs,
  cols_objects kvs = true -> hashless_refs_known kvs = true ->
  exists l, validate_sidecar false Vd Vb Vc Vh Vf (JObj kvs) = Ok l.
Proof. exact never_raises_partial. Qed.
Print Assumptions C08_never_raises_partial.

(* Repaired code: never raises on ANY JSON object, whatever the types and
   nesting of its values ... *)
Theorem C08_never_raises_fixed : forall Vd Vb Vc Vh Vf kvs,
  exists l, validate_sidecar true Vd Vb Vc Vh Vf (JObj kvs) = Ok l.
Proof. exact never_raises_fixed. Qed.
Print Assumptions C08_never_raises_fixed.

(* ... and a document that is not an object is refused while loading with the
   documented HedFileError. *)
Theorem C08_nonobject_refused_fixed : forall Vd Vb Vc Vh Vf j,
  is_obj j = false -> validate_sidecar true Vd Vb Vc Vh Vf j = Exn HedFileError.
Proof. exact nonobject_refused_fixed. Qed.
Print Assumptions C08_nonobject_refused_fixed.

(* The three refuting documents under the repairs. *)
Theorem C08_witnesses_fixed : forall Vd Vb Vc Vh Vf,
  (exists l, validate_sidecar true Vd Vb Vc Vh Vf w_taskname = Ok l) /\
  validate_sidecar true Vd Vb Vc Vh Vf w_toplist = Exn HedFileError /\
  (exists l, validate_sidecar true Vd Vb Vc Vh Vf w_keyerror = Ok l /\
             In c_SIDECAR_BRACES_INVALID (error_codes l)).
Proof. exact witnesses_fixed. Qed.
Print Assumptions C08_witnesses_fixed.

(* The published codes and reserved names the theorems below speak about are
   the ones registered in the sources (regenerated table = expected table). *)
Theorem C08_codes :
  kind_code K_SIDECAR_HED_USED_COLUMN = c_SIDECAR_INVALID /\
  kind_code K_SIDECAR_HED_USED = c_SIDECAR_INVALID /\
  kind_code K_SIDECAR_NA_USED = c_SIDECAR_INVALID /\
  kind_code K_MALFORMED_COLUMN_REF = c_SIDECAR_BRACES_INVALID /\
  kind_code K_INVALID_COLUMN_REF = c_SIDECAR_BRACES_INVALID /\
  kind_code K_SELF_COLUMN_REF = c_SIDECAR_BRACES_INVALID /\
  kind_code K_NESTED_COLUMN_REF = c_SIDECAR_BRACES_INVALID /\
  kind_code K_INVALID_POUND_SIGNS_VALUE = c_PLACEHOLDER_INVALID /\
  kind_code K_INVALID_POUND_SIGNS_CATEGORY = c_PLACEHOLDER_INVALID /\
  kind_code K_UNKNOWN_COLUMN_TYPE = c_sidecarUnknownColumn /\
  kind_code K_WRONG_HED_DATA_TYPE = c_wrongHedDataType /\
  kind_code K_BLANK_HED_STRING = c_blankValueString.
Proof. exact spec_codes. Qed.
Print Assumptions C08_codes.

(* The validator's brace scan reports nothing exactly for balanced,
   non-nested braces (all strings). *)
Theorem C08_braces_spec : forall s : str,
  find_non_matching_braces s = [] <-> braces_ok s = true.
Proof. exact braces_spec. Qed.
Print Assumptions C08_braces_spec.

(* ---- fault_flagged, one theorem per structural rule.  [all_good fixed sc]:
   fixed = true, or every entry of sc is an object (without it the code as it
   exists raises before reporting, finding C08-F1).  Each holds for EVERY
   sidecar containing the fault, not only for otherwise well-formed ones. ---- *)

(* HED used as a column name *)
Theorem C08_fault_hed_column : forall fixed Vd Vb Vc Vh Vf sc v,
  all_good fixed sc -> In (s_HED, v) sc ->
  exists out, validate_loaded fixed Vd Vb Vc Vh Vf sc = Ok out /\
              In c_SIDECAR_INVALID (error_codes out).
Proof. exact fault_hed_column. Qed.
Print Assumptions C08_fault_hed_column.

(* n/a used as a category key *)
Theorem C08_fault_na_key : forall fixed Vd Vb Vc Vh Vf sc name kvs hv s,
  all_good fixed sc -> In (name, JObj kvs) sc -> name <> s_HED ->
  lookup s_HED kvs = Some (JObj hv) -> In (s_NA, JStr s) hv -> s <> [] ->
  exists out, validate_loaded fixed Vd Vb Vc Vh Vf sc = Ok out /\
              In c_SIDECAR_INVALID (error_codes out).
Proof. exact fault_na_key'. Qed.
Print Assumptions C08_fault_na_key.

(* HED entry that is neither a string nor a map *)
Theorem C08_fault_hed_entry_type : forall fixed Vd Vb Vc Vh Vf sc name kvs h,
  all_good fixed sc -> In (name, JObj kvs) sc -> name <> s_HED ->
  lookup s_HED kvs = Some h -> is_str h = false -> is_obj h = false ->
  exists out, validate_loaded fixed Vd Vb Vc Vh Vf sc = Ok out /\
              In c_sidecarUnknownColumn (error_codes out).
Proof. exact fault_hed_entry_type'. Qed.
Print Assumptions C08_fault_hed_entry_type.

(* category value that is not a string (truthy / falsy) *)
Theorem C08_fault_category_nonstring : forall fixed Vd Vb Vc Vh Vf sc name kvs hv key val,
  all_good fixed sc -> In (name, JObj kvs) sc -> name <> s_HED ->
  lookup s_HED kvs = Some (JObj hv) -> In (key, val) hv -> truthy val = true -> is_str val = false ->
  exists out, validate_loaded fixed Vd Vb Vc Vh Vf sc = Ok out /\
              In c_wrongHedDataType (error_codes out).
Proof. exact fault_category_nonstring'. Qed.
Print Assumptions C08_fault_category_nonstring.

Theorem C08_fault_category_blank : forall fixed Vd Vb Vc Vh Vf sc name kvs hv key val,
  all_good fixed sc -> In (name, JObj kvs) sc -> name <> s_HED ->
  lookup s_HED kvs = Some (JObj hv) -> In (key, val) hv -> truthy val = false ->
  exists out, validate_loaded fixed Vd Vb Vc Vh Vf sc = Ok out /\
              In c_blankValueString (error_codes out).
Proof. exact fault_category_blank'. Qed.
Print Assumptions C08_fault_category_blank.

(* unbalanced or nested curly braces in a string of a HED-bearing column *)
Theorem C08_fault_braces : forall fixed Vd Vb Vc Vh Vf sc name v s,
  all_good fixed sc -> In (name, v) sc -> hed_bearing v = true -> In s (column_strings v) ->
  braces_ok s = false ->
  exists out, validate_loaded fixed Vd Vb Vc Vh Vf sc = Ok out /\
              In c_SIDECAR_BRACES_INVALID (error_codes out).
Proof. exact fault_braces. Qed.
Print Assumptions C08_fault_braces.

(* reference to something that is neither HED nor a HED-bearing column *)
Theorem C08_fault_unknown_ref : forall fixed Vd Vb Vc Vh Vf sc name v s m,
  all_good fixed sc -> In (name, v) sc -> hed_bearing v = true -> In s (column_strings v) ->
  In m (find_refs s) -> m <> s_HED -> ~ In m (all_hed_columns sc) ->
  exists out, validate_loaded fixed Vd Vb Vc Vh Vf sc = Ok out /\
              In c_SIDECAR_BRACES_INVALID (error_codes out).
Proof. exact fault_unknown_ref. Qed.
Print Assumptions C08_fault_unknown_ref.

(* a column referencing itself *)
Theorem C08_fault_self_ref : forall fixed Vd Vb Vc Vh Vf sc name v s,
  all_good fixed sc -> In (name, v) sc -> hed_bearing v = true -> In s (column_strings v) ->
  In name (find_refs s) ->
  exists out, validate_loaded fixed Vd Vb Vc Vh Vf sc = Ok out /\
              In c_SIDECAR_BRACES_INVALID (error_codes out).
Proof. exact fault_self_ref. Qed.
Print Assumptions C08_fault_self_ref.

(* non-vacuity: {"a": {"HED": "Label/#, {b}"}, "b": {"HED": {"x": "Red"}}}
   meets the hypotheses of C08_never_raises_partial and validates cleanly *)
Example C08_nonvacuous :
  (exists kvs, w_good = JObj kvs /\ cols_objects kvs = true /\ hashless_refs_known kvs = true) /\
  validate_sidecar false V0_defs V0_basic V0_defcount V0_hashes V0_full w_good = Ok [].
Proof. exact good_example. Qed.
