(* C06 -- Event-file rows assemble into exactly the annotation the sidecar prescribes.
   Property theorems only; each closed with [exact] and followed by Print Assumptions.

   PART A states the property for the code as it is NOW: /repo contains the fix commits
   a455136 (empty text treated like n/a), 37fb060 (re.escape of the reference), a2f08b3
   (empty value cell skipped), 2ad4134 (_remover tests for a comma), a8ad4f5 (one
   occurrence at a time), fd59dc0 (positional splice), 220dc27 (_handle_transforms works
   on a copy), 8227060 (the final join skips blanks-only texts) and d53ebab (replace_ref removes
   a reference whose column text holds only blanks).  The model follows it at [fixed = true], [keepcat = false]; this is the mode
   the correspondence run compares with the implementation (harness defaults
   VERIF_C06_FIXED=1, VERIF_C06_KEEPCAT=0).
   PART B is the RECORD of the repaired defects: [fixed = false] / [keepcat = true] is the
   behaviour BEFORE those commits.  Every theorem there is about that past behaviour and is
   labelled with the commit that repaired it; none of them says anything is still wrong.
   (Checkable with VERIF_C06_FIXED=0 VERIF_C06_KEEPCAT=1 against a tree at 5312cdc.) *)
From Coq Require Import List NArith Bool Sorted.
From HV Require Import Base.Res Base.Str Model.Parse Model.RefSplice Model.Assemble
  Model.AssembleOps
  Proofs.ParseProofs Proofs.AssembleProofs Proofs.AssembleTotal Proofs.AssembleOpsProofs
  Proofs.SpliceLiteralProofs Proofs.ColumnKindProofs
  Proofs.BlankProofs.
Import ListNotations.

(* ============ PART A: the code as it is now (fixed = true, keepcat = false) ============ *)

(* WHICH columns are listed and WHAT each contributes, read off the sidecar's JSON shape
   ([transformers_of cols sc] is the list the assembly uses; [cols] = the table's column
   names, [sc] = the loaded sidecar).  These theorems characterise _detect_column_type,
   _get_sidecar_basic_map, _finalize_mapping and get_transformers of the model; without
   them C06_row_is_union below would only be relative to the model's own list. *)

(* the HED column of the table is listed as it is (identity), whatever the sidecar says *)
Theorem C06_hed_column_kind :
  forall cols sc, mem hed_key cols = true -> assoc hed_key (transformers_of cols sc) = Some XId.
Proof. exact hed_column_kind. Qed.
Print Assumptions C06_hed_column_kind.

(* a table column whose sidecar entry has "HED": {key: text, ...} (all texts strings)
   contributes the entry selected by its cell, over exactly those key/text pairs *)
Theorem C06_categorical_kind :
  forall cols sc c kv entries,
  mem c cols = true -> str_eqb c hed_key = false ->
  assoc c sc = Some (JDict kv) -> assoc hed_key kv = Some (JDict (str_entries entries)) ->
  assoc c (transformers_of cols sc) = Some (XCat entries).
Proof. exact categorical_kind. Qed.
Print Assumptions C06_categorical_kind.

(* a table column whose sidecar entry has "HED": "...#..." contributes that template *)
Theorem C06_value_kind :
  forall cols sc c kv s,
  mem c cols = true -> str_eqb c hed_key = false ->
  assoc c sc = Some (JDict kv) -> assoc hed_key kv = Some (JStr s) -> memc ch_hash s = true ->
  assoc c (transformers_of cols sc) = Some (XValue s).
Proof. exact value_kind. Qed.
Print Assumptions C06_value_kind.

(* NOT listed (contribute nothing): names that are not table columns; table columns without
   a sidecar entry (other than HED); entries that are not a JSON object or have no "HED" key *)
Theorem C06_unlisted_kinds :
  forall cols sc c,
  (mem c cols = false -> assoc c (transformers_of cols sc) = None) /\
  (str_eqb c hed_key = false -> assoc c sc = None -> assoc c (transformers_of cols sc) = None) /\
  (str_eqb c hed_key = false ->
   forall e, assoc c sc = Some e ->
   (match e with JDict kv => assoc hed_key kv = None | _ => True end) ->
   assoc c (transformers_of cols sc) = None).
Proof. exact unlisted_kinds. Qed.
Print Assumptions C06_unlisted_kinds.

(* column NAMES: no name other than "HED" is special -- in particular a sidecar that annotates
   the BIDS timing columns "onset" / "duration" themselves is listed like any other column
   (short corollary of the two kinds theorems; other reserved-looking names -- sample,
   response_time, Levels, Description, ... -- are covered by the same general theorems and are
   exercised as an input dimension by the harness). *)
Theorem C06_timing_columns_listed :
  forall cols sc c kv,
  c = name_onset \/ c = name_duration ->
  mem c cols = true -> assoc c sc = Some (JDict kv) ->
  (forall s, assoc hed_key kv = Some (JStr s) -> memc ch_hash s = true ->
             assoc c (transformers_of cols sc) = Some (XValue s)) /\
  (forall entries, assoc hed_key kv = Some (JDict (str_entries entries)) ->
             assoc c (transformers_of cols sc) = Some (XCat entries)).
Proof. exact timing_columns_listed. Qed.
Print Assumptions C06_timing_columns_listed.

(* the complete table: every name, every entry shape (incl. malformed entries, which the code
   lists as identity columns -- [column_xform] spells out the remaining cases) *)
Theorem C06_listed_columns :
  forall cols sc c,
  assoc c (transformers_of cols sc) = if mem c cols then column_xform sc c else None.
Proof. exact listed_columns. Qed.
Print Assumptions C06_listed_columns.

(* "in column order": the listed names are distinct and sorted by code points (Python str
   order), for every table column order and sidecar order *)
Theorem C06_listed_names_sorted :
  forall cols sc,
  StronglySorted (fun a b : str => str_ltb b a = false) (map fst (transformers_of cols sc)) /\
  NoDup (map fst (final_column_map cols sc)).
Proof. exact (fun cols sc => conj (listed_names_sorted cols sc) (proj1 (final_map_assoc cols sc))). Qed.
Print Assumptions C06_listed_names_sorted.

Example C06_listed_nonvacuous :
  transformers_of (map fst (t_cols ex_table)) ex_sidecar
  = [ (hed_key, XId);
      ([99]%N, XCat [([103]%N, [82]%N)]);
      ([118]%N, XValue [40; 123; 99; 125; 44; 32; 76; 47; 35; 41]%N) ].
Proof. exact ex_listed. Qed.

(* The assembled annotation of row i: with [tf] the SPECIFIED list above, every listed column
   is the table column with its transformer applied cell by cell, and row i is the ", "-join,
   in that order, of the non-empty, non-n/a parts; a referenced column is spliced into the
   others ([row_part] folds replace_ref over the referenced columns' texts of the same row)
   and is not listed itself ([spec_row] drops the referenced names).  For ALL sidecars,
   tables, rows and every enumeration order of the reference set.
   Honest reading: [spec_row] re-uses the model's helpers (get_col, replace_ref, keep_part);
   what this theorem adds to the kinds theorems is that the column-major pandas-style
   computation equals the row-wise description; what replace_ref / keep_part / the
   transformers do is stated by the theorems that follow. *)
Theorem C06_row_is_union :
  forall (st st' : tabular) (ord : list str) (rows : list str),
  series_a true st ord = Ok (st', rows) -> wf_table (tb_df st) ->
  let tf := transformers_of (map fst (t_cols (tb_df st))) (tb_sidecar st) in
  exists all,
    Forall2 (fun (nf : str * xform) (nc : str * list str) =>
               fst nc = fst nf /\
               exists c, get_col (fst nf) (t_cols (tb_df st)) = Ok c /\
                         snd nc = map (apply_xform true (snd nf)) c) tf all /\
    length rows = t_rows (tb_df st) /\
    forall i, i < t_rows (tb_df st) ->
      spec_row true all (set_order ord (column_refs (tb_sidecar st))) (map fst tf) i
      = Ok (nth i rows []).
Proof. exact row_is_union_listed. Qed.
Print Assumptions C06_row_is_union.

(* (This one is the definition of [transform] restated for an arbitrary list -- kept for
   reference; the content is in the kinds theorems above and in C06_row_is_union.)
   The parts: each listed column is the table column with the transformer of its kind
   applied cell by cell (HED column: the cell; categorical: the entry selected by the
   cell, "" when there is none; value: n/a and empty pass as n/a, otherwise every '#' is
   the cell). *)
Theorem C06_parts_per_kind :
  forall cols tf all, transform true cols tf = Ok all ->
  Forall2 (fun (nf : str * xform) (nc : str * list str) =>
             fst nc = fst nf /\
             exists c, get_col (fst nf) cols = Ok c /\ snd nc = map (apply_xform true (snd nf)) c)
          tf all.
Proof. exact (transform_cells true). Qed.
Print Assumptions C06_parts_per_kind.

(* Which texts the final per-row join skips (combine_dataframe since fix commit 8227060:
   bool(e.strip(" ")) and e != "n/a"): EXACTLY the empty text, texts holding only blanks
   (U+0020 only) and the text "n/a".  Every other text -- " n/a", "n/a ", "Red ", a tab --
   is listed as it is.  All texts. *)
Theorem C06_join_skips_exactly :
  forall e : str, keep_part e = false <-> (e = ch_na \/ Forall (fun c => c = ch_space) e).
Proof. exact keep_part_spec. Qed.
Print Assumptions C06_join_skips_exactly.

(* closed instances, incl. the record of the rule before 8227060 ([keep_part_pre]: a blank
   text was listed, giving "R,  , B") *)
Example C06_join_skips_nonvacuous :
  keep_part_pre [32]%N = true /\ keep_part [32]%N = false /\ keep_part [32; 32]%N = false /\
  keep_part [] = false /\ keep_part ch_na = false /\
  keep_part [32; 110; 47; 97]%N = true /\ keep_part [82; 32]%N = true /\ keep_part [9]%N = true /\
  combine_row [[82]%N; [32]%N; [66]%N] = [82; 44; 32; 66]%N.
Proof. exact blank_part_before_and_now. Qed.

(* Cells that are n/a or empty contribute no part, whatever the column kind. *)
Theorem C06_skipped_cell_contributes_nothing :
  forall (f : xform) (x : str), skipped x = true ->
  (forall kv, f = XCat kv -> assoc x kv = None) ->
  keep_part (apply_xform true f x) = false.
Proof. exact skipped_cell_contributes_nothing. Qed.
Print Assumptions C06_skipped_cell_contributes_nothing.

(* na_is_removed, FULL statement, for the code as it is (since fix commits a455136 and d53ebab):
   whenever the referenced column's text for the row is one the join skips -- "n/a", empty or
   blanks only ([keep_part v = false], see C06_join_skips_exactly) -- the reference is taken out
   by the remover, never substituted literally.  For all texts, reference names (digits-only
   included: the name is escaped) and values. *)
Theorem C06_na_is_removed :
  forall text ref v : str, keep_part v = false ->
  replace_ref true text ref v = Ok (remove_ref_fixed (brace ref) text).
Proof. exact na_is_removed_current. Qed.
Print Assumptions C06_na_is_removed.

(* the mode of the code as it is: replace_ref IS replace_ref_gen true (Model/RefSplice.v:
   blank_ref_removed = true; the harness reads the same constant) *)
Theorem C06_current_blank_mode : replace_ref = replace_ref_gen true.
Proof. exact current_blank_mode. Qed.
Print Assumptions C06_current_blank_mode.


(* Assembly never raises: for every sidecar, table and reference order. *)
Theorem C06_assembly_never_raises :
  forall (st : tabular) (ord : list str), exists st' rows, series_a true st ord = Ok (st', rows).
Proof. exact series_a_fixed_total. Qed.
Print Assumptions C06_assembly_never_raises.

Theorem C06_replace_ref_never_raises :
  forall text ref v : str, exists r, replace_ref true text ref v = Ok r.
Proof. exact replace_ref_fixed_total. Qed.
Print Assumptions C06_replace_ref_never_raises.

(* One annotation per row, in row order (row i is computed from cells of row i only:
   C06_row_is_union reads columns through [nth i]). *)
Theorem C06_row_order :
  forall (st st' : tabular) (ord : list str) (rows : list str),
  series_a true st ord = Ok (st', rows) -> length rows = t_rows (tb_df st).
Proof. exact (row_order true). Qed.
Print Assumptions C06_row_order.

(* Same answer every time it is asked; neither the table (cells, columns, row order)
   nor the sidecar is changed.  Honest reading: the model is functional, so "table and
   sidecar unchanged" holds by construction of the model (handle_transforms rebuilds the
   state with the same tb_df/tb_sidecar); the content proved is that the second answer on
   the returned object equals the first.  In-place mutation by pandas is outside the model:
   that clause is TESTED on the implementation (cell values, columns, row order, index and
   sidecar compared before/after on every generated case). *)
Theorem C06_deterministic_inputs_unchanged :
  forall (st st' : tabular) (ord : list str) (rows : list str),
  series_a true st ord = Ok (st', rows) ->
  tb_df st' = tb_df st /\ tb_sidecar st' = tb_sidecar st /\
  series_a true st' ord = Ok (st', rows).
Proof. exact (deterministic_unchanged true). Qed.
Print Assumptions C06_deterministic_inputs_unchanged.

(* "Spliced in place of the reference", verbatim: a reference whose column text is not skipped
   by the join (not "n/a", not empty, not blanks only: [keep_part v = true]) is replaced by plain LITERAL substitution ([str_replace]) -- at an
   occurrence the text is inserted exactly as it is, whatever characters it contains
   (backslashes, \1, \g<0>, $, %, ...): nothing in it is interpreted.  All inputs. *)
Theorem C06_reference_spliced_verbatim :
  forall rest ref v : str, keep_part v = true ->
  replace_ref true (brace ref ++ rest) ref v = Ok (v ++ str_replace (brace ref) v rest 0).
Proof. exact replace_ref_hit. Qed.
Print Assumptions C06_reference_spliced_verbatim.

Theorem C06_replacement_is_literal :
  forall (old new rest : str) (c : N) (s : str),
  (old <> [] -> str_replace old new (old ++ rest) 0 = new ++ str_replace old new rest 0) /\
  (prefixb old (c :: s) = false -> str_replace old new (c :: s) 0 = c :: str_replace old new s 0).
Proof. exact (fun old new rest c s => conj (str_replace_hit old new rest) (str_replace_miss old new c s)). Qed.
Print Assumptions C06_replacement_is_literal.

(* "Each value template with '#' replaced by the cell text, skipping cells that are n/a or
   empty": the VALUE HANDLER and the reference dispatch ([skipped]) skip ONLY the exact texts
   "n/a" and ""; since d53ebab a blanks-only text of a REFERENCED column goes to the remover as
   well (C06_na_is_removed), the value handler is unchanged.  Every other cell -- substrings and near-misses of n/a such as a, n, /, n/,
   /a, N/A, na, " n/a", and also a blanks-only cell " " -- fills every '#' verbatim (a
   template "#" then yields the blank text, which the final join skips: C06_join_skips_exactly;
   "Label/#" yields "Label/ ").  All templates and cells. *)
Theorem C06_only_exact_na_is_skipped :
  forall x : str, skipped x = true <-> x = ch_na \/ x = [].
Proof. exact skipped_exact. Qed.
Print Assumptions C06_only_exact_na_is_skipped.

Theorem C06_value_cell_fills_template :
  forall tmpl x : str, skipped x = false -> value_handler true tmpl x = subst_hash tmpl x.
Proof. exact value_handler_exact. Qed.
Print Assumptions C06_value_cell_fills_template.

Theorem C06_hash_is_cell_text_verbatim :
  forall a b x : str, subst_hash (a ++ ch_hash :: b) x = subst_hash a x ++ x ++ subst_hash b x.
Proof. exact subst_hash_at. Qed.
Print Assumptions C06_hash_is_cell_text_verbatim.

Example C06_near_misses_nonvacuous :
  forallb (fun x => negb (skipped x) && str_eqb (value_handler true [76; 47; 35]%N x) ([76; 47]%N ++ x))
          near_misses = true /\
  replace_ref true [123; 118; 125; 44; 32; 82]%N [118]%N [112; 92; 49; 113]%N
  = Ok [112; 92; 49; 113; 44; 32; 82]%N.
Proof. exact (conj near_misses_not_skipped backslash_spliced). Qed.

(* "Gives the same answer every time it is asked" over HISTORIES on one object
   (Model/AssembleOps.v), for the code as it is now ([run true false]): for EVERY sequence of
   assemblies, reset_column_mapper switches and set_cell edits, each answer equals the
   assembly of a fresh object holding the current table and the CURRENT sidecar -- the
   object's state is just (table, current sidecar) ([run_spec]). *)
Theorem C06_history_answers_current_sidecar :
  forall (ops : list op) (o : obj),
  run true false o ops = run_spec true (tb_df (o_tab o)) (tb_sidecar (o_tab o)) ops.
Proof. exact (fun ops o => history_current true false ops o (or_introl eq_refl)). Qed.
Print Assumptions C06_history_answers_current_sidecar.

(* (the same holds for both values of [fixed]; this is the former C06_history_with_edits_repaired) *)
Theorem C06_history_with_edits_any_fixed :
  forall (fixed : bool) (ops : list op) (o : obj),
  run fixed false o ops = run_spec fixed (tb_df (o_tab o)) (tb_sidecar (o_tab o)) ops.
Proof. exact (fun fixed ops o => history_current fixed false ops o (or_introl eq_refl)). Qed.
Print Assumptions C06_history_with_edits_any_fixed.

Example C06_history_nonvacuous :
  run true false ex_obj [OAssemble []; OReset ex_sidecar_b; OAssemble []; OSetCell 1 1 [103]%N;
                         OAssemble []; OReset ex_sidecar; OAssemble []]
  = [ RRows [ [66; 44; 32; 40; 82; 44; 32; 76; 47; 120; 41]%N; [40; 76; 47; 121; 41]%N; [] ];
      RNone;
      RRows [ [66; 44; 32; 82; 44; 32; 76; 47; 120]%N; []; [82]%N ];
      RNone;
      RRows [ [66; 44; 32; 82; 44; 32; 76; 47; 120]%N; [82; 44; 32; 76; 47; 121]%N; [82]%N ];
      RNone;
      RRows [ [66; 44; 32; 40; 82; 44; 32; 76; 47; 120; 41]%N;
              [40; 82; 44; 32; 76; 47; 121; 41]%N; [] ] ].
Proof. exact ex_switch_current. Qed.

(* splice_tree + splice_well_delimited, BOUNDED: for every template over
   {a, blank, ',', '(', ')', {r}} of at most 7 symbols that is delimiter-well-formed and
   in which each reference is a whole tag ([splice_premise true]), removing the reference
   (cell n/a) yields a delimiter-well-formed text whose C02 parse is the template's parse
   with the reference tags removed and emptied groups pruned ([splice_concl]).
   Exhaustive inside the kernel; not proved beyond the bound. *)
Theorem C06_splice_tree_bounded :
  forall w : str, length w <= 7 -> Forall (fun c => In c sigma_t) w ->
  splice_premise true w = true -> splice_concl true w = true.
Proof. exact splice_tree_fixed_bounded. Qed.
Print Assumptions C06_splice_tree_bounded.

(* Non-vacuity: a 3-row table with a categorical column referenced from a value template
   and a HED column.  Row 2 (categorical cell n/a) is "(L/y)" for the code as it is now
   ([series_a true], third conjunct); the second conjunct records the behaviour before fix
   commit a455136 ([series_a false]): "(, L/y)". *)
Example C06_nonvacuous :
  wf_table ex_table /\
  (exists st', series_a false ex_st [] =
     Ok (st', [ [66; 44; 32; 40; 82; 44; 32; 76; 47; 120; 41]%N;
                [40; 44; 32; 76; 47; 121; 41]%N;
                [] ])) /\
  (exists st', series_a true ex_st [] =
     Ok (st', [ [66; 44; 32; 40; 82; 44; 32; 76; 47; 120; 41]%N;
                [40; 76; 47; 121; 41]%N;
                [] ])).
Proof. exact ex_series. Qed.

(* ==== PART B: RECORD of the repaired defects -- behaviour BEFORE the fix commits ====
   ([fixed = false]: before a455136/37fb060/a2f08b3/2ad4134/a8ad4f5; [keepcat = true]: before
   220dc27).  None of these statements is about the current implementation. *)

(* Histories without cell edits already behaved: holds for both values of both switches. *)
Theorem C06_history_without_edits_any_mode :
  forall (fixed keepcat : bool) (ops : list op) (o : obj),
  forallb (fun p => negb (is_setcell p)) ops = true ->
  run fixed keepcat o ops = run_spec fixed (tb_df (o_tab o)) (tb_sidecar (o_tab o)) ops.
Proof. exact reset_history_current. Qed.
Print Assumptions C06_history_without_edits_any_mode.

(* REPAIRED by 220dc27 (defect C06-F7): before it, _handle_transforms left the 'category'
   dtype on the object's frame, so after an assembly set_cell of a categorical column to a
   value it did not hold raised TypeError while a fresh object accepted the edit
   ([run true true]); third conjunct: the same history in the current mode is fine. *)
Theorem C06_set_cell_after_assembly_refuted :
  nth 1 (run true true ex_obj ops_edit_after) RNone = RExn TypeError /\
  nth 0 (run true true ex_obj ops_edit_fresh) (RExn TypeError) = RNone /\
  run true false ex_obj ops_edit_after
  = run_spec true (tb_df ex_st) (tb_sidecar ex_st) ops_edit_after.
Proof. exact set_cell_after_assembly_refuted. Qed.
Print Assumptions C06_set_cell_after_assembly_refuted.


(* The structural clauses already held before the fix commits ([fixed = false]). *)
Theorem C06_unrepaired_row_is_union :
  forall (st st' : tabular) (ord : list str) (rows : list str),
  series_a false st ord = Ok (st', rows) -> wf_table (tb_df st) ->
  exists all tf,
    handle_transforms false st = Ok (st', all, tf) /\
    length rows = t_rows (tb_df st) /\
    forall i, i < t_rows (tb_df st) ->
      spec_row false all (set_order ord (column_refs (tb_sidecar st))) (map fst tf) i
      = Ok (nth i rows []).
Proof. exact (row_is_union false). Qed.
Print Assumptions C06_unrepaired_row_is_union.

(* REPAIRED by a455136: na_is_removed was FALSE of the behaviour before that commit -- an empty text
   (n/a or unknown categorical cell) was substituted literally: "{c}, S" -> ", S". *)
Theorem C06_na_is_removed_refuted :
  exists text ref v r, skipped v = true /\ replace_ref false text ref v = Ok r /\
                       wf_delim text = true /\ wf_delim r = false.
Proof. exact na_is_removed_refuted. Qed.
Print Assumptions C06_na_is_removed_refuted.

(* REPAIRED by 37fb060: a digits-only column name was used un-escaped inside the pattern
   ("{1}" is a quantifier): "R, {1}, B" became "R{1}B", "{0}" raised; now "R, B". *)
Theorem C06_digits_only_reference_refuted :
  replace_ref false s_red_1_blue s_1 ch_na = Ok [82; 123; 49; 125; 66]%N /\
  replace_ref false s_red_1_blue [48]%N ch_na = Exn AttributeError /\
  replace_ref true s_red_1_blue s_1 ch_na = Ok [82; 44; 32; 66]%N.
Proof. exact digits_ref_refuted. Qed.
Print Assumptions C06_digits_only_reference_refuted.

(* REPAIRED by a2f08b3: an empty cell of a value column was not skipped. *)
Theorem C06_empty_value_cell_refuted :
  exists tmpl, keep_part (value_handler false tmpl []) = true.
Proof. exact empty_value_cell_refuted. Qed.
Print Assumptions C06_empty_value_cell_refuted.

(* REPAIRED by 2ad4134 and a8ad4f5: for the behaviour before them the bounded splice theorem
   needed two extra hypotheses (the text does not start with a blank, the reference does
   not occur twice with only delimiters between) ... *)
Theorem C06_unrepaired_splice_tree_bounded :
  forall w : str, length w <= 7 -> Forall (fun c => In c sigma_t) w ->
  splice_premise false w = true -> splice_concl false w = true.
Proof. exact splice_tree_bounded. Qed.
Print Assumptions C06_unrepaired_splice_tree_bounded.

(* ... and was false without them: " {r},a" gave ",a" and "({r},{r})" gave "()". *)
Theorem C06_splice_well_delimited_refuted :
  (splice_premise true w_blank_ref = true /\ splice_concl false w_blank_ref = false) /\
  (splice_premise true w_twice = true /\ splice_concl false w_twice = false).
Proof. exact splice_well_delimited_refuted. Qed.
Print Assumptions C06_splice_well_delimited_refuted.

(* REPAIRED by d53ebab (defect C06-F8): before it ([replace_ref_gen false]) replace_ref substituted
   a blanks-only text of a referenced column literally although the join (since 8227060) skips such
   a text: "{h}, S" with " " gave " , S" (not delimiter-well-formed). *)
Theorem C06_blank_reference_refuted :
  exists text ref v r, keep_part v = false /\ replace_ref_gen false true text ref v = Ok r /\
                       wf_delim text = true /\ wf_delim r = false.
Proof. exact blank_reference_refuted. Qed.
Print Assumptions C06_blank_reference_refuted.

(* ... the repair changed nothing for texts that are not blanks only. *)
Theorem C06_blank_repair_changes_nothing_else :
  forall text ref v : str, is_blank v = false ->
  replace_ref_gen true true text ref v = replace_ref_gen false true text ref v.
Proof. exact replace_ref_gen_agrees. Qed.
Print Assumptions C06_blank_repair_changes_nothing_else.
