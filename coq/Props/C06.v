(* C06 -- Event-file rows assemble into exactly the annotation the sidecar prescribes.
   Property theorems only; each closed with [exact] and followed by Print Assumptions.
   [fixed = false] is the code as it is, [fixed = true] the repaired behaviour
   (see Model/RefSplice.v: replace_ref, remover; Model/Assemble.v: value_handler). *)
From Coq Require Import List NArith.
From HV Require Import Base.Res Base.Str Model.Parse Model.RefSplice Model.Assemble
  Proofs.ParseProofs Proofs.AssembleProofs.
Import ListNotations.

(* The assembled annotation of row i is the ", "-join, in column order, of the non-empty,
   non-n/a parts; a referenced column is spliced into the others ([row_part] folds
   replace_ref over the referenced columns' texts of the same row) and is not listed
   itself ([spec_row] drops the referenced names).  For ALL sidecars, tables, rows and
   every enumeration order of the reference set, for the code as it is and for the repair. *)
Theorem C06_row_is_union :
  forall (fixed : bool) (st st' : tabular) (ord : list str) (rows : list str),
  series_a fixed st ord = Ok (st', rows) -> wf_table (tb_df st) ->
  exists all tf,
    handle_transforms fixed st = Ok (st', all, tf) /\
    length rows = t_rows (tb_df st) /\
    forall i, i < t_rows (tb_df st) ->
      spec_row fixed all (set_order ord (column_refs (tb_sidecar st))) (map fst tf) i
      = Ok (nth i rows []).
Proof. exact row_is_union. Qed.
Print Assumptions C06_row_is_union.

(* The parts: each listed column is the table column with the transformer of its kind
   applied cell by cell (HED column: the cell; categorical: the entry selected by the
   cell, "" when there is none; value: n/a passes, otherwise every '#' is the cell). *)
Theorem C06_parts_per_kind :
  forall fixed cols tf all, transform fixed cols tf = Ok all ->
  Forall2 (fun (nf : str * xform) (nc : str * list str) =>
             fst nc = fst nf /\
             exists c, get_col (fst nf) cols = Ok c /\ snd nc = map (apply_xform fixed (snd nf)) c)
          tf all.
Proof. exact transform_cells. Qed.
Print Assumptions C06_parts_per_kind.

(* One annotation per row, in row order (row i is computed from cells of row i only:
   C06_row_is_union reads columns through [nth i]). *)
Theorem C06_row_order :
  forall (fixed : bool) (st st' : tabular) (ord : list str) (rows : list str),
  series_a fixed st ord = Ok (st', rows) -> length rows = t_rows (tb_df st).
Proof. exact row_order. Qed.
Print Assumptions C06_row_order.

(* Same answer every time it is asked; neither the table (cells, columns, row order)
   nor the sidecar is changed (only dtype marks of the internal frame are). *)
Theorem C06_deterministic_inputs_unchanged :
  forall (fixed : bool) (st st' : tabular) (ord : list str) (rows : list str),
  series_a fixed st ord = Ok (st', rows) ->
  tb_df st' = tb_df st /\ tb_sidecar st' = tb_sidecar st /\
  series_a fixed st' ord = Ok (st', rows).
Proof. exact deterministic_unchanged. Qed.
Print Assumptions C06_deterministic_inputs_unchanged.

(* FULL STATEMENT (na_is_removed): whenever the referenced column contributes nothing
   for the row (its text is "n/a" or empty), the reference is taken out by the remover:
     forall text ref v, skipped v = true ->
       replace_ref false text ref v = Ok (resub_lit (brace ref) text 0).
   It is FALSE of the code as it is (an empty text is substituted literally): *)
Theorem C06_na_is_removed_refuted :
  exists text ref v r, skipped v = true /\ replace_ref false text ref v = Ok r /\
                       wf_delim text = true /\ wf_delim r = false.
Proof. exact na_is_removed_refuted. Qed.
Print Assumptions C06_na_is_removed_refuted.

(* ... and holds, for all inputs, of the repaired behaviour, which also never raises. *)
Theorem C06_na_is_removed :
  forall text ref v : str, skipped v = true ->
  replace_ref true text ref v = Ok (remove_ref_fixed (brace ref) text).
Proof. exact na_is_removed_fixed. Qed.
Print Assumptions C06_na_is_removed.

Theorem C06_replace_ref_fixed_never_raises :
  forall text ref v : str, exists r, replace_ref true text ref v = Ok r.
Proof. exact replace_ref_fixed_total. Qed.
Print Assumptions C06_replace_ref_fixed_never_raises.

(* A digits-only column name is used un-escaped inside the pattern ("{1}" is a
   quantifier): "R, {1}, B" becomes "R{1}B", "{0}" raises; repaired: "R, B". *)
Theorem C06_digits_only_reference_refuted :
  replace_ref false s_red_1_blue s_1 ch_na = Ok [82; 123; 49; 125; 66]%N /\
  replace_ref false s_red_1_blue [48]%N ch_na = Exn AttributeError /\
  replace_ref true s_red_1_blue s_1 ch_na = Ok [82; 44; 32; 66]%N.
Proof. exact digits_ref_refuted. Qed.
Print Assumptions C06_digits_only_reference_refuted.

(* "skipping cells that are n/a or empty": FALSE for an empty cell of a value column
   in the code as it is; true of every column kind in the repaired model. *)
Theorem C06_empty_value_cell_refuted :
  exists tmpl, keep_part (value_handler false tmpl []) = true.
Proof. exact empty_value_cell_refuted. Qed.
Print Assumptions C06_empty_value_cell_refuted.

Theorem C06_skipped_cell_contributes_nothing :
  forall (f : xform) (x : str), skipped x = true ->
  (forall kv, f = XCat kv -> assoc x kv = None) ->
  keep_part (apply_xform true f x) = false.
Proof. exact skipped_cell_contributes_nothing. Qed.
Print Assumptions C06_skipped_cell_contributes_nothing.

(* splice_tree + splice_well_delimited, BOUNDED: for every template over
   {a, blank, ',', '(', ')', {r}} of at most 7 symbols that is delimiter-well-formed and
   in which each reference is a whole tag, removing the reference (cell n/a) yields a
   delimiter-well-formed text whose C02 parse is the template's parse with the reference
   tags removed and emptied groups pruned ([splice_concl]).
   Code as it is: under two extra hypotheses (the text does not start with a blank, the
   reference does not occur twice with only delimiters between).  Repaired: no extra
   hypothesis.  Exhaustive inside the kernel; not proved beyond the bound. *)
Theorem C06_splice_tree_bounded :
  forall w : str, length w <= 7 -> Forall (fun c => In c sigma_t) w ->
  splice_premise false w = true -> splice_concl false w = true.
Proof. exact splice_tree_bounded. Qed.
Print Assumptions C06_splice_tree_bounded.

Theorem C06_splice_tree_fixed_bounded :
  forall w : str, length w <= 7 -> Forall (fun c => In c sigma_t) w ->
  splice_premise true w = true -> splice_concl true w = true.
Proof. exact splice_tree_fixed_bounded. Qed.
Print Assumptions C06_splice_tree_fixed_bounded.

(* The two extra hypotheses are needed: " {r},a" gives ",a" and "({r},{r})" gives "()". *)
Theorem C06_splice_well_delimited_refuted :
  (splice_premise true w_blank_ref = true /\ splice_concl false w_blank_ref = false) /\
  (splice_premise true w_twice = true /\ splice_concl false w_twice = false).
Proof. exact splice_well_delimited_refuted. Qed.
Print Assumptions C06_splice_well_delimited_refuted.

(* Non-vacuity: a 3-row table with a categorical column referenced from a value
   template and a HED column; row 2 shows the n/a defect "(, L/y)" and its repair "(L/y)". *)
Example C06_nonvacuous :
  wf_table ex_table /\
  (exists st', series_a false ex_st [] =
     Ok (st', [ [66; 44; 32; 40; 82; 44; 32; 76; 47; 120; 41]%N;
                [40; 44; 32; 76; 47; 121; 41]%N;
                [] ])) /\
  (exists st', series_a true ex_st [] =
     Ok (st', [ [66; 44; 32; 40; 82; 44; 32; 76; 47; 120; 41]%N;
                [40; 76; 47; 121; 41]%N;
                [] ])).
Proof. exact ex_series. Qed.
