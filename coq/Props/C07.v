(* C07 -- File-level validation equals row-by-row string validation, with true locations.
   Property theorems only; each closed with [exact] and followed by Print Assumptions.
   Every theorem quantifies over ALL string-level phases (raw issue type, basic, full, banned, nonempty,
   temporal, mapping issues): the property is relative to string-level validation.
   The code as it is (/repo) = the model run with
     cf_fixed = true       unit names looked up case-insensitively            (fix commit f83491d)
     cf_has_refs = false   curly-brace references spliced positionally        (fix commit fd59dc0)
     cf_fix_none = true    a Delay value without conversion stays in its row  (fix commit ef31cc7, was C07-F2)
     cf_fix_value = true   a non-numeric Delay value / onset stays in its row (fix commit e4bce88, was C07-F3)
     cf_fix_mask = true    onset mask of _run_checks indexed by row label     (fix commit c357095, was C07-F4)
   which is what the harness runs by default.  Part 1 states the theorems about that code; part 2 keeps, as RECORDS
   of repaired defects ("behaviour before fix commit <hash>"), the refutations for the switches set to false --
   none of them says anything about the present implementation.
   WHAT IS NOT PROVED HERE (see also ASSUMPTIONS in harness/c07.py):
   * the string-level validator is a family of TOTAL Section variables: "never raises" is proved for the file-level
     plumbing only; exceptions of string validation itself (e.g. the IndexError on "(),()" repaired by 3e47c8c)
     are outside the model and are covered by testing through the real validator (degenerate cell pool);
   * the kind of column labels (numbers of a headerless file, repaired sort_issues TypeError 2e53521) and the
     case-insensitive matching of definition names by the temporal bookkeeping: tested only;
   * the history theorems hold by construction of the operation-sequence model; tied to the code by testing. *)
From Coq Require Import List ZArith NArith Permutation.
From HV Require Import Base.Res Model.FileValidate Proofs.FileValidateProofs Proofs.FileValidateShuffle
  Proofs.FileValidateHistory.
Import ListNotations.

(* ================================ part 1: the code as it is in /repo ================================ *)

(* ---- never raises: for ALL tables, relative only to totality of the Section variables ----------- *)
Theorem C07_file_never_raises :
  forall (raw : Type) (raw_is_error : raw -> bool) (basic : N -> list raw) (full banned : ann -> list raw)
         (nonempty : ann -> bool) (tstate : Type) (temporal : tstate -> ann -> tstate * list raw)
         (tinit : tstate) (pre post : list raw) (cfg : config) (t : list row),
    cf_fixed cfg = true -> cf_fix_none cfg = true -> cf_fix_value cfg = true ->
    exists l, validate raw raw_is_error basic full banned nonempty tstate temporal tinit pre post cfg t = Ok l.
Proof. exact validate_never_raises_repaired. Qed.
Print Assumptions C07_file_never_raises.

(* for any configuration (repaired or not): never raises relative to totality of the Delay-value function
   on the Delay groups and onsets of the table *)
Theorem C07_file_never_raises_relative :
  forall (raw : Type) (raw_is_error : raw -> bool) (basic : N -> list raw) (full banned : ann -> list raw)
         (nonempty : ann -> bool) (tstate : Type) (temporal : tstate -> ann -> tstate * list raw)
         (tinit : tstate) (pre post : list raw) (cfg : config) (t : list row),
    decisions_total cfg t ->
    exists l, validate raw raw_is_error basic full banned nonempty tstate temporal tinit pre post cfg t = Ok l.
Proof. exact validate_never_raises. Qed.
Print Assumptions C07_file_never_raises_relative.

(* ---- labels ------------------------------------------------------------------------------------ *)
(* every issue carries either no location at all or a row = index + 1 + header of an existing file row *)
Theorem C07_labels_in_range :
  forall (raw : Type) (raw_is_error : raw -> bool) (basic : N -> list raw) (full banned : ann -> list raw)
         (nonempty : ann -> bool) (tstate : Type) (temporal : tstate -> ann -> tstate * list raw)
         (tinit : tstate) (pre post : list raw) (cfg : config) (t : list row) (l : list (issue raw)),
    validate raw raw_is_error basic full banned nonempty tstate temporal tinit pre post cfg t = Ok l ->
    Forall (label_in_range raw cfg t) l.
Proof. exact validate_labels_in_range. Qed.
Print Assumptions C07_labels_in_range.

(* every issue that names a column is a basic issue of the cell standing in that row and column of the
   FILE, or an unknown categorical key of that row and column (no_scramble holds for the code since fd59dc0:
   cf_has_refs = false) *)
Theorem C07_labels :
  forall (raw : Type) (raw_is_error : raw -> bool) (basic : N -> list raw) (full banned : ann -> list raw)
         (nonempty : ann -> bool) (tstate : Type) (temporal : tstate -> ann -> tstate * list raw)
         (tinit : tstate) (pre post : list raw) (cfg : config) (t : list row) (l : list (issue raw)),
    validate raw raw_is_error basic full banned nonempty tstate temporal tinit pre post cfg t = Ok l ->
    no_scramble cfg t -> Forall (true_location raw basic cfg t) l.
Proof. exact validate_true_location. Qed.
Print Assumptions C07_labels.

(* ---- every error of every cell is kept, at its true location ------------------------------------ *)
Theorem C07_cell_errors_kept :
  forall (raw : Type) (raw_is_error : raw -> bool) (basic : N -> list raw) (full banned : ann -> list raw)
         (nonempty : ann -> bool) (tstate : Type) (temporal : tstate -> ann -> tstate * list raw)
         (tinit : tstate) (pre post : list raw) (cfg : config) (t : list row) (l : list (issue raw))
         (k : nat) (r : row) (c : cell) (x : raw),
    validate raw raw_is_error basic full banned nonempty tstate temporal tinit pre post cfg t = Ok l ->
    no_scramble cfg t ->
    nth_error t k = Some r -> In c (b_cells (r_body r)) -> c_skip c = false -> In x (basic (c_id c)) ->
    In (mk (SBasic x) (Some (k + row_adj cfg)) (Some (c_col c))) l.
Proof. exact validate_cell_errors_kept. Qed.
Print Assumptions C07_cell_errors_kept.

(* ---- rows whose cells are error-free: exactly the string-level issues ---------------------------
   (1) C07_row_equals_string: the basic/full/banned issues labelled with the row are (as a multiset) the basic issues of
   its cells followed by row_payload: for a row with a numeric onset, `full` of each STRING THE IMPLEMENTATION VALIDATES
   -- the row without its movable Delay groups (PRem) and each moved Delay group (PDelay) -- and for a row without a
   numeric onset `full` and `banned` of the string assembled from its cell objects (PJoin).  No hypothesis on the onsets
   (mask by row label, c357095).  Hypotheses: no scrambling (holds since fd59dc0), effective times pairwise distinct.
   Temporal issues are tagged STemporal and are not part of this equation.
   (2) The clause of the statement speaks of the row's ASSEMBLED annotation [PCells ids].  That is proved
       - unconditionally for rows without Delay text: C07_row_equals_assembled_no_delay;
       - for rows WITH Delay groups only RELATIVE to [delay_split_neutral], a property of the STRING validator
         (issues of an annotation = issues of the annotation without some top-level Delay groups + issues of each of these
         groups): C07_row_equals_assembled.  `full` is an opaque Section variable, so this property cannot be proved here;
         it is TESTED on the implementation: the oracle clause row-equals-string compares the file report with
         HedValidator.validate of the whole assembled row, Delay groups included. *)
Theorem C07_row_equals_string :
  forall (raw : Type) (raw_is_error : raw -> bool) (basic : N -> list raw) (full banned : ann -> list raw)
         (nonempty : ann -> bool) (tstate : Type) (temporal : tstate -> ann -> tstate * list raw)
         (tinit : tstate) (pre post : list raw) (cfg : config) (t : list row) (l : list (issue raw))
         (k : nat) (r : row),
    cf_fix_mask cfg = true ->
    validate raw raw_is_error basic full banned nonempty tstate temporal tinit pre post cfg t = Ok l ->
    cf_has_onset cfg = true -> no_scramble cfg t -> distinct_times cfg t ->
    nth_error t k = Some r -> cells_error_free raw raw_is_error basic r ->
    Permutation (string_raws raw l (k + row_adj cfg))
                (flat_map basic (ids_of (r_body r)) ++ row_payload raw full banned nonempty cfg r).
Proof. exact validate_row_equals_string_current. Qed.
Print Assumptions C07_row_equals_string.

Theorem C07_row_equals_assembled_no_delay :
  forall (raw : Type) (raw_is_error : raw -> bool) (basic : N -> list raw) (full banned : ann -> list raw)
         (nonempty : ann -> bool) (tstate : Type) (temporal : tstate -> ann -> tstate * list raw)
         (tinit : tstate) (pre post : list raw) (cfg : config) (t : list row) (l : list (issue raw))
         (k : nat) (r : row) (z : Z),
    cf_fix_mask cfg = true ->
    validate raw raw_is_error basic full banned nonempty tstate temporal tinit pre post cfg t = Ok l ->
    cf_has_onset cfg = true -> no_scramble cfg t -> distinct_times cfg t ->
    nth_error t k = Some r -> cells_error_free raw raw_is_error basic r ->
    r_onset r = Some z -> b_delaytext (r_body r) = false ->
    Permutation (string_raws raw l (k + row_adj cfg))
                (flat_map basic (ids_of (r_body r)) ++ sl raw full nonempty [PCells (ids_of (r_body r))]).
Proof. exact validate_row_equals_assembled_no_delay_current. Qed.
Print Assumptions C07_row_equals_assembled_no_delay.

Theorem C07_row_equals_assembled :
  forall (raw : Type) (raw_is_error : raw -> bool) (basic : N -> list raw) (full banned : ann -> list raw)
         (nonempty : ann -> bool) (tstate : Type) (temporal : tstate -> ann -> tstate * list raw)
         (tinit : tstate) (pre post : list raw) (cfg : config) (t : list row) (l : list (issue raw))
         (k : nat) (r : row) (z : Z),
    delay_split_neutral raw full nonempty ->
    cf_fix_mask cfg = true ->
    validate raw raw_is_error basic full banned nonempty tstate temporal tinit pre post cfg t = Ok l ->
    cf_has_onset cfg = true -> no_scramble cfg t -> distinct_times cfg t ->
    nth_error t k = Some r -> cells_error_free raw raw_is_error basic r -> r_onset r = Some z ->
    Permutation (string_raws raw l (k + row_adj cfg))
                (flat_map basic (ids_of (r_body r)) ++ sl raw full nonempty [PCells (ids_of (r_body r))]).
Proof. exact validate_row_equals_assembled_current. Qed.
Print Assumptions C07_row_equals_assembled.

(* ---- row labels of the issues that carry no column ---------------------------------------------------
   C07_row_classified (every table, no hypothesis): an issue has NO row exactly when it concerns the file as a whole
   (mapping issues, unknown column references, the out-of-order warning); every cell, key, full-string, banned-tag and
   temporal issue carries the row = index + 1 + header of an existing file row.
   C07_row_level_labels: each full-string / banned-tag / temporal issue is labelled with the file row whose OWN
   annotation (the string assembled from its cells, or one of the pieces it is split into) produced it
   (no scrambling, distinct effective times = no same-time merging; with merging the label is the first row of the
   merged group, which is not covered). *)
Theorem C07_row_classified :
  forall (raw : Type) (raw_is_error : raw -> bool) (basic : N -> list raw) (full banned : ann -> list raw)
         (nonempty : ann -> bool) (tstate : Type) (temporal : tstate -> ann -> tstate * list raw)
         (tinit : tstate) (pre post : list raw) (cfg : config) (t : list row) (l : list (issue raw)),
    validate raw raw_is_error basic full banned nonempty tstate temporal tinit pre post cfg t = Ok l ->
    Forall (row_classified raw cfg t) l.
Proof. exact validate_row_classified. Qed.
Print Assumptions C07_row_classified.

Theorem C07_row_level_labels :
  forall (raw : Type) (raw_is_error : raw -> bool) (basic : N -> list raw) (full banned : ann -> list raw)
         (nonempty : ann -> bool) (tstate : Type) (temporal : tstate -> ann -> tstate * list raw)
         (tinit : tstate) (pre post : list raw) (cfg : config) (t : list row) (l : list (issue raw)),
    cf_fix_mask cfg = true ->
    validate raw raw_is_error basic full banned nonempty tstate temporal tinit pre post cfg t = Ok l ->
    cf_has_onset cfg = true -> no_scramble cfg t -> distinct_times cfg t ->
    Forall (row_level_located raw full banned tstate temporal cfg t) l.
Proof. exact validate_row_level_located_current. Qed.
Print Assumptions C07_row_level_labels.

(* ---- shuffling ---------------------------------------------------------------------------------- *)
Theorem C07_unordered_warning_once :
  forall (raw : Type) (raw_is_error : raw -> bool) (basic : N -> list raw) (full banned : ann -> list raw)
         (nonempty : ann -> bool) (tstate : Type) (temporal : tstate -> ann -> tstate * list raw)
         (tinit : tstate) (pre post : list raw) (cfg : config) (t : list row) (l : list (issue raw)),
    validate raw raw_is_error basic full banned nonempty tstate temporal tinit pre post cfg t = Ok l ->
    count_unordered raw l = (if needs_sorting cfg t then 1 else 0).
Proof. exact validate_unordered_once. Qed.
Print Assumptions C07_unordered_warning_once.

(* Shuffling the rows of a file whose onsets are numeric and whose effective times (onset, onset + Delay) are
   pairwise distinct changes nothing except the row labels, which follow the rows, and the out-of-order warning:
   [idents adj t l] is the issue list without ONSETS_UNORDERED in which every row label is replaced by the file
   row it points to; the two content-labelled lists are equal as multisets.  Together with
   C07_unordered_warning_once (exactly one warning iff the file is unsorted) this is the full clause.
   (Proof: the issue list is, up to order, a function [content] of the rows; the sorted split frame is unique
   for distinct keys -- sort_perm_eq -- so the temporal state visits the same strings in the same order.) *)
Theorem C07_shuffle_invariant :
  forall (raw : Type) (raw_is_error : raw -> bool) (basic : N -> list raw) (full banned : ann -> list raw)
         (nonempty : ann -> bool) (tstate : Type) (temporal : tstate -> ann -> tstate * list raw)
         (tinit : tstate) (pre post : list raw) (cfg : config) (t t' : list row) (l l' : list (issue raw)),
    Permutation t t' ->
    validate raw raw_is_error basic full banned nonempty tstate temporal tinit pre post cfg t = Ok l ->
    validate raw raw_is_error basic full banned nonempty tstate temporal tinit pre post cfg t' = Ok l' ->
    cf_has_onset cfg = true -> no_scramble cfg t -> no_scramble cfg t' ->
    Forall (fun r => r_onset r <> None) t -> distinct_times cfg t ->
    Permutation (idents raw (row_adj cfg) t l) (idents raw (row_adj cfg) t' l').
Proof. exact validate_shuffle_invariant. Qed.
Print Assumptions C07_shuffle_invariant.

(* times are exact integers (microseconds): onsets late in a recording that differ by 10 us -- equal in float32 --
   are still "distinct"; the out-of-order file and its reversal report the same content-labelled issues *)
Example C07_shuffle_close_onsets :
  exists l l', w_validate (cfg0 false true true) t_close = Ok l /\
               w_validate (cfg0 false true true) (rev t_close) = Ok l' /\
               Permutation (idents nat 2 t_close l) (idents nat 2 (rev t_close) l').
Proof. exact shuffle_close_onsets. Qed.

(* without any hypothesis on the onsets (mask by row label, c357095): the string-level payload of every row with
   error-free cells follows the row to its new position *)
Theorem C07_shuffle_rows_follow :
  forall (raw : Type) (raw_is_error : raw -> bool) (basic : N -> list raw) (full banned : ann -> list raw)
         (nonempty : ann -> bool) (tstate : Type) (temporal : tstate -> ann -> tstate * list raw)
         (tinit : tstate) (pre post : list raw) (cfg : config) (t t' : list row) (l l' : list (issue raw))
         (k k' : nat) (r : row),
    cf_fix_mask cfg = true -> Permutation t t' ->
    validate raw raw_is_error basic full banned nonempty tstate temporal tinit pre post cfg t = Ok l ->
    validate raw raw_is_error basic full banned nonempty tstate temporal tinit pre post cfg t' = Ok l' ->
    cf_has_onset cfg = true -> no_scramble cfg t -> no_scramble cfg t' ->
    distinct_times cfg t -> distinct_times cfg t' ->
    nth_error t k = Some r -> nth_error t' k' = Some r ->
    cells_error_free raw raw_is_error basic r ->
    Permutation (string_raws raw l (k + row_adj cfg)) (string_raws raw l' (k' + row_adj cfg)).
Proof. exact validate_shuffle_rows_follow_current. Qed.
Print Assumptions C07_shuffle_rows_follow.

(* non-vacuity of the shuffle theorem: an unsorted table (with a moved Delay group and a row with a cell error)
   and its reversal, which is sorted: 5 content-labelled issues, one warning before and none after. *)
Example C07_shuffle_nonvacuous :
  exists l l', w_validate (cfg0 false true true) t_sh = Ok l /\
               w_validate (cfg0 false true true) (rev t_sh) = Ok l' /\
               no_scramble (cfg0 false true true) t_sh /\ no_scramble (cfg0 false true true) (rev t_sh) /\
               Forall (fun r => r_onset r <> None) t_sh /\ distinct_times (cfg0 false true true) t_sh /\
               length (idents nat 2 t_sh l) = 5 /\ count_unordered nat l = 1 /\ count_unordered nat l' = 0.
Proof. exact shuffle_nonvacuous. Qed.

(* non-vacuity: an unsorted table with a movable Delay group, a Delay group that stays (years) and a row
   without onset meets every hypothesis of C07_row_equals_string for the repaired code. *)
Example C07_nonvacuous :
  exists l, w_validate (cfg0 false true true) t_ok = Ok l /\
            no_scramble (cfg0 false true true) t_ok /\ distinct_times (cfg0 false true true) t_ok /\
            Forall (cells_error_free nat w_err w_basic) t_ok /\
            string_raws nat l 3 = [2; 2] /\ string_raws nat l 4 = [2] /\
            needs_sorting (cfg0 false true true) t_ok = true /\ count_unordered nat l = 1.
Proof. exact row_equals_string_nonvacuous. Qed.

(* ---- histories on one input object ------------------------------------------------------------------
   The object's only state that validation reads is the table it holds.  For EVERY sequence of in-place edits
   (set_cell, convert_to_short/long, writes through .dataframe -- each seen as "row k now has this content")
   and validations, each report is validate of the table held at that moment, i.e. the report a fresh object
   holding the current table gets; every other theorem of this file therefore applies to every report of every
   history.  (True of the model by construction; tied to the code by the history stream of the correspondence
   run, which validates, edits the same object and validates again.) *)
Theorem C07_history_reports :
  forall (raw : Type) (raw_is_error : raw -> bool) (basic : N -> list raw) (full banned : ann -> list raw)
         (nonempty : ann -> bool) (tstate : Type) (temporal : tstate -> ann -> tstate * list raw)
         (tinit : tstate) (pre post : list raw) (cfg : config) (t : list row) (ops : list op) (k : nat)
         (rep : res (list (issue raw))),
    nth_error (run_history raw raw_is_error basic full banned nonempty tstate temporal tinit pre post cfg t ops) k
      = Some (HReport rep) ->
    rep = validate raw raw_is_error basic full banned nonempty tstate temporal tinit pre post cfg
            (table_after t (firstn k ops)).
Proof. exact history_reports. Qed.
Print Assumptions C07_history_reports.

Theorem C07_history_same_as_fresh :
  forall (raw : Type) (raw_is_error : raw -> bool) (basic : N -> list raw) (full banned : ann -> list raw)
         (nonempty : ann -> bool) (tstate : Type) (temporal : tstate -> ann -> tstate * list raw)
         (tinit : tstate) (pre post : list raw) (cfg : config) (t : list row) (ops : list op) (k : nat)
         (rep : res (list (issue raw))),
    nth_error (run_history raw raw_is_error basic full banned nonempty tstate temporal tinit pre post cfg t ops) k
      = Some (HReport rep) ->
    run_history raw raw_is_error basic full banned nonempty tstate temporal tinit pre post cfg
      (table_after t (firstn k ops)) [OValidate] = [HReport rep].
Proof. exact history_same_as_fresh. Qed.
Print Assumptions C07_history_same_as_fresh.

Theorem C07_history_never_raises :
  forall (raw : Type) (raw_is_error : raw -> bool) (basic : N -> list raw) (full banned : ann -> list raw)
         (nonempty : ann -> bool) (tstate : Type) (temporal : tstate -> ann -> tstate * list raw)
         (tinit : tstate) (pre post : list raw) (cfg : config) (t : list row) (ops : list op)
         (rep : res (list (issue raw))),
    cf_fixed cfg = true -> cf_fix_none cfg = true -> cf_fix_value cfg = true ->
    In (HReport rep) (run_history raw raw_is_error basic full banned nonempty tstate temporal tinit pre post cfg t ops) ->
    exists l, rep = Ok l.
Proof. exact history_never_raises. Qed.
Print Assumptions C07_history_never_raises.

(* non-vacuity: validate, repair the erroneous cell of file row 3 in place, validate again *)
Example C07_history_nonvacuous :
  exists l1 l2, run_history nat w_err w_basic w_full w_banned w_nonempty nat w_temporal 0 [] [] (cfg0 false true true) h_tab h_ops
                = [HReport (Ok l1); HSet None; HReport (Ok l2)] /\
                In (mk (SBasic 1) (Some 3) (Some 1%N)) l1 /\ ~ In (mk (SBasic 1) (Some 3) (Some 1%N)) l2.
Proof. exact history_nonvacuous. Qed.

(* a file without a header line: rows are labelled from 1 (row_adj = 1); the row-level issue (no column) and the cell
   issue (column 1 of the model = the first column) of the same row are both reported.  All theorems above hold for
   cf_header = false as well.  NOT modelled: the kind of the column labels (numbers 0,1,.. for a headerless file) --
   the model only has their rank -- so the defect repaired by 2e53521 (TypeError in sort_issues when '' is compared with
   a number) is covered by the implementation-side oracle on headerless inputs only (testing). *)
Example C07_headerless_example :
  w_validate cfg_headerless t_headerless
  = Ok [mk (SFull 2) (Some 1) None; mk (SBasic 3) (Some 1) (Some 1%N)].
Proof. exact headerless_example. Qed.

(* ====== part 2: RECORDS of repaired defects -- behaviour BEFORE the named fix commits; nothing here describes
          the present /repo (the harness runs these switches only with VERIF_C07_FIXED=0 on an unpatched tree) ====== *)

(* Finding 6 (was C07-F1); behaviour before fix commit f83491d: "(Delay/2 Seconds,(Red))" raised TypeError under the verbatim
   unit lookup (cf_fixed = false); with the repaired lookup the same table validates. *)
Theorem C07_file_never_raises_refuted :
  exists t, Forall (fun r => r_onset r <> None) t /\
            Forall (fun r => Forall accepted_convertible (b_delays (r_body r))) t /\
            w_validate (cfg0 false false false) t = Exn TypeError /\
            exists l, w_validate (cfg0 false true false) t = Ok l.
Proof. exact never_raises_refuted. Qed.
Print Assumptions C07_file_never_raises_refuted.

(* behaviour between fix commits f83491d and ef31cc7/e4bce88: numeric onsets and numeric Delay values with an accepted spelling of a unit
   that has a conversion factor never raised *)
Theorem C07_file_never_raises_fixed :
  forall (raw : Type) (raw_is_error : raw -> bool) (basic : N -> list raw) (full banned : ann -> list raw)
         (nonempty : ann -> bool) (tstate : Type) (temporal : tstate -> ann -> tstate * list raw)
         (tinit : tstate) (pre post : list raw) (cfg : config) (t : list row),
    cf_fixed cfg = true ->
    Forall (fun r => r_onset r <> None) t ->
    Forall (fun r => Forall accepted_convertible (b_delays (r_body r))) t ->
    exists l, validate raw raw_is_error basic full banned nonempty tstate temporal tinit pre post cfg t = Ok l.
Proof. exact validate_never_raises_fixed. Qed.
Print Assumptions C07_file_never_raises_fixed.

(* was C07-F2; behaviour before fix commit ef31cc7: "(Delay/2 years,(Red))" -- accepted unit without conversion factor -- raised
   TypeError; the repaired code validates the same table. *)
Theorem C07_file_never_raises_no_factor_refuted :
  w_validate (cfg0 false true false) t_years = Exn TypeError /\
  exists l, w_validate (cfg0 false true true) t_years = Ok l.
Proof. exact never_raises_no_factor_refuted. Qed.
Print Assumptions C07_file_never_raises_no_factor_refuted.

(* was C07-F3; behaviour before fix commit e4bce88: a non-numeric Delay value or a Delay group in a row with n/a onset raised
   ValueError; the repaired code validates the same tables. *)
Theorem C07_file_never_raises_value_refuted :
  w_validate (cfg0 false true false) t_abc = Exn ValueError /\
  w_validate (cfg0 false true false) t_na_delay = Exn ValueError /\
  (exists l, w_validate (cfg0 false true true) t_abc = Ok l) /\
  (exists l, w_validate (cfg0 false true true) t_na_delay = Ok l).
Proof. exact never_raises_value_refuted. Qed.
Print Assumptions C07_file_never_raises_value_refuted.

(* was C07-F5; behaviour before fix commit fd59dc0: with a curly-brace reference and an unsorted file the index-label
   alignment put the labels wrong (cell of file row 3 reported at row 2). *)
Theorem C07_labels_refuted :
  exists l, w_validate (cfg0 true true false) t_refs = Ok l /\
            ~ Forall (true_location nat w_basic (cfg0 true true false) t_refs) l.
Proof. exact true_location_refuted. Qed.
Print Assumptions C07_labels_refuted.

(* was C07-F4; behaviour before fix commit c357095 (positional mask): with an n/a onset and the positional mask the equation failed although every
   other hypothesis holds (the row-level issue of file row 2 was lost). *)
Theorem C07_row_equals_string_na_refuted :
  exists l, w_validate (cfg0 false true false) t_na = Ok l /\
            cells_error_free nat w_err w_basic (plain_row None 5) /\
            no_scramble (cfg0 false true false) t_na /\ distinct_times (cfg0 false true false) t_na /\
            ~ Permutation (string_raws nat l 2)
                (flat_map w_basic (ids_of (r_body (plain_row None 5)))
                 ++ row_payload nat w_full w_banned w_nonempty (cfg0 false true false) (plain_row None 5)).
Proof. exact row_equals_string_na_refuted. Qed.
Print Assumptions C07_row_equals_string_na_refuted.

(* behaviour before fix commit c357095 (cf_fix_mask = false, positional mask): the row equation needed every onset of
   the file to be numeric (and fails otherwise, C07_row_equals_string_na_refuted above) *)
Theorem C07_row_equals_string_before_c357095 :
  forall (raw : Type) (raw_is_error : raw -> bool) (basic : N -> list raw) (full banned : ann -> list raw)
         (nonempty : ann -> bool) (tstate : Type) (temporal : tstate -> ann -> tstate * list raw)
         (tinit : tstate) (pre post : list raw) (cfg : config) (t : list row) (l : list (issue raw))
         (k : nat) (r : row),
    Forall (fun r0 => r_onset r0 <> None) t ->
    validate raw raw_is_error basic full banned nonempty tstate temporal tinit pre post cfg t = Ok l ->
    cf_has_onset cfg = true -> no_scramble cfg t -> distinct_times cfg t ->
    nth_error t k = Some r -> cells_error_free raw raw_is_error basic r ->
    Permutation (string_raws raw l (k + row_adj cfg))
                (flat_map basic (ids_of (r_body r)) ++ row_payload raw full banned nonempty cfg r).
Proof. exact validate_row_equals_string_positional. Qed.
Print Assumptions C07_row_equals_string_before_c357095.
