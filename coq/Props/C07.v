(* C07 -- File-level validation equals row-by-row string validation, with true locations.
   Property theorems only; each closed with [exact] and followed by Print Assumptions.
   Every theorem quantifies over ALL string-level phases (raw issue type, basic, full, banned, nonempty,
   temporal, mapping issues): the property is relative to string-level validation. *)
From Coq Require Import List ZArith NArith Permutation.
From HV Require Import Base.Res Model.FileValidate Proofs.FileValidateProofs.
Import ListNotations.

(* ---- never raises ------------------------------------------------------------------------------
   Full statement: for every readable table, validate returns.  It is FALSE of the code as it stands
   (refuted below); it holds relative to totality of the Delay-value function on the table's Delay
   groups, and when the onsets are numeric or no row has a Delay. *)
Theorem C07_file_never_raises :
  forall (raw : Type) (raw_is_error : raw -> bool) (basic : N -> list raw) (full banned : ann -> list raw)
         (nonempty : ann -> bool) (tstate : Type) (temporal : tstate -> ann -> tstate * list raw)
         (tinit : tstate) (pre post : list raw) (cfg : config) (t : list row),
    onsets_ok cfg t -> delays_convertible cfg t ->
    exists l, validate raw raw_is_error basic full banned nonempty tstate temporal tinit pre post cfg t = Ok l.
Proof. exact validate_never_raises. Qed.
Print Assumptions C07_file_never_raises.

(* With the unit lookup repaired (fixed = true): numeric onsets and Delay values that are numbers with an
   accepted spelling of a unit that has a conversion factor => never raises. *)
Theorem C07_file_never_raises_fixed :
  forall (raw : Type) (raw_is_error : raw -> bool) (basic : N -> list raw) (full banned : ann -> list raw)
         (nonempty : ann -> bool) (tstate : Type) (temporal : tstate -> ann -> tstate * list raw)
         (tinit : tstate) (pre post : list raw) (cfg : config) (t : list row),
    cf_fixed cfg = true ->
    Forall (fun r => r_onset r <> None) t ->
    Forall (fun r => Forall accepted_convertible (b_delays (r_body r))) t ->
    exists l, validate raw raw_is_error basic full banned nonempty tstate temporal tinit pre post cfg t = Ok l.
Proof. exact validate_never_raises_fixed. Qed.
Print Assumptions C07_file_never_raises_fixed.

(* Finding 6 (was C07-F1; repaired in /repo by fix commit f83491d, so the code now has fixed = true):
   "(Delay/2 Seconds,(Red))" -- accepted spelling; with the verbatim lookup (fixed = false) validation raises
   TypeError, with the repaired lookup the same table validates.  Kept as the record of the defect. *)
Theorem C07_file_never_raises_refuted :
  exists t, Forall (fun r => r_onset r <> None) t /\
            Forall (fun r => Forall accepted_convertible (b_delays (r_body r))) t /\
            w_validate (cfg0 false false) t = Exn TypeError /\
            exists l, w_validate (cfg0 false true) t = Ok l.
Proof. exact never_raises_refuted. Qed.
Print Assumptions C07_file_never_raises_refuted.

(* C07-F2: an accepted unit without conversion factor ("(Delay/2 years,(Red))") raises even when fixed. *)
Theorem C07_file_never_raises_no_factor_refuted :
  w_validate (cfg0 false true) t_years = Exn TypeError.
Proof. exact never_raises_no_factor_refuted. Qed.
Print Assumptions C07_file_never_raises_no_factor_refuted.

(* ---- labels ------------------------------------------------------------------------------------ *)
(* every issue carries either no location at all or a row = index + 1 + header of an existing file row *)
Theorem C07_labels_in_range :
  forall (raw : Type) (raw_is_error : raw -> bool) (basic : N -> list raw) (full banned : ann -> list raw)
         (nonempty : ann -> bool) (tstate : Type) (temporal : tstate -> ann -> tstate * list raw)
         (tinit : tstate) (pre post : list raw) (cfg : config) (t : list row) (l : list (issue raw)),
    validate raw raw_is_error basic full banned nonempty tstate temporal tinit pre post cfg t = Ok l ->
    Forall (label_in_range raw cfg t) l.
Proof. exact validate_labels_in_range. Qed.
Print Assumptions C07_labels_in_range.

(* every issue that names a column is a basic issue of the cell standing in that row and column of the
   FILE, or an unknown categorical key of that row and column -- provided the sidecar has no curly-brace
   reference or the file is already sorted *)
Theorem C07_labels :
  forall (raw : Type) (raw_is_error : raw -> bool) (basic : N -> list raw) (full banned : ann -> list raw)
         (nonempty : ann -> bool) (tstate : Type) (temporal : tstate -> ann -> tstate * list raw)
         (tinit : tstate) (pre post : list raw) (cfg : config) (t : list row) (l : list (issue raw)),
    validate raw raw_is_error basic full banned nonempty tstate temporal tinit pre post cfg t = Ok l ->
    no_scramble cfg t -> Forall (true_location raw basic cfg t) l.
Proof. exact validate_true_location. Qed.
Print Assumptions C07_labels.

(* Was C07-F5 (repaired in /repo by fix commit fd59dc0, so the code now behaves as cf_has_refs = false):
   with a curly-brace reference and an unsorted file the index-label alignment put the labels wrong
   (cell of file row 3 reported at row 2).  Kept as the record of the defect. *)
Theorem C07_labels_refuted :
  exists l, w_validate (cfg0 true true) t_refs = Ok l /\
            ~ Forall (true_location nat w_basic (cfg0 true true) t_refs) l.
Proof. exact true_location_refuted. Qed.
Print Assumptions C07_labels_refuted.

(* ---- every error of every cell is kept, at its true location ------------------------------------ *)
Theorem C07_cell_errors_kept :
  forall (raw : Type) (raw_is_error : raw -> bool) (basic : N -> list raw) (full banned : ann -> list raw)
         (nonempty : ann -> bool) (tstate : Type) (temporal : tstate -> ann -> tstate * list raw)
         (tinit : tstate) (pre post : list raw) (cfg : config) (t : list row) (l : list (issue raw))
         (k : nat) (r : row) (c : cell) (x : raw),
    validate raw raw_is_error basic full banned nonempty tstate temporal tinit pre post cfg t = Ok l ->
    no_scramble cfg t ->
    nth_error t k = Some r -> In c (b_cells (r_body r)) -> c_skip c = false -> In x (basic (c_id c)) ->
    In (mk (SBasic x) (Some (k + row_adj cfg)) (Some (c_col c))) l.
Proof. exact validate_cell_errors_kept. Qed.
Print Assumptions C07_cell_errors_kept.

(* ---- rows whose cells are error-free: exactly the string-level issues ---------------------------
   The basic/full/banned issues labelled with the row are (as a multiset) the basic issues of its cells
   followed by the full-string issues of its annotation; a row with Delay groups is validated as its
   remainder plus each Delay group (pieces).  Hypotheses: onset column, all onsets numeric, no
   scrambling, effective times pairwise distinct (no same-time merging). Temporal issues are tagged
   STemporal and are not part of this equation. *)
Theorem C07_row_equals_string :
  forall (raw : Type) (raw_is_error : raw -> bool) (basic : N -> list raw) (full banned : ann -> list raw)
         (nonempty : ann -> bool) (tstate : Type) (temporal : tstate -> ann -> tstate * list raw)
         (tinit : tstate) (pre post : list raw) (cfg : config) (t : list row) (l : list (issue raw))
         (k : nat) (r : row),
    validate raw raw_is_error basic full banned nonempty tstate temporal tinit pre post cfg t = Ok l ->
    cf_has_onset cfg = true -> no_scramble cfg t ->
    Forall (fun r0 => r_onset r0 <> None) t -> distinct_times cfg t ->
    nth_error t k = Some r -> cells_error_free raw raw_is_error basic r ->
    Permutation (string_raws raw l (k + row_adj cfg))
                (flat_map basic (ids_of (r_body r))
                 ++ flat_map (fun p => if truthy nonempty [p] then full [p] else []) (pieces (r_body r))).
Proof. exact validate_row_equals_string. Qed.
Print Assumptions C07_row_equals_string.

(* C07-F4: with an n/a onset the equation fails although every other hypothesis holds (the row-level
   issue of file row 2 is lost). *)
Theorem C07_row_equals_string_na_refuted :
  exists l, w_validate (cfg0 false true) t_na = Ok l /\
            cells_error_free nat w_err w_basic (plain_row None 5) /\
            no_scramble (cfg0 false true) t_na /\ distinct_times (cfg0 false true) t_na /\
            ~ Permutation (string_raws nat l 2)
                (flat_map w_basic (ids_of (r_body (plain_row None 5)))
                 ++ flat_map (fun p => if truthy w_nonempty [p] then w_full [p] else []) (pieces (r_body (plain_row None 5)))).
Proof. exact row_equals_string_na_refuted. Qed.
Print Assumptions C07_row_equals_string_na_refuted.

(* ---- shuffling ----------------------------------------------------------------------------------
   Full statement (kept visible):
     distinct_onsets t -> Permutation t t' ->
     issues t' == relabel pi (issues t)  (+ one ONSETS_UNORDERED iff t' is unsorted).
   Proved here: (a) exactly one ONSETS_UNORDERED iff the file needs sorting, for every table;
   (b) _partial: the string-level payload of every row with error-free cells follows the row to its new
   position.  Missing for the full statement: invariance of the STemporal issues and of rows with cell
   errors, which needs uniqueness of the sorted split frame under distinct keys and a relabelling lemma for
   _run_onset_checks; that part is covered by the implementation-side oracle (testing) only. *)
Theorem C07_unordered_warning_once :
  forall (raw : Type) (raw_is_error : raw -> bool) (basic : N -> list raw) (full banned : ann -> list raw)
         (nonempty : ann -> bool) (tstate : Type) (temporal : tstate -> ann -> tstate * list raw)
         (tinit : tstate) (pre post : list raw) (cfg : config) (t : list row) (l : list (issue raw)),
    validate raw raw_is_error basic full banned nonempty tstate temporal tinit pre post cfg t = Ok l ->
    count_unordered raw l = (if needs_sorting cfg t then 1 else 0).
Proof. exact validate_unordered_once. Qed.
Print Assumptions C07_unordered_warning_once.

Theorem C07_shuffle_invariant_partial :
  forall (raw : Type) (raw_is_error : raw -> bool) (basic : N -> list raw) (full banned : ann -> list raw)
         (nonempty : ann -> bool) (tstate : Type) (temporal : tstate -> ann -> tstate * list raw)
         (tinit : tstate) (pre post : list raw) (cfg : config) (t t' : list row) (l l' : list (issue raw))
         (k k' : nat) (r : row),
    Permutation t t' ->
    validate raw raw_is_error basic full banned nonempty tstate temporal tinit pre post cfg t = Ok l ->
    validate raw raw_is_error basic full banned nonempty tstate temporal tinit pre post cfg t' = Ok l' ->
    cf_has_onset cfg = true -> no_scramble cfg t -> no_scramble cfg t' ->
    Forall (fun r0 => r_onset r0 <> None) t ->
    distinct_times cfg t -> distinct_times cfg t' ->
    nth_error t k = Some r -> nth_error t' k' = Some r ->
    cells_error_free raw raw_is_error basic r ->
    Permutation (string_raws raw l (k + row_adj cfg)) (string_raws raw l' (k' + row_adj cfg)).
Proof. exact validate_shuffle_rows_follow. Qed.
Print Assumptions C07_shuffle_invariant_partial.

(* non-vacuity: an unsorted table with a Delay group satisfies every hypothesis of C07_row_equals_string;
   its Delay row (file row 3) gets the two row-level issues (remainder and Delay group), and the file gets
   one ONSETS_UNORDERED. *)
Example C07_nonvacuous :
  exists l, w_validate (cfg0 false false) t_ok = Ok l /\
            no_scramble (cfg0 false false) t_ok /\ distinct_times (cfg0 false false) t_ok /\
            Forall (fun r => r_onset r <> None) t_ok /\
            cells_error_free nat w_err w_basic (delay_row (Some 1000000%Z) 5 {| d_num := Some 3000000%Z; d_unit := UKey true |}) /\
            string_raws nat l 3 = [2; 2] /\ needs_sorting (cfg0 false false) t_ok = true /\
            count_unordered nat l = 1.
Proof. exact row_equals_string_nonvacuous. Qed.
