(* C15 -- Search queries obey their documented logic on every annotation.
   Property theorems only; each closed with [exact] and followed by
   Print Assumptions.

   [fx : bool] selects the code that is modelled.  [true] = the CURRENT code of
   /repo, which contains fix commits 81fa420 (has_same_tags by identity),
   1bd4096 (a token that is not an operand is rejected), 0643166 (RecursionError
   of a too deeply nested query reported as ValueError) and c19994c (tag_terms
   refreshed when short_base_tag is set, switch [fx4]).  [false] = the behaviour
   BEFORE those commits, kept only as the record of the repaired defects
   (theorems whose name contains _prefix_).  Theorems quantified over [fx] state the same
   fact of both; no theorem is of the form "if fx then T else refutation".
   [limit] = the nesting depth the interpreter allows the recursive-descent parser
   (used when fx = true).  [matches fx e root] models bool(QueryHandler.search(..)),
   [compile fx limit q] models QueryHandler(q), [compile_raw] the same before the
   except clause of commit 0643166 (it tells an exhausted depth, RecursionError,
   from a genuine rejection, ValueError), [search] composes compile and matches.
   The searched annotation is a HedString, i.e. a group node [Group i ch]; theorems
   that need this say so. *)
From Coq Require Import List NArith Bool Permutation.
From HV Require Import Base.Res Base.Str Model.Query Model.QueryParse Model.QueryEdit Proofs.QueryEditProofs
  Proofs.QueryProofs Proofs.QueryParseProofs Proofs.QueryBalanceProofs Proofs.QuerySiblingProofs
  Proofs.QueryWitness.
Import ListNotations.

(* A search term (bare, quoted / with slash, trailing star) matches exactly when
   some tag of the annotation matches in the mode the term selects ... *)
Theorem C15_term_matches : forall fx tok mode text i ch,
  term_info tok = (mode, false, text) ->
  matches fx (ETerm tok) (Group i ch) =
  existsb (fun tc => tag_matches mode text (fst tc)) (all_tags (Group i ch)).
Proof. exact term_matches. Qed.
Print Assumptions C15_term_matches.

(* ... where mode 0 (bare) = the term is on the tag's schema path, mode 1
   (quoted) = the exact tag, mode 2 (star) = short-form prefix.  "Exact" is read
   as the code implements it (HedTag.__eq__ with a str): equality of the
   case-folded short form including the value; the query text is case-folded by
   QueryHandler anyway. *)
Theorem C15_term_modes : forall text i terms short org,
  (tag_matches 0 text (Tag i terms short org) = true <-> In (fold text) terms) /\
  (tag_matches 1 text (Tag i terms short org) = true <-> fold short = fold text) /\
  (tag_matches 2 text (Tag i terms short org) = true <-> exists rest, fold short = fold text ++ rest).
Proof. exact tag_matches_modes. Qed.
Print Assumptions C15_term_modes.

(* 'A || B' matches iff A or B does: all annotations, all A, B. *)
Theorem C15_or_iff : forall fx t a b root,
  matches fx (EOr t a b) root = matches fx a root || matches fx b root.
Proof. exact or_iff. Qed.
Print Assumptions C15_or_iff.

(* 'A && B' matches exactly when A and B have results on the same group that
   use distinct children of it ("via distinct tags"). *)
Theorem C15_and_iff_distinct : forall fx t a b root,
  matches fx (EAnd t a b) root = true <->
  exists r o, In r (handle fx a false root) /\ In o (handle fx b false root) /\
              gid r = gid o /\ overlap (sr_tags r) (sr_tags o) = false.
Proof. exact and_iff_distinct. Qed.
Print Assumptions C15_and_iff_distinct.

(* 'A && B' is symmetric (as a match verdict; both spellings "&&" and ","). *)
Theorem C15_and_symmetric : forall fx t t' a b root,
  matches fx (EAnd t a b) root = matches fx (EAnd t' b a) root.
Proof. exact and_symmetric. Qed.
Print Assumptions C15_and_symmetric.

(* 'A && B' matches only if both do. *)
Theorem C15_and_implies_both : forall fx t a b root,
  matches fx (EAnd t a b) root = true -> matches fx a root = true /\ matches fx b root = true.
Proof. exact and_implies_both. Qed.
Print Assumptions C15_and_implies_both.

(* 'A && B' is associative (as a match verdict), current code: all annotations
   (the searched HedString is a group node), all A, B, C.  Symmetry and
   "implies both" above hold for every root and both codes. *)
Theorem C15_and_assoc : forall t1 t2 t3 t4 a b c i ch,
  matches true (EAnd t1 (EAnd t2 a b) c) (Group i ch) = matches true (EAnd t3 a (EAnd t4 b c)) (Group i ch).
Proof. exact and_assoc_fixed. Qed.
Print Assumptions C15_and_assoc.

(* record (behaviour before fix commit 81fa420): associativity needed the hypothesis that no
   two distinct groups of the annotation compare equal *)
Theorem C15_and_assoc_prefix_partial : forall t1 t2 t3 t4 a b c i ch,
  distinct_groups (Group i ch) ->
  matches false (EAnd t1 (EAnd t2 a b) c) (Group i ch) = matches false (EAnd t3 a (EAnd t4 b c)) (Group i ch).
Proof. exact and_assoc_prefix. Qed.
Print Assumptions C15_and_assoc_prefix_partial.

(* Every result of every expression (all nine expression classes, both modes)
   refers to a group that occurs in the searched annotation. *)
Theorem C15_results_in_annotation : forall fx i ch e ex r,
  In r (handle fx e ex (Group i ch)) -> In (sr_chain r) (all_groups (Group i ch)).
Proof. exact handle_valid. Qed.
Print Assumptions C15_results_in_annotation.

(* The match result is unchanged by reordering siblings, at any level, for EVERY
   expression (terms in all modes, at-sign terms, wildcards, &&, ||, ~, [ ], { },
   {:}, {: }).  [uniq a]: the group identities of the annotation are pairwise
   different (true of object identity). *)
Theorem C15_sibling_order_invariant : forall a b,
  sperm a b -> is_tag a = false -> uniq a -> forall e, matches true e a = matches true e b.
Proof. exact sibling_order_matches. Qed.
Print Assumptions C15_sibling_order_invariant.

(* the same for query texts *)
Theorem C15_sibling_order_search : forall limit q a b,
  sperm a b -> is_tag a = false -> uniq a -> search true limit q a = search true limit q b.
Proof. exact sibling_order_search. Qed.
Print Assumptions C15_sibling_order_search.

(* record (behaviour before fix commit 81fa420): the invariance was provable only for queries
   built from search terms with || (holds of both codes) ... *)
Theorem C15_sibling_order_prefix_partial : forall fx e, term_or_query e = true ->
  forall a b, sperm a b -> is_tag a = false -> matches fx e a = matches fx e b.
Proof. exact sibling_order_terms_or. Qed.
Print Assumptions C15_sibling_order_prefix_partial.

(* ... and was FALSE in general: record of the repaired defect C15-F1 (behaviour
   before fix commit 81fa420; the current code satisfies C15_sibling_order_invariant). *)
Theorem C15_sibling_order_prefix_refuted :
  exists q a b, sperm a b /\ uniq a /\ search false 0 q a = Ok false /\ search false 0 q b = Ok true.
Proof. exact sibling_order_refuted. Qed.
Print Assumptions C15_sibling_order_prefix_refuted.

(* Any query text either compiles or is rejected with ValueError -- nothing
   else, whatever nesting depth is available.  NOTE: with too small a [limit]
   the ValueError is the reported depth overrun, not a judgement on the text;
   the theorems C15_compile_raw_total .. C15_compile_depth_independent below
   separate the two and show that enough depth never exhausts. *)
Theorem C15_compile_total : forall fx limit (q : str),
  (exists e, compile fx limit q = Ok e) \/ compile fx limit q = Exn ValueError.
Proof. exact compile_total. Qed.
Print Assumptions C15_compile_total.

(* Searching with any query text gives a verdict or ValueError; the verdict is
   a function of (query, annotation) alone: the model has no state, so repeated
   searches agree and the annotation is not altered (checked on the
   implementation by the harness). *)
Theorem C15_search_total : forall fx limit (q : str) (root : node),
  (exists b, search fx limit q root = Ok b) \/ search fx limit q root = Exn ValueError.
Proof. exact search_total. Qed.
Print Assumptions C15_search_total.

(* Before the except clause of commit 0643166 there are exactly three outcomes;
   RecursionError (depth exhausted) is a value of its own and occurs on the
   current code only. *)
Theorem C15_compile_raw_total : forall fx limit q,
  (exists e, compile_raw fx limit q = Ok e) \/ compile_raw fx limit q = Exn ValueError \/
  (fx = true /\ compile_raw fx limit q = Exn RecursionError).
Proof. exact compile_raw_total. Qed.
Print Assumptions C15_compile_raw_total.

(* ENOUGH DEPTH NEVER EXHAUSTS: one nesting level per token of the query is
   always enough, so the model's internal bound S (length tokens) never causes a
   spurious rejection: the outcome is then a tree or a GENUINE ValueError. *)
Theorem C15_enough_depth_never_exhausts : forall fx limit q,
  S (length (tokenize (fold q))) <= limit -> compile_raw fx limit q <> Exn RecursionError.
Proof. exact compile_raw_enough. Qed.
Print Assumptions C15_enough_depth_never_exhausts.

(* MORE DEPTH NEVER CHANGES AN ANSWER: a tree or a genuine ValueError obtained
   at some depth is the outcome at every larger depth. *)
Theorem C15_more_depth_same_answer : forall limit limit' q,
  limit <= limit' -> compile_raw true limit q <> Exn RecursionError ->
  compile_raw true limit' q = compile_raw true limit q.
Proof. exact compile_raw_mono. Qed.
Print Assumptions C15_more_depth_same_answer.

(* hence QueryHandler(q) does not depend on the depth once it is sufficient *)
Theorem C15_compile_depth_independent : forall limit limit' q,
  S (length (tokenize (fold q))) <= limit -> S (length (tokenize (fold q))) <= limit' ->
  compile true limit q = compile true limit' q.
Proof. exact compile_depth_independent. Qed.
Print Assumptions C15_compile_depth_independent.

(* Unbalanced grouping symbols are always rejected (every text, every depth).
   That this rejection is genuine -- not the depth overrun -- is
   C15_unbalanced_rejected_genuine below. *)
Theorem C15_unbalanced_rejected : forall limit q,
  balanced_groupers q = false -> compile true limit q = Exn ValueError.
Proof. exact unbalanced_rejected. Qed.
Print Assumptions C15_unbalanced_rejected.

(* an unbalanced text never yields a tree, at any depth ... *)
Theorem C15_unbalanced_never_compiles : forall limit q e,
  balanced_groupers q = false -> compile_raw true limit q <> Ok e.
Proof. exact unbalanced_never_compiles. Qed.
Print Assumptions C15_unbalanced_never_compiles.

(* ... and with sufficient depth its rejection is the parser's own ValueError *)
Theorem C15_unbalanced_rejected_genuine : forall limit q,
  balanced_groupers q = false -> S (length (tokenize (fold q))) <= limit ->
  compile_raw true limit q = Exn ValueError.
Proof. exact unbalanced_rejected_genuine. Qed.
Print Assumptions C15_unbalanced_rejected_genuine.

(* record of the repaired defect C15-F2 (behaviour before fix commit 1bd4096;
   the current code satisfies C15_unbalanced_rejected): a
   closing symbol where an operand is expected became a search term *)
Theorem C15_unbalanced_rejected_prefix_refuted :
  exists q, balanced_groupers q = false /\ exists e, compile false 0 q = Ok e.
Proof. exact unbalanced_rejected_refuted. Qed.
Print Assumptions C15_unbalanced_rejected_prefix_refuted.

(* non-vacuity: a real query compiles and matches a nested annotation that meets
   [uniq] / [distinct_groups] and has a non-trivial reordering; the unbalanced
   regression examples (stray closers, missing closers) are rejected *)
Example C15_nonvacuous :
  search true 100 w_query w_ann2 = Ok true /\ distinct_groups w_ann2 /\ uniq w_ann1 /\ sperm w_ann1 w_ann2 /\
  (exists e, compile true 100 w_query_or = Ok e /\ term_or_query e = true /\ matches true e w_ann1 = true) /\
  forallb (fun q => negb (balanced_groupers q) &&
                    match compile true 100 q with Exn ValueError => true | _ => false end) unbalanced_examples = true.
Proof. exact nonvacuous. Qed.

(* the old sibling-order witness agrees on the current code (fix commit 81fa420);
   a nesting deeper than the available depth is reported as ValueError (fix
   commit 0643166, defect C15-F3) *)
Example C15_repaired_witnesses :
  (search true 100 w_query w_ann1 = Ok true /\ search true 100 w_query w_ann2 = Ok true) /\
  (compile true 2 [ch_open; ch_open; ch_open; 97%N; ch_close; ch_close; ch_close] = Exn ValueError /\
   exists e, compile true 4 [ch_open; ch_open; ch_open; 97%N; ch_close; ch_close; ch_close] = Ok e).
Proof. exact (conj sibling_witness_fixed depth_exceeded_valueerror). Qed.

(* Annotations built or edited through the API.  HOLDS BY CONSTRUCTION OF THE
   MODEL (obj_search reads o_root only); stated for the record, the content of
   this clause is the harness test named below.  The object keeps the source
   text it was parsed from; edits (append, replace) change the content only.
   Whatever the source text and whatever the history of edits and of earlier
   searches, the answer is the answer on the current content.  (This holds by
   construction of the model -- its finders read the children only; that the
   implementation does the same is what the harness tests on objects built by
   expand_defs, replace_placeholder, append/replace/remove, _contents, copies,
   sorted copies and from_hed_strings.) *)
Theorem C15_search_ignores_history : forall fx limit q h o,
  obj_search fx limit q (fold_left (run_step fx limit) h o) =
  search fx limit q (fold_left apply_edit (edits_of h) (o_root o)).
Proof. exact search_history_irrelevant. Qed.
Print Assumptions C15_search_ignores_history.

Theorem C15_search_same_content : forall fx limit q o1 o2,
  o_root o1 = o_root o2 -> obj_search fx limit q o1 = obj_search fx limit q o2.
Proof. exact search_same_content. Qed.
Print Assumptions C15_search_same_content.

(* A member (tag or group) appended to any group of the annotation is visible
   to a search term in each of the three modes; nothing else changes for terms. *)
Theorem C15_appended_member_visible : forall fx tok mode text p x i ch,
  term_info tok = (mode, false, text) -> path_ok p (Group i ch) = true ->
  matches fx (ETerm tok) (append_at p x (Group i ch)) =
  matches fx (ETerm tok) (Group i ch) || existsb (tag_matches mode text) (map fst (tags_ctx [] x)).
Proof. exact append_visible. Qed.
Print Assumptions C15_appended_member_visible.

Example C15_append_example :
  path_ok [1] w_ann1 = true /\
  search true 100 [34; 71; 114; 101; 101; 110; 34]%N w_ann1 = Ok false /\ search true 100 [34; 71; 114; 101; 101; 110; 34]%N (append_at [1] w_green w_ann1) = Ok true /\
  search true 100 [71; 114; 101; 42]%N w_ann1 = Ok false /\ search true 100 [71; 114; 101; 42]%N (append_at [1] w_green w_ann1) = Ok true.
Proof. exact append_example. Qed.

(* A tag whose base was changed through the API (expand_defs / shrink_defs turn
   Def into Def-expand and back): on the current code (fix commit c19994c) the bare-term mode tests the
   schema path of the new entry. *)
Theorem C15_rebased_tag_terms : forall text new_terms new_short i terms s o,
  tag_matches 0 text (rebase_tag true new_terms new_short (Tag i terms s o)) = true <-> In (fold text) new_terms.
Proof. exact rebase_terms_fixed. Qed.
Print Assumptions C15_rebased_tag_terms.

(* record of the repaired defect C15-F4 (behaviour before fix commit c19994c): the
   stale path was tested *)
Theorem C15_rebased_tag_terms_prefix_refuted :
  exists text new_terms new_short t,
    tag_matches 0 text (rebase_tag false new_terms new_short t) = true /\ ~ In (fold text) new_terms.
Proof. exact rebase_terms_refuted. Qed.
Print Assumptions C15_rebased_tag_terms_prefix_refuted.

(* depth, concretely: "(((a)))" has 7 tokens; depth 2 is exhausted
   (RecursionError before, ValueError after the except clause), depth 8 compiles;
   "a)" is a genuine ValueError at depth 8 *)
Example C15_depth_example :
  compile_raw true 2 [ch_open; ch_open; ch_open; 97%N; ch_close; ch_close; ch_close] = Exn RecursionError /\
  (exists e, compile_raw true 8 [ch_open; ch_open; ch_open; 97%N; ch_close; ch_close; ch_close] = Ok e) /\
  compile_raw true 8 [97%N; ch_close] = Exn ValueError /\
  S (length (tokenize (fold [ch_open; ch_open; ch_open; 97%N; ch_close; ch_close; ch_close]))) = 8.
Proof. exact depth_raw_example. Qed.

(* The batch entry point (query_service.search_hed_objs): row i of the result is
   the answer on annotation i alone, wherever None / empty entries stand in the
   list; a None entry is a row of zeros.  HOLDS BY CONSTRUCTION OF THE MODEL (one
   map over the rows); that the implementation writes each result to the row of
   ITS annotation is tested by the harness row by row (lists with None / empty
   entries at every position), not proved. *)
Theorem C15_batch_row_by_row : forall fx es rows i,
  nth_error (search_batch fx es rows) i = option_map (batch_row fx es) (nth_error rows i).
Proof. exact batch_row_by_row. Qed.
Print Assumptions C15_batch_row_by_row.
