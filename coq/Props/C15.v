(* C15 -- Search queries obey their documented logic on every annotation.
   Property theorems only; each closed with [exact] and followed by
   Print Assumptions.  [matches e root] models bool(QueryHandler.search(..)),
   [compile q] models QueryHandler(q), [search q root] their composition. *)
From Coq Require Import List NArith Bool Permutation.
From HV Require Import Base.Res Base.Str Model.Query Model.QueryParse
  Proofs.QueryProofs Proofs.QueryParseProofs.
Import ListNotations.

(* A search term (bare, quoted / with slash, trailing star) matches exactly when
   some tag of the annotation matches in the mode the term selects ... *)
Theorem C15_term_matches : forall tok mode text i ch,
  term_info tok = (mode, false, text) ->
  matches (ETerm tok) (Group i ch) =
  existsb (fun tc => tag_matches mode text (fst tc)) (all_tags (Group i ch)).
Proof. exact term_matches. Qed.
Print Assumptions C15_term_matches.

(* ... where mode 0 (bare) = the term is on the tag's schema path, mode 1
   (quoted) = the exact tag, mode 2 (star) = short-form prefix. *)
Theorem C15_term_modes : forall text i terms short org,
  (tag_matches 0 text (Tag i terms short org) = true <-> In (fold text) terms) /\
  (tag_matches 1 text (Tag i terms short org) = true <-> fold short = fold text) /\
  (tag_matches 2 text (Tag i terms short org) = true <-> exists rest, fold short = fold text ++ rest).
Proof. exact tag_matches_modes. Qed.
Print Assumptions C15_term_modes.

(* 'A || B' matches iff A or B does: all annotations, all A, B. *)
Theorem C15_or_iff : forall t a b root,
  matches (EOr t a b) root = matches a root || matches b root.
Proof. exact or_iff. Qed.
Print Assumptions C15_or_iff.

(* 'A && B' matches exactly when A and B have results on the same group that
   use distinct children of it ("via distinct tags"). *)
Theorem C15_and_iff_distinct : forall t a b root,
  matches (EAnd t a b) root = true <->
  exists r o, In r (handle a false root) /\ In o (handle b false root) /\
              gid r = gid o /\ overlap (sr_tags r) (sr_tags o) = false.
Proof. exact and_iff_distinct. Qed.
Print Assumptions C15_and_iff_distinct.

(* 'A && B' is symmetric (as a match verdict; both spellings "&&" and ","). *)
Theorem C15_and_symmetric : forall t t' a b root,
  matches (EAnd t a b) root = matches (EAnd t' b a) root.
Proof. exact and_symmetric. Qed.
Print Assumptions C15_and_symmetric.

(* 'A && B' matches only if both do. *)
Theorem C15_and_implies_both : forall t a b root,
  matches (EAnd t a b) root = true -> matches a root = true /\ matches b root = true.
Proof. exact and_implies_both. Qed.
Print Assumptions C15_and_implies_both.

(* 'A && B' is associative (as a match verdict).
   FULL STATEMENT: forall a b c root,
     matches (EAnd t1 (EAnd t2 a b) c) root = matches (EAnd t3 a (EAnd t4 b c)) root.
   Proved under the hypothesis that the duplicate filter never identifies
   results of two distinct groups (no two distinct groups of the annotation
   compare equal); without it the filter may drop results, see C15-F1. *)
Theorem C15_and_assoc_partial : forall t1 t2 t3 t4 a b c i ch,
  distinct_groups (Group i ch) ->
  matches (EAnd t1 (EAnd t2 a b) c) (Group i ch) = matches (EAnd t3 a (EAnd t4 b c)) (Group i ch).
Proof. exact and_assoc_partial. Qed.
Print Assumptions C15_and_assoc_partial.

(* Every result of every expression (all nine expression classes, both modes)
   refers to a group that occurs in the searched annotation. *)
Theorem C15_results_in_annotation : forall i ch e ex r,
  In r (handle e ex (Group i ch)) -> In (sr_chain r) (all_groups (Group i ch)).
Proof. exact handle_valid. Qed.
Print Assumptions C15_results_in_annotation.

(* The match result is unchanged by reordering siblings (at any level).
   FULL STATEMENT: forall q a b, sperm a b -> search q a = search q b.
   PARTIAL: proved for every query built from search terms (bare, quoted,
   slash, star) with ||, on every annotation and every nested reordering.
   Missing: &&, ~, wildcards and the group operators -- for these the full
   statement is false (next theorem); a positive theorem would need the
   hypothesis of C15_and_assoc_partial on both annotations. *)
Theorem C15_sibling_order_partial : forall e, term_or_query e = true ->
  forall a b, sperm a b -> is_tag a = false -> matches e a = matches e b.
Proof. exact sibling_order_terms_or. Qed.
Print Assumptions C15_sibling_order_partial.

(* It is FALSE of the code in general: witness of finding C15-F1. *)
Theorem C15_sibling_order_refuted :
  exists q a b, sperm a b /\ search q a = Ok false /\ search q b = Ok true.
Proof. exact sibling_order_refuted. Qed.
Print Assumptions C15_sibling_order_refuted.

(* Any query text either compiles or is rejected with ValueError -- nothing
   else, and the parser's fuel never runs out. *)
Theorem C15_compile_total : forall q : str,
  (exists e, compile q = Ok e) \/ compile q = Exn ValueError.
Proof. exact compile_total. Qed.
Print Assumptions C15_compile_total.

(* Searching with any query text gives a verdict or ValueError; the verdict is
   a function of (query, annotation) alone: the model has no state, so repeated
   searches agree and the annotation is not altered (checked on the
   implementation by the harness). *)
Theorem C15_search_total : forall (q : str) (root : node),
  (exists b, search q root = Ok b) \/ search q root = Exn ValueError.
Proof. exact search_total. Qed.
Print Assumptions C15_search_total.

(* Unbalanced grouping symbols are always rejected.
   FULL STATEMENT: forall q, balanced_groupers q = false -> compile q = Exn ValueError.
   It is FALSE of the code: a closing symbol where an operand is expected
   becomes a search term (finding C15-F2). *)
Theorem C15_unbalanced_rejected_refuted :
  exists q, balanced_groupers q = false /\ exists e, compile q = Ok e.
Proof. exact unbalanced_rejected_refuted. Qed.
Print Assumptions C15_unbalanced_rejected_refuted.

(* non-vacuity: a real query compiles and matches a nested annotation that meets
   [distinct_groups]; the unbalanced regression examples (missing closers, extra
   closer after a complete query) are rejected *)
Example C15_nonvacuous :
  search w_query w_ann2 = Ok true /\ distinct_groups w_ann2 /\
  (exists e, compile w_query_or = Ok e /\ term_or_query e = true /\ matches e w_ann1 = true) /\
  forallb (fun q => negb (balanced_groupers q) &&
                    match compile q with Exn ValueError => true | _ => false end) unbalanced_examples = true.
Proof. exact nonvacuous. Qed.
