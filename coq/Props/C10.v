(* C10 -- Onset/Offset/Inset bookkeeping follows the event history exactly.
   Property theorems only; each closed with [exact] and followed by
   Print Assumptions.

   Vocabulary (Proofs/OnsetProofs.v):
     history h          = list of time points, a time point = list of markers
                          (kind Onset/Offset/Inset, Def names found in the group)
     eff_tp tp          = the markers of tp that take effect: first use of each
                          case-folded name/value, as (kind, key)
     effective h        = all effective events of h in order
     open_before evs k  = some Onset of k occurs in evs with no Offset of k after it
     state_after h      = OnsetValidator._onsets (keys) after the history h
     issues_at h1 tp    = issues of validate_temporal_relations for tp after h1 *)
(* The file pipeline is stated for the code AS IT NOW IS in /repo: fix commit 29fcd01
   (finding C10-F1) made sort_dataframe_by_onsets a stable sort (kind='stable'); model
   parameter fixed = true, harness default VERIF_C10_FIXED=1.
   The theorems about fixed = false (behaviour BEFORE fix commit 29fcd01: tie order
   chosen by the platform) are kept at the end only as the record of the repaired
   defect; the property is not false of the current implementation.

   What kind of statement each theorem is:
   - results proved by induction over ALL histories / files: C10_state_is_spec ..
     C10_tie_order_irrelevant, C10_processing_order_is_stable_sort,
     C10_process_file_never_raises, C10_effective_time, C10_group_takes_effect_at;
   - restatements of model definitions in declarative form (documentation of the model,
     NOT results): C10_delayed_entry_time, C10_remaining_groups, C10_row_failed_iff,
     C10_warnings_only_row_takes_part;
   - true by construction of the model (the modelling decision, tested on the
     implementation, not proved of it): C10_files_independent. *)
From Coq Require Import List NArith Permutation Sorted.
From HV Require Import Base.Res Base.Str Model.Onset Model.Timeline
  Proofs.OnsetProofs Proofs.TimelineProofs Proofs.TimelineTotal Proofs.TimelineRuns.
Import ListNotations.

(* Invariant over ALL histories: the open-scope set is exactly the set of names
   whose last effective Onset/Offset is an Onset. *)
Theorem C10_state_is_spec : forall (h : list (list marker)) (k : str),
  In k (state_after h) <-> open_before (effective h) k.
Proof. exact state_is_spec. Qed.
Print Assumptions C10_state_is_spec.

(* Every issue, after ANY history: either a re-use of a name already used at this
   time point, or a first-use Offset/Inset whose name has no open Onset. *)
Theorem C10_issues_iff : forall (h1 : list (list marker)) (tp : list marker) (x : issue),
  In x (issues_at h1 tp) <->
  exists m, nth_error tp (ipos x) = Some m /\ hd_error (mdefs m) = Some (iname x) /\
    let k := casefold (iname x) in
    ((ikd x = SameDefsOneRow /\ reused tp (ipos x) k)
     \/ (~ reused tp (ipos x) k /\ ~ open_before (effective h1) k /\ unmatched_kind (mkind m) (ikd x))).
Proof. exact issues_iff. Qed.
Print Assumptions C10_issues_iff.

(* An Offset or Inset (first use of its name at the time point) is reported as
   unmatched EXACTLY WHEN no Onset with the same case-insensitive name/value is open. *)
Theorem C10_unmatched_iff : forall h1 tp j m nm,
  nth_error tp j = Some m -> hd_error (mdefs m) = Some nm -> mkind m <> Onset ->
  ~ reused tp j (casefold nm) ->
  ((exists ik, In (mkIssue ik j nm) (issues_at h1 tp)) <-> ~ open_before (effective h1) (casefold nm)).
Proof. exact unmatched_iff. Qed.
Print Assumptions C10_unmatched_iff.

(* An Onset is never reported as unmatched. *)
Theorem C10_onset_never_unmatched : forall h1 tp x m,
  In x (issues_at h1 tp) -> nth_error tp (ipos x) = Some m -> mkind m = Onset -> ikd x = SameDefsOneRow.
Proof. exact onset_never_unmatched. Qed.
Print Assumptions C10_onset_never_unmatched.

(* An Onset opens or restarts the scope, whatever happened before. *)
Theorem C10_onset_restarts : forall h tp k,
  In (Onset, k) (eff_tp tp) -> In k (state_after (h ++ [tp])).
Proof. exact onset_restarts. Qed.
Print Assumptions C10_onset_restarts.

(* An Offset closes it. *)
Theorem C10_offset_closes : forall h tp k,
  In (Offset, k) (eff_tp tp) -> ~ In k (state_after (h ++ [tp])).
Proof. exact offset_closes. Qed.
Print Assumptions C10_offset_closes.

(* Insets and markers of other names leave a scope as it was. *)
Theorem C10_other_markers_keep_scope : forall h tp k,
  (forall e, In e (eff_tp tp) -> snd e = k -> fst e = Inset) ->
  (In k (state_after (h ++ [tp])) <-> In k (state_after h)).
Proof. exact other_markers_keep_scope. Qed.
Print Assumptions C10_other_markers_keep_scope.

(* The output of a run is the per-time-point issues and nothing else (no issue is
   produced at the end of the history) ... *)
Theorem C10_run_is_pointwise : forall h i tp,
  nth_error h i = Some tp ->
  nth_error (snd (run state0 h)) i = Some (issues_at (firstn i h) tp).
Proof. exact run_is_pointwise. Qed.
Print Assumptions C10_run_is_pointwise.

(* ... so scopes still open at the end are legal: a history of Onsets yields no
   issue although all its scopes stay open. *)
Theorem C10_open_at_end_legal : forall h,
  (forall tp, In tp h -> forall m, In m tp -> mkind m = Onset) ->
  (forall tp, In tp h -> NoDup (keys tp)) ->
  (forall iss, In iss (snd (run state0 h)) -> iss = []) /\
  (forall k, In k (keys (concat h)) -> In k (state_after h)).
Proof. exact open_at_end_legal. Qed.
Print Assumptions C10_open_at_end_legal.

(* Using the same name twice among the markers of one time point is reported once
   per extra use: #ONSET_SAME_DEFS_ONE_ROW = #markers with a Def - #distinct names. *)
Theorem C10_same_name_once_per_extra_use : forall h1 tp,
  length (filter is_same (issues_at h1 tp)) + distinct (keys tp) = length (keys tp).
Proof. exact same_name_count. Qed.
Print Assumptions C10_same_name_once_per_extra_use.

(* ... and the extra uses have no effect on the scopes. *)
Theorem C10_reuse_has_no_effect : forall h tp,
  state_after (h ++ [tp]) = fold_left apply_ev (eff_tp tp) (state_after h).
Proof. exact reuse_has_no_effect. Qed.
Print Assumptions C10_reuse_has_no_effect.

(* The order of the markers inside one time point is irrelevant as long as no
   name is used twice there ... *)
Theorem C10_tie_order_irrelevant : forall h tp tp',
  Permutation tp tp' -> NoDup (keys tp) ->
  (forall k, In k (state_after (h ++ [tp])) <-> In k (state_after (h ++ [tp']))) /\
  (forall ik nm, (exists p, In (mkIssue ik p nm) (issues_at h tp)) <->
                 (exists p, In (mkIssue ik p nm) (issues_at h tp'))).
Proof. exact tie_order_irrelevant. Qed.
Print Assumptions C10_tie_order_irrelevant.

(* ... and it does matter when a name is used twice: the first marker in processing
   order wins.  (This is why the tie order of the sort was observable, finding C10-F1,
   repaired by fix commit 29fcd01; with the stable sort the processing order is the file
   order.)  This is a fact about the marker order inside a time point, true of the
   current code too; it is not a defect. *)
Theorem C10_tie_order_independent_refuted :
  exists tp tp', Permutation tp tp' /\
    state_after [tp] <> state_after [tp'] /\
    length (issues_at [] tp) <> length (issues_at [] tp').
Proof. exact tie_order_matters_refuted. Qed.
Print Assumptions C10_tie_order_independent_refuted.

(* Rows and Delay-shifted groups are processed in the order of their effective
   time (onset + delay); the order-preserving sort is a permutation, sorted, and
   stable -- for ALL files. *)
Theorem C10_processing_order_is_stable_sort : forall (irows : list (nat * row)),
  let es := split_entries irows in
  let out := stable_sort e_time es in
  (forall perm, sort_dataframe_by_onsets e_time true perm es = Ok out) /\
  sort_by e_time None es = Ok out /\
  Permutation es out /\
  Sorted (fun a b => (e_time a <= e_time b)%N) out /\
  forall t, filter (fun e => N.eqb (e_time e) t) out = filter (fun e => N.eqb (e_time e) t) es.
Proof. exact processing_order_is_stable_sort. Qed.
Print Assumptions C10_processing_order_is_stable_sort.

(* RESTATEMENT of the model definition delayed_entries (unfolded flat_map), kept as
   documentation: a Delay group whose value converts to seconds becomes a line at
   onset + delay carrying the row it came from -- in ANY row, whatever other groups it
   holds (mixed rows).  The result that uses it is C10_group_takes_effect_at below. *)
Theorem C10_delayed_entry_time : forall (i : nat) (r : row) (e : entry),
  In e (delayed_entries (i, r)) <->
  exists d g, In (Delay (Some d), g) (r_groups r) /\ e = mkEntry (r_onset r + d)%N i [g].
Proof. exact delayed_entry_time. Qed.
Print Assumptions C10_delayed_entry_time.

(* RESTATEMENT of the model definition remaining_groups (flat_map form = map/filter
   form), kept as documentation: every other group -- no Delay tag, or a Delay whose unit
   has no conversion to seconds (Delay/1 year, Delay/1 month) -- stays in its row, in
   order, and does not stop later Delay groups of the row from shifting. *)
Theorem C10_remaining_groups : forall r : row,
  remaining_groups r = map snd (filter (fun g => negb (shifts g)) (r_groups r)).
Proof. exact remaining_groups_spec. Qed.
Print Assumptions C10_remaining_groups.

(* RESTATEMENT of the model definition row_failed (existsb unfolded), kept as
   documentation; that _run_checks really behaves so is TESTED (the model's failed rows are
   compared with the validator's invalid_original_rows on every generated file): a row is
   left out of the bookkeeping (when it starts a time point) exactly when the issues of
   its last non-empty HED cell contain an ERROR ... *)
Theorem C10_row_failed_iff : forall r : row,
  row_failed r = true <-> In SevError (last (r_cells r) []).
Proof. exact row_failed_iff. Qed.
Print Assumptions C10_row_failed_iff.

(* ... so (immediate corollary of the definition) a legal row that only draws warnings
   (TAG_EXTENDED, STYLE_WARNING, UNITS_MISSING) is an ordinary row of the history:
   C10_effective_time processes its markers. *)
Theorem C10_warnings_only_row_takes_part : forall r : row,
  (forall c, In c (r_cells r) -> forall x, In x c -> x = SevWarning) -> row_failed r = false.
Proof. exact warnings_only_row_takes_part. Qed.
Print Assumptions C10_warnings_only_row_takes_part.

(* RESULT (for ALL files, rows and groups): every top-level group of every row belongs to
   the lines of exactly its effective time -- onset + delay when its Delay converts to
   seconds, the row's own onset otherwise (no Delay, or Delay/1 year) -- in a line that
   carries the row's index.  With C10_effective_time (one time point per effective time,
   holding all lines of that time) this is the clause "rows sharing an onset time, and
   groups shifted by a Delay tag, take effect at their effective time", group by group. *)
Theorem C10_group_takes_effect_at : forall (rows : list row) (i : nat) (r : row) (g : group),
  nth_error rows i = Some r -> In g (r_groups r) ->
  exists e, In e (lines_at (group_time r g) (index_from 0 rows)) /\ e_orig e = i /\ In (snd g) (e_groups e).
Proof. exact group_takes_effect_at. Qed.
Print Assumptions C10_group_takes_effect_at.

(* The onset part of file validation never raises, for ALL files (sorted or not,
   any Delay groups, failed rows): every index stored by _indexed_dict_from_onsets
   is a valid position for _filter_by_index_list. *)
Theorem C10_process_file_never_raises : forall (rows : list row) perm1 perm2,
  exists out, process_file true perm1 perm2 rows = Ok out.
Proof. exact process_file_never_raises. Qed.
Print Assumptions C10_process_file_never_raises.

(* BY CONSTRUCTION OF THE MODEL (not a result about the validator object): sv_validate
   transcribes "self._onset_validator = OnsetValidator()" of SpreadsheetValidator.validate,
   i.e. it starts from state0 and ignores what the object held before; the theorem only
   records the consequence that, for a sequence of files validated with the SAME
   SpreadsheetValidator object, every file's outcome is that of the file alone.  That the
   implementation really makes a fresh OnsetValidator per call is TESTED (sequences of 2-3
   files on one object, each file compared with the model and the statement run from the
   empty state; exactly one OnsetValidator created per call), not proved. *)
Theorem C10_files_independent : forall fixed (files : list (list row)) sv i rows,
  nth_error files i = Some rows ->
  nth_error (validate_seq fixed sv files) i = Some (process_file fixed None None rows).
Proof. exact files_independent. Qed.
Print Assumptions C10_files_independent.

(* effective_time, FULL statement, for ALL time-ordered files (induction; replaces the
   former bounded kernel check): rows sharing an onset time and groups shifted by a
   Delay tag take effect at their effective time -- the pipeline processes exactly one
   time point per effective time that occurs, in increasing time order, holding every
   group with that effective time (rows in file order, then Delay groups in file
   order), reported at the row of its first line, skipping time points that start with
   a failed row (C10_row_failed_iff: an ERROR in its last HED cell; warnings do not count);
   the platform's tie orders perm1/perm2 are not consulted any more.
   spec_file (Proofs/TimelineProofs.v) is declarative and independent of the sort, the
   dictionary and the index code; it shares split_entries (whose content is
   C10_group_takes_effect_at), run_onset_checks and row_failed with the model. *)
Theorem C10_effective_time : forall (rows : list row) perm1 perm2,
  needs_sorting rows = false -> process_file true perm1 perm2 rows = Ok (spec_file rows).
Proof. exact effective_time. Qed.
Print Assumptions C10_effective_time.

(* Non-vacuity: concrete non-trivial histories / files meeting the hypotheses. *)
Example C10_nonvacuous_history :
  run state0 ex_history =
  ([], [[]; []; [mkIssue InsetBeforeOnset 1 nB1];
        [mkIssue InsetBeforeOnset 0 na; mkIssue OffsetBeforeOnset 1 nB2;
         mkIssue SameDefsOneRow 2 nA; mkIssue SameDefsOneRow 3 na]]).
Proof. exact ex_history_run. Qed.

(* names with letters whose lower() differs from casefold() (sharp s, capital sharp s,
   final sigma): every spelling is the same name *)
Example C10_nonvacuous_nonascii_names :
  casefold nMasz = [109%N; 97%N; 115%N; 115%N] /\
  run state0 [[mk Onset nMasz; mk Onset nEchos]; [mk Inset nMASS; mk Inset nECHOS]; [mk Offset nmaSZ];
              [mk Offset nMasz; mk Offset nECHOS]; [mk Inset nEchos]] =
  ([], [[]; []; []; [mkIssue OffsetBeforeOnset 0 nMasz]; [mkIssue InsetBeforeOnset 0 nEchos]]).
Proof. exact ex_nonascii_run. Qed.

Example C10_nonvacuous_file :
  needs_sorting ex_rows = false /\
  process_file true None None ex_rows =
    Ok ([], [(0, []); (1, []); (0, [mkIssue OffsetBeforeOnset 0 nA]);
             (2, [mkIssue InsetBeforeOnset 0 nB1; mkIssue SameDefsOneRow 1 nB1; mkIssue OffsetBeforeOnset 2 nA])])
  /\ process_file true None None ex_rows = Ok (spec_file ex_rows).
Proof. exact ex_rows_run. Qed.

(* the reset is not vacuous: from a validator still holding scope "a", an unmatched
   Offset of a would go unreported *)
Example C10_nonvacuous_reset :
  let rows := [mkRow 1 [] [(NoDelay, Some (mkMarker Offset [[97%N]]))]] in
  process_file true None None rows = Ok ([], [(0, [mkIssue OffsetBeforeOnset 0 [97%N]])]) /\
  process_file_from true None None [[97%N]] rows = Ok ([], [(0, [])]).
Proof. exact carried_scope_would_hide. Qed.

(* ------------------------------------------------------------------ *)
(* RECORD OF THE REPAIRED DEFECT C10-F1: behaviour BEFORE fix commit 29fcd01
   (fixed = false).  None of this is true of the current /repo.          *)
(* ------------------------------------------------------------------ *)

(* Unrepaired sort: whatever tie order the platform picks, an accepted order is sorted by effective time ... *)
Theorem C10_any_tie_order_is_sorted : forall perm (es out : list entry),
  sort_by e_time perm es = Ok out -> Sorted (fun a b => (e_time a <= e_time b)%N) out.
Proof. exact (sort_by_sorted e_time). Qed.
Print Assumptions C10_any_tie_order_is_sorted.

(* ... it agreed with the specification whenever the platform kept the file order ... *)
Theorem C10_effective_time_unrepaired_order_preserving : forall rows : list row,
  needs_sorting rows = false -> process_file false None None rows = Ok (spec_file rows).
Proof. exact effective_time_order_preserving. Qed.
Print Assumptions C10_effective_time_unrepaired_order_preserving.

(* ... but the full statement was FALSE of the code before fix commit 29fcd01: a tie order that the
   platform's sort may return gives another outcome (rows "1.0 (Def/A,Onset)" and
   "1.0 (Def/A,Offset)" merged in the order 1,0). *)
Theorem C10_effective_time_unrepaired_refuted :
  exists rows perm2 out,
    needs_sorting rows = false /\ process_file false None (Some perm2) rows = Ok out /\ out <> spec_file rows.
Proof. exact effective_time_unrepaired_refuted. Qed.
Print Assumptions C10_effective_time_unrepaired_refuted.
