(* C17 -- Remodeling operations are pure functions of their parameters and
   input table.  Property theorems only; each closed with [exact] and followed
   by Print Assumptions.

   "The code as it is" means the CURRENT /repo, which contains all ten repairs:
     C17-F1 e8c17b3 reorder_columns no longer extends its own column_order
     C17-F2 192568b factor_column works without factor_values / factor_names
     C17-F3 b484e3c merge_consecutive works without match_columns
     C17-F4 adebd46 split_rows treats copy_columns as optional
     C17-F5 e888c67 KeyMap lookup series built with an explicit index
     C17-F6 b5c611b merge_consecutive set_durations skips unused group numbers
     C17-F7 6cfe711 remap_columns validation rejects shared/repeated column names
     C17-F8 55a866d no .max() on the scalar anchor extent in set_durations
     C17-F9 0437d48 remap_columns integer_sources also converts float columns without n/a
     C17-F10 67be5b4 factor_column does not flag n/a rows for the factor value "nan"
   [fixes] has one boolean per repair that touches modelled behaviour (F1-F4, F6,
   F7, F10); [all_fixes] IS the current code and PART 1 is stated for it.  [no_fixes]
   is the behaviour BEFORE those commits; PART 2 keeps the refutations for it
   only as the record of the repaired defects -- the property is NOT false of
   the implementation any more.  F5, F8 and F9 are pandas dtype / hash-seed /
   float64-representation effects
   that the model never contained: they have no switch, no theorem can tell the
   code before and after those three commits apart, and that they are gone is
   established by testing only (corpus witnesses + every generated case).

   [Exn Unmodelled] is not a behaviour of the code but the mark of a run that
   left the modelled fragment (duplicate column names in an intermediate table,
   text in a summed column, an operation other than the eight).  Theorems that
   quantify over ALL tables (order independence, valid_always_runs) hold for
   such runs too, as equations between outcomes; what they mean INSIDE the
   fragment is stated by C17_valid_list_end_to_end and C17_order_independent_nth.

   The input table is a value in this functional model, so "the input table is
   left unchanged" holds BY CONSTRUCTION (C17_input_unchanged is a reflexivity,
   kept only to make the clause visible); the aliasing that matters -- the
   operation's own attributes, which alias the caller's parameter list -- is the
   explicit [opstate] returned by [do_op]. *)
From Coq Require Import List NArith ZArith Bool.
From HV Require Import Base.Res Base.Str Model.RemodelJson Gen.RemodelParams Model.Remodel
  Proofs.RemodelProofs Proofs.RemodelMeaning.
Import ListNotations.

(* =========== PART 1: the code as it is (current /repo, model mode [all_fixes]) =========== *)

(* ---- documented meaning of the column/row operations, for ALL tables ---- *)

(* remove_rows keeps exactly the rows whose cell in the named column equals none
   of the listed values (and everything when the column is absent) *)
Theorem C17_remove_rows_meaning : forall cn vals t,
  (forall i, index_of cn (cols t) = Some i ->
     do_remove_rows cn vals t = Ok {| cols := cols t; rows := filter (row_kept i vals) (rows t) |})
  /\ (index_of cn (cols t) = None -> do_remove_rows cn vals t = Ok t).
Proof. exact remove_rows_meaning. Qed.
Print Assumptions C17_remove_rows_meaning.

(* a row whose cell is n/a is never removed *)
Theorem C17_remove_rows_keeps_na : forall i vals r,
  get_cell i r = CNa -> row_kept i vals r = true.
Proof. exact remove_rows_keeps_na. Qed.
Print Assumptions C17_remove_rows_keeps_na.

(* the same without the model's own helpers ([cell_matches]: same kind and same
   content): the result is the input with rows deleted (so order and
   multiplicity of the others are kept), and a row survives iff its cell
   matches none of the listed values *)
Theorem C17_remove_rows_declarative : forall cn vals t i,
  index_of cn (cols t) = Some i ->
  exists keep : list cell -> bool,
    do_remove_rows cn vals t = Ok {| cols := cols t; rows := filter keep (rows t) |} /\
    forall r, keep r = true <-> (forall v, In v vals -> ~ cell_matches (get_cell i r) v).
Proof. exact remove_rows_declarative. Qed.
Print Assumptions C17_remove_rows_declarative.

Theorem C17_remove_rows_membership : forall cn vals t i t',
  index_of cn (cols t) = Some i -> do_remove_rows cn vals t = Ok t' ->
  cols t' = cols t /\
  forall r, In r (rows t') <-> (In r (rows t) /\ forall v, In v vals -> ~ cell_matches (get_cell i r) v).
Proof. exact remove_rows_membership. Qed.
Print Assumptions C17_remove_rows_membership.

(* remove_columns removes exactly the named columns, keeps the number of rows
   and every cell (n/a included) of every other column; without ignore_missing
   it succeeds only if every named column exists *)
Theorem C17_remove_columns_meaning : forall names ig t t',
  wfb t = true ->
  do_remove_columns names ig t = Ok t' ->
  cols t' = filter (fun c => negb (mem_str c names)) (cols t)
  /\ length (rows t') = length (rows t)
  /\ (forall c, mem_str c names = false -> has_col t c = true -> column c t' = column c t)
  /\ (ig = false -> forall c, In c names -> has_col t c = true).
Proof. exact remove_columns_meaning. Qed.
Print Assumptions C17_remove_columns_meaning.

(* rename_columns relabels position by position and touches no cell *)
Theorem C17_rename_columns_meaning : forall m ig t t',
  do_rename_columns m ig t = Ok t' ->
  cols t' = map (rename_one m) (cols t) /\ rows t' = rows t
  /\ (ig = false -> forall k v, In (k, v) m -> has_col t k = true).
Proof. exact rename_columns_meaning. Qed.
Print Assumptions C17_rename_columns_meaning.

(* the same on the mapping as a set of pairs with distinct keys (a JSON object) *)
Theorem C17_rename_columns_declarative : forall m ig t t',
  NoDup (map fst m) -> do_rename_columns m ig t = Ok t' ->
  rows t' = rows t /\ length (cols t') = length (cols t) /\
  forall j c, nth_error (cols t) j = Some c ->
    exists c', nth_error (cols t') j = Some c' /\
               (forall n, In (c, n) m -> c' = n) /\ (~ In c (map fst m) -> c' = c).
Proof. exact rename_columns_declarative. Qed.
Print Assumptions C17_rename_columns_declarative.

(* reorder_columns yields the documented order ... *)
Theorem C17_reorder_columns_order : forall fx order ig keep t st' t',
  do_reorder_columns fx order ig keep t = (st', Ok t') ->
  cols t' = reorder_target order keep t
  /\ length (rows t') = length (rows t)
  /\ (ig = false -> forall c, In c order -> has_col t c = true).
Proof. exact reorder_columns_cols. Qed.
Print Assumptions C17_reorder_columns_order.

(* ... and every column of the result carries the cells of the input column of that name *)
Theorem C17_reorder_columns_cells : forall fx order ig keep t st' t',
  do_reorder_columns fx order ig keep t = (st', Ok t') ->
  forall c j, index_of c (cols t') = Some j -> nth_error (cols t') j = Some c ->
    column c t' = column c t.
Proof. exact reorder_columns_cells. Qed.
Print Assumptions C17_reorder_columns_cells.

(* ---- factor_column (Proofs/RemodelMeaning.v).  Documented: one factor column
   per value, named as given or <column>.<value>; values default to the distinct
   non-n/a values in order of first appearance.  The result is the input table
   with one appended 0/1 column per value: 1 where the cell, printed as text,
   equals the value; an n/a cell equals no value and is 0 in every factor column
   (the code as it is, since fix commit 67be5b4). ---- *)
Theorem C17_factor_column_meaning : forall cn values names t i,
  index_of cn (cols t) = Some i -> wfb t = true ->
  let vs := factor_values_of i values t in
  let ns := factor_names_of cn names vs in
  length ns = length vs ->
  NoDup (cols t ++ ns) ->
  do_factor_column all_fixes cn values names t = Ok (factor_spec i vs ns t).
Proof. exact factor_column_meaning. Qed.
Print Assumptions C17_factor_column_meaning.

Theorem C17_factor_old_columns : forall i vs ns t c,
  rect t -> has_col t c = true -> column c (factor_spec i vs ns t) = column c t.
Proof. exact factor_spec_old_column. Qed.
Print Assumptions C17_factor_old_columns.

Theorem C17_factor_new_column : forall i vs ns t k v n,
  rect t -> NoDup (cols t ++ ns) -> length ns = length vs ->
  nth_error vs k = Some v -> nth_error ns k = Some n ->
  column n (factor_spec i vs ns t) = Some (map (fun r => flag v (get_cell i r)) (rows t)).
Proof. exact factor_spec_new_column. Qed.
Print Assumptions C17_factor_new_column.

Theorem C17_factor_na_is_zero : forall v, flag v CNa = CNum 0.
Proof. exact flag_na. Qed.
Print Assumptions C17_factor_na_is_zero.

Theorem C17_factor_present_cell : forall v c,
  c <> CNa -> flag v c = if str_eqb (cell_str c) v then CNum 1 else CNum 0.
Proof. exact flag_present. Qed.
Print Assumptions C17_factor_present_cell.

(* ---- remap_columns.  Per row (g maps each input row to its output row): source
   cells become text (n/a -> "n/a"); destination cells take the values of the
   FIRST map_list entry with the row's key, else n/a -- an error unless
   ignore_missing; all other cells untouched; new destination columns appended
   in the given order.  integer_sources has no effect inside the fragment. ---- *)
Theorem C17_remap_columns_meaning : forall src dst ml ig ints t t',
  wfb t = true -> NoDup (src ++ dst) ->
  Forall (fun row => length row = length src + length dst) ml ->
  do_remap_columns src dst ml ig ints t = Ok t' ->
  cols t' = cols t ++ filter (fun d => negb (has_col t d)) dst /\
  exists g, rows t' = map g (rows t) /\
    (forall r, length r = length (cols t) ->
       let found := map_find (length src) (map (fun c => src_str (cell_at t c r)) src) ml in
       length (g r) = length (cols t') /\
       (forall c, In c src -> cell_at t' c (g r) = CStr (src_str (cell_at t c r))) /\
       (forall j d, nth_error dst j = Some d ->
          cell_at t' d (g r) = match found with
                               | Some vals => pval_cell (nth j vals (PStr s_na))
                               | None => CStr s_na
                               end) /\
       (forall c, has_col t c = true -> ~ In c src -> ~ In c dst -> cell_at t' c (g r) = cell_at t c r)) /\
    (ig = false -> forall r, In r (rows t) ->
       map_find (length src) (map (fun c => src_str (cell_at t c r)) src) ml <> None).
Proof. exact remap_columns_meaning. Qed.
Print Assumptions C17_remap_columns_meaning.

(* the entry found is the first one with that key *)
Theorem C17_remap_first_wins : forall m key ml,
  match map_find m key ml with
  | Some vals => exists pre row post, ml = pre ++ row :: post /\ row_key m row = key /\ vals = skipn m row
                                      /\ Forall (fun row' => row_key m row' <> key) pre
  | None => Forall (fun row' => row_key m row' <> key) ml
  end.
Proof. exact map_find_spec. Qed.
Print Assumptions C17_remap_first_wins.

(* ... whatever follows it; and the de-duplicated lookup table (KeyMap.col_map)
   answers every key exactly like first-wins on map_list: a repeated key changes
   neither its own answer nor the answer of any other key.  The keys 1 and "1"
   are the same key. *)
Theorem C17_remap_first_entry : forall m key pre row post,
  Forall (fun row' => row_key m row' <> key) pre -> row_key m row = key ->
  map_find m key (pre ++ row :: post) = Some (skipn m row).
Proof. exact map_find_first. Qed.
Print Assumptions C17_remap_first_entry.

Theorem C17_remap_dedup_table : forall m key ml,
  map_find m key (dedup_keys m [] ml) = map_find m key ml.
Proof. exact (fun m key ml => map_find_dedup m key ml [] (fun s H => match H with end)). Qed.
Print Assumptions C17_remap_dedup_table.

Theorem C17_remap_numeric_text_key : forall z rest,
  row_key 1 (PNum z :: rest) = row_key 1 (PStr (str_of_Z z) :: rest).
Proof. exact row_key_numeric_text. Qed.
Print Assumptions C17_remap_numeric_text_key.

Theorem C17_remap_integer_sources : forall src dst ml ig ints t t',
  do_remap_columns src dst ml ig ints t = Ok t' -> do_remap_columns src dst ml ig [] t = Ok t'.
Proof. exact remap_integer_sources_irrelevant. Qed.
Print Assumptions C17_remap_integer_sources.

(* ---- merge_consecutive.  [merge_flags] marks a row iff it and the row before
   it both have the event code in column_name and agree on column_name and all
   present match columns (n/a = n/a): each maximal run collapses into its first
   row.  The result is the table without the marked rows, order kept. ---- *)
Theorem C17_merge_consecutive_meaning : forall cn code ig mc t t',
  do_merge_consecutive all_fixes cn code false ig mc t = Ok t' ->
  has_col t cn = true /\
  (ig = false -> forall c, In c (match mc with Some l => l | None => [] end) -> has_col t c = true) /\
  t' = {| cols := cols t; rows := filter_mask (map negb (merge_flags t cn code mc)) (rows t) |}.
Proof. exact merge_consecutive_meaning. Qed.
Print Assumptions C17_merge_consecutive_meaning.

(* with set_durations ([upd]): a row followed by marked rows gets
   duration = max end (onset + duration, n/a as 0) of itself and those rows,
   minus its onset (n/a without onset); every other cell of every row is
   untouched *)
Theorem C17_merge_consecutive_durations : forall cn code ig mc t t',
  do_merge_consecutive all_fixes cn code true ig mc t = Ok t' ->
  col_all numeric_cell s_onset t = true -> col_all numeric_cell s_duration t = true ->
  exists io id, index_of s_onset (cols t) = Some io /\ index_of s_duration (cols t) = Some id /\
    has_col t cn = true /\
    t' = {| cols := cols t;
            rows := filter_mask (map negb (merge_flags t cn code mc))
                                (upd io id (rows t) (merge_flags t cn code mc)) |}.
Proof. exact merge_consecutive_durations_meaning. Qed.
Print Assumptions C17_merge_consecutive_durations.

Theorem C17_merge_durations_other_cells : forall io id rs fl,
  length (upd io id rs fl) = length rs /\
  forall k j, j <> id -> get_cell j (nth k (upd io id rs fl) []) = get_cell j (nth k rs []).
Proof. exact upd_other_cells. Qed.
Print Assumptions C17_merge_durations_other_cells.

(* ---- split_rows ([split_spec]): parents (unless remove_parent_row) plus, per
   new event and parent row whose new onset is a number, one row with
   onset = parent onset + sources, duration = sum of sources, the anchor cell =
   event name, copied columns from the parent and n/a elsewhere; the anchor
   column is appended when missing; onset made numeric; sorted by onset. ---- *)
Theorem C17_split_rows_meaning : forall anchor evs rp t t',
  wfb t = true ->
  do_split_rows all_fixes anchor evs rp t = Ok t' ->
  exists io, index_of s_onset (cols t) = Some io /\ has_col t s_duration = true /\
             t' = split_spec anchor evs rp t io.
Proof. exact split_rows_meaning. Qed.
Print Assumptions C17_split_rows_meaning.

Theorem C17_split_child_cells : forall t out anchor name copy on du r j c,
  nth_error out j = Some c ->
  get_cell j (child_row t out anchor name copy on du r)
  = if mem_str c copy then cell_at t c r
    else if str_eqb c s_duration then num_cell du
    else if str_eqb c anchor then CStr name
    else if str_eqb c s_onset then num_cell on
    else CNa.
Proof. exact child_row_cell. Qed.
Print Assumptions C17_split_child_cells.

(* the sort is a permutation, puts the rows in onset order (no onset last) and
   is STABLE: rows with equal onset keep their relative order *)
Theorem C17_split_sort_permutation : forall io l, Permutation.Permutation (sort_rows io l) l.
Proof. exact sort_rows_perm. Qed.
Print Assumptions C17_split_sort_permutation.

Theorem C17_split_sort_sorted : forall io l, rows_sorted io (sort_rows io l).
Proof. exact sort_rows_sorted. Qed.
Print Assumptions C17_split_sort_sorted.

Theorem C17_split_sort_stable : forall io k l,
  filter (same_key io k) (sort_rows io l) = filter (same_key io k) l.
Proof. exact sort_rows_stable. Qed.
Print Assumptions C17_split_sort_stable.

(* ---- operation lists: every operation sees only the (positional, label-free)
   table returned by its predecessor; with the per-operation meaning theorems
   above this fixes the meaning of every list.  That the implementation's frames
   really are positional after every step (row labels 0..n-1) is checked on the
   implementation by the correspondence run (clause index-contract). ---- *)
Theorem C17_run_operations_app : forall fx s1 s2 t,
  snd (run_operations fx (s1 ++ s2) t)
  = match snd (run_operations fx s1 t) with
    | Ok t1 => snd (run_operations fx s2 t1)
    | Exn e => Exn e
    end.
Proof. exact run_operations_app. Qed.
Print Assumptions C17_run_operations_app.

Theorem C17_run_operations_one : forall fx st t,
  snd (run_operations fx [st] t)
  = match snd (do_op fx st (prep_data t)) with
    | Ok t1 => if wfb (post_proc_data t1) then Ok (post_proc_data t1) else Exn Unmodelled
    | Exn e => Exn e
    end.
Proof. exact run_operations_one. Qed.
Print Assumptions C17_run_operations_one.

(* ---- the table given as a FILE PATH (Dispatcher.get_data_file / read_table):
   running on a path is running on the frame read from it; reading never
   produces a missing value; a column that is not all integers keeps the text
   of every cell (None, NA, null, nan, NULL, the empty cell ... stay text);
   the only text the dispatcher treats as missing is n/a, every other text
   survives the n/a <-> NaN conversion around each step. ---- *)
Theorem C17_run_path_is_frame : forall fx sts cs rs,
  run_path fx sts cs rs = run_operations fx sts (read_table cs rs).
Proof. exact run_path_is_frame. Qed.
Print Assumptions C17_run_path_is_frame.

Theorem C17_read_table_no_nan : forall cs rs, no_nan (read_table cs rs).
Proof. exact read_table_no_nan. Qed.
Print Assumptions C17_read_table_no_nan.

Theorem C17_read_table_text : forall cs rs r j,
  In r rs -> length r = length cs -> j < length cs ->
  forallb (fun r0 => is_int_text (nth j r0 [])) rs = false ->
  forall k, nth_error rs k = Some r ->
  get_cell j (nth k (rows (read_table cs rs)) []) = CStr (nth j r []).
Proof. exact read_table_text. Qed.
Print Assumptions C17_read_table_text.

Theorem C17_only_na_is_missing : forall s, prep_cell (CStr s) = CNa <-> s = s_na.
Proof. exact prep_cell_na_iff. Qed.
Print Assumptions C17_only_na_is_missing.

Theorem C17_text_round_trip : forall s, post_cell (prep_cell (CStr s)) = CStr s.
Proof. exact prep_post_text. Qed.
Print Assumptions C17_text_round_trip.

(* ---- the caller's table is unchanged (true by construction: tables are values) ---- *)
Theorem C17_input_unchanged : forall fx sts input, fst (run_on_input fx sts input) = input.
Proof. exact input_unchanged. Qed.
Print Assumptions C17_input_unchanged.

(* ---- n/a per operation: remap writes an n/a source as the text n/a; split_rows
   keeps an n/a onset; set_durations gives n/a to a row without onset (all other
   n/a cells are covered by the "untouched" clauses above) ---- *)
Theorem C17_na_remap_source : src_str CNa = s_na.
Proof. exact src_str_na. Qed.
Theorem C17_na_split_onset : strict_num CNa = CNa.
Proof. exact strict_num_na. Qed.
Theorem C17_na_merge_duration : forall io id r e,
  get_cell io r = CNa -> id < length r -> get_cell id (set_dur io id r e) = CNa.
Proof. exact set_dur_no_onset. Qed.
Print Assumptions C17_na_merge_duration.

(* n/a <-> NaN conversion around every step: n/a cells come back as n/a and no
   other cell changes; a result never contains NaN *)
Theorem C17_na_round_trip : forall t, no_nan t -> post_proc_data (prep_data t) = t.
Proof. exact post_prep_id. Qed.
Print Assumptions C17_na_round_trip.

Theorem C17_result_has_no_nan : forall fx sts t sts' t',
  sts <> [] -> run_operations fx sts t = (sts', Ok t') -> no_nan t'.
Proof. exact run_no_nan. Qed.
Print Assumptions C17_result_has_no_nan.

(* ---- parameters are left unchanged: FULL statement, every operation ---- *)

Theorem C17_opstate_constant : forall st t, fst (do_op all_fixes st t) = st.
Proof. exact (fun st t => opstate_constant all_fixes st t eq_refl). Qed.
Print Assumptions C17_opstate_constant.

(* ---- same result first, last or repeatedly through one dispatcher: FULL
   statement over ALL operation lists and ALL table sequences ---- *)

Theorem C17_order_independent : forall sts ts,
  run_tables all_fixes sts ts = (sts, map (fun t => snd (run_operations all_fixes sts t)) ts).
Proof. exact (fun sts ts => order_independent all_fixes sts ts (or_introl eq_refl)). Qed.
Print Assumptions C17_order_independent.

(* ---- validation gate ---- *)

(* a list with messages is never executed, not even partially *)
Theorem C17_invalid_never_executed : forall fx ops ts,
  validate fx ops = Ok false -> remodel fx ops ts = Ok Rejected.
Proof. exact invalid_never_executed. Qed.
Print Assumptions C17_invalid_never_executed.

(* validation returns a verdict for EVERY JSON value -- any nesting, any key
   spelling, any value kinds -- and never raises; the only other outcome in the
   model is leaving the fragment (an operation other than the eight) *)
Theorem C17_validate_never_raises : forall fx ops e, validate fx ops = Exn e -> e = Unmodelled.
Proof. exact validate_never_raises. Qed.
Print Assumptions C17_validate_never_raises.

(* a list without messages always constructs (no exception from any of the
   eight constructors) and is run on every table: FULL statement *)
Theorem C17_valid_always_runs : forall ops ts,
  validate all_fixes ops = Ok true ->
  exists sts, parse_operations ops = Ok sts /\
    remodel all_fixes ops ts
    = Ok (Ran (fst (run_tables all_fixes sts ts)) (snd (run_tables all_fixes sts ts))).
Proof. exact (fun ops ts => valid_always_runs all_fixes ops ts eq_refl). Qed.
Print Assumptions C17_valid_always_runs.

(* INSIDE the modelled fragment, end to end: a list without messages constructs;
   whatever was processed before, every file gets the result of a fresh
   dispatcher; and on every table to which the list is applicable step by step
   that result is a table -- not an exception and not [Unmodelled] *)
Theorem C17_valid_list_end_to_end : forall ops,
  validate all_fixes ops = Ok true ->
  exists sts, parse_operations ops = Ok sts /\
    (forall ts, remodel all_fixes ops ts
                = Ok (Ran sts (map (fun t => snd (run_operations all_fixes sts t)) ts))) /\
    (forall t, applicable_run sts t = true -> exists t', snd (run_operations all_fixes sts t) = Ok t').
Proof. exact valid_list_end_to_end. Qed.
Print Assumptions C17_valid_list_end_to_end.

Theorem C17_order_independent_nth : forall sts ts k t,
  nth_error ts k = Some t ->
  nth_error (snd (run_tables all_fixes sts ts)) k = Some (snd (run_operations all_fixes sts t)).
Proof. exact order_independent_nth. Qed.
Print Assumptions C17_order_independent_nth.

(* where [Unmodelled] comes from in one dispatcher step: the operation itself
   left the fragment, or its result has duplicate column names *)
Theorem C17_unmodelled_origin : forall fx st t,
  snd (run_operations fx [st] t) = Exn Unmodelled ->
  snd (do_op fx st (prep_data t)) = Exn Unmodelled \/
  exists t1, snd (do_op fx st (prep_data t)) = Ok t1 /\ wfb (post_proc_data t1) = false.
Proof. exact run_one_unmodelled. Qed.
Print Assumptions C17_unmodelled_origin.

(* for each of the eight operations: parameters accepted by the translated
   PARAMS schema never make the translated __init__ raise (the required lists
   cover every parameters['k']) *)
Theorem C17_init_total : Forall init_total op_table.
Proof. exact init_total_all. Qed.
Print Assumptions C17_init_total.

(* the same for the accesses SplitRowsOp._split_rows makes to a new_events
   entry at do_op time; the guard is discharged for the current tree in
   Props/C17Now.v (it is false for a tree before fix commit adebd46) *)
Theorem C17_split_event_fetch_total :
  event_fetch_safe = true ->
  exists sch, event_schema = Some sch /\
    forall ev, check sch ev = true -> exists a, split_rows_event_fetch ev = Ok a.
Proof. exact split_event_fetch_total. Qed.
Print Assumptions C17_split_event_fetch_total.

(* ---- a valid list runs to completion: FULL statement, all eight operations ---- *)

(* [applicable st t] = the table has the columns the operation names (or
   ignore_missing is set) with values of the expected kind: numbers or n/a in
   onset/duration for merge_consecutive/set_durations; numbers, numeric-looking
   text or n/a in onset for split_rows. *)
Theorem C17_valid_runs : forall st t,
  applicable st t = true -> exists t', snd (do_op all_fixes st t) = Ok t'.
Proof. exact do_op_total. Qed.
Print Assumptions C17_valid_runs.

Theorem C17_valid_runs_list : forall sts t,
  applicable_run sts t = true -> exists t', snd (run_operations all_fixes sts t) = Ok t'.
Proof. exact run_total. Qed.
Print Assumptions C17_valid_runs_list.

(* non-vacuity: a three-operation list that is applicable to a table with n/a
   cells, run twice through one dispatcher; and the former crash witnesses *)
Example C17_nonvacuous :
  forallb (input_data_ok all_fixes) ex_ops = true /\
  run_tables all_fixes ex_ops [ex_T1; ex_T1]
  = (ex_ops, [Ok {| cols := [s1 99; s1 122]; rows := [[CStr [122%N]; CStr [50%N]]] |};
              Ok {| cols := [s1 99; s1 122]; rows := [[CStr [122%N]; CStr [50%N]]] |}]).
Proof. exact ex_ops_run. Qed.

(* the current code on the operation C17_opstate_constant is about:
   reorder_columns/keep_others from its JSON, through validate, the constructor
   and ONE dispatcher over files with different extra columns: the operation
   keeps its column_order and all three files are reordered *)
Example C17_nonvacuous_reorder_keep_others :
  validate all_fixes ex_reorder_json = Ok true /\
  parse_operations ex_reorder_json = Ok [ex_reorder] /\
  remodel all_fixes ex_reorder_json [ex_T1; ex_T2; ex_T1]
  = Ok (Ran [ex_reorder]
          [Ok {| cols := [[98%N]; [97%N]; [99%N]];
                 rows := [[CStr [120%N]; CStr [49%N]; CStr s_na]; [CStr [121%N]; CStr [50%N]; CStr [122%N]]] |};
           Ok {| cols := [[98%N]; [97%N]; [100%N]]; rows := [[CStr [120%N]; CStr [49%N]; CStr [113%N]]] |};
           Ok {| cols := [[98%N]; [97%N]; [99%N]];
                 rows := [[CStr [120%N]; CStr [49%N]; CStr s_na]; [CStr [121%N]; CStr [50%N]; CStr [122%N]]] |}]).
Proof. exact ex_reorder_now. Qed.

Example C17_nonvacuous_applicable : applicable_run ex_ops ex_T1 = true.
Proof. exact ex_ops_applicable. Qed.

Example C17_former_witnesses_applicable :
  applicable ex_factor_no_values ex_T1 = true /\ applicable ex_factor_no_names ex_T1 = true /\
  applicable ex_merge_no_match ex_T1 = true /\ applicable ex_split_no_copy ex_T3 = true /\
  applicable ex_merge_gap ex_T3 = true.
Proof. exact former_witnesses_applicable. Qed.

(* ===== PART 2: RECORD of the repaired defects -- model mode [no_fixes] = the behaviour BEFORE the
   fix commits named in the header.  None of these statements is about the current /repo. ===== *)

(* C17-F1, behaviour before fix commit e8c17b3: reorder_columns/keep_others extended its own column_order *)
Example C17_record_reorder_before_e8c17b3 :
  remodel no_fixes ex_reorder_json [ex_T1; ex_T2]
  = Ok (Ran [ReorderColumns [[98%N]; [97%N]; [99%N]] false true]
          [Ok {| cols := [[98%N]; [97%N]; [99%N]];
                 rows := [[CStr [120%N]; CStr [49%N]; CStr s_na]; [CStr [121%N]; CStr [50%N]; CStr [122%N]]] |};
           Exn ValueError]).
Proof. exact ex_reorder_before_e8c17b3. Qed.

Theorem C17_opstate_constant_refuted : exists st t, fst (do_op no_fixes st t) <> st.
Proof. exact opstate_constant_refuted. Qed.
Print Assumptions C17_opstate_constant_refuted.

(* what held also before e8c17b3 (any mode): every other operation is constant *)
Theorem C17_opstate_constant_partial : forall fx st t,
  not_keep_others st = true -> fst (do_op fx st t) = st.
Proof. exact opstate_constant_partial. Qed.
Print Assumptions C17_opstate_constant_partial.

Theorem C17_order_independent_refuted :
  exists sts t1 t2,
    nth 1 (snd (run_tables no_fixes sts [t1; t2])) (Exn Unmodelled) <> snd (run_operations no_fixes sts t2)
    /\ is_ok (snd (run_operations no_fixes sts t2)) = true.
Proof. exact order_independent_refuted. Qed.
Print Assumptions C17_order_independent_refuted.

(* C17-F10, behaviour before fix commit 67be5b4: the factor value "nan" -- and only that value -- also hit
   every n/a cell (str(NaN) = "nan") *)
Theorem C17_record_factor_nan_before_67be5b4 : forall v, factor_hit no_fixes v CNa = true <-> v = s_nan.
Proof. exact factor_hit_na_before_67be5b4. Qed.
Print Assumptions C17_record_factor_nan_before_67be5b4.

(* C17-F7, behaviour before fix commit 6cfe711: a validated remap_columns list made the constructor raise
   (third conjunct: the current code reports it with a message) *)
Theorem C17_valid_constructs_refuted :
  validate no_fixes ex_remap_overlap = Ok true /\
  parse_operations ex_remap_overlap = Exn ValueError /\
  validate all_fixes ex_remap_overlap = Ok false.
Proof. exact valid_constructs_refuted. Qed.
Print Assumptions C17_valid_constructs_refuted.

(* C17-F2 (before 192568b), C17-F3 (before b484e3c), C17-F4 (before adebd46), C17-F6 (before b5c611b):
   the optional parameters and the group numbering; each witness also satisfies the hypothesis of
   C17_valid_runs (C17_former_witnesses_applicable), so the current code runs it to completion *)
Theorem C17_valid_runs_refuted_factor_values :
  input_data_ok no_fixes ex_factor_no_values = true /\ has_col ex_T1 (s1 97) = true /\
  snd (do_op no_fixes ex_factor_no_values ex_T1) = Exn TypeError.
Proof. exact valid_runs_refuted_factor_values. Qed.
Print Assumptions C17_valid_runs_refuted_factor_values.

Theorem C17_valid_runs_refuted_factor_names :
  input_data_ok no_fixes ex_factor_no_names = true /\ has_col ex_T1 (s1 97) = true /\
  snd (do_op no_fixes ex_factor_no_names ex_T1) = Exn TypeError.
Proof. exact valid_runs_refuted_factor_names. Qed.
Print Assumptions C17_valid_runs_refuted_factor_names.

Theorem C17_valid_runs_refuted_merge_match :
  input_data_ok no_fixes ex_merge_no_match = true /\ has_col ex_T1 (s1 98) = true /\
  snd (do_op no_fixes ex_merge_no_match ex_T1) = Exn TypeError.
Proof. exact valid_runs_refuted_merge_match. Qed.
Print Assumptions C17_valid_runs_refuted_merge_match.

Theorem C17_valid_runs_refuted_split_copy :
  input_data_ok no_fixes ex_split_no_copy = true /\ wfb ex_T3 = true /\
  snd (do_op no_fixes ex_split_no_copy ex_T3) = Exn KeyError /\
  is_ok (snd (do_op all_fixes ex_split_no_copy ex_T3)) = true.
Proof. exact valid_runs_refuted_split_copy. Qed.
Print Assumptions C17_valid_runs_refuted_split_copy.

Theorem C17_valid_runs_refuted_merge_gap :
  input_data_ok no_fixes ex_merge_gap = true /\ wfb ex_T3 = true /\
  snd (do_op no_fixes ex_merge_gap ex_T3) = Exn IndexError /\
  snd (do_op all_fixes ex_merge_gap ex_T3)
  = Ok {| cols := cols ex_T3;
          rows := [[CNum 1; CNum 1; CStr (s1 120)]; [CNum 2; CNum 1; CStr (s1 121)];
                   [CNum 3; CNum 2; CStr (s1 120)]] |}.
Proof. exact valid_runs_refuted_merge_gap. Qed.
Print Assumptions C17_valid_runs_refuted_merge_gap.

(* what held already before 192568b / b484e3c / b5c611b: with every optional parameter present
   (outside split_rows and set_durations) it ran to completion *)
Theorem C17_valid_runs_partial : forall st t,
  optionals_present st = true -> applicable_core st t = true ->
  exists t', snd (do_op no_fixes st t) = Ok t'.
Proof. exact do_op_total_partial. Qed.
Print Assumptions C17_valid_runs_partial.
