(* C17 -- Remodeling operations are pure functions of their parameters and
   input table.  Property theorems only; each closed with [exact] and followed
   by Print Assumptions.

   [fixes] selects the code as it is ([no_fixes]) or the proposed repairs.
   The input table is a value in this functional model, so "the input table is
   left unchanged" holds by construction and is not stated as a theorem; the
   aliasing that matters -- the operation's own attributes, which alias the
   caller's parameter list -- is the explicit [opstate] returned by [do_op]. *)
From Coq Require Import List NArith ZArith Bool.
From HV Require Import Base.Res Base.Str Model.RemodelJson Gen.RemodelParams Model.Remodel
  Proofs.RemodelProofs.
Import ListNotations.

(* ---- documented meaning of the column/row operations, for ALL tables ---- *)

(* remove_rows keeps exactly the rows whose cell in the named column equals none
   of the listed values (and everything when the column is absent) *)
Theorem C17_remove_rows_meaning : forall cn vals t,
  (forall i, index_of cn (cols t) = Some i ->
     do_remove_rows cn vals t = Ok {| cols := cols t; rows := filter (row_kept i vals) (rows t) |})
  /\ (index_of cn (cols t) = None -> do_remove_rows cn vals t = Ok t).
Proof. exact remove_rows_meaning. Qed.
Print Assumptions C17_remove_rows_meaning.

(* a row whose cell is n/a is never removed *)
Theorem C17_remove_rows_keeps_na : forall i vals r,
  get_cell i r = CNa -> row_kept i vals r = true.
Proof. exact remove_rows_keeps_na. Qed.
Print Assumptions C17_remove_rows_keeps_na.

(* remove_columns removes exactly the named columns, keeps the number of rows
   and every cell (n/a included) of every other column; without ignore_missing
   it succeeds only if every named column exists *)
Theorem C17_remove_columns_meaning : forall names ig t t',
  wfb t = true ->
  do_remove_columns names ig t = Ok t' ->
  cols t' = filter (fun c => negb (mem_str c names)) (cols t)
  /\ length (rows t') = length (rows t)
  /\ (forall c, mem_str c names = false -> has_col t c = true -> column c t' = column c t)
  /\ (ig = false -> forall c, In c names -> has_col t c = true).
Proof. exact remove_columns_meaning. Qed.
Print Assumptions C17_remove_columns_meaning.

(* rename_columns relabels position by position and touches no cell *)
Theorem C17_rename_columns_meaning : forall m ig t t',
  do_rename_columns m ig t = Ok t' ->
  cols t' = map (rename_one m) (cols t) /\ rows t' = rows t
  /\ (ig = false -> forall k v, In (k, v) m -> has_col t k = true).
Proof. exact rename_columns_meaning. Qed.
Print Assumptions C17_rename_columns_meaning.

(* reorder_columns yields the documented order ... *)
Theorem C17_reorder_columns_order : forall fx order ig keep t st' t',
  do_reorder_columns fx order ig keep t = (st', Ok t') ->
  cols t' = reorder_target order keep t
  /\ length (rows t') = length (rows t)
  /\ (ig = false -> forall c, In c order -> has_col t c = true).
Proof. exact reorder_columns_cols. Qed.
Print Assumptions C17_reorder_columns_order.

(* ... and every column of the result carries the cells of the input column of that name *)
Theorem C17_reorder_columns_cells : forall fx order ig keep t st' t',
  do_reorder_columns fx order ig keep t = (st', Ok t') ->
  forall c j, index_of c (cols t') = Some j -> nth_error (cols t') j = Some c ->
    column c t' = column c t.
Proof. exact reorder_columns_cells. Qed.
Print Assumptions C17_reorder_columns_cells.

(* n/a <-> NaN conversion around every step: n/a cells come back as n/a and no
   other cell changes; a result never contains NaN *)
Theorem C17_na_round_trip : forall t, no_nan t -> post_proc_data (prep_data t) = t.
Proof. exact post_prep_id. Qed.
Print Assumptions C17_na_round_trip.

Theorem C17_result_has_no_nan : forall fx sts t sts' t',
  sts <> [] -> run_operations fx sts t = (sts', Ok t') -> no_nan t'.
Proof. exact run_no_nan. Qed.
Print Assumptions C17_result_has_no_nan.

(* ---- parameters are left unchanged ---- *)

(* FULL statement: forall st t, fst (do_op fx st t) = st.
   It holds with the repair of reorder_columns ... *)
Theorem C17_opstate_constant : forall fx st t,
  fx_reorder fx = true -> fst (do_op fx st t) = st.
Proof. exact opstate_constant. Qed.
Print Assumptions C17_opstate_constant.

(* ... is FALSE of the code as it is (reorder_columns, keep_others) ... *)
Theorem C17_opstate_constant_refuted : exists st t, fst (do_op no_fixes st t) <> st.
Proof. exact opstate_constant_refuted. Qed.
Print Assumptions C17_opstate_constant_refuted.

(* ... and holds of the code as it is for every other operation *)
Theorem C17_opstate_constant_partial : forall fx st t,
  not_keep_others st = true -> fst (do_op fx st t) = st.
Proof. exact opstate_constant_partial. Qed.
Print Assumptions C17_opstate_constant_partial.

(* ---- same result first, last or repeatedly through one dispatcher ---- *)

Theorem C17_order_independent : forall fx sts ts,
  stable fx sts ->
  run_tables fx sts ts = (sts, map (fun t => snd (run_operations fx sts t)) ts).
Proof. exact order_independent. Qed.
Print Assumptions C17_order_independent.

Theorem C17_order_independent_refuted :
  exists sts t1 t2,
    nth 1 (snd (run_tables no_fixes sts [t1; t2])) (Exn Unmodelled) <> snd (run_operations no_fixes sts t2)
    /\ is_ok (snd (run_operations no_fixes sts t2)) = true.
Proof. exact order_independent_refuted. Qed.
Print Assumptions C17_order_independent_refuted.

(* ---- validation gate ---- *)

Theorem C17_invalid_never_executed : forall fx ops ts,
  validate ops = Ok false -> remodel fx ops ts = Ok Rejected.
Proof. exact invalid_never_executed. Qed.
Print Assumptions C17_invalid_never_executed.

Theorem C17_valid_is_executed : forall fx ops ts sts,
  validate ops = Ok true -> parse_operations ops = Ok sts ->
  remodel fx ops ts = Ok (Ran (fst (run_tables fx sts ts)) (snd (run_tables fx sts ts))).
Proof. exact valid_is_executed. Qed.
Print Assumptions C17_valid_is_executed.

(* for each of the eight operations: parameters accepted by the translated
   PARAMS schema never make the translated __init__ raise (the required lists
   cover every parameters['k']) *)
Theorem C17_init_total : Forall init_total op_table.
Proof. exact init_total_all. Qed.
Print Assumptions C17_init_total.

(* ... which is FALSE of the accesses SplitRowsOp._split_rows makes to a
   new_events entry (copy_columns is optional but read with [...]) *)
Theorem C17_split_event_fetch_refuted :
  exists sch, event_schema = Some sch /\ check sch ex_event = true /\
              split_rows_event_fetch ex_event = Exn KeyError.
Proof. exact split_event_fetch_refuted. Qed.
Print Assumptions C17_split_event_fetch_refuted.

(* ---- a valid list runs to completion ---- *)

(* FULL statement: forall st t, applicable' st t -> exists t', snd (do_op fx st t) = Ok t'
   for all eight operations.  Proved with the repairs for every operation
   except split_rows and merge_consecutive/set_durations ([applicable] is false
   for these two: their totality is checked by the correspondence run only). *)
Theorem C17_valid_runs : forall st t,
  applicable st t = true -> exists t', snd (do_op all_fixes st t) = Ok t'.
Proof. exact do_op_total. Qed.
Print Assumptions C17_valid_runs.

Theorem C17_valid_runs_list : forall sts t,
  applicable_run sts t = true -> exists t', snd (run_operations all_fixes sts t) = Ok t'.
Proof. exact run_total. Qed.
Print Assumptions C17_valid_runs_list.

(* FALSE of the code as it is: the four optional parameters and the group numbering *)
Theorem C17_valid_runs_refuted_factor_values :
  input_data_ok ex_factor_no_values = true /\ has_col ex_T1 (s1 97) = true /\
  snd (do_op no_fixes ex_factor_no_values ex_T1) = Exn TypeError.
Proof. exact valid_runs_refuted_factor_values. Qed.
Print Assumptions C17_valid_runs_refuted_factor_values.

Theorem C17_valid_runs_refuted_factor_names :
  input_data_ok ex_factor_no_names = true /\ has_col ex_T1 (s1 97) = true /\
  snd (do_op no_fixes ex_factor_no_names ex_T1) = Exn TypeError.
Proof. exact valid_runs_refuted_factor_names. Qed.
Print Assumptions C17_valid_runs_refuted_factor_names.

Theorem C17_valid_runs_refuted_merge_match :
  input_data_ok ex_merge_no_match = true /\ has_col ex_T1 (s1 98) = true /\
  snd (do_op no_fixes ex_merge_no_match ex_T1) = Exn TypeError.
Proof. exact valid_runs_refuted_merge_match. Qed.
Print Assumptions C17_valid_runs_refuted_merge_match.

Theorem C17_valid_runs_refuted_split_copy :
  input_data_ok ex_split_no_copy = true /\ wfb ex_T3 = true /\
  snd (do_op no_fixes ex_split_no_copy ex_T3) = Exn KeyError /\
  is_ok (snd (do_op all_fixes ex_split_no_copy ex_T3)) = true.
Proof. exact valid_runs_refuted_split_copy. Qed.
Print Assumptions C17_valid_runs_refuted_split_copy.

Theorem C17_valid_runs_refuted_merge_gap :
  input_data_ok ex_merge_gap = true /\ wfb ex_T3 = true /\
  snd (do_op no_fixes ex_merge_gap ex_T3) = Exn IndexError /\
  snd (do_op all_fixes ex_merge_gap ex_T3)
  = Ok {| cols := cols ex_T3;
          rows := [[CNum 1; CNum 1; CStr (s1 120)]; [CNum 2; CNum 1; CStr (s1 121)];
                   [CNum 3; CNum 2; CStr (s1 120)]] |}.
Proof. exact valid_runs_refuted_merge_gap. Qed.
Print Assumptions C17_valid_runs_refuted_merge_gap.

(* the code as it is, when every optional parameter is present *)
Theorem C17_valid_runs_partial : forall st t,
  optionals_present st = true -> applicable st t = true ->
  exists t', snd (do_op no_fixes st t) = Ok t'.
Proof. exact do_op_total_partial. Qed.
Print Assumptions C17_valid_runs_partial.

(* non-vacuity: a three-operation list that is applicable to a table with n/a
   cells, run twice through one dispatcher *)
Example C17_nonvacuous :
  forallb input_data_ok ex_ops = true /\
  run_tables no_fixes ex_ops [ex_T1; ex_T1]
  = (ex_ops, [Ok {| cols := [s1 99; s1 122]; rows := [[CStr [122%N]; CStr [50%N]]] |};
              Ok {| cols := [s1 99; s1 122]; rows := [[CStr [122%N]; CStr [50%N]]] |}]).
Proof. exact ex_ops_run. Qed.

Example C17_nonvacuous_applicable : applicable_run ex_ops ex_T1 = true.
Proof. exact ex_ops_applicable. Qed.
