(* C19 -- The schema cache never serves or keeps a torn schema file.
   Property theorems only; each closed with [exact] and followed by
   Print Assumptions.

   Worlds: [init t ks] = an empty cache directory at wall-clock time t, [init_from s0 ks] = a
   directory in ANY state s0, and one process per entry of ks; [run c w evs] executes a schedule
   of [Run p] (one file operation of process p), [Crash p] (p is killed; the OS drops its
   advisory lock) and [Tick d] events.

   TERMINOLOGY.  /repo contains the FIVE repairs of this property:
     da46472 (C19-F1) CacheLock actually acquires the cache lock
     19ec63c (C19-F2) bundled schemas are copied into the cache atomically
     160dd4a (C19-F3) a bundled version loads although the cache holds only part of the files
     b23f2f7 (C19-F4) an empty/garbled last_update.txt is tolerated and written atomically
     8dfe516 (C19-F5) a cache copy that cannot be parsed falls back to the installed file
   "THE CODE AS IT IS" therefore means the process kinds KLoadFixed / KRefreshFixed / KRefreshOf
   (identifiers are historical: "Fixed" = as fixed by these commits) and KDownload (the download
   path's _safe_move_tmp_to_folder, unchanged), with every ANTI-PATTERN switch of cfg false and
   the repair switch parse_fallback TRUE (8dfe516); the harness drives /repo against exactly these
   programs (VERIF_C19_FIXED = 2, its default).  Theorems that do not mention parse_fallback hold
   for both values of it, hence for the code as it is; parse_fallback = false is the behaviour
   before 8dfe516 (record: C19_preexisting_torn_file_witness).  The kinds KLoad / KRefresh
   ([is_prefix_kind]) are the behaviour BEFORE the first four
   commits; every theorem about them (the three [_refuted] ones, the witnesses up to
   C19_stamp_witness, C19_finished_population_identical, C19_two_finish_example) is kept as the
   RECORD OF THE REPAIRED DEFECTS and says nothing about the present implementation.  The cfg
   switches unlink_on_release / cleanup_outside_lock / memo_stamp / per_process_locks /
   ignore_future_stamp are
   anti-patterns that were never in /repo (seeded by testers); their refutations document why the
   theorems about the code as it is carry the corresponding hypotheses. *)
From Coq Require Import List Arith Bool.
From HV Require Import Base.Res Model.Cache Proofs.CacheProofs.
Import ListNotations.

(* ---- the three universally quantified clauses, FULL statements -------------
   no_torn_visible_stmt c ks : in every reachable world every file under a
       version-pattern name is the complete installed file;
   load_succeeds_stmt c ks   : every finished load of a bundled version
       returned the bundled schema (no parse error, URLError, "not cached");
   lock_exclusive_stmt c ks  : two processes are never both between a
       successful CacheLock.__enter__ and its __exit__.
   RECORD OF THE REPAIRED DEFECTS: each was FALSE of the behaviour before the fix commits
   (kinds KLoad/KRefresh; concrete schedules below; they were replayed on the implementation
   as it was then: C19-F2 before 19ec63c, C19-F3 before 160dd4a, C19-F1 before da46472).
   Each is TRUE of the code as it is for every number of processes and every schedule,
   crashes included: theorems C19_fixed_* and C19_*_any_directory further down. *)

Theorem C19_no_torn_visible_refuted :
  exists c ks, forallb is_prefix_kind ks = true /\ ~ no_torn_visible_stmt c ks.
Proof. exact no_torn_visible_refuted. Qed.
Print Assumptions C19_no_torn_visible_refuted.

Theorem C19_load_succeeds_after_crash_refuted :
  exists c ks, forallb is_prefix_kind ks = true /\ ~ load_succeeds_stmt c ks.
Proof. exact load_succeeds_after_crash_refuted. Qed.
Print Assumptions C19_load_succeeds_after_crash_refuted.

Theorem C19_lock_exclusive_refuted :
  exists c ks, forallb is_prefix_kind ks = true /\ ~ lock_exclusive_stmt c ks.
Proof. exact lock_exclusive_refuted. Qed.
Print Assumptions C19_lock_exclusive_refuted.

(* the witnesses themselves (behaviour BEFORE the fix commits), with what was observed (two
   loaders of version 1, two bundled files of two chunks each) *)

(* killed inside the in-place copy: torn file under the final name, next load = parse error *)
Theorem C19_torn_witness :
  let w := run c2 (init t0 [KLoad 1; KLoad 1]) ev_torn in
  ver w 1 = Some [Good] /\ [Good] <> good (nchunks c2) /\ outcome_of w 1 = Some (OFail FParse).
Proof. exact torn_witness. Qed.
Print Assumptions C19_torn_witness.

(* nobody killed: a concurrent loader reads the half-copied file *)
Theorem C19_torn_live_witness :
  let w := run c2 (init t0 [KLoad 1; KLoad 1]) ev_torn_live in
  no_crash ev_torn_live /\ outcome_of w 0 = Some OLoaded /\ outcome_of w 1 = Some (OFail FParse).
Proof. exact torn_live_witness. Qed.
Print Assumptions C19_torn_live_witness.

(* killed between two copies: nothing torn, yet the bundled version is never
   populated again; URLError offline, then "not cached" inside the refresh interval *)
Theorem C19_partial_witness :
  let w := run c2 (init t0 [KLoad 1; KLoad 1; KLoad 1]) ev_partial in
  ver w 0 = Some (good 2) /\ ver w 1 = None /\
  outcome_of w 1 = Some (OFail FURLError) /\ outcome_of w 2 = Some (OFail FNotCached) /\
  netreqs (sh w) = 1.
Proof. exact partial_witness. Qed.
Print Assumptions C19_partial_witness.

(* nobody killed: a loader that lists the directory while another populates it *)
Theorem C19_partial_live_witness :
  let w := run c2 (init t0 [KLoad 1; KLoad 1]) ev_partial_live in
  no_crash ev_partial_live /\ outcome_of w 0 = Some OLoaded /\ outcome_of w 1 = Some (OFail FURLError).
Proof. exact partial_live_witness. Qed.
Print Assumptions C19_partial_live_witness.

(* both inside "with CacheLock", neither got the cache error, no OS lock taken *)
Theorem C19_lock_witness :
  let w := run c2 (init t0 [KLoad 1; KLoad 1]) ev_lock in
  exists r0 r1, nth_error (procs w) 0 = Some r0 /\ nth_error (procs w) 1 = Some r1 /\
                holding (pc_of r0) = true /\ holding (pc_of r1) = true /\
                cache_err r0 = false /\ cache_err r1 = false /\ locks (sh w) = [].
Proof. exact lock_witness. Qed.
Print Assumptions C19_lock_witness.

(* nobody killed: CacheLock.__enter__ reads the half-written last_update.txt of a
   concurrent refresher; the load raised ValueError (C19-F4, behaviour before b23f2f7) *)
Theorem C19_stamp_witness :
  let w := run c2 (init t0 [KLoad 1; KLoad 1; KLoad 1]) ev_stamp in
  no_crash ev_stamp /\ stamp (sh w) = StampTorn /\ outcome_of w 1 = Some (OFail FValueError).
Proof. exact stamp_witness. Qed.
Print Assumptions C19_stamp_witness.

(* ---- all-schedule theorems: one about the pre-fix kinds (record), the refresh clause for both -- *)

(* RECORD (behaviour before 19ec63c, in-place copies): any number of loaders/refreshers, any
   interleaving, nobody killed: once all have finished every cached schema file is identical to
   the installed one, and if one of them went through population all bundled files are there.
   (For the code as it is the stronger C19_fixed_finished_population holds, kills included.) *)
Theorem C19_finished_population_identical : forall c t ks evs,
  forallb is_prefix_kind ks = true -> no_crash evs ->
  all_done (run c (init t ks) evs) ->
  (forall f x, ver (run c (init t ks) evs) f = Some x -> x = good (nchunks c)) /\
  (forall p r, nth_error (procs (run c (init t ks) evs)) p = Some r -> populated r = true ->
     forall f, f < nfiles c -> ver (run c (init t ks) evs) f = Some (good (nchunks c))).
Proof. exact finished_population_identical. Qed.
Print Assumptions C19_finished_population_identical.

(* cache_xml_versions entered within the refresh interval of the time recorded in the SHARED
   last_update.txt is skipped: nothing in the directory, the lock or the network counter changes
   and the caller sees the cache error (-1).  Any world, any process; holds of the code as it is
   (XEnter) and held before the fixes too (LFallback).  (memo_stamp is the anti-pattern switch "remember
   the time per process", refuted below; it is off in both.) *)
Theorem C19_refresh_within_interval_skipped : forall c w p r t,
  memo_stamp c = false -> ignore_future_stamp c = false ->
  nth_error (procs w) p = Some r ->
  (pc_of r = LFallback \/ pc_of r = XEnter) ->
  stamp (sh w) = StampAt t -> clock (sh w) - t < threshold c ->
  exists r', proc_at (step c w (Run p)) p = Some r' /\
             sh (step c w (Run p)) = sh w /\ cache_err r' = true /\ nreq r' = nreq r /\
             pc_of r' = match pc_of r, kind_of r with
                        | LFallback, KLoad _ => LRecheck
                        | _, _ => Done OSkipped end.
Proof. exact refresh_within_interval_skipped. Qed.
Print Assumptions C19_refresh_within_interval_skipped.

(* ... over multi-process schedules, with the request counters as observables: the step changes
   no shared state (global counter included) and, whatever ANY process does afterwards in ANY
   schedule, that call has ended as skipped with its own request counter unchanged *)
Theorem C19_refresh_skipped_all_schedules : forall c w p r t evs,
  memo_stamp c = false -> ignore_future_stamp c = false ->
  nth_error (procs w) p = Some r ->
  (pc_of r = XEnter \/ (pc_of r = LFallback /\ kind_of r = KRefresh)) ->
  stamp (sh w) = StampAt t -> clock (sh w) - t < threshold c ->
  netreqs (sh (step c w (Run p))) = netreqs (sh w) /\
  exists r', nth_error (procs (run c w (Run p :: evs))) p = Some r' /\
             pc_of r' = Done OSkipped /\ cache_err r' = true /\ nreq r' = nreq r.
Proof. exact refresh_skipped_all_schedules. Qed.
Print Assumptions C19_refresh_skipped_all_schedules.

(* the sign edge of the time arithmetic: the recorded time is AT or AHEAD of the caller's clock
   (the clock was stepped back -- schedules may contain [Back d] events -- or another host with a
   clock ahead wrote the stamp).  "now - last" is then <= 0 < threshold: the attempt is skipped.
   (All all-schedule theorems of this file quantify over schedules with [Back] events too.) *)
Theorem C19_refresh_future_stamp_skipped : forall c w p r t evs,
  memo_stamp c = false -> ignore_future_stamp c = false -> 0 < threshold c ->
  nth_error (procs w) p = Some r ->
  (pc_of r = XEnter \/ (pc_of r = LFallback /\ kind_of r = KRefresh)) ->
  stamp (sh w) = StampAt t -> clock (sh w) <= t ->
  netreqs (sh (step c w (Run p))) = netreqs (sh w) /\
  exists r', nth_error (procs (run c w (Run p :: evs))) p = Some r' /\
             pc_of r' = Done OSkipped /\ cache_err r' = true /\ nreq r' = nreq r.
Proof. exact refresh_future_stamp_skipped. Qed.
Print Assumptions C19_refresh_future_stamp_skipped.

(* history theorem: the decision of CacheLock.__enter__ (threshold test) and the shared state it
   leaves are functions of the shared directory state alone; the past of the deciding process
   (earlier reads, earlier refreshes, failed lock attempts, ...) does not enter *)
Theorem C19_enter_decision_history_free : forall c p s r1 r2,
  memo_stamp c = false -> pc_of r1 = pc_of r2 -> kind_of r1 = kind_of r2 ->
  (pc_of r1 = XEnter \/ pc_of r1 = FEnter \/ pc_of r1 = PEnter \/ pc_of r1 = LFallback) ->
  fst (pstep c p s r1) = fst (pstep c p s r2) /\
  pc_of (snd (pstep c p s r1)) = pc_of (snd (pstep c p s r2)).
Proof. exact enter_decision_history_free. Qed.
Print Assumptions C19_enter_decision_history_free.

(* ... and it is not skipped outside the interval (one network request) *)
Theorem C19_refresh_outside_interval_proceeds : forall c w p r,
  ignore_future_stamp c = false ->
  nth_error (procs w) p = Some r -> pc_of r = LFallback ->
  (stamp (sh w) = NoStamp \/ exists t, stamp (sh w) = StampAt t /\ threshold c <= clock (sh w) - t) ->
  netreqs (sh (run c w [Run p; Run p])) = S (netreqs (sh w)).
Proof. exact refresh_outside_interval_proceeds. Qed.
Print Assumptions C19_refresh_outside_interval_proceeds.

(* download path (_safe_move_tmp_to_folder: copy under a temporary name, then
   os.replace): any number of concurrent movers, any schedule, any kills --
   the destination name never holds anything but a complete file *)
Theorem C19_safe_move_atomic : forall c t ks evs f x,
  cleanup_outside_lock c = false -> forallb is_download_kind ks = true ->
  ver (run c (init t ks) evs) f = Some x -> x = good (nchunks c).
Proof. exact safe_move_atomic. Qed.
Print Assumptions C19_safe_move_atomic.

(* ---- THE CODE AS IT IS (/repo with da46472, 19ec63c, 160dd4a, b23f2f7, 8dfe516; kinds K..Fixed):
        the full clauses, all schedules, from an empty directory.  The same from a directory in
        any state: C19_*_any_directory at the end of this file. ------------------------------- *)

(* (cleanup_outside_lock c = false: no process removes temporary files that are not its own --
   the assumption under which the protocol is correct; the anti-pattern that breaks it is refuted
   at the end of this file) *)
Theorem C19_fixed_no_torn_visible : forall c ks,
  cleanup_outside_lock c = false -> forallb is_fixed_kind ks = true -> no_torn_visible_stmt c ks.
Proof. exact fixed_no_torn_stmt. Qed.
Print Assumptions C19_fixed_no_torn_visible.

Theorem C19_fixed_load_succeeds : forall c ks,
  cleanup_outside_lock c = false -> forallb is_fixed_kind ks = true -> load_succeeds_stmt c ks.
Proof. exact fixed_load_stmt. Qed.
Print Assumptions C19_fixed_load_succeeds.

(* The model's file system gives the lock file an identity (inode): unlink + re-create is a
   different file, an open descriptor keeps the old one, advisory locks are per file.  Exclusion
   holds for every number of contenders, every order of arrivals, waiters blocked inside acquire
   when the holder leaves, kills at any point -- PROVIDED release does not remove the lock file and
   the advisory lock belongs to the open file, not to the OS process (whether the platform's
   primitive -- portalocker's default, BSD flock on Linux -- has that ownership is NOT proved here:
   it is platform trust, tested on every run by the harness' same-process / nested schedules).  A model "process" is one
   contender with its own CacheLock object (own open lock file): a thread, a nested second
   CacheLock of the same thread, or another OS process; the theorem covers every mix of them. *)
Theorem C19_fixed_lock_exclusive : forall c ks,
  unlink_on_release c = false -> per_process_locks c = false -> cleanup_outside_lock c = false ->
  forallb is_fixed_kind ks = true -> lock_exclusive_stmt c ks.
Proof. exact fixed_lock_stmt. Qed.
Print Assumptions C19_fixed_lock_exclusive.

(* a populator that got through leaves all bundled files complete, whatever
   the other processes do or however they die *)
Theorem C19_fixed_finished_population : forall c t ks evs p r f,
  cleanup_outside_lock c = false -> forallb is_fixed_kind ks = true ->
  nth_error (procs (run c (init t ks) evs)) p = Some r -> populated r = true ->
  f < nfiles c -> ver (run c (init t ks) evs) f = Some (good (nchunks c)).
Proof. exact fixed_finished_population. Qed.
Print Assumptions C19_fixed_finished_population.

(* the last attempt on a lock held by someone else gives up with the cache
   error and touches nothing; a free lock is obtained at once *)
Theorem C19_fixed_timeout_gives_cache_error : forall c w p r q,
  per_process_locks c = false ->
  nth_error (procs w) p = Some r ->
  (pc_of r = FAcquire \/ pc_of r = XAcquire) ->
  lget (locks (sh w)) (lock_ino (sh w) r) = Some q -> max_tries c <= S (tries r) ->
  exists r', proc_at (step c w (Run p)) p = Some r' /\
             cache_err r' = true /\ holding (pc_of r') = false /\ fd r' = None /\
             locks (sh (step c w (Run p))) = locks (sh w) /\
             files_of (sh (step c w (Run p))) = files_of (sh w).
Proof. exact fixed_timeout_gives_cache_error. Qed.
Print Assumptions C19_fixed_timeout_gives_cache_error.

Theorem C19_fixed_free_lock_acquired : forall c w p r,
  nth_error (procs w) p = Some r ->
  (pc_of r = FAcquire \/ pc_of r = XAcquire) ->
  lget (locks (sh w)) (lock_ino (sh w) r) = None ->
  exists r', proc_at (step c w (Run p)) p = Some r' /\ holding (pc_of r') = true /\
             fd r' = Some (lock_ino (sh w) r) /\
             lget (locks (sh (step c w (Run p)))) (lock_ino (sh w) r) = Some (hid c r p).
Proof. exact fixed_free_lock_acquired. Qed.
Print Assumptions C19_fixed_free_lock_acquired.

(* termination / no deadlock: a loader (code as it is) of a bundled version that is
   never killed itself and gets [load_bound c] = 9 + nfiles*(nchunks+4) + max_tries
   turns has returned the bundled schema -- whatever the other processes do,
   however they are scheduled or killed (a dead lock holder loses the lock; a
   live one makes the loader give up after max_tries and read the installed file) *)
Theorem C19_fixed_load_terminates : forall c t ks evs p v,
  cleanup_outside_lock c = false ->
  forallb is_fixed_kind ks = true -> nth_error ks p = Some (KLoadFixed v) -> v < nfiles c ->
  never_killed p evs -> load_bound c <= count_run p evs ->
  outcome_of (run c (init t ks) evs) p = Some OLoaded.
Proof. exact fixed_load_terminates. Qed.
Print Assumptions C19_fixed_load_terminates.

(* ANTI-PATTERN, refuted: __exit__ that also removes cache_lock.lock ("tidy-up").  With three
   contenders -- A holds, B is already waiting inside acquire with the file open, A leaves and
   unlinks, B locks the nameless file, C creates and locks a new one -- B and C are inside together.
   Nobody is killed.  The same schedule without the unlink keeps C out (contrast). *)
Theorem C19_lock_exclusive_unlink_refuted :
  exists c ks, forallb is_fixed_kind ks = true /\ unlink_on_release c = true /\
               ~ lock_exclusive_stmt c ks.
Proof. exact lock_exclusive_unlink_refuted. Qed.
Print Assumptions C19_lock_exclusive_unlink_refuted.

Theorem C19_unlink_witness :
  let w := run c2u (init t0 [KLoadFixed 1; KLoadFixed 1; KLoadFixed 1]) ev_unlink in
  no_crash ev_unlink /\
  exists r1 r2, nth_error (procs w) 1 = Some r1 /\ nth_error (procs w) 2 = Some r2 /\
                holding (pc_of r1) = true /\ holding (pc_of r2) = true /\
                fd r1 = Some 0 /\ fd r2 = Some 1 /\ lockfile (sh w) = Some 1 /\
                lget (locks (sh w)) 0 = Some 1 /\ lget (locks (sh w)) 1 = Some 2.
Proof. exact unlink_witness. Qed.
Print Assumptions C19_unlink_witness.

Theorem C19_unlink_contrast :
  let w := run c2 (init t0 [KLoadFixed 1; KLoadFixed 1; KLoadFixed 1]) ev_unlink in
  exists r1 r2, nth_error (procs w) 1 = Some r1 /\ nth_error (procs w) 2 = Some r2 /\
                holding (pc_of r1) = true /\ pc_of r2 = FAcquire /\ tries r2 = 1 /\
                lockfile (sh w) = Some 0 /\ lget (locks (sh w)) 0 = Some 1.
Proof. exact unlink_contrast. Qed.
Print Assumptions C19_unlink_contrast.

(* ANTI-PATTERN, refuted: cache_local_versions removes "leftover" *.tmp files BEFORE (= outside)
   the lock.  Two populators, nobody killed: P1's clean-up deletes the temporary copy P0 (the lock
   holder) is about to rename; P0's load fails with FileNotFoundError.  Without the clean-up step
   the same schedule lets P0 finish (contrast). *)
Theorem C19_load_succeeds_cleanup_refuted :
  exists c ks, forallb is_fixed_kind ks = true /\ cleanup_outside_lock c = true /\
               ~ load_succeeds_stmt c ks.
Proof. exact load_succeeds_cleanup_refuted. Qed.
Print Assumptions C19_load_succeeds_cleanup_refuted.

Theorem C19_cleanup_witness :
  let w := run c2c (init t0 [KLoadFixed 1; KLoadFixed 1]) ev_cleanup in
  no_crash ev_cleanup /\ outcome_of w 0 = Some (OFail FFileNotFound) /\ locks (sh w) = [].
Proof. exact cleanup_witness. Qed.
Print Assumptions C19_cleanup_witness.

Theorem C19_cleanup_contrast :
  let w := run c2 (init t0 [KLoadFixed 1; KLoadFixed 1]) (ev_cleanup ++ runs 0 12) in
  outcome_of w 0 = Some OLoaded.
Proof. exact cleanup_contrast. Qed.
Print Assumptions C19_cleanup_contrast.

(* ANTI-PATTERN, refuted: the last-update time memoised per OS process.  Calls 0 and 2 belong to
   OS process 7: it refreshes at 50, another process refreshes at 70, process 7 tries again at 71:
   not skipped, a third network request, although the shared stamp is one time unit old.  With the
   shared stamp read every time (the code as it is, and before the fixes) the third call is
   skipped (contrast). *)
Theorem C19_memo_witness :
  let w := run c2m (init t0 ks_memo) ev_memo in
  stamp (sh w) = StampAt 70 /\ clock (sh w) = 71 /\ netreqs (sh w) = 3 /\
  exists r, nth_error (procs w) 2 = Some r /\ nreq r = 1 /\ cache_err r = false.
Proof. exact memo_witness. Qed.
Print Assumptions C19_memo_witness.

Theorem C19_memo_contrast :
  let w := run c2 (init t0 ks_memo) ev_memo in
  stamp (sh w) = StampAt 70 /\ netreqs (sh w) = 2 /\ outcome_of w 2 = Some OSkipped /\
  exists r, nth_error (procs w) 2 = Some r /\ nreq r = 0 /\ cache_err r = true.
Proof. exact memo_contrast. Qed.
Print Assumptions C19_memo_contrast.

(* ANTI-PATTERN, refuted: a locking primitive whose locks belong to the OS PROCESS (POSIX record
   locks / fcntl.lockf).  Contenders in different processes still exclude each other, but with two
   contenders of ONE process (threads, or a nested CacheLock) and a third in another process:
   A holds; B, in A's process, gets in at once (overlap, no timeout); B leaves and thereby drops
   the process's lock; Q in the other process enters while A is still inside.  With locks that
   belong to the open file the same arrivals end with B giving up and Q waiting (contrast). *)
Theorem C19_lock_exclusive_per_process_refuted :
  exists c ks, forallb is_fixed_kind ks = true /\ per_process_locks c = true /\
               ~ lock_exclusive_stmt c ks.
Proof. exact lock_exclusive_per_process_refuted. Qed.
Print Assumptions C19_lock_exclusive_per_process_refuted.

Theorem C19_same_process_witness :
  (let w := run c2p (init t0 ks_same) ev_same_1 in
   exists ra rb, nth_error (procs w) 0 = Some ra /\ nth_error (procs w) 2 = Some rb /\
                 holding (pc_of ra) = true /\ holding (pc_of rb) = true /\ tries rb = 0) /\
  (let w := run c2p (init t0 ks_same) ev_same_2 in
   exists ra rq, nth_error (procs w) 0 = Some ra /\ nth_error (procs w) 1 = Some rq /\
                 holding (pc_of ra) = true /\ holding (pc_of rq) = true /\
                 outcome_of w 2 = Some OSkipped).
Proof. exact same_process_witness. Qed.
Print Assumptions C19_same_process_witness.

Theorem C19_same_process_contrast :
  let w := run c2 (init t0 ks_same) (runs 0 2 ++ [Run 1] ++ runs 2 4 ++ [Run 1]) in
  exists ra rq rb, nth_error (procs w) 0 = Some ra /\ nth_error (procs w) 1 = Some rq /\
                   nth_error (procs w) 2 = Some rb /\
                   holding (pc_of ra) = true /\ holding (pc_of rq) = false /\ tries rq = 1 /\
                   pc_of rb = Done OSkipped /\ cache_err rb = true.
Proof. exact same_process_contrast. Qed.
Print Assumptions C19_same_process_contrast.

(* ANTI-PATTERN, refuted (never in /repo): "a time in the future cannot be the time of an update:
   ignore it" (0 <= now - last < threshold).  P0 refreshes at 50, the clock is stepped back by 3,
   P1 attempts a refresh at 47: not skipped, a second request, the stamp overwritten.  The code as
   it is skips it (contrast). *)
Theorem C19_future_stamp_witness :
  let w := run c2i (init t0 [KRefreshFixed; KRefreshFixed]) ev_future in
  clock (sh w) = 47 /\ netreqs (sh w) = 2 /\ stamp (sh w) = StampAt 47 /\
  exists r, nth_error (procs w) 1 = Some r /\ nreq r = 1 /\ cache_err r = false.
Proof. exact future_stamp_witness. Qed.
Print Assumptions C19_future_stamp_witness.

Theorem C19_future_stamp_contrast :
  let w := run c2 (init t0 [KRefreshFixed; KRefreshFixed]) ev_future in
  clock (sh w) = 47 /\ netreqs (sh w) = 1 /\ stamp (sh w) = StampAt 50 /\
  outcome_of w 1 = Some OSkipped /\
  exists r, nth_error (procs w) 1 = Some r /\ nreq r = 0 /\ cache_err r = true.
Proof. exact future_stamp_contrast. Qed.
Print Assumptions C19_future_stamp_contrast.

(* ---- the directory may be in ANY state when the processes start ------------------------------
   The statement says "regardless of the state in which an earlier or concurrent process left the
   cache directory".  Earlier processes of the code as it is are covered above (they are members of
   ks that are killed at any point).  The theorems below drop the empty start: s0 is ARBITRARY --
   leftover temporary files, last_update.txt in any state (torn included), a lock file, advisory
   locks still held by processes outside ks, any clock -- except for ONE requirement, dir_ok:
   every file under a final (version-pattern) name is complete.  dir_ok is not an assumption
   about the code as it is (C19_no_torn_visible_any_directory: it is preserved, so no process of
   the current code can break it); it excludes directories written by versions before 19ec63c or
   damaged by hand.  For those the implementation does NOT meet the property: see
   C19_preexisting_torn_file_witness (C19-F5: the behaviour before fix commit 8dfe516) and, for
   the code as it is now (8dfe516: parse_fallback = true), C19_f5_*, which need no dir_ok at all. *)

Theorem C19_no_torn_visible_any_directory : forall c ks,
  cleanup_outside_lock c = false -> forallb is_fixed_kind ks = true -> no_torn_visible_from c ks.
Proof. exact no_torn_visible_any_directory. Qed.
Print Assumptions C19_no_torn_visible_any_directory.

Theorem C19_load_succeeds_any_directory : forall c ks,
  cleanup_outside_lock c = false -> forallb is_fixed_kind ks = true -> load_succeeds_from c ks.
Proof. exact load_succeeds_any_directory. Qed.
Print Assumptions C19_load_succeeds_any_directory.

Theorem C19_lock_exclusive_any_directory : forall c ks,
  unlink_on_release c = false -> per_process_locks c = false -> cleanup_outside_lock c = false ->
  forallb is_fixed_kind ks = true -> lock_exclusive_from c ks.
Proof. exact lock_exclusive_any_directory. Qed.
Print Assumptions C19_lock_exclusive_any_directory.

Theorem C19_finished_population_any_directory : forall c s0 ks evs p r f,
  cleanup_outside_lock c = false -> forallb is_fixed_kind ks = true -> dir_ok c s0 ->
  nth_error (procs (run c (init_from s0 ks) evs)) p = Some r -> populated r = true ->
  f < nfiles c -> ver (run c (init_from s0 ks) evs) f = Some (good (nchunks c)).
Proof. exact finished_population_any_directory. Qed.
Print Assumptions C19_finished_population_any_directory.

Theorem C19_load_terminates_any_directory : forall c s0 ks evs p v,
  cleanup_outside_lock c = false -> forallb is_fixed_kind ks = true -> dir_ok c s0 ->
  nth_error ks p = Some (KLoadFixed v) -> v < nfiles c ->
  never_killed p evs -> load_bound c <= count_run p evs ->
  outcome_of (run c (init_from s0 ks) evs) p = Some OLoaded.
Proof. exact load_terminates_any_directory. Qed.
Print Assumptions C19_load_terminates_any_directory.

(* non-vacuity of dir_ok on a directory full of leftovers: complete file 0, a dead process's
   temporary copy of file 1, a torn time stamp, a lock file whose lock a process outside ks holds *)
Theorem C19_leftovers_example :
  dir_ok c2 s_left /\
  (let w := run c2 (init_from s_left [KLoadFixed 1; KRefreshFixed]) (runs 0 3 ++ runs 1 6) in
   outcome_of w 0 = Some OLoaded /\ outcome_of w 1 = Some OSkipped /\ ver w 0 = Some (good 2)).
Proof. exact leftovers_example. Qed.
Print Assumptions C19_leftovers_example.

(* RECORD of the repaired defect C19-F5 (behaviour BEFORE fix commit 8dfe516, parse_fallback =
   false): without the parse fall-back dir_ok cannot be dropped.  A final-name file
   that is already torn when the processes start is neither healed nor avoided: the load of that
   version ends with the parse error, the file is kept. *)
Theorem C19_preexisting_torn_file_witness :
  ~ dir_ok c2 s_torn /\
  (let w := run c2 (init_from s_torn [KLoadFixed 1]) (runs 0 2) in
   outcome_of w 0 = Some (OFail FParse) /\ ver w 1 = Some [Good]).
Proof. exact preexisting_torn_file_witness. Qed.
Print Assumptions C19_preexisting_torn_file_witness.

(* THE CODE AS IT IS (fix commit 8dfe516, C19-F5: parse_fallback = true; the harness default
   VERIF_C19_FIXED=2 drives /repo against the model with this switch on).  One model load = ONE
   version; a MERGED request ('a,b': several versions into one schema) is a sequence of such loads
   whose results are combined by the loader -- that the combination equals the bundled merge when a
   later file is torn or missing is TESTED ONLY (harness: merged requests in both orders, loaded
   schema compared with the bundled merge by libraries, versions, tag count and names).  A cache
   copy that does not parse falls back to the installed file.  Then a finished load of a bundled
   version has returned the bundled schema from EVERY directory state s0, no requirement at all.
   (The torn file is still KEPT -- the repair does not delete it; C19_f5_torn_example.) *)
Theorem C19_f5_load_succeeds_every_directory : forall c ks s0 evs p r v o,
  cleanup_outside_lock c = false -> parse_fallback c = true -> forallb is_fixed_kind ks = true ->
  nth_error (procs (run c (init_from s0 ks) evs)) p = Some r ->
  kind_of r = KLoadFixed v -> v < nfiles c -> pc_of r = Done o -> o = OLoaded.
Proof. exact f5_load_succeeds_every_directory. Qed.
Print Assumptions C19_f5_load_succeeds_every_directory.

Theorem C19_f5_torn_example :
  let w := run c2f (init_from s_torn [KLoadFixed 1]) (runs 0 3) in
  outcome_of w 0 = Some OLoaded /\ ver w 1 = Some [Good].
Proof. exact f5_torn_example. Qed.
Print Assumptions C19_f5_torn_example.

(* ---- non-vacuity ----------------------------------------------------------- *)

(* RECORD: two loaders of the behaviour BEFORE the fix commits interleaved step by step *)
Example C19_two_finish_example :
  let w := run c2 (init t0 [KLoad 1; KLoad 0]) ev_two in
  no_crash ev_two /\ all_done w /\ ver w 0 = Some (good 2) /\ ver w 1 = Some (good 2) /\
  outcome_of w 0 = Some OLoaded /\ outcome_of w 1 = Some OLoaded.
Proof. exact two_finish_example. Qed.

(* the code as it is: a populator is killed while holding the lock in the middle of a copy, a
   second populator, a loader and a refresher interleave.  c2 has parse_fallback off (no unparseable
   file occurs in this run); the same schedule with the switch on, i.e. exactly the mode that
   matches /repo since 8dfe516, is C19_fixed_example_f5 below. *)
Example C19_fixed_example :
  let w := run c2 (init t0 [KLoadFixed 1; KLoadFixed 1; KLoadFixed 0; KRefreshFixed]) ev_fixed in
  pc_at w 0 = Some Dead /\ outcome_of w 1 = Some OLoaded /\ outcome_of w 2 = Some OLoaded /\
  outcome_of w 3 = Some OSkipped /\ ver w 0 = Some (good 2) /\ ver w 1 = Some (good 2) /\
  locks (sh w) = [] /\ fget (files_of (sh w)) (Tmp 0 0) = Some [Good].
Proof. exact fixed_example. Qed.

Example C19_fixed_example_f5 :
  let w := run c2f (init t0 [KLoadFixed 1; KLoadFixed 1; KLoadFixed 0; KRefreshFixed]) ev_fixed in
  pc_at w 0 = Some Dead /\ outcome_of w 1 = Some OLoaded /\ outcome_of w 2 = Some OLoaded /\
  outcome_of w 3 = Some OSkipped /\ ver w 0 = Some (good 2) /\ ver w 1 = Some (good 2) /\
  locks (sh w) = [] /\ fget (files_of (sh w)) (Tmp 0 0) = Some [Good].
Proof. exact fixed_example_f5. Qed.
