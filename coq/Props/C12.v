(* C12 -- Every reported issue is well-formed and points at the offending text.
   Property theorems only; each closed with [exact] and followed by Print Assumptions.
   Model: Model/Issues.v (hed/errors/error_reporter.py + HedValidator.validate call path),
   error-kind table / severities / sort keys: Gen/ErrorCodes.v, regenerated from the
   sources on every run. *)
From Coq Require Import List NArith ZArith Sorting Permutation.
From HV Require Import Base.Res Base.Str Base.IssueTypes Gen.ErrorCodes Model.Issues Proofs.IssuesProofs.
Import ListNotations.

(* ---- clause 1: every issue has a code, a message and a severity ----------------- *)

(* every registration of the translated table has a non-empty kind and code and a
   severity in {ERROR, WARNING}; sub-tag errors are tag errors.  (Kernel evaluation over
   the table translated from error_messages.py / schema_error_messages.py: dropping a
   code or changing a severity breaks this proof.) *)
Theorem C12_kind_table_wellformed : forall r, In r kind_table ->
  k_kind r <> [] /\ k_code r <> [] /\ (k_sev r = sev_error \/ k_sev r = sev_warning)
  /\ (k_sub r = true -> k_tag r = true).
Proof. exact table_ok. Qed.
Print Assumptions C12_kind_table_wellformed.

(* no kind is registered twice (_register_error_function would raise KeyError) *)
Theorem C12_kinds_unique : nodupb (map k_kind kind_table) = true.
Proof. exact table_kinds_unique. Qed.
Print Assumptions C12_kinds_unique.

(* whatever kind / arguments / code override format_error is called with, the issue it
   returns has a non-empty code and severity ERROR, WARNING or the caller's override *)
Theorem C12_issue_complete : forall kind a actual i,
  kind <> [] ->
  format_error kind_table kind a actual = Ok i ->
  i_code i <> [] /\
  (i_sev i = sev_error \/ i_sev i = sev_warning \/ a_sev a = Some (i_sev i)).
Proof. exact format_error_complete. Qed.
Print Assumptions C12_issue_complete.

(* decoration (any context, guarded or not) never changes code, severity, the quoted
   message parts, the tag-relative indices or the source tag *)
Theorem C12_decoration_preserves_payload : forall fixed ctx i i',
  decorate_one fixed ctx i = Ok i' ->
  i_code i' = i_code i /\ i_sev i' = i_sev i /\ i_msg i' = i_msg i /\ i_idx i' = i_idx i
  /\ i_idx_end i' = i_idx_end i /\ i_src i' = i_src i.
Proof. exact decorate_fields. Qed.
Print Assumptions C12_decoration_preserves_payload.

(* decoration never raises, for all issue lists, unless a non-empty group is the source
   tag or the string context is not a HedString (both latent, see C12_group_source_raises) *)
Theorem C12_decoration_never_raises : forall fixed h l,
  ctx_safe (h_ctx h) -> Forall (fun i => src_safe i /\ issue_ctx_safe i) l ->
  exists l', add_context_and_filter fixed h l = Ok l'.
Proof. exact decoration_never_raises. Qed.
Print Assumptions C12_decoration_never_raises.

Theorem C12_group_source_raises :
  add_context_and_filter false {| h_ctx := [(CHedString, VHed g_hs)]; h_warn := true |} [g_issue]
  = Exn AttributeError.
Proof. exact decoration_group_raises. Qed.
Print Assumptions C12_group_source_raises.

(* ---- clause 2: offsets inside the text and the tag, selecting the quoted fragment ---- *)

(* span arithmetic of _update_error_with_char_pos, for every issue, string and tag *)
Theorem C12_offsets_inside : forall fixed i h t s e i',
  i_char i = None ->
  has_hed_ctx i h -> i_src i = Some (SrcTag t) ->
  get_org_span h (SrcTag t) = Some (s, e) ->
  s <= e -> e <= length (hs_text h) ->
  idx_bounds i (e - s) ->
  update_error_with_char_pos fixed i = Ok i' ->
  exists ci ce, i_char i' = Some (ci, ce) /\ s <= ci /\ ci <= ce /\ ce <= e
                /\ ce <= length (hs_text h)
                /\ i_suffixes i' = i_suffixes i ++ [(ci, ce)].
Proof. exact offsets_inside. Qed.
Print Assumptions C12_offsets_inside.

(* sub-tag errors (has_sub_tag=True, index_in_tag_end=None => whole tag): text[ci:ce] is
   the fragment the wrapper passes to the message, text[span] is the tag it names *)
Theorem C12_offsets_select_fragment : forall fixed r t idx idx_end sev ctx text orig i',
  let i0 := wrap_tag_sub r (SrcTag t) idx idx_end sev in
  let i := add_context_to_errors i0 ctx in
  has_hed_ctx i (HS text orig []) ->
  in_original (HS text orig []) (t_id t) = true ->
  tag_is_slice text t ->
  idx <= match idx_end with Some b => b | None => length (t_org t) end ->
  match idx_end with Some b => b <= length (t_org t) | None => True end ->
  update_error_with_char_pos fixed i = Ok i' ->
  exists ci ce, i_char i' = Some (ci, ce)
    /\ t_start t <= ci /\ ci <= ce /\ ce <= t_end t /\ ce <= length text
    /\ m_frag (i_msg i') = Some (sub text ci ce)
    /\ m_tag (i_msg i') = Some (sub text (t_start t) (t_end t)).
Proof. exact offsets_select_fragment. Qed.
Print Assumptions C12_offsets_select_fragment.

Theorem C12_offsets_select_tag : forall fixed r t sev ctx text orig i',
  let i0 := wrap_tag r (SrcTag t) sev in
  let i := add_context_to_errors i0 ctx in
  has_hed_ctx i (HS text orig []) ->
  in_original (HS text orig []) (t_id t) = true ->
  tag_is_slice text t ->
  update_error_with_char_pos fixed i = Ok i' ->
  i_char i' = Some (t_start t, t_end t)
  /\ m_tag (i_msg i') = Some (sub text (t_start t) (t_end t)).
Proof. exact offsets_select_tag. Qed.
Print Assumptions C12_offsets_select_tag.

(* row strings built by HedString.from_hed_strings: the shifted span ... *)
Theorem C12_from_strings_span : forall pre p post off id a b,
  Forall (fun q => in_original q id = false) pre ->
  in_original p id = true ->
  get_org_span_from_strings (pre ++ p :: post) off id a b
  = Some (a + (off + parts_len pre), b + (off + parts_len pre)).
Proof. exact from_strings_span. Qed.
Print Assumptions C12_from_strings_span.

(* ... selects in the comma-joined text what the local span selects in the part *)
Theorem C12_from_strings_slice : forall pre p post a b,
  a <= b -> b <= length (hs_text p) ->
  sub (join [ch_comma] (map hs_text (pre ++ p :: post))) (a + parts_len pre) (b + parts_len pre)
  = sub (hs_text p) a b.
Proof. exact from_strings_slice. Qed.
Print Assumptions C12_from_strings_slice.

(* ---- clause 3: the location suffix appears once ------------------------------------ *)

(* FULL statement (holds of the model with the idempotence guard, fixed = true): along
   the call path of HedValidator.validate, for all handlers and all issue lists, every
   returned issue carries the suffix exactly once iff it carries offsets, else never *)
Theorem C12_suffix_once_fixed : forall h basic full out,
  Forall suffix_inv basic -> Forall suffix_inv full ->
  validate true h basic full = Ok out -> Forall suffix_inv out.
Proof. exact suffix_once_fixed. Qed.
Print Assumptions C12_suffix_once_fixed.

(* ... and so does any number of further explicit decoration passes *)
Theorem C12_suffix_once_fixed_passes : forall h l l',
  Forall suffix_inv l -> add_context_and_filter true h l = Ok l' -> Forall suffix_inv l'.
Proof. exact suffix_once_fixed_passes. Qed.
Print Assumptions C12_suffix_once_fixed_passes.

(* The full statement is FALSE of the code as it is (finding C12-F1): validate decorates
   the surviving basic-phase issues twice.  Witness: "red" -> STYLE_WARNING. *)
Theorem C12_suffix_once_refuted :
  exists h basic full out i,
    Forall fresh basic /\ Forall fresh full /\
    validate false h basic full = Ok out /\ In i out /\
    i_char i = Some (0, 3) /\ i_suffixes i = [(0, 3); (0, 3)] /\ i_sev i = sev_warning.
Proof. exact suffix_once_refuted. Qed.
Print Assumptions C12_suffix_once_refuted.

(* status for the code as it is: [code_is_fixed] mirrors FIXED in harness/c12.py *)
Theorem C12_suffix_once_status : suffix_once_statement code_is_fixed.
Proof. exact (suffix_once_status code_is_fixed). Qed.
Print Assumptions C12_suffix_once_status.

(* what the unguarded code does guarantee, for all lists: a single decoration is right,
   validate is right when the basic phase reports an error and for every full-phase
   issue; only basic-phase issues that survive to the second decoration can be doubled,
   and never more than doubled *)
Theorem C12_suffix_current_shape : forall h basic full out,
  Forall fresh basic -> Forall fresh full ->
  validate false h basic full = Ok out ->
  exists b1, add_context_and_filter false h basic = Ok b1 /\ Forall suffix_inv b1 /\
    ((check_for_any_errors b1 = true /\ out = b1) \/
     (check_for_any_errors b1 = false /\
      exists b2 f1, out = b2 ++ f1 /\ Forall suffix_inv f1 /\
                    add_context_and_filter false h b1 = Ok b2 /\
                    Forall (fun i => length (i_suffixes i) <= 2) b2)).
Proof. exact suffix_current_shape. Qed.
Print Assumptions C12_suffix_current_shape.

(* ---- clause 4: errors only = the error-severity subset --------------------------- *)

Theorem C12_filter_is_subset : forall l,
  filter_issues_by_severity l sev_error = filter is_error l.
Proof. exact filter_is_subset. Qed.
Print Assumptions C12_filter_is_subset.

Theorem C12_errors_only_commutes : forall fixed h l l',
  add_context_and_filter fixed (with_warn h true) l = Ok l' ->
  add_context_and_filter fixed (with_warn h false) l = Ok (filter is_error l').
Proof. exact errors_only_commutes. Qed.
Print Assumptions C12_errors_only_commutes.

(* whole validate path, all handlers and issue lists with the two standard severities
   (the table guarantees them, C12_kind_table_wellformed) *)
Theorem C12_validate_errors_only : forall fixed h basic full out,
  Forall sev_std basic ->
  validate fixed (with_warn h true) basic full = Ok out ->
  validate fixed (with_warn h false) basic full = Ok (filter is_error out).
Proof. exact validate_errors_only. Qed.
Print Assumptions C12_validate_errors_only.

(* the severity hypothesis is needed: an override severity strictly between ERROR and
   WARNING stops validation with warnings on but is dropped with warnings off *)
Theorem C12_validate_errors_only_needs_std_refuted :
  exists fixed h basic full out,
    validate fixed (with_warn h true) basic full = Ok out /\
    validate fixed (with_warn h false) basic full <> Ok (filter is_error out).
Proof. exact validate_errors_only_needs_std_refuted. Qed.
Print Assumptions C12_validate_errors_only_needs_std_refuted.

(* ---- clause 5: sorting ------------------------------------------------------------ *)

(* sort_issues returns a permutation, sorted by the key tuple, and stable *)
Theorem C12_sort_stable_sorted : forall l reverse l',
  sort_issues l reverse = Ok l' ->
  Permutation l l' /\
  StronglySorted (fun a b => issue_leb reverse a b = true) l' /\
  (forall x, filter (same_key reverse x) l' = filter (same_key reverse x) l).
Proof. exact sort_stable_sorted. Qed.
Print Assumptions C12_sort_stable_sorted.

Theorem C12_same_key_iff : forall reverse x y,
  same_key reverse x y = true <-> get_keys x = get_keys y.
Proof. exact same_key_iff. Qed.
Print Assumptions C12_same_key_iff.

(* the translated key list starts title, file, sidecar column, sidecar key, row;
   only the row is compared as an integer *)
Theorem C12_sort_key_documented_order :
  (exists rest, default_sort_list = CTitle :: CFile :: CSidecarCol :: CSidecarKey :: CRow :: rest)
  /\ int_sort_list = [CRow].
Proof. exact sort_key_documented_order. Qed.
Print Assumptions C12_sort_key_documented_order.

(* so: by file, then sidecar column, then sidecar key, then row *)
Theorem C12_sorted_file_col_key_row : forall a b,
  key_at CTitle a = key_at CTitle b ->
  (kv_cmp (key_at CFile a) (key_at CFile b) = Lt
   \/ key_at CFile a = key_at CFile b /\
      (kv_cmp (key_at CSidecarCol a) (key_at CSidecarCol b) = Lt
       \/ key_at CSidecarCol a = key_at CSidecarCol b /\
          (kv_cmp (key_at CSidecarKey a) (key_at CSidecarKey b) = Lt
           \/ key_at CSidecarKey a = key_at CSidecarKey b /\
              kv_cmp (key_at CRow a) (key_at CRow b) = Lt))) ->
  issue_leb false a b = true /\ issue_leb false b a = false.
Proof. exact sorted_file_col_key_row. Qed.
Print Assumptions C12_sorted_file_col_key_row.

(* on well-typed contexts (row an int, every other key a string -- what push_error_context
   and the validators produce) sort_issues never raises *)
Theorem C12_sort_total_on_typed : forall l reverse,
  forallb ctx_typed l = true -> exists l', sort_issues l reverse = Ok l'.
Proof. exact sort_total_on_typed. Qed.
Print Assumptions C12_sort_total_on_typed.

(* ---- clause 6: export -------------------------------------------------------------- *)

(* after replace_tag_references every issue list is JSON-serialisable, same codes *)
Theorem C12_export_serialisable : forall l,
  json_ok (export l) = true /\
  map py_code (py_items (export l)) = map (fun i => Some (i_code i)) l.
Proof. exact export_serialisable. Qed.
Print Assumptions C12_export_serialisable.

(* for every nested list/dict value, not only issue lists *)
Theorem C12_replace_makes_serialisable : forall l, json_ok (replace_tag_references (PList l)) = true.
Proof. exact json_ok_replace_list. Qed.
Print Assumptions C12_replace_makes_serialisable.

(* ---- non-vacuity ------------------------------------------------------------------- *)

Example C12_nonvacuous :
  exists out, validate true w_handler w_basic [] = Ok out /\
    map i_char out = [Some (0, 3)] /\ map i_suffixes out = [[(0, 3)]] /\
    map i_code out = [k_STYLE_WARNING] /\
    validate true (with_warn w_handler false) w_basic [] = Ok [].
Proof. exact nonvacuous_pipeline. Qed.

Example C12_export_needed : json_ok (PList (map issue_py w_basic)) = false.
Proof. exact export_needed. Qed.
