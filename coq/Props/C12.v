(* C12 -- Every reported issue is well-formed and points at the offending text.
   Property theorems only; each closed with [exact] and followed by Print Assumptions.
   Model: Model/Issues.v (hed/errors/error_reporter.py + HedValidator.validate call path),
   error-kind table / severities / sort keys: Gen/ErrorCodes.v, regenerated from the
   sources on every run.
   "The code as it is" = /repo HEAD, which contains the repairs of both C12 findings:
     C12-F1  fix commit 5312cdc  (location suffix appended once: decoration idempotent)
     C12-F2  fix commit 8c0dae9  (SidecarValidator.validate sorts also on its early return)
   and fix commit 2e53521 (sort key keeps text and numeric labels apart).  The switches
   code_is_fixed / code_sorts_early (mirrors of FIXED / SORT_EARLY in harness/c12.py) are true;
   theorems named *_current are stated for those switches and break if one is flipped.  Theorems
   named *_refuted about fixed = false / sort_early = false are RECORDS of the repaired defects
   (behaviour before the named commit), not statements about /repo. *)
From Coq Require Import List NArith ZArith Sorting Permutation.
From HV Require Import Base.Res Base.Str Base.IssueTypes Gen.ErrorCodes Model.Issues Proofs.IssuesProofs
                       Model.IssuePaths Proofs.IssuePathsProofs Model.Parse Proofs.IssuesParseLink.
Import ListNotations.

(* ---- clause 1: every issue has a code, a message and a severity ----------------- *)

(* every registration of the translated table has a non-empty kind and code and a
   severity in {ERROR, WARNING}; sub-tag errors are tag errors.  (Kernel evaluation over
   the table translated from error_messages.py / schema_error_messages.py: dropping a
   code or changing a severity breaks this proof.) *)
Theorem C12_kind_table_wellformed : forall r, In r kind_table ->
  k_kind r <> [] /\ k_code r <> [] /\ (k_sev r = sev_error \/ k_sev r = sev_warning)
  /\ (k_sub r = true -> k_tag r = true).
Proof. exact table_ok. Qed.
Print Assumptions C12_kind_table_wellformed.

(* no kind is registered twice (_register_error_function would raise KeyError) *)
Theorem C12_kinds_unique : nodupb (map k_kind kind_table) = true.
Proof. exact table_kinds_unique. Qed.
Print Assumptions C12_kinds_unique.

(* whatever kind / arguments / code override format_error is called with, the issue it
   returns has a non-empty code and severity ERROR, WARNING or the caller's override *)
Theorem C12_issue_complete : forall kind a actual i,
  kind <> [] ->
  format_error kind_table kind a actual = Ok i ->
  i_code i <> [] /\
  (i_sev i = sev_error \/ i_sev i = sev_warning \/ a_sev a = Some (i_sev i)).
Proof. exact format_error_complete. Qed.
Print Assumptions C12_issue_complete.

(* the message.  What is PROVED here is a fact about the translated table kind_msg_min only: for every
   registered kind (and for val_error_unknown, used for unregistered kinds) every text the message function
   can return contains at least one literal character -- the translator extracts that lower bound from the
   SOURCE of each message function (minimum over its return statements) and the kernel checks positivity.
   It is NOT linked inside Coq to the [i_msg] field of an issue: the model's message is a structural record
   (quoted tag / fragment / appended suffixes) without the rendered text, and the field is total, i.e.
   "present" holds by construction of the model.  That the text stored under 'message' by
   _create_error_object IS what the kind's message function returned, hence non-empty, rests on (a) the
   translator (trusted, fail closed) and (b) the implementation-side oracle, which checks
   isinstance(message, str) and non-emptiness on every returned issue (testing). *)
Theorem C12_message_nonempty : forall kind, 0 < msg_min_of kind.
Proof. exact message_nonempty. Qed.
Print Assumptions C12_message_nonempty.

Theorem C12_message_table_covers_kinds : map fst kind_msg_min = map k_kind kind_table.
Proof. exact msg_table_covers_kinds. Qed.
Print Assumptions C12_message_table_covers_kinds.

(* decoration (any context, guarded or not) never changes code, severity, the quoted
   message parts, the tag-relative indices or the source tag *)
Theorem C12_decoration_preserves_payload : forall fixed ctx i i',
  decorate_one fixed ctx i = Ok i' ->
  i_code i' = i_code i /\ i_sev i' = i_sev i /\ i_msg i' = i_msg i /\ i_idx i' = i_idx i
  /\ i_idx_end i' = i_idx_end i /\ i_src i' = i_src i.
Proof. exact decorate_fields. Qed.
Print Assumptions C12_decoration_preserves_payload.

(* decoration never raises, for all issue lists, unless a non-empty group is the source
   tag or the string context is not a HedString (both latent, see C12_group_source_raises) *)
Theorem C12_decoration_never_raises : forall fixed h l,
  ctx_safe (h_ctx h) -> Forall (fun i => src_safe i /\ issue_ctx_safe i) l ->
  exists l', add_context_and_filter fixed h l = Ok l'.
Proof. exact decoration_never_raises. Qed.
Print Assumptions C12_decoration_never_raises.

Theorem C12_group_source_raises :
  add_context_and_filter false {| h_ctx := [(CHedString, VHed g_hs)]; h_warn := true |} [g_issue]
  = Exn AttributeError.
Proof. exact decoration_group_raises. Qed.
Print Assumptions C12_group_source_raises.

(* ---- clause 2: offsets inside the text and the tag, selecting the quoted fragment ---- *)

(* span arithmetic of _update_error_with_char_pos, for every issue, string and tag *)
Theorem C12_offsets_inside : forall fixed i h t s e i',
  i_char i = None ->
  has_hed_ctx i h -> i_src i = Some (SrcTag t) ->
  get_org_span h (SrcTag t) = Some (s, e) ->
  s <= e -> e <= length (hs_text h) ->
  idx_bounds i (e - s) ->
  update_error_with_char_pos fixed i = Ok i' ->
  exists ci ce, i_char i' = Some (ci, ce) /\ s <= ci /\ ci <= ce /\ ce <= e
                /\ ce <= length (hs_text h)
                /\ i_suffixes i' = i_suffixes i ++ [(ci, ce)].
Proof. exact offsets_inside. Qed.
Print Assumptions C12_offsets_inside.

(* sub-tag errors (has_sub_tag=True, index_in_tag_end=None => whole tag): text[ci:ce] is
   the fragment the wrapper passes to the message, text[span] is the tag it names *)
Theorem C12_offsets_select_fragment : forall fixed r t idx idx_end sev ctx text orig i',
  let i0 := wrap_tag_sub r (SrcTag t) idx idx_end sev in
  let i := add_context_to_errors i0 ctx in
  has_hed_ctx i (HS text orig []) ->
  in_original (HS text orig []) (t_id t) = true ->
  tag_is_slice text t ->
  idx <= match idx_end with Some b => b | None => length (t_org t) end ->
  match idx_end with Some b => b <= length (t_org t) | None => True end ->
  update_error_with_char_pos fixed i = Ok i' ->
  exists ci ce, i_char i' = Some (ci, ce)
    /\ t_start t <= ci /\ ci <= ce /\ ce <= t_end t /\ ce <= length text
    /\ m_frag (i_msg i') = Some (sub text ci ce)
    /\ m_tag (i_msg i') = Some (sub text (t_start t) (t_end t)).
Proof. exact offsets_select_fragment. Qed.
Print Assumptions C12_offsets_select_fragment.

Theorem C12_offsets_select_tag : forall fixed r t sev ctx text orig i',
  let i0 := wrap_tag r (SrcTag t) sev in
  let i := add_context_to_errors i0 ctx in
  has_hed_ctx i (HS text orig []) ->
  in_original (HS text orig []) (t_id t) = true ->
  tag_is_slice text t ->
  update_error_with_char_pos fixed i = Ok i' ->
  i_char i' = Some (t_start t, t_end t)
  /\ m_tag (i_msg i') = Some (sub text (t_start t) (t_end t)).
Proof. exact offsets_select_tag. Qed.
Print Assumptions C12_offsets_select_tag.

(* The span premises above (s <= e <= |text|, org_tag = the slice) are not assumptions about real tags:
   for EVERY text, every tag of the tree C02 proves hedstring_init builds (C02_init_refines_spec) has
   a <= b <= |text|, and its HedTag object (org_tag DEFINED as text[a:b], .tag = org_tag while unmodified)
   satisfies tag_is_slice.  What remains assumed in C12_offsets_inside / C12_offsets_select_fragment are the
   tag-RELATIVE index bounds idx <= idx_end <= |tag| of each rule (C01's subject; re-checked on every
   implementation issue by the oracle). *)
Theorem C12_parsed_tag_spans : forall s f a b,
  hedstring_init s = Ok f -> In (a, b) (flat_map tags_of f) -> a <= b /\ b <= length s.
Proof. exact parsed_tag_spans. Qed.
Print Assumptions C12_parsed_tag_spans.

Theorem C12_parsed_tag_is_slice : forall text f id a b,
  hedstring_init text = Ok f -> In (a, b) (flat_map tags_of f) ->
  tag_is_slice text (parsed_tag text id a b).
Proof. exact parsed_tag_is_slice. Qed.
Print Assumptions C12_parsed_tag_is_slice.

(* premises discharged: a whole-tag error on a tag of a parsed text is located at the tag's span, inside
   the text, quoting that slice *)
Theorem C12_offsets_select_tag_parsed : forall fixed r sev ctx text orig f id a b i',
  hedstring_init text = Ok f -> In (a, b) (flat_map tags_of f) ->
  let t := parsed_tag text id a b in
  let i := add_context_to_errors (wrap_tag r (SrcTag t) sev) ctx in
  has_hed_ctx i (HS text orig []) ->
  in_original (HS text orig []) id = true ->
  update_error_with_char_pos fixed i = Ok i' ->
  i_char i' = Some (a, b) /\ a <= b /\ b <= length text /\ m_tag (i_msg i') = Some (sub text a b).
Proof. exact offsets_select_tag_parsed. Qed.
Print Assumptions C12_offsets_select_tag_parsed.

(* row strings built by HedString.from_hed_strings: the shifted span ... *)
Theorem C12_from_strings_span : forall pre p post off id a b,
  Forall (fun q => in_original q id = false) pre ->
  in_original p id = true ->
  get_org_span_from_strings (pre ++ p :: post) off id a b
  = Some (a + (off + parts_len pre), b + (off + parts_len pre)).
Proof. exact from_strings_span. Qed.
Print Assumptions C12_from_strings_span.

(* ... selects in the comma-joined text what the local span selects in the part *)
Theorem C12_from_strings_slice : forall pre p post a b,
  a <= b -> b <= length (hs_text p) ->
  sub (join [ch_comma] (map hs_text (pre ++ p :: post))) (a + parts_len pre) (b + parts_len pre)
  = sub (hs_text p) a b.
Proof. exact from_strings_slice. Qed.
Print Assumptions C12_from_strings_slice.

(* ---- clause 3: the location suffix appears once ------------------------------------ *)

(* FULL statement, for the code as it is (fixed = true: the guard of fix commit 5312cdc): along
   the call path of HedValidator.validate, for all handlers and all issue lists, every
   returned issue carries the suffix exactly once iff it carries offsets, else never *)
Theorem C12_suffix_once_fixed : forall h basic full out,
  Forall suffix_inv basic -> Forall suffix_inv full ->
  validate true h basic full = Ok out -> Forall suffix_inv out.
Proof. exact suffix_once_fixed. Qed.
Print Assumptions C12_suffix_once_fixed.

(* ... and so does any number of further explicit decoration passes *)
Theorem C12_suffix_once_fixed_passes : forall h l l',
  Forall suffix_inv l -> add_context_and_filter true h l = Ok l' -> Forall suffix_inv l'.
Proof. exact suffix_once_fixed_passes. Qed.
Print Assumptions C12_suffix_once_fixed_passes.

(* RECORD of the repaired defect C12-F1 (behaviour BEFORE fix commit 5312cdc, fixed = false): the
   full statement was false -- validate decorated the surviving basic-phase issues twice.
   Witness: "red" -> STYLE_WARNING.  Not a statement about /repo; the harness re-establishes it by
   reverting the commit in a private copy (mutation self-test). *)
Theorem C12_suffix_once_refuted :
  exists h basic full out i,
    Forall fresh basic /\ Forall fresh full /\
    validate false h basic full = Ok out /\ In i out /\
    i_char i = Some (0, 3) /\ i_suffixes i = [(0, 3); (0, 3)] /\ i_sev i = sev_warning.
Proof. exact suffix_once_refuted. Qed.
Print Assumptions C12_suffix_once_refuted.

(* The clause for the mode that matches /repo: stated for the switch [code_is_fixed] itself (mirror of
   FIXED in harness/c12.py; the harness checks the two agree on every run).  With the switch at false
   this theorem does not check -- it is a statement about the current mode, not a case split. *)
Theorem C12_suffix_once_current : forall h basic full out,
  Forall suffix_inv basic -> Forall suffix_inv full ->
  validate code_is_fixed h basic full = Ok out -> Forall suffix_inv out.
Proof. exact suffix_once_current. Qed.
Print Assumptions C12_suffix_once_current.

Theorem C12_suffix_once_current_passes : forall h l l',
  Forall suffix_inv l -> add_context_and_filter code_is_fixed h l = Ok l' -> Forall suffix_inv l'.
Proof. exact suffix_once_current_passes. Qed.
Print Assumptions C12_suffix_once_current_passes.

(* RECORD (behaviour before fix commit 5312cdc, fixed = false), for all lists: a single decoration was
   right, validate was right when the basic phase reported an error and for every full-phase issue;
   only basic-phase issues that survived to the second decoration could be doubled, never more *)
Theorem C12_suffix_before_fix_shape : forall h basic full out,
  Forall fresh basic -> Forall fresh full ->
  validate false h basic full = Ok out ->
  exists b1, add_context_and_filter false h basic = Ok b1 /\ Forall suffix_inv b1 /\
    ((check_for_any_errors b1 = true /\ out = b1) \/
     (check_for_any_errors b1 = false /\
      exists b2 f1, out = b2 ++ f1 /\ Forall suffix_inv f1 /\
                    add_context_and_filter false h b1 = Ok b2 /\
                    Forall (fun i => length (i_suffixes i) <= 2) b2)).
Proof. exact suffix_current_shape. Qed.
Print Assumptions C12_suffix_before_fix_shape.

(* ---- clause 4: errors only = the error-severity subset --------------------------- *)

Theorem C12_filter_is_subset : forall l,
  filter_issues_by_severity l sev_error = filter is_error l.
Proof. exact filter_is_subset. Qed.
Print Assumptions C12_filter_is_subset.

Theorem C12_errors_only_commutes : forall fixed h l l',
  add_context_and_filter fixed (with_warn h true) l = Ok l' ->
  add_context_and_filter fixed (with_warn h false) l = Ok (filter is_error l').
Proof. exact errors_only_commutes. Qed.
Print Assumptions C12_errors_only_commutes.

(* whole validate path, all handlers and issue lists with the two standard severities
   (the table guarantees them, C12_kind_table_wellformed) *)
Theorem C12_validate_errors_only : forall fixed h basic full out,
  Forall sev_std basic ->
  validate fixed (with_warn h true) basic full = Ok out ->
  validate fixed (with_warn h false) basic full = Ok (filter is_error out).
Proof. exact validate_errors_only. Qed.
Print Assumptions C12_validate_errors_only.

(* the severity hypothesis is needed: an override severity strictly between ERROR and
   WARNING stops validation with warnings on but is dropped with warnings off *)
Theorem C12_validate_errors_only_needs_std_refuted :
  exists fixed h basic full out,
    validate fixed (with_warn h true) basic full = Ok out /\
    validate fixed (with_warn h false) basic full <> Ok (filter is_error out).
Proof. exact validate_errors_only_needs_std_refuted. Qed.
Print Assumptions C12_validate_errors_only_needs_std_refuted.

(* ---- clause 5: sorting ------------------------------------------------------------ *)

(* sort_issues returns a permutation, sorted by the key tuple, and stable *)
Theorem C12_sort_stable_sorted : forall l reverse l',
  sort_issues l reverse = Ok l' ->
  Permutation l l' /\
  StronglySorted (fun a b => issue_leb reverse a b = true) l' /\
  (forall x, filter (same_key reverse x) l' = filter (same_key reverse x) l).
Proof. exact sort_stable_sorted. Qed.
Print Assumptions C12_sort_stable_sorted.

Theorem C12_same_key_iff : forall reverse x y,
  same_key reverse x y = true <-> get_keys x = get_keys y.
Proof. exact same_key_iff. Qed.
Print Assumptions C12_same_key_iff.

(* the translated key list starts title, file, sidecar column, sidecar key, row; only the row is compared
   raw as an integer (default -1); every other key is compared as (0, text) / (1, number) with default
   (0, "") -- sort_issues._get_keys as of fix commit 2e53521, whose source the translator compares with this
   shape on every run *)
Theorem C12_sort_key_documented_order :
  (exists rest, default_sort_list = CTitle :: CFile :: CSidecarCol :: CSidecarKey :: CRow :: rest)
  /\ int_sort_list = [CRow].
Proof. exact sort_key_documented_order. Qed.
Print Assumptions C12_sort_key_documented_order.

(* so: by file, then sidecar column, then sidecar key, then row *)
Theorem C12_sorted_file_col_key_row : forall a b,
  key_at CTitle a = key_at CTitle b ->
  (kv_cmp (key_at CFile a) (key_at CFile b) = Lt
   \/ key_at CFile a = key_at CFile b /\
      (kv_cmp (key_at CSidecarCol a) (key_at CSidecarCol b) = Lt
       \/ key_at CSidecarCol a = key_at CSidecarCol b /\
          (kv_cmp (key_at CSidecarKey a) (key_at CSidecarKey b) = Lt
           \/ key_at CSidecarKey a = key_at CSidecarKey b /\
              kv_cmp (key_at CRow a) (key_at CRow b) = Lt))) ->
  issue_leb false a b = true /\ issue_leb false b a = false.
Proof. exact sorted_file_col_key_row. Qed.
Print Assumptions C12_sorted_file_col_key_row.

(* on well-typed contexts -- the row an int, every other key text OR a number (column labels of a file
   read without a header are numbers; fix commit 2e53521 made them comparable with text labels by
   tagging: (0, text) < (1, number)) -- sort_issues never raises *)
Theorem C12_sort_total_on_typed : forall l reverse,
  forallb ctx_typed l = true -> exists l', sort_issues l reverse = Ok l'.
Proof. exact sort_total_on_typed. Qed.
Print Assumptions C12_sort_total_on_typed.

(* numeric column labels: text labels sort before numeric ones, numeric ones numerically; a headerless
   file's issues (no label, "HED", 2, 10) sort without raising into that order *)
Theorem C12_text_label_before_number : forall s z, kv_cmp (KT0 s) (KT1 z) = Lt.
Proof. exact text_label_before_number. Qed.
Print Assumptions C12_text_label_before_number.

Theorem C12_numeric_labels_sorted :
  forallb ctx_typed nl_list = true /\
  exists out, sort_issues nl_list false = Ok out /\ map i_sev out = [3; 1; 2; 0].
Proof. exact numeric_labels_sorted. Qed.
Print Assumptions C12_numeric_labels_sorted.

(* ---- clause 6: export -------------------------------------------------------------- *)

(* after replace_tag_references every issue list is JSON-serialisable, same codes *)
Theorem C12_export_serialisable : forall l,
  json_ok (export l) = true /\
  map py_code (py_items (export l)) = map (fun i => Some (i_code i)) l.
Proof. exact export_serialisable. Qed.
Print Assumptions C12_export_serialisable.

(* for every nested list/dict value, not only issue lists *)
Theorem C12_replace_makes_serialisable : forall l, json_ok (replace_tag_references (PList l)) = true.
Proof. exact json_ok_replace_list. Qed.
Print Assumptions C12_replace_makes_serialisable.

(* ---- non-vacuity ------------------------------------------------------------------- *)

Example C12_nonvacuous :
  exists out, validate true w_handler w_basic [] = Ok out /\
    map i_char out = [Some (0, 3)] /\ map i_suffixes out = [[(0, 3)]] /\
    map i_code out = [k_STYLE_WARNING] /\
    validate true (with_warn w_handler false) w_basic [] = Ok [].
Proof. exact nonvacuous_pipeline. Qed.

Example C12_export_needed : json_ok (PList (map issue_py w_basic)) = false.
Proof. exact export_needed. Qed.

(* ==================================================================================== *)
(* The file-level entry points: decoration paths of SidecarValidator.validate and       *)
(* SpreadsheetValidator.validate (Model/IssuePaths.v), for ALL abstract per-string       *)
(* results, structural events, handlers and context stacks.                              *)
(* ==================================================================================== *)

(* ---- every issue is complete ------------------------------------------------------- *)
Theorem C12_sidecar_complete : forall fixed sort_early h0 inp,
  sc_raw_all issue_ok inp -> sc_events_all event_ok inp ->
  all_ok issue_ok (sidecar_validate fixed sort_early h0 inp).
Proof. exact sidecar_complete. Qed.
Print Assumptions C12_sidecar_complete.

Theorem C12_table_complete : forall gate fixed h0 inp,
  tb_raw_all issue_ok inp -> tb_events_all event_ok inp ->
  all_ok issue_ok (table_validate_gen gate fixed h0 inp).
Proof. exact table_complete. Qed.
Print Assumptions C12_table_complete.

(* ---- the suffix appears once along these paths -------------------------------------- *)
Theorem C12_sidecar_suffix_once : forall sort_early h0 inp,
  sc_raw_all suffix_inv inp -> all_ok suffix_inv (sidecar_validate true sort_early h0 inp).
Proof. exact sidecar_suffix_once. Qed.
Print Assumptions C12_sidecar_suffix_once.

Theorem C12_table_suffix_once : forall gate h0 inp,
  tb_raw_all suffix_inv inp -> all_ok suffix_inv (table_validate_gen gate true h0 inp).
Proof. exact table_suffix_once. Qed.
Print Assumptions C12_table_suffix_once.

(* ---- offsets refer to the HED-string context the issue finally carries ------------------
   char_in_ctx i: the tag the issue names occurs in THAT string (get_org_span finds it there) and
   the offsets lie inside the tag's span in it, hence inside its text *)
Theorem C12_sidecar_offsets_inside : forall sort_early h0 inp,
  hed_of h0 = None ->
  Forall (fun c => Forall (fun s => Forall ev_no_tag (rfs_events s)) (rfc_strs c)) (si_refs inp) ->
  Forall loc_ok (si_defs inp) ->
  sc_strings_wf (si_cols inp) ->
  all_ok char_in_ctx (sidecar_validate true sort_early h0 inp).
Proof. exact sidecar_offsets_inside. Qed.
Print Assumptions C12_sidecar_offsets_inside.

Theorem C12_table_offsets_inside : forall gate h0 inp,
  hed_of h0 = None ->
  Forall loc_ok (ti_mapping inp) ->
  tb_rows_wf inp ->
  all_ok char_in_ctx (table_validate_gen gate true h0 inp).
Proof. exact table_offsets_inside. Qed.
Print Assumptions C12_table_offsets_inside.

(* row strings (from_hed_strings): the well-formedness the table theorem asks of a row string
   follows from the part-local one *)
Theorem C12_from_strings_span_inside : forall pre p post id a b,
  Forall (fun q => in_original q id = false) pre -> in_original p id = true ->
  a <= b -> b <= length (hs_text p) ->
  exists s e, get_org_span_from_strings (pre ++ p :: post) 0 id a b = Some (s, e) /\
    s <= e /\ e <= length (join [ch_comma] (map hs_text (pre ++ p :: post))) /\
    sub (join [ch_comma] (map hs_text (pre ++ p :: post))) s e = sub (hs_text p) a b.
Proof. exact from_strings_span_inside. Qed.
Print Assumptions C12_from_strings_span_inside.

(* the loop over {column}-reference combinations: each substituted text is validated and decorated
   under its OWN HED-string context (a new list per combination) ... *)
Theorem C12_combos_own_offsets : forall h3 combos,
  Forall (fun cb => Forall (raw_wf (fst cb)) (snd cb)) combos ->
  all_ok char_in_ctx (combos_own true h3 combos).
Proof. exact combos_own_loc. Qed.
Print Assumptions C12_combos_own_offsets.

(* ... and this is needed (HYPOTHETICAL variant, never in /repo: an independently seeded change): with
   ONE list accumulating over the combinations the issues of earlier
   texts are decorated again under every later text; they end up naming a text that does not contain
   their tag (witness "{stim}, Black, Black" with stim = Blue | Item/Object) *)
Theorem C12_combos_accum_refuted :
  Forall (fun cb => Forall (raw_wf (fst cb)) (snd cb)) wc_combos /\
  (exists out, combos_own true wt_handler wc_combos = Ok out /\ Forall char_in_ctx out /\
               map i_char out = [Some (13, 18)]) /\
  exists out i, combos_accum true wt_handler wc_combos [] = Ok out /\ In i out /\
                i_char i = Some (13, 18) /\ has_hed_ctx i hs_t2 /\ ~ char_in_ctx i.
Proof. exact combos_accum_refuted. Qed.
Print Assumptions C12_combos_accum_refuted.

(* ---- errors only = error subset of the run with warnings ---------------------------- *)
(* sidecar: structural kinds are registered ones at their default severity; the definition
   issues, appended without passing the handler's filter, must all be errors *)
Theorem C12_sidecar_errors_only : forall fixed sort_early h0 inp out,
  sc_events_all event_ok inp ->
  Forall (fun i => is_error i = true) (si_defs inp) ->
  sidecar_validate fixed sort_early (with_warn h0 true) inp = Ok out ->
  sidecar_validate fixed sort_early (with_warn h0 false) inp = Ok (filter is_error out).
Proof. exact sidecar_errors_only. Qed.
Print Assumptions C12_sidecar_errors_only.

(* table: for EVERY test that _run_checks could apply to new_column_issues, provided it gives the
   same verdict on a list and on its error subset *)
Theorem C12_table_errors_only_gen : forall gate fixed h0 inp out,
  gate_respects_filter gate ->
  tb_events_all event_ok inp ->
  Forall (fun r => Forall (fun c => Forall sev_std (tbc_basic c)) (tr_cells r)) (ti_rows inp) ->
  table_validate_gen gate fixed (with_warn h0 true) inp = Ok out ->
  table_validate_gen gate fixed (with_warn h0 false) inp = Ok (filter is_error out).
Proof. exact table_errors_only_gen. Qed.
Print Assumptions C12_table_errors_only_gen.

Theorem C12_check_for_any_errors_respects : gate_respects_filter check_for_any_errors.
Proof. exact check_for_any_errors_respects. Qed.
Print Assumptions C12_check_for_any_errors_respects.

(* the code as it is (gate = check_for_any_errors) *)
Theorem C12_table_errors_only : forall fixed h0 inp out,
  tb_events_all event_ok inp ->
  Forall (fun r => Forall (fun c => Forall sev_std (tbc_basic c)) (tr_cells r)) (ti_rows inp) ->
  table_validate fixed (with_warn h0 true) inp = Ok out ->
  table_validate fixed (with_warn h0 false) inp = Ok (filter is_error out).
Proof. exact table_errors_only. Qed.
Print Assumptions C12_table_errors_only.

(* why it must be a test for errors (a HYPOTHETICAL variant, never in /repo: an independently seeded
   change): with "if new_column_issues:" a surviving WARNING makes the row
   skip its row-level checks and the errors-only run reports an error the other run lacks *)
Theorem C12_gate_nonempty_not_respecting : ~ gate_respects_filter gate_nonempty.
Proof. exact gate_nonempty_not_respecting. Qed.
Print Assumptions C12_gate_nonempty_not_respecting.

Theorem C12_table_errors_only_nonempty_gate_refuted :
  exists out_on out_off,
    table_validate_gen gate_nonempty true (with_warn wt_handler true) wt_input = Ok out_on /\
    table_validate_gen gate_nonempty true (with_warn wt_handler false) wt_input = Ok out_off /\
    map i_sev out_on = [sev_warning] /\ map i_sev out_off = [sev_error] /\
    out_off <> filter is_error out_on.
Proof. exact table_errors_only_nonempty_gate_refuted. Qed.
Print Assumptions C12_table_errors_only_nonempty_gate_refuted.

(* ---- output order ---------------------------------------------------------------------- *)
Theorem C12_table_output_sorted : forall gate fixed h0 inp out,
  table_validate_gen gate fixed h0 inp = Ok out ->
  StronglySorted (fun a b => issue_leb false a b = true) out.
Proof. exact table_output_sorted. Qed.
Print Assumptions C12_table_output_sorted.

(* both modes of the early return at once: sorted, or (only for sort_early = false, the behaviour before
   fix commit 8c0dae9) the early return was taken *)
Theorem C12_sidecar_output_sorted : forall fixed sort_early h0 inp out,
  sidecar_validate fixed sort_early h0 inp = Ok out ->
  StronglySorted (fun a b => issue_leb false a b = true) out \/
  (sort_early = false /\
   exists issues, cat (validate_structure fixed (push_error_context h0 CFile (si_name inp)) (si_struct inp))
                      (validate_refs fixed (push_error_context h0 CFile (si_name inp)) (si_refs inp) (si_nested inp))
                  = Ok issues /\ check_for_any_errors issues = true /\ out = issues).
Proof. exact sidecar_output_sorted. Qed.
Print Assumptions C12_sidecar_output_sorted.

(* FULL statement for sort_early = true (the early return sorts: fix commit 8c0dae9) *)
Theorem C12_sidecar_output_sorted_fixed : forall fixed h0 inp out,
  sidecar_validate fixed true h0 inp = Ok out ->
  StronglySorted (fun a b => issue_leb false a b = true) out.
Proof. exact sidecar_output_sorted_fixed. Qed.
Print Assumptions C12_sidecar_output_sorted_fixed.

(* the mode that matches /repo: stated for the switch [code_sorts_early] (mirror of SORT_EARLY in
   harness/c12.py, checked by the harness on every run) *)
Theorem C12_sidecar_output_sorted_current : forall fixed h0 inp out,
  sidecar_validate fixed code_sorts_early h0 inp = Ok out ->
  StronglySorted (fun a b => issue_leb false a b = true) out.
Proof. exact sidecar_output_sorted_current. Qed.
Print Assumptions C12_sidecar_output_sorted_current.

(* RECORD of the repaired defect C12-F2 (behaviour BEFORE fix commit 8c0dae9, sort_early = false):
   column "b" was returned before column "a".  Not a statement about /repo. *)
Theorem C12_sidecar_early_return_unsorted_refuted :
  exists out, sidecar_validate true false wt_handler ws_input = Ok out /\
    map (key_at CSidecarCol) out = [KT0 [98]%N; KT0 [97]%N] /\
    ~ StronglySorted (fun a b => issue_leb false a b = true) out.
Proof. exact sidecar_early_return_unsorted_refuted. Qed.
Print Assumptions C12_sidecar_early_return_unsorted_refuted.

Example C12_table_errors_only_witness_ok :
  exists out, table_validate true (with_warn wt_handler true) wt_input = Ok out /\
    map i_sev out = [sev_error; sev_warning] /\
    table_validate true (with_warn wt_handler false) wt_input = Ok (filter is_error out).
Proof. exact table_errors_only_witness_ok. Qed.

(* the issues of _check_definitions_bad_spot, produced last, are sorted into place *)
Example C12_sidecar_badspot_sorted_into_place :
  exists out, sidecar_validate true true wt_handler wb_input = Ok out /\
    map (key_at CSidecarCol) out = [KT0 [98;99;111;108]%N; KT0 [99;99;111;108]%N] /\
    StronglySorted (fun a b => issue_leb false a b = true) out.
Proof. exact sidecar_badspot_sorted_into_place. Qed.

Example C12_parsed_tags_example :
  exists f, hedstring_init [82;101;100;44;32;66;108;117;101]%N = Ok f /\
            flat_map tags_of f = [(0, 3); (5, 9)].
Proof. exact parsed_tags_example. Qed.
