(* C11 -- Units are accepted and converted exactly as the schema defines them.
   Property theorems only; each closed with [exact] and followed by Print Assumptions.

   Reading guide.  [S] is any unit schema (unit classes, units, SI prefixes) with [wf_schema S = true]
   (a boolean check, kernel-evaluated for every bundled schema in C11_bundled_wf); [cs] any list of its unit
   classes (the classes of a value-taking tag).  [n ++ 32 :: u] is "<n> <u>": [n] the number text (one word),
   [u] the unit text -- ANY number of words since fix: 0669633 --, and (v, w) its split at the LAST blank (the split
   the code tries for a prefix-type unit before the number; v = n and w = u when u is one word).
   [spells S U M u]: u is the symbol of U exactly, or its name in singular or plural in any letter case,
   optionally preceded by a prefix M the unit permits.  [cands S cs v = []]: the text before the last blank is
   not itself a unit spelling; [unamb S cs u = true]: the unit text has a single reading (the only bundled
   exception is computed in C11_ambiguity_extent).
   Switches of Model/Units.v, all [true] = the code as it now is:
     value_as_default_unit fixed f3 f4,  check_units_valid f3 f4
     fixed: fix: commits f83491d (C11-F1), d18c9c6 (C11-F2);  f3: fix: commit 0669633 (C11-F3);
     f4: fix: commit 537f494 (C11-F4).  /repo contains all four; the harness runs the model with all true.
   Theorems named *_refuted are the RECORD of the repaired defects (switch = false = behaviour before that fix:
   commit); they say nothing about the implementation as it is.
   Values are exact rationals (IEEE rounding is not modelled). *)
From Coq Require Import List NArith ZArith QArith Bool.
From HV Require Import Base.Res Base.Str Model.Units Proofs.UnitsProofs Proofs.UnitsData Gen.UnitsAll.
Import ListNotations.
Local Open Scope N_scope.

(* ======================================================================= the code as it now is *)

(* "<number> <unit text>" draws no unit issue (only what the number itself deserves) EXACTLY when the unit text
   -- one word or several -- spells a non-prefix unit of one of the tag's classes. *)
Theorem C11_accepted_iff :
  forall (S : uschema) (cs : list classdef),
  wf_schema S = true -> (forall C, In C cs -> In C (s_classes S)) ->
  forall (T : utag) (n u v w : str),
  no_space n -> n <> [] -> u <> [] ->
  rpartition_space (n ++ 32 :: u) = (v, w) -> w <> [] -> cands S cs v = [] -> unamb S cs u = true ->
  (check_units_valid true true S T cs (n ++ 32 :: u) = check_value_class T n <-> spelled_in S cs false u).
Proof. exact accepted_iff_lemma. Qed.
Print Assumptions C11_accepted_iff.

(* prefix-type units (such as $) stand before the number (the same under every switch) *)
Theorem C11_accepted_prefix :
  forall (S : uschema) (cs : list classdef),
  wf_schema S = true -> (forall C, In C cs -> In C (s_classes S)) ->
  forall (f3 f4 : bool) (T : utag) (n u : str),
  no_space n -> no_space u -> n <> [] -> u <> [] -> cands S cs n = [] -> unamb S cs u = true ->
  spelled_in S cs true u ->
  check_units_valid f3 f4 S T cs (u ++ 32 :: n) = check_value_class T n.
Proof. exact accepted_prefix_lemma. Qed.
Print Assumptions C11_accepted_prefix.

(* a bare number draws only the missing-unit warning -- for EVERY schema and every switch *)
Theorem C11_bare_number_warns_only :
  forall (f3 f4 : bool) (S : uschema) (T : utag) (cs : list classdef) (n : str),
  n <> [] -> no_space n -> (t_numeric T = true -> is_numeric n = true) ->
  check_units_valid f3 f4 S T cs n = [UNITS_MISSING].
Proof. exact bare_number_lemma. Qed.
Print Assumptions C11_bare_number_warns_only.

(* any other unit text -- one word or several, also a prefix-type unit written after the number -- is reported
   as an invalid unit *)
Theorem C11_other_text_invalid :
  forall (S : uschema) (cs : list classdef),
  wf_schema S = true -> (forall C, In C cs -> In C (s_classes S)) ->
  forall (T : utag) (n u v w : str),
  no_space n -> rpartition_space (n ++ 32 :: u) = (v, w) -> cands S cs v = [] ->
  ~ spelled_in S cs false u ->
  check_units_valid true true S T cs (n ++ 32 :: u) = check_value_class T n ++ [UNITS_INVALID].
Proof. exact other_text_invalid_lemma. Qed.
Print Assumptions C11_other_text_invalid.

(* accepted + declared factor => the value is defined *)
Theorem C11_convert_defined :
  forall (S : uschema) (cs : list classdef),
  wf_schema S = true -> (forall C, In C cs -> In C (s_classes S)) ->
  forall (n u v w : str) (C : classdef) (U : unitdef) (M : option moddef) (ft : str),
  no_space n -> n <> [] ->
  rpartition_space (n ++ 32 :: u) = (v, w) -> w <> [] -> cands S cs v = [] -> unamb S cs u = true ->
  In C cs -> In U (c_units C) -> spells S U M u -> u_prefix U = false ->
  u_factor U = Some ft -> is_numeric n = true ->
  exists q, value_as_default_unit true true true S cs (n ++ 32 :: u) = Ok (Some q).
Proof. exact convert_defined_lemma. Qed.
Print Assumptions C11_convert_defined.

(* the value equals the number times the unit's and the prefix's declared factors ("a^b" = a to the b) *)
Theorem C11_convert_value :
  forall (S : uschema) (cs : list classdef),
  wf_schema S = true -> (forall C, In C cs -> In C (s_classes S)) ->
  forall (n u v w : str) (x : Q) (C : classdef) (U : unitdef) (M : option moddef) (ft : str) (fU fM : Q),
  no_space n -> n <> [] ->
  rpartition_space (n ++ 32 :: u) = (v, w) -> w <> [] -> cands S cs v = [] -> unamb S cs u = true ->
  In C cs -> In U (c_units C) -> spells S U M u -> u_prefix U = false ->
  u_factor U = Some ft -> unit_factor U = Some fU -> mod_factor M = Some fM ->
  parse_float n = Some x ->
  value_as_default_unit true true true S cs (n ++ 32 :: u) = Ok (Some (Qmult x (Qmult fU fM))).
Proof. exact convert_value_lemma. Qed.
Print Assumptions C11_convert_value.

(* the same for a prefix-type unit before the number *)
Theorem C11_convert_value_prefix :
  forall (S : uschema) (cs : list classdef),
  wf_schema S = true -> (forall C, In C cs -> In C (s_classes S)) ->
  forall (f3 f4 : bool) (n u : str) (x : Q) (C : classdef) (U : unitdef) (M : option moddef) (ft : str)
         (fU fM : Q),
  no_space n -> no_space u -> n <> [] -> u <> [] -> cands S cs n = [] -> unamb S cs u = true ->
  In C cs -> In U (c_units C) -> spells S U M u -> u_prefix U = true ->
  u_factor U = Some ft -> unit_factor U = Some fU -> mod_factor M = Some fM ->
  parse_float n = Some x ->
  value_as_default_unit true f3 f4 S cs (u ++ 32 :: n) = Ok (Some (Qmult x (Qmult fU fM))).
Proof. exact value_prefix_lemma. Qed.
Print Assumptions C11_convert_value_prefix.

(* the value is linear in the number *)
Theorem C11_linear :
  forall (S : uschema) (cs : list classdef),
  wf_schema S = true -> (forall C, In C cs -> In C (s_classes S)) ->
  forall (n1 n2 v1 v2 w : str) (x1 x2 k : Q) (u : str) (C : classdef) (U : unitdef) (M : option moddef)
         (ft : str),
  no_space n1 -> no_space n2 -> n1 <> [] -> n2 <> [] ->
  rpartition_space (n1 ++ 32 :: u) = (v1, w) -> rpartition_space (n2 ++ 32 :: u) = (v2, w) -> w <> [] ->
  cands S cs v1 = [] -> cands S cs v2 = [] -> unamb S cs u = true ->
  In C cs -> In U (c_units C) -> spells S U M u -> u_prefix U = false ->
  u_factor U = Some ft ->
  parse_float n1 = Some x1 -> parse_float n2 = Some x2 -> Qeq x1 (Qmult k x2) ->
  exists q1 q2,
    value_as_default_unit true true true S cs (n1 ++ 32 :: u) = Ok (Some q1) /\
    value_as_default_unit true true true S cs (n2 ++ 32 :: u) = Ok (Some q2) /\
    Qeq q1 (Qmult k q2).
Proof. exact linear_lemma. Qed.
Print Assumptions C11_linear.

(* for an unrecognised unit text (one word or several) the value is absent, never an exception
   (whether or not the conversion repairs are in) *)
Theorem C11_unrecognised_absent :
  forall (S : uschema) (cs : list classdef),
  wf_schema S = true -> (forall C, In C cs -> In C (s_classes S)) ->
  forall (fixed : bool) (n u v w : str),
  no_space n -> n <> [] -> rpartition_space (n ++ 32 :: u) = (v, w) ->
  ~ spelled_in S cs false u -> ~ spelled_in S cs true v ->
  value_as_default_unit fixed true true S cs (n ++ 32 :: u) = Ok None.
Proof. exact unrecognised_absent_lemma. Qed.
Print Assumptions C11_unrecognised_absent.

(* accepted unit without a declared conversion factor: absent, not an exception *)
Theorem C11_no_factor_absent :
  forall (S : uschema) (cs : list classdef),
  wf_schema S = true -> (forall C, In C cs -> In C (s_classes S)) ->
  forall (fixed : bool) (n u v w : str) (C : classdef) (U : unitdef) (M : option moddef),
  no_space n -> n <> [] ->
  rpartition_space (n ++ 32 :: u) = (v, w) -> w <> [] -> cands S cs v = [] -> unamb S cs u = true ->
  In C cs -> In U (c_units C) -> spells S U M u -> u_prefix U = false ->
  u_factor U = None ->
  value_as_default_unit fixed true true S cs (n ++ 32 :: u) = Ok None.
Proof. exact value_suffix_no_factor. Qed.
Print Assumptions C11_no_factor_absent.

(* with one-word number and unit texts the two splitting repairs change nothing *)
Theorem C11_single_words_unchanged :
  forall (f3 f4 : bool) (S : uschema) (cs : list classdef) (a b : str),
  no_space a -> no_space b ->
  get_tag_units_portion f3 f4 S cs (a ++ 32 :: b) = get_tag_units_portion false false S cs (a ++ 32 :: b).
Proof. exact portion_flags_single. Qed.
Print Assumptions C11_single_words_unchanged.

(* ----------------------------------------------------------------------- a whole string: the rule is per tag *)

(* STATUS of the three theorems below: they hold BY THE SHAPE OF THE MODEL.  validate_units_string transcribes the
   loop of _validate_individual_tags_in_hed_string as it stands -- an accumulator of issues and no other state --
   so these are fold = flat_map facts; they state the rule the oracle enforces.  That the IMPLEMENTATION carries
   no state between the tags of a string is TESTED ONLY (harness stream "multi": strings with two or three
   unit-carrying tags, every tag must get the verdict of the statement and the verdict it gets alone).
   C11_cache_sound_iff_key_respects_verdict / C11_cache_casefold_unsound below say which stateful loops would
   keep the rule.

   the unit issues of a string are the concatenation, over its unit-class tags in visiting order, of the
   per-tag issues -- every schema, every switch *)
Theorem C11_string_is_concat :
  forall (f3 f4 : bool) (S : uschema) (tags : list (utag * str)),
  validate_units_string f3 f4 S tags
  = flat_map (fun te => validate_units f3 f4 S (fst te) (snd te)) tags.
Proof. exact string_is_concat_lemma. Qed.
Print Assumptions C11_string_is_concat.

(* the verdict on a tag does not depend on the tags that stand before or after it in the string *)
Theorem C11_string_tag_context_free :
  forall (f3 f4 : bool) (S : uschema) (before : list (utag * str)) (T : utag) (ext : str)
         (after : list (utag * str)),
  validate_units_string f3 f4 S (before ++ (T, ext) :: after)
  = validate_units_string f3 f4 S before ++ validate_units f3 f4 S T ext
    ++ validate_units_string f3 f4 S after.
Proof. exact string_tag_context_free_lemma. Qed.
Print Assumptions C11_string_tag_context_free.

(* re-ordering the tags of a string only re-orders its unit issues *)
Theorem C11_string_order_irrelevant :
  forall (f3 f4 : bool) (S : uschema) (tags tags' : list (utag * str)),
  Permutation.Permutation tags tags' ->
  Permutation.Permutation (validate_units_string f3 f4 S tags) (validate_units_string f3 f4 S tags').
Proof. exact string_permutation_lemma. Qed.
Print Assumptions C11_string_order_irrelevant.

(* NOT code of the implementation: the family of loops that remember clean tags under some [key] and skip a later
   tag with a remembered key (memo_loop, Proofs/UnitsProofs.v).  Such a cache keeps the per-tag rule whenever equal
   keys imply equal verdicts -- for ANY verdict function V ... *)
Theorem C11_cache_sound_iff_key_respects_verdict :
  forall (V : utag * str -> list code) (key : utag * str -> str),
  (forall a b, key a = key b -> V a = V b) ->
  forall (tags : list (utag * str)) (clean : list str),
  (forall k, In k clean -> forall te, key te = k -> V te = []) ->
  memo_loop V key clean tags = flat_map V tags.
Proof. exact memo_sound_lemma. Qed.
Print Assumptions C11_cache_sound_iff_key_respects_verdict.

(* ... and a case-folded key does not respect the verdict: (Duration/3 ms), (Duration/3 MS) with HED 8.3.0 loses its
   UNITS_INVALID under such a cache (the shape of seeded change C11/4), while the model of the code reports it *)
Theorem C11_cache_casefold_unsound :
  let V := fun te : utag * str => validate_units true true S83 (fst te) (snd te) in
  let key := fun te : utag * str => casefold (snd te) in
  let tags := [(T83, s_3 ++ 32 :: s_ms); (T83, s_3 ++ 32 :: [77; 83])] in
  flat_map V tags = [UNITS_INVALID] /\ memo_loop V key [] tags = [] /\
  validate_units_string true true S83 tags = [UNITS_INVALID].
Proof. exact memo_casefold_unsound_lemma. Qed.
Print Assumptions C11_cache_casefold_unsound.

(* ----------------------------------------------------------------------- texts with more than one reading *)

(* WITHOUT the single-reading hypothesis [unamb]: acceptance is still SOUND (C11_accepted_iff, direction ->, and
   C11_other_text_invalid never used unamb), and a defined value is always the number times the factors of ONE
   genuine reading (U, M) of the unit text -- which one is decided by the lookup order (exact key first, the last
   unit of the class wins a shared key).  What is NOT claimed without unamb: that every spelled text is accepted. *)
Theorem C11_value_is_a_reading :
  forall (S : uschema) (cs : list classdef),
  wf_schema S = true -> (forall C, In C cs -> In C (s_classes S)) ->
  forall (fixed : bool) (n u v w : str) (q : Q),
  no_space n -> n <> [] -> rpartition_space (n ++ 32 :: u) = (v, w) -> cands S cs v = [] ->
  value_as_default_unit fixed true true S cs (n ++ 32 :: u) = Ok (Some q) ->
  exists C U M x,
    In C cs /\ In U (c_units C) /\ spells S U M u /\ u_prefix U = false /\
    parse_float n = Some x /\ q = Qmult x (conv fixed U M).
Proof. exact value_is_a_reading_lemma. Qed.
Print Assumptions C11_value_is_a_reading.

(* the only bundled text with two readings (C11_ambiguity_extent): "uV" in electricPotentialUnits of HED 8.3.0 and
   score 2.0.0 = micro + symbol V, or the unit NAME uV.  What the code does: "3 uV" is accepted and converted
   through the SYMBOL reading (3 * 0.000001 * 10e-6 = 3e-11, the factors as the schema writes them), not through the
   name (3 * 1.0); "3 uv" / "3 UV" have only the name reading and give 3.  Same through score 2.0.0
   Feature-amplitude. *)
Example C11_ambiguous_uV :
  spells S83 U83_V (Some m83_u) s_uV /\ spells S83 U83_uV None s_uV /\
  In U83_V (c_units C83_epu) /\ In U83_uV (c_units C83_epu) /\ In C83_epu (s_classes S83) /\
  unamb S83 [C83_epu] s_uV = false /\
  check_units_valid true true S83 T_numeric [C83_epu] (s_3 ++ 32 :: s_uV) = [] /\
  (exists q, value_as_default_unit true true true S83 [C83_epu] (s_3 ++ 32 :: s_uV) = Ok (Some q) /\
             Qeq q (3 # 100000000000) /\
             Qeq q (Qmult (Qmult (inject_Z 3) (pow10 0)) (conv true U83_V (Some m83_u))) /\
             ~ Qeq q (Qmult (Qmult (inject_Z 3) (pow10 0)) (conv true U83_uV None))) /\
  (exists q, value_as_default_unit true true true S83 [C83_epu] (s_3 ++ 32 :: s_uv) = Ok (Some q) /\ Qeq q 3) /\
  (exists q, value_as_default_unit true true true S83 [C83_epu] (s_3 ++ 32 :: s_UV) = Ok (Some q) /\ Qeq q 3) /\
  check_units_valid true true Ssc2 Tsc2 cssc2 (s_3 ++ 32 :: s_uV) = [] /\
  (exists q, value_as_default_unit true true true Ssc2 cssc2 (s_3 ++ 32 :: s_uV) = Ok (Some q) /\
             Qeq q (3 # 100000000000)).
Proof. exact ambiguous_uV_lemma. Qed.
Print Assumptions C11_ambiguous_uV.

(* ======================================================================= kernel-evaluated data obligations *)

(* every bundled schema's translated unit table satisfies the well-formedness predicate *)
Example C11_bundled_wf : forallb (fun x => wf_schema (snd (fst x))) all_schemas = true.
Proof. exact wf_all_bundled. Qed.
Print Assumptions C11_bundled_wf.

(* the derived keys with more than one reading, per bundled schema and unit class: only "uV" in
   electricPotentialUnits of 8.3.0 and score 2.0.0 *)
Example C11_ambiguity_extent :
  map (fun x => flat_map (ambiguous_in_class (snd (fst x))) (s_classes (snd (fst x)))) all_schemas
  = [[]; []; []; uV_in_electricPotentialUnits; []; []; uV_in_electricPotentialUnits; []; []; []; []].
Proof. exact ambiguity_bundled. Qed.
Print Assumptions C11_ambiguity_extent.

(* non-vacuity: "Duration/3 ms" (HED 8.3.0) meets the hypotheses of C11_convert_value; the theorem gives
   3 * (1.0 * 0.001) *)
Example C11_nonvacuous :
  exists fU fM,
    unit_factor U83_s = Some fU /\ mod_factor (Some m83_m) = Some fM /\
    Qeq fU 1 /\ Qeq fM (1 # 1000) /\
    value_as_default_unit true true true S83 cs83 (s_3 ++ 32 :: s_ms)
      = Ok (Some (Qmult (Qmult (inject_Z 3) (pow10 0)) (Qmult fU fM))).
Proof. exact nonvacuous_lemma. Qed.
Print Assumptions C11_nonvacuous.

(* non-vacuity for a unit name that contains a blank: "Temperature/3 degree Celsius" (HED 8.1.0) is accepted
   and C11_convert_value gives 3 * (1.0 * 1) *)
Example C11_nonvacuous_blank_name :
  exists fU,
    unit_factor U81_degC = Some fU /\ Qeq fU 1 /\
    check_units_valid true true S81 T81 cs81 (s_3 ++ 32 :: s_degree_Celsius) = [] /\
    value_as_default_unit true true true S81 cs81 (s_3 ++ 32 :: s_degree_Celsius)
      = Ok (Some (Qmult (Qmult (inject_Z 3) (pow10 0)) (Qmult fU 1))).
Proof. exact nonvacuous_blank_lemma. Qed.
Print Assumptions C11_nonvacuous_blank_name.

(* ======================================================================= RECORD of the repaired defects
   (all four repairs are in /repo: f83491d, d18c9c6, 537f494, 0669633; nothing below describes the current code) *)

(* C11-F3, behaviour BEFORE fix: commit 0669633 (f3 = false, with or without 537f494): C11_accepted_iff was FALSE -- "Temperature/3 degree Celsius"
   with HED 8.1.0 meets its hypotheses, the unit text spells the unit, and the answer was UNITS_INVALID *)
Theorem C11_accepted_refuted_blank_name :
  exists S cs n u v w (T : utag),
    wf_schema S = true /\ (forall C, In C cs -> In C (s_classes S)) /\
    no_space n /\ n <> [] /\ u <> [] /\ rpartition_space (n ++ 32 :: u) = (v, w) /\ w <> [] /\
    cands S cs v = [] /\ unamb S cs u = true /\
    spelled_in S cs false u /\ check_value_class T n = [] /\
    (forall f4, check_units_valid false f4 S T cs (n ++ 32 :: u) = [UNITS_INVALID]) /\
    (forall f4, value_as_default_unit true false f4 S cs (n ++ 32 :: u) = Ok None).
Proof. exact accepted_refuted_blank_name_lemma. Qed.
Print Assumptions C11_accepted_refuted_blank_name.

(* C11-F4, behaviour BEFORE fix: commits 537f494 and 0669633 (f3 = f4 = false): C11_other_text_invalid and
   C11_unrecognised_absent were FALSE -- "Duration/3 m s"
   with HED 8.3.0 meets their hypotheses, drew no issue at all, and the conversion raised ValueError *)
Theorem C11_other_text_refuted_extra_words :
  exists S cs n u v w (T : utag),
    wf_schema S = true /\ (forall C, In C cs -> In C (s_classes S)) /\
    no_space n /\ rpartition_space (n ++ 32 :: u) = (v, w) /\ cands S cs v = [] /\
    ~ spelled_in S cs false u /\ ~ spelled_in S cs true v /\
    check_units_valid false false S T cs (n ++ 32 :: u) = [] /\
    value_as_default_unit true false false S cs (n ++ 32 :: u) = Exn ValueError.
Proof. exact other_text_refuted_extra_words_lemma. Qed.
Print Assumptions C11_other_text_refuted_extra_words.

(* C11-F1 / finding 10, behaviour BEFORE fix: commit f83491d (fixed = false): C11_convert_defined was FALSE -- "Duration/3 Seconds" with
   HED 8.3.0 meets its hypotheses, validated without any issue, and the conversion raised TypeError *)
Theorem C11_convert_refuted_case :
  exists S cs n u v w C U M ft (T : utag),
    wf_schema S = true /\ (forall C, In C cs -> In C (s_classes S)) /\
    no_space n /\ n <> [] /\ rpartition_space (n ++ 32 :: u) = (v, w) /\ w <> [] /\
    cands S cs v = [] /\ unamb S cs u = true /\
    In C cs /\ In U (c_units C) /\ spells S U M u /\ u_prefix U = false /\
    u_factor U = Some ft /\ is_numeric n = true /\
    check_units_valid false false S T cs (n ++ 32 :: u) = [] /\
    value_as_default_unit false false false S cs (n ++ 32 :: u) = Exn TypeError /\
    value_as_default_unit false true true S cs (n ++ 32 :: u) = Exn TypeError.
Proof. exact convert_refuted_case_lemma. Qed.
Print Assumptions C11_convert_refuted_case.

(* C11-F2 / finding 11, behaviour BEFORE fix: commit d18c9c6 (fixed = false): C11_convert_value was FALSE -- "Duration/3 Ms" with HED 8.2.0
   (mega declared 10^6) gave 3 * 10^7 where the declared factors give 3 * 10^6 *)
Theorem C11_convert_refuted_mega :
  exists S cs n u v w x C U M ft fU fM q,
    wf_schema S = true /\ (forall C, In C cs -> In C (s_classes S)) /\
    no_space n /\ n <> [] /\ rpartition_space (n ++ 32 :: u) = (v, w) /\ w <> [] /\
    cands S cs v = [] /\ unamb S cs u = true /\
    In C cs /\ In U (c_units C) /\ spells S U M u /\ u_prefix U = false /\
    u_factor U = Some ft /\ unit_factor U = Some fU /\ mod_factor M = Some fM /\
    parse_float n = Some x /\
    value_as_default_unit false false false S cs (n ++ 32 :: u) = Ok (Some q) /\
    value_as_default_unit false true true S cs (n ++ 32 :: u) = Ok (Some q) /\
    Qeq q (30000000 # 1) /\ Qeq (Qmult x (Qmult fU fM)) (3000000 # 1) /\
    ~ Qeq q (Qmult x (Qmult fU fM)).
Proof. exact convert_refuted_mega_lemma. Qed.
Print Assumptions C11_convert_refuted_mega.

(* ... and BEFORE fix: commits f83491d, d18c9c6 it was TRUE only when the text is the derived key itself (a symbol, or a name written
   in lower case) and neither factor text contains a caret *)
Theorem C11_convert_value_partial :
  forall (S : uschema) (cs : list classdef),
  wf_schema S = true -> (forall C, In C cs -> In C (s_classes S)) ->
  forall (n u v w : str) (x : Q) (C : classdef) (U : unitdef) (M : option moddef) (ft : str) (fU fM : Q),
  no_space n -> n <> [] ->
  rpartition_space (n ++ 32 :: u) = (v, w) -> w <> [] -> cands S cs v = [] -> unamb S cs u = true ->
  In C cs -> In U (c_units C) -> spells S U M u -> u_prefix U = false ->
  u_factor U = Some ft -> unit_factor U = Some fU -> mod_factor M = Some fM ->
  parse_float n = Some x ->
  (u_symbol U = true \/ casefold u = u) ->
  no_caret ft = true -> (forall m, M = Some m -> no_caret (factor_text (m_factor m)) = true) ->
  value_as_default_unit false true true S cs (n ++ 32 :: u) = Ok (Some (Qmult x (Qmult fU fM))).
Proof. exact convert_value_partial_lemma. Qed.
Print Assumptions C11_convert_value_partial.

(* extent of finding 11, per bundled schema (8.0.0, 8.1.0, 8.2.0, 8.3.0, score 1.0.0/1.1.0/2.0.0, testlib
   1.0.2/2.0.0/2.1.0/3.0.0): the factor the unrepaired code computed equals the declared one for every text
   without a caret and is exactly ten times the declared one for each of the 30 texts with a caret *)
Example C11_factor_extent :
  map (fun x => (factor_extent_ok (snd (fst x)), caret_count (snd (fst x)))) all_schemas
  = [(true, 0); (true, 30); (true, 30); (true, 0); (true, 30); (true, 30);
     (true, 0); (true, 0); (true, 30); (true, 30); (true, 30)]%nat.
Proof. exact factor_extent_bundled. Qed.
Print Assumptions C11_factor_extent.
