(* C11 -- Units are accepted and converted exactly as the schema defines them.
   Property theorems only; each closed with [exact] and followed by Print Assumptions.

   Reading guide.  [S] is any unit schema (unit classes, units, SI prefixes) with [wf_schema S = true]
   (a boolean check, kernel-evaluated for every bundled schema in C11_bundled_wf); [cs] any list of its unit
   classes (the classes of a value-taking tag); [n] the number text, [u] the unit text, [n ++ 32 :: u] is
   "<n> <u>".  [spells S U M u]: u is the symbol of U exactly, or its name in singular or plural in any letter
   case, optionally preceded by a prefix M the unit permits.  [cands S cs n = []]: the number text is not itself
   a unit spelling; [unamb S cs u = true]: the unit text has a single reading (the only bundled exception is
   computed in C11_ambiguity_extent).  [fixed = false] is the code as it stands, [fixed = true] the repaired
   lookup/parsing.  Values are exact rationals (IEEE rounding is not modelled). *)
From Coq Require Import List NArith ZArith QArith Bool.
From HV Require Import Base.Res Base.Str Model.Units Proofs.UnitsProofs Proofs.UnitsData Gen.UnitsAll.
Import ListNotations.
Local Open Scope N_scope.

(* "<number> <unit>" draws no unit issue (only what the number itself deserves) EXACTLY when the unit text
   spells a non-prefix unit of one of the tag's classes. *)
Theorem C11_accepted_iff :
  forall (S : uschema) (cs : list classdef),
  wf_schema S = true -> (forall C, In C cs -> In C (s_classes S)) ->
  forall (T : utag) (n u : str),
  no_space u -> u <> [] -> n <> [] -> no_space n -> cands S cs n = [] -> unamb S cs u = true ->
  (check_units_valid S T cs (n ++ 32 :: u) = check_value_class T n <-> spelled_in S cs false u).
Proof. exact accepted_iff_lemma. Qed.
Print Assumptions C11_accepted_iff.

(* prefix-type units (such as $) stand before the number *)
Theorem C11_accepted_prefix :
  forall (S : uschema) (cs : list classdef),
  wf_schema S = true -> (forall C, In C cs -> In C (s_classes S)) ->
  forall (T : utag) (n u : str),
  no_space n -> n <> [] -> u <> [] -> cands S cs n = [] -> unamb S cs u = true ->
  spelled_in S cs true u ->
  check_units_valid S T cs (u ++ 32 :: n) = check_value_class T n.
Proof. exact accepted_prefix_lemma. Qed.
Print Assumptions C11_accepted_prefix.

(* a bare number draws only the missing-unit warning -- for EVERY schema, no hypothesis on it *)
Theorem C11_bare_number_warns_only :
  forall (S : uschema) (T : utag) (cs : list classdef) (n : str),
  n <> [] -> no_space n -> (t_numeric T = true -> is_numeric n = true) ->
  check_units_valid S T cs n = [UNITS_MISSING].
Proof. exact bare_number_lemma. Qed.
Print Assumptions C11_bare_number_warns_only.

(* any other unit text (also a prefix-type unit written after the number) is reported as an invalid unit *)
Theorem C11_other_text_invalid :
  forall (S : uschema) (cs : list classdef),
  wf_schema S = true -> (forall C, In C cs -> In C (s_classes S)) ->
  forall (T : utag) (n u : str),
  no_space u -> no_space n -> cands S cs n = [] ->
  ~ spelled_in S cs false u ->
  check_units_valid S T cs (n ++ 32 :: u) = check_value_class T n ++ [UNITS_INVALID].
Proof. exact other_text_invalid_lemma. Qed.
Print Assumptions C11_other_text_invalid.

(* FULL clause "accepted + declared factor => the value is defined", proved for the repaired code ... *)
Theorem C11_convert_defined :
  forall (S : uschema) (cs : list classdef),
  wf_schema S = true -> (forall C, In C cs -> In C (s_classes S)) ->
  forall (n u : str) (C : classdef) (U : unitdef) (M : option moddef) (ft : str),
  no_space u -> u <> [] -> n <> [] -> cands S cs n = [] -> unamb S cs u = true ->
  In C cs -> In U (c_units C) -> spells S U M u -> u_prefix U = false ->
  u_factor U = Some ft -> is_numeric n = true ->
  exists q, value_as_default_unit true S cs (n ++ 32 :: u) = Ok (Some q).
Proof. exact convert_defined_lemma. Qed.
Print Assumptions C11_convert_defined.

(* ... and FALSE of the code as it stands (finding 10): "Duration/3 Seconds" with HED 8.3.0 meets every
   hypothesis above, validates without any issue, and the conversion raises TypeError. *)
Theorem C11_convert_refuted_case :
  exists S cs n u C U M ft (T : utag),
    wf_schema S = true /\ (forall C, In C cs -> In C (s_classes S)) /\
    no_space u /\ u <> [] /\ n <> [] /\ cands S cs n = [] /\ unamb S cs u = true /\
    In C cs /\ In U (c_units C) /\ spells S U M u /\ u_prefix U = false /\
    u_factor U = Some ft /\ is_numeric n = true /\
    check_units_valid S T cs (n ++ 32 :: u) = [] /\
    value_as_default_unit false S cs (n ++ 32 :: u) = Exn TypeError.
Proof. exact convert_refuted_case_lemma. Qed.
Print Assumptions C11_convert_refuted_case.

(* FULL clause "the value equals the number times the unit's and the prefix's factors" ("a^b" = a to the b),
   proved for the repaired code ... *)
Theorem C11_convert_value :
  forall (S : uschema) (cs : list classdef),
  wf_schema S = true -> (forall C, In C cs -> In C (s_classes S)) ->
  forall (n u : str) (x : Q) (C : classdef) (U : unitdef) (M : option moddef) (ft : str) (fU fM : Q),
  no_space u -> u <> [] -> n <> [] -> cands S cs n = [] -> unamb S cs u = true ->
  In C cs -> In U (c_units C) -> spells S U M u -> u_prefix U = false ->
  u_factor U = Some ft -> unit_factor U = Some fU -> mod_factor M = Some fM ->
  parse_float n = Some x ->
  value_as_default_unit true S cs (n ++ 32 :: u) = Ok (Some (Qmult x (Qmult fU fM))).
Proof. exact convert_value_lemma. Qed.
Print Assumptions C11_convert_value.

(* ... the same for a prefix-type unit before the number ... *)
Theorem C11_convert_value_prefix :
  forall (S : uschema) (cs : list classdef),
  wf_schema S = true -> (forall C, In C cs -> In C (s_classes S)) ->
  forall (n u : str) (x : Q) (C : classdef) (U : unitdef) (M : option moddef) (ft : str) (fU fM : Q),
  no_space n -> n <> [] -> u <> [] -> cands S cs n = [] -> unamb S cs u = true ->
  In C cs -> In U (c_units C) -> spells S U M u -> u_prefix U = true ->
  u_factor U = Some ft -> unit_factor U = Some fU -> mod_factor M = Some fM ->
  parse_float n = Some x ->
  value_as_default_unit true S cs (u ++ 32 :: n) = Ok (Some (Qmult x (Qmult fU fM))).
Proof. exact value_prefix_lemma. Qed.
Print Assumptions C11_convert_value_prefix.

(* ... FALSE of the code as it stands (finding 11): "Duration/3 Ms" with HED 8.2.0 (mega declared 10^6) gives
   3 * 10^7 where the declared factors give 3 * 10^6 ... *)
Theorem C11_convert_refuted_mega :
  exists S cs n u x C U M ft fU fM q,
    wf_schema S = true /\ (forall C, In C cs -> In C (s_classes S)) /\
    no_space u /\ u <> [] /\ n <> [] /\ cands S cs n = [] /\ unamb S cs u = true /\
    In C cs /\ In U (c_units C) /\ spells S U M u /\ u_prefix U = false /\
    u_factor U = Some ft /\ unit_factor U = Some fU /\ mod_factor M = Some fM /\
    parse_float n = Some x /\
    value_as_default_unit false S cs (n ++ 32 :: u) = Ok (Some q) /\
    Qeq q (30000000 # 1) /\ Qeq (Qmult x (Qmult fU fM)) (3000000 # 1) /\
    ~ Qeq q (Qmult x (Qmult fU fM)).
Proof. exact convert_refuted_mega_lemma. Qed.
Print Assumptions C11_convert_refuted_mega.

(* ... and TRUE of the code as it stands under two explicit extra hypotheses: the text is the derived key itself
   (a symbol, or a name written in lower case) and neither factor text contains a caret. *)
Theorem C11_convert_value_partial :
  forall (S : uschema) (cs : list classdef),
  wf_schema S = true -> (forall C, In C cs -> In C (s_classes S)) ->
  forall (n u : str) (x : Q) (C : classdef) (U : unitdef) (M : option moddef) (ft : str) (fU fM : Q),
  no_space u -> u <> [] -> n <> [] -> cands S cs n = [] -> unamb S cs u = true ->
  In C cs -> In U (c_units C) -> spells S U M u -> u_prefix U = false ->
  u_factor U = Some ft -> unit_factor U = Some fU -> mod_factor M = Some fM ->
  parse_float n = Some x ->
  (u_symbol U = true \/ casefold u = u) ->
  no_caret ft = true -> (forall m, M = Some m -> no_caret (factor_text (m_factor m)) = true) ->
  value_as_default_unit false S cs (n ++ 32 :: u) = Ok (Some (Qmult x (Qmult fU fM))).
Proof. exact convert_value_partial_lemma. Qed.
Print Assumptions C11_convert_value_partial.

(* the value is linear in the number (repaired code) *)
Theorem C11_linear :
  forall (S : uschema) (cs : list classdef),
  wf_schema S = true -> (forall C, In C cs -> In C (s_classes S)) ->
  forall (n1 n2 : str) (x1 x2 k : Q) (u : str) (C : classdef) (U : unitdef) (M : option moddef) (ft : str),
  no_space u -> u <> [] -> n1 <> [] -> n2 <> [] ->
  cands S cs n1 = [] -> cands S cs n2 = [] -> unamb S cs u = true ->
  In C cs -> In U (c_units C) -> spells S U M u -> u_prefix U = false ->
  u_factor U = Some ft ->
  parse_float n1 = Some x1 -> parse_float n2 = Some x2 -> Qeq x1 (Qmult k x2) ->
  exists q1 q2,
    value_as_default_unit true S cs (n1 ++ 32 :: u) = Ok (Some q1) /\
    value_as_default_unit true S cs (n2 ++ 32 :: u) = Ok (Some q2) /\
    Qeq q1 (Qmult k q2).
Proof. exact linear_lemma. Qed.
Print Assumptions C11_linear.

(* for an unrecognised unit the value is absent, never an exception -- the code as it stands and repaired,
   any text before the last blank *)
Theorem C11_unrecognised_absent :
  forall (S : uschema) (cs : list classdef),
  wf_schema S = true -> (forall C, In C cs -> In C (s_classes S)) ->
  forall (fixed : bool) (a b : str),
  a <> [] -> no_space b ->
  ~ spelled_in S cs false b -> ~ spelled_in S cs true a ->
  value_as_default_unit fixed S cs (a ++ 32 :: b) = Ok None.
Proof. exact unrecognised_absent_lemma. Qed.
Print Assumptions C11_unrecognised_absent.

(* accepted unit without a declared conversion factor: absent, not an exception *)
Theorem C11_no_factor_absent :
  forall (S : uschema) (cs : list classdef),
  wf_schema S = true -> (forall C, In C cs -> In C (s_classes S)) ->
  forall (fixed : bool) (n u : str) (C : classdef) (U : unitdef) (M : option moddef),
  no_space u -> u <> [] -> n <> [] -> cands S cs n = [] -> unamb S cs u = true ->
  In C cs -> In U (c_units C) -> spells S U M u -> u_prefix U = false ->
  u_factor U = None ->
  value_as_default_unit fixed S cs (n ++ 32 :: u) = Ok None.
Proof. exact value_suffix_no_factor. Qed.
Print Assumptions C11_no_factor_absent.

(* every bundled schema's translated unit table satisfies the well-formedness predicate *)
Example C11_bundled_wf : forallb (fun x => wf_schema (snd (fst x))) all_schemas = true.
Proof. exact wf_all_bundled. Qed.
Print Assumptions C11_bundled_wf.

(* extent of finding 11, per bundled schema (8.0.0, 8.1.0, 8.2.0, 8.3.0, score 1.0.0/1.1.0/2.0.0, testlib
   1.0.2/2.0.0/2.1.0/3.0.0): the factor the code computes equals the declared one for every text without a
   caret and is exactly ten times the declared one for each of the 30 texts with a caret *)
Example C11_factor_extent :
  map (fun x => (factor_extent_ok (snd (fst x)), caret_count (snd (fst x)))) all_schemas
  = [(true, 0); (true, 30); (true, 30); (true, 0); (true, 30); (true, 30);
     (true, 0); (true, 0); (true, 30); (true, 30); (true, 30)]%nat.
Proof. exact factor_extent_bundled. Qed.
Print Assumptions C11_factor_extent.

(* the derived keys with more than one reading, per bundled schema and unit class: only "uV" in
   electricPotentialUnits of 8.3.0 and score 2.0.0 *)
Example C11_ambiguity_extent :
  map (fun x => flat_map (ambiguous_in_class (snd (fst x))) (s_classes (snd (fst x)))) all_schemas
  = [[]; []; []; uV_in_electricPotentialUnits; []; []; uV_in_electricPotentialUnits; []; []; []; []].
Proof. exact ambiguity_bundled. Qed.
Print Assumptions C11_ambiguity_extent.

(* non-vacuity: "Duration/3 ms" (HED 8.3.0) meets the hypotheses of C11_convert_value; the theorem gives
   3 * (1.0 * 0.001) *)
Example C11_nonvacuous :
  exists fU fM,
    unit_factor U83_s = Some fU /\ mod_factor (Some m83_m) = Some fM /\
    Qeq fU 1 /\ Qeq fM (1 # 1000) /\
    value_as_default_unit true S83 cs83 (s_3 ++ 32 :: s_ms)
      = Ok (Some (Qmult (Qmult (inject_Z 3) (pow10 0)) (Qmult fU fM))).
Proof. exact nonvacuous_lemma. Qed.
Print Assumptions C11_nonvacuous.
