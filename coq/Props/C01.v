(* C01 -- String validation verdict agrees with the HED rules.
   Property theorems only; each closed with [exact] and followed by Print Assumptions.

   Objects: [validate cfg s f] is the model of HedValidator.validate on the text [s] whose parse tree with
   per-tag facts is [f]; [validate_forest cfg f = validate cfg (fprint f) f] (canonical ","-joined text).
   [reports cfg s f code]  :=  validation returns (does not raise) and [code] is among the codes of its
   error-severity issues.  Published codes come from the table regenerated from error_messages.py
   (Gen/ValidationCodes.v); the HED-specification code of every rule is written here BY HAND ([spec_code]),
   so an edited actual_code breaks the corresponding proof.

   SCOPE, honestly: "the code as it is" = the CURRENT /repo (all fix commits listed under `fixed` in
   known_findings.json are in it; the model follows 5df7886, 7597eca, 2492808, cbb8087, 3e47c8c).  The verdicts of the
   resolution, unit / value-class and definition layers are fact INPUTS of the model ([tagfacts]); therefore the
   theorems for unknown tag, extension-is-a-term, bad unit, bad value, undeclared / wrongly valued Def and altered
   Def-expand are PROPAGATION theorems: "if the leaf layer's issue list for the tag contains kind k, the validator
   skeleton reaches that check and the published code of k (= the hand-written spec code) is reported".  That the leaf
   layer produces k for the right inputs is C03 / C11 / C09 and, at C01 level, the implementation-side oracle (tested).
   Full content is proved for: the two-phase skeleton, all string-level rules, tag characters, placement, required /
   unique, duplicate detection (sound + complete), temporal group shapes, empty groups, value-class acceptance on
   per-class verdicts, and conforming => no error. *)
From Coq Require Import String Ascii.
From Coq Require Import List NArith Arith Bool.
From HV Require Import Base.Res Base.Str Model.Parse Model.ValKinds Model.ValStr Model.Validate.
From HV Require Import Gen.ValidationCodes Proofs.ValidateProofs Proofs.ValidateDups Proofs.ValidateTemporal
  Proofs.ValidateMut Model.ValValue Proofs.ValValueProofs Proofs.ValidateEmpty Proofs.C01Examples
  Proofs.C01ExamplesProofs.
Import ListNotations.

Definition s2l (s : String.string) : str := map Ascii.N_of_ascii (String.list_ascii_of_string s).
Arguments s2l s%string.

Inductive rule :=
| R_forbidden_character | R_tilde | R_curly_brace | R_unbalanced_parentheses | R_empty_tag | R_missing_comma
| R_slash | R_prefix | R_tag_character | R_unknown_tag | R_extension_is_term | R_forbidden_extension
| R_stray_placeholder | R_requires_child | R_bad_unit | R_bad_value | R_definition_in_data
| R_undeclared_def | R_altered_def_expand | R_tag_group_outside | R_top_level_misplaced
| R_several_top_level | R_unique_twice | R_required_missing | R_repeated | R_temporal_shape.

(* the HED specification's error code of each rule (hand-written) *)
Definition spec_code (r : rule) : str :=
  match r with
  | R_forbidden_character => s2l "CHARACTER_INVALID"
  | R_tilde => s2l "TILDES_UNSUPPORTED"
  | R_curly_brace => s2l "CHARACTER_INVALID"
  | R_unbalanced_parentheses => s2l "PARENTHESES_MISMATCH"
  | R_empty_tag => s2l "TAG_EMPTY"
  | R_missing_comma => s2l "COMMA_MISSING"
  | R_slash => s2l "TAG_INVALID"
  | R_prefix => s2l "TAG_NAMESPACE_PREFIX_INVALID"
  | R_tag_character => s2l "CHARACTER_INVALID"
  | R_unknown_tag => s2l "TAG_INVALID"
  | R_extension_is_term => s2l "TAG_EXTENSION_INVALID"
  | R_forbidden_extension => s2l "TAG_EXTENSION_INVALID"
  | R_stray_placeholder => s2l "PLACEHOLDER_INVALID"
  | R_requires_child => s2l "TAG_REQUIRES_CHILD"
  | R_bad_unit => s2l "UNITS_INVALID"
  | R_bad_value => s2l "VALUE_INVALID"
  | R_definition_in_data => s2l "DEFINITION_INVALID"
  | R_undeclared_def => s2l "DEF_INVALID"
  | R_altered_def_expand => s2l "DEF_EXPAND_INVALID"
  | R_tag_group_outside => s2l "TAG_GROUP_ERROR"
  | R_top_level_misplaced => s2l "TAG_GROUP_ERROR"
  | R_several_top_level => s2l "TAG_GROUP_ERROR"
  | R_unique_twice => s2l "TAG_NOT_UNIQUE"
  | R_required_missing => s2l "REQUIRED_TAG_MISSING"
  | R_repeated => s2l "TAG_EXPRESSION_REPEATED"
  | R_temporal_shape => s2l "TEMPORAL_TAG_ERROR"
  end.

(* ------------------------------------------------------------------ two-phase structure *)
(* an error in the basic phase ends validation with exactly the basic-phase issues *)
Theorem C01_two_phase : forall cfg s f b,
  run_basic_checks cfg s f = Ok b -> has_error b = true -> validate cfg s f = Ok b.
Proof. exact two_phase. Qed.
Print Assumptions C01_two_phase.

(* a single full-phase fault is not masked: with well-formed text and individually conforming tags the basic
   phase is clean, the full phase does not raise, and every error it finds is reported *)
Theorem C01_phase_reach : forall cfg f fl i,
  Forall (wf_n (tag_basic_ok cfg)) f -> full_checks cfg f = Ok fl -> In i fl -> is_err i = true ->
  reports cfg (fprint f) f (icode i).
Proof. exact phase_reach. Qed.
Print Assumptions C01_phase_reach.

(* the full phase (required / unique / placement / duplicate / Duration / Onset checks) never raises, for ANY
   annotation, empty groups included (/repo HEAD; the duplicate check is total since fix commit 3e47c8c) *)
Theorem C01_full_phase_never_raises : forall cfg f, exists fl, full_checks cfg f = Ok fl.
Proof. exact full_checks_total_all. Qed.
Print Assumptions C01_full_phase_never_raises.

(* RECORD of the repaired defect -- behaviour BEFORE fix commit 3e47c8c (dup_n_before_3e47c8c is not used by the
   model of the current code): on "(),()" the duplicate check raised IndexError; the current model, like /repo HEAD,
   reports the repeated group. *)
Example C01_duplicate_check_raised_before_3e47c8c :
  dup_n_before_3e47c8c (sorted_n (FGroup ex_empty2)) = Exn IndexError
  /\ dup_n (sorted_n (FGroup ex_empty2)) = Ok [iss K_HED_TAG_REPEATED_GROUP].
Proof. exact ex_empty_dups_before_3e47c8c. Qed.

(* ------------------------------------------------------------------ conforming => no error *)
(* string level, ALL forests: printing a forest whose tag texts are words over permitted characters without
   slash faults and whose groups are non-empty yields no CHARACTER_INVALID / TILDES_UNSUPPORTED /
   PARENTHESES_MISMATCH / TAG_EMPTY / COMMA_MISSING / NODE_NAME_EMPTY issue *)
Theorem C01_printed_text_is_clean : forall cfg f,
  Forall (wf_n (text_ok cfg)) f -> string_checks cfg (fprint f) f = [].
Proof. exact string_checks_clean. Qed.
Print Assumptions C01_printed_text_is_clean.

(* basic phase, ALL forests: no exception and no error *)
Theorem C01_basic_phase_no_error : forall cfg f,
  Forall (wf_n (tag_basic_ok cfg)) f ->
  exists b, run_basic_checks cfg (fprint f) f = Ok b /\ errors b = [].
Proof. exact basic_ok_no_error. Qed.
Print Assumptions C01_basic_phase_no_error.

(* FULL: a conforming annotation validates without raising and without any error-severity issue.
   [ConformingFull] = [Conforming] + no two equal siblings in any group (equal = same case-folded, order-free
   canonical text) + correctly shaped Duration/Delay and Onset/Offset/Inset groups.
   WHAT [Conforming] IS, precisely (Proofs/ValidateProofs.v tag_basic_ok / Conforming):
   * declarative conditions of the statement's grammar: the tag text is a word (no delimiter, no outer blank) over
     permitted characters without slash faults; groups are non-empty; the tag is resolved without resolution issue; it
     is not a Definition; it is a basic tag, a takes-value tag or extension-allowed; no '#' unless placeholders are
     allowed; no requireChild; tag-group / top-level-group tags placed correctly (at most one top-level-group tag per
     top-level group); required prefixes present, unique prefixes at most once;
   * conditions that are "the leaf validator of another layer is silent" (the leaf verdicts are fact INPUTS of this
     model, see the header): [check_tag_invalid_chars cfg t = []] (given declaratively by C01_tag_chars_declarative
     below), [units_dispatch cfg t] returns no error (unit / value-class layer, C11), [tf_def_contents t] returns no
     error (definition layer, C09).  For these parts the theorem says "if the leaf check accepts, validate adds no
     error of its own", not that the leaf check implements the HED rule;
   * in [duration_group_ok] the disjunct "the group also holds an Onset/Offset/Inset tag" is the case in which the
     Duration/Delay shape rule does not apply (Delay inside a temporal group is judged by the Onset rule); it mirrors
     the implementation's `continue`.
   (The grammar is slightly narrower than the language the validator accepts: a Delay tag next to a second
   top-level-group tag in one group is not generated; see C01_nonvacuous_* for inhabitants.) *)
Theorem C01_valid_no_error : forall cfg f,
  ConformingFull cfg f -> exists r, validate_forest cfg f = Ok r /\ errors r = [].
Proof. exact valid_no_error. Qed.
Print Assumptions C01_valid_no_error.

(* the same with the three group checks as explicit hypotheses instead of grammar conditions *)
Theorem C01_valid_no_error_partial : forall cfg f d,
  Conforming cfg f ->
  check_duplicates f = Ok d -> errors d = [] ->
  errors (validate_duration_tags f) = [] ->
  errors (validate_onset_offset f) = [] ->
  exists r, validate_forest cfg f = Ok r /\ errors r = [].
Proof. exact valid_no_error_partial. Qed.
Print Assumptions C01_valid_no_error_partial.

(* the per-tag character condition of [Conforming], declaratively: no namespace or an alphabetic one, and every
   character of the base tag is alphanumeric, one of "-_/" (and "#" when placeholders are allowed) or ':' *)
Theorem C01_tag_chars_declarative : forall cfg t,
  (tag_namespace (tf_org t) = [] \/ str_isalpha (removelast (tag_namespace (tf_org t))) = true) ->
  forallb (base_char_ok cfg) (org_base t) = true ->
  check_tag_invalid_chars cfg t = [].
Proof. exact tag_chars_declarative. Qed.
Print Assumptions C01_tag_chars_declarative.

(* the duplicate check is silent exactly on the grammar condition "no two siblings with the same canonical text" *)
Theorem C01_duplicate_check_sound : forall f,
  nodup_groups (f :: sub_groups f) -> check_duplicates f = Ok [].
Proof. exact check_duplicates_sound. Qed.
Print Assumptions C01_duplicate_check_sound.

(* how the hypotheses [phase1_clean] / [phase2_clean] / [phase3_total] / [basic_clean] of the per-rule theorems
   below are met by a mutated annotation: every tag of it (the injected one included) has a well-formed text
   (resp. is resolvable with defined fact inputs), and the annotation is not the literal n/a.  All tags of a
   Conforming forest satisfy [tag_pre3] (C01_conforming_tags_reach). *)
Theorem C01_reach_phase1 : forall cfg f,
  Forall (wf_n (text_ok cfg)) f -> str_eqb (forest_str f) na_text = false -> phase1_clean cfg (fprint f) f.
Proof. exact reach_phase1. Qed.
Print Assumptions C01_reach_phase1.

Theorem C01_reach_phase3 : forall cfg f,
  Forall (wf_n (tag_pre3 cfg)) f -> str_eqb (forest_str f) na_text = false ->
  phase2_clean cfg (fprint f) f /\ phase3_total cfg f.
Proof. exact reach_phase3. Qed.
Print Assumptions C01_reach_phase3.

Theorem C01_conforming_tags_reach : forall cfg t, tag_basic_ok cfg t -> tag_pre3 cfg t.
Proof. exact tag_basic_ok_pre3. Qed.
Print Assumptions C01_conforming_tags_reach.

Theorem C01_reach_full_phase : forall cfg f,
  Forall (wf_n (tag_basic_ok cfg)) f -> basic_clean cfg (fprint f) f.
Proof. exact basic_clean_of_tags. Qed.
Print Assumptions C01_reach_full_phase.

(* ------------------------------------------------------------------ one injected violation => its code *)
(* string-level rules hold for EVERY text (no hypothesis on the rest of the annotation is needed) *)
Theorem C01_mutation_forbidden_character : forall cfg s f c,
  In c s -> char_invalid cfg c = true -> N.eqb c 126 = false ->
  reports cfg s f (spec_code R_forbidden_character).
Proof. exact rule_forbidden_character. Qed.
Print Assumptions C01_mutation_forbidden_character.

Theorem C01_mutation_tilde : forall cfg s f,
  In 126%N s -> reports cfg s f (spec_code R_tilde).
Proof. exact rule_tilde. Qed.
Print Assumptions C01_mutation_tilde.

Theorem C01_mutation_curly_brace : forall cfg s f c,
  c_ph cfg = false -> (c = 123 \/ c = 125)%N -> In c s -> reports cfg s f (spec_code R_curly_brace).
Proof. exact rule_curly_brace. Qed.
Print Assumptions C01_mutation_curly_brace.

Theorem C01_mutation_unbalanced_parentheses : forall cfg s f,
  balanced s = false -> reports cfg s f (spec_code R_unbalanced_parentheses).
Proof. exact rule_unbalanced_parentheses. Qed.
Print Assumptions C01_mutation_unbalanced_parentheses.

Theorem C01_mutation_empty_leading_comma : forall cfg rest f,
  reports cfg (ch_comma :: rest) f (spec_code R_empty_tag).
Proof. exact rule_empty_leading_comma. Qed.
Print Assumptions C01_mutation_empty_leading_comma.

Theorem C01_mutation_empty_double_comma : forall cfg f0 rest f,
  f0 <> [] -> Forall (wf_n Qword) f0 ->
  reports cfg (fprint f0 ++ [ch_comma; ch_comma] ++ rest) f (spec_code R_empty_tag).
Proof. exact rule_empty_double_comma. Qed.
Print Assumptions C01_mutation_empty_double_comma.

Theorem C01_mutation_empty_trailing_comma : forall cfg f0 f,
  f0 <> [] -> Forall (wf_n Qword) f0 ->
  reports cfg (fprint f0 ++ [ch_comma]) f (spec_code R_empty_tag).
Proof. exact rule_empty_trailing_comma. Qed.
Print Assumptions C01_mutation_empty_trailing_comma.

Theorem C01_mutation_missing_comma : forall cfg f0 k rest f,
  f0 <> [] -> Forall (wf_n Qword) f0 ->
  reports cfg (fprint f0 ++ repeat ch_space k ++ [ch_open] ++ rest) f (spec_code R_missing_comma).
Proof. exact rule_missing_comma. Qed.
Print Assumptions C01_mutation_missing_comma.

Theorem C01_mutation_slash : forall cfg s f t,
  In t (all_tags f) -> fmt_scan 0 true (tf_org t) <> 0 -> reports cfg s f (spec_code R_slash).
Proof. exact rule_slash. Qed.
Print Assumptions C01_mutation_slash.

(* tag-character / resolution rules: the string checks are clean and the text is not the literal n/a *)
Theorem C01_mutation_prefix_not_alphabetic : forall cfg s f t,
  phase1_clean cfg s f -> In t (all_tags f) -> tag_namespace (tf_org t) <> [] ->
  str_isalpha (removelast (tag_namespace (tf_org t))) = false ->
  reports cfg s f (spec_code R_prefix).
Proof. exact rule_prefix_not_alphabetic. Qed.
Print Assumptions C01_mutation_prefix_not_alphabetic.

Theorem C01_mutation_unknown_prefix : forall cfg s f t,
  phase1_clean cfg s f -> In t (all_tags f) -> In (iss K_HED_LIBRARY_UNMATCHED) (tf_res_issues t) ->
  reports cfg s f (spec_code R_prefix).
Proof. exact (fun cfg s f t H1 H2 H3 => rule_resolution cfg s f t K_HED_LIBRARY_UNMATCHED H1 H2 H3 eq_refl). Qed.
Print Assumptions C01_mutation_unknown_prefix.

Theorem C01_mutation_tag_character : forall cfg s f t c,
  phase1_clean cfg s f -> In t (all_tags f) -> In c (org_base t) ->
  isalnum c = false -> memb c (c_TAG_ALLOWED_CHARS ++ [ch_hash]) = false -> N.eqb c 58 = false ->
  reports cfg s f (spec_code R_tag_character).
Proof. exact rule_invalid_tag_character. Qed.
Print Assumptions C01_mutation_tag_character.

Theorem C01_mutation_unknown_tag : forall cfg s f t,
  phase1_clean cfg s f -> In t (all_tags f) -> In (iss K_NO_VALID_TAG_FOUND) (tf_res_issues t) ->
  reports cfg s f (spec_code R_unknown_tag).
Proof. exact (fun cfg s f t H1 H2 H3 => rule_resolution cfg s f t K_NO_VALID_TAG_FOUND H1 H2 H3 eq_refl). Qed.
Print Assumptions C01_mutation_unknown_tag.

Theorem C01_mutation_extension_is_term : forall cfg s f t,
  phase1_clean cfg s f -> In t (all_tags f) -> In (iss K_INVALID_PARENT_NODE) (tf_res_issues t) ->
  reports cfg s f (spec_code R_extension_is_term).
Proof. exact (fun cfg s f t H1 H2 H3 => rule_resolution cfg s f t K_INVALID_PARENT_NODE H1 H2 H3 eq_refl). Qed.
Print Assumptions C01_mutation_extension_is_term.

(* per-tag rules: string, character and resolution checks are clean; the fact inputs of all tags are defined *)
Theorem C01_mutation_forbidden_extension : forall cfg s f t,
  phase2_clean cfg s f -> phase3_total cfg f -> In t (all_tags f) ->
  is_basic t = false -> tf_takes_value t = false -> tf_ext_allowed t = false ->
  memb ch_hash (extension t) = false ->
  reports cfg s f (spec_code R_forbidden_extension).
Proof. exact rule_forbidden_extension. Qed.
Print Assumptions C01_mutation_forbidden_extension.

Theorem C01_mutation_stray_placeholder : forall cfg s f t,
  phase2_clean cfg s f -> phase3_total cfg f -> In t (all_tags f) ->
  c_ph cfg = false -> find_top_level [c_DEFINITION_KEY] f = [] -> memb ch_hash (extension t) = true ->
  reports cfg s f (spec_code R_stray_placeholder).
Proof. exact rule_stray_placeholder. Qed.
Print Assumptions C01_mutation_stray_placeholder.

Theorem C01_mutation_requires_child : forall cfg s f t,
  phase2_clean cfg s f -> phase3_total cfg f -> In t (all_tags f) -> tf_require_child t = true ->
  reports cfg s f (spec_code R_requires_child).
Proof. exact rule_requires_child. Qed.
Print Assumptions C01_mutation_requires_child.

Theorem C01_mutation_bad_unit : forall cfg s f t lu,
  phase2_clean cfg s f -> phase3_total cfg f -> In t (all_tags f) ->
  str_eqb (sbase_of t) c_DEF_KEY = false -> str_eqb (sbase_of t) c_DEF_EXPAND_KEY = false ->
  str_eqb (sbase_of t) c_DEFINITION_KEY = false ->
  memb ch_hash (extension t) = false -> str_eqb (extension t) [ch_hash] = false ->
  tf_unit_class t = true -> tf_units t = Ok lu -> In (iss K_UNITS_INVALID) lu ->
  reports cfg s f (spec_code R_bad_unit).
Proof. exact rule_bad_unit. Qed.
Print Assumptions C01_mutation_bad_unit.

Theorem C01_mutation_bad_value : forall cfg s f t lv,
  phase2_clean cfg s f -> phase3_total cfg f -> In t (all_tags f) ->
  str_eqb (sbase_of t) c_DEF_KEY = false -> str_eqb (sbase_of t) c_DEF_EXPAND_KEY = false ->
  str_eqb (sbase_of t) c_DEFINITION_KEY = false ->
  memb ch_hash (extension t) = false -> str_eqb (extension t) [ch_hash] = false ->
  tf_unit_class t = false -> tf_value_class t = true -> tf_values t = Ok lv ->
  In (iss K_INVALID_VALUE_CLASS_VALUE) lv ->
  reports cfg s f (spec_code R_bad_value).
Proof. exact rule_bad_value. Qed.
Print Assumptions C01_mutation_bad_value.

Theorem C01_mutation_definition_in_data_string : forall cfg s f t,
  phase2_clean cfg s f -> phase3_total cfg f -> In t (all_tags f) ->
  c_defs_allowed cfg = false -> str_eqb (sbase_of t) c_DEFINITION_KEY = true ->
  reports cfg s f (spec_code R_definition_in_data).
Proof. exact rule_definition_in_data_string. Qed.
Print Assumptions C01_mutation_definition_in_data_string.

Theorem C01_mutation_undeclared_def : forall cfg s f g t ld k,
  phase2_clean cfg s f -> phase3_total cfg f ->
  In g (f :: sub_groups f) -> In (FTag t) g -> str_eqb (sbase_of t) c_DEF_KEY = true ->
  tf_def_contents t = Ok ld -> In (iss k) ld ->
  (k = K_HED_DEF_UNMATCHED \/ k = K_HED_DEF_VALUE_MISSING \/ k = K_HED_DEF_VALUE_EXTRA) ->
  reports cfg s f (spec_code R_undeclared_def).
Proof. exact rule_undeclared_def. Qed.
Print Assumptions C01_mutation_undeclared_def.

(* Whether a Def-expand group equals the expansion of its definition (up to sibling order, also when the substituted
   value reorders the placeholder tag against a similarly spelled sibling) is decided by the definition layer (C09) and
   enters as the fact [tf_def_contents]; at C01 level it is covered by the conforming generator
   (rule v_defexpand_placeholder_sibling) -- tested, not proved here.  The same holds for the LOOKUP of a declared
   definition by name ([tf_def_known] and the HED_DEF_UNMATCHED verdicts are facts): names with non-ASCII letters, incl.
   letters whose lower() differs from casefold(), referenced exactly as declared, through both entry points
   (DefinitionDict / definition strings), definitions whose placeholder sits in a unit-class tag (values numeric / not, with a
   valid unit / a bad unit / no unit: the rule code must be present AT ERROR SEVERITY), and the SHAPES of declared definitions (no contents, one tag, one group, nested
   groups, with / without placeholder; conforming and altered Def-expand groups), are generated as cases (rules v_def_name_special, v_def_name_plain) -- tested only. *)
Theorem C01_mutation_altered_def_expand : forall cfg s f g gch t ld k,
  phase2_clean cfg s f -> phase3_total cfg f ->
  In g (f :: sub_groups f) -> In (FGroup gch) g -> In t (tags_of gch) ->
  str_eqb (sbase_of t) c_DEF_EXPAND_KEY = true ->
  tf_def_contents t = Ok ld -> In (iss k) ld ->
  (k = K_HED_DEF_EXPAND_INVALID \/ k = K_HED_DEF_EXPAND_UNMATCHED
   \/ k = K_HED_DEF_EXPAND_VALUE_MISSING \/ k = K_HED_DEF_EXPAND_VALUE_EXTRA) ->
  reports cfg s f (spec_code R_altered_def_expand).
Proof. exact rule_altered_def_expand. Qed.
Print Assumptions C01_mutation_altered_def_expand.

(* group rules: the basic phase is clean (see C01_phase_reach / C01_basic_phase_no_error) *)
Theorem C01_mutation_tag_group_outside : forall cfg s f t,
  basic_clean cfg s f -> (exists fl, full_checks cfg f = Ok fl) ->
  In t (tags_of f) -> tf_tag_group t = true ->
  reports cfg s f (spec_code R_tag_group_outside).
Proof. exact rule_tag_group_outside. Qed.
Print Assumptions C01_mutation_tag_group_outside.

Theorem C01_mutation_top_level_outside : forall cfg s f t,
  basic_clean cfg s f -> (exists fl, full_checks cfg f = Ok fl) ->
  In t (tags_of f) -> tf_top_level t = true ->
  reports cfg s f (spec_code R_top_level_misplaced).
Proof. exact rule_top_level_outside. Qed.
Print Assumptions C01_mutation_top_level_outside.

Theorem C01_mutation_top_level_nested : forall cfg s f g h t,
  basic_clean cfg s f -> (exists fl, full_checks cfg f = Ok fl) ->
  In g (groups_of f) -> In h (sub_groups g) -> In t (tags_of h) -> tf_top_level t = true ->
  reports cfg s f (spec_code R_top_level_misplaced).
Proof. exact rule_top_level_nested. Qed.
Print Assumptions C01_mutation_top_level_nested.

Theorem C01_mutation_several_top_level_tags : forall cfg s f g,
  basic_clean cfg s f -> (exists fl, full_checks cfg f = Ok fl) ->
  In g (groups_of f) -> 1 < length (filter tf_top_level (tags_of g)) ->
  str_mem c_DELAY_KEY (map sbase_of (filter tf_top_level (tags_of g))) = false ->
  reports cfg s f (spec_code R_several_top_level).
Proof. exact rule_several_top_level_tags. Qed.
Print Assumptions C01_mutation_several_top_level_tags.

Theorem C01_mutation_unique_twice : forall cfg s f p,
  basic_clean cfg s f -> (exists fl, full_checks cfg f = Ok fl) ->
  In p (c_unique cfg) -> 1 < length (filter (fun t => prefixb p (tf_long_fold t)) (all_tags f)) ->
  reports cfg s f (spec_code R_unique_twice).
Proof. exact rule_unique_twice. Qed.
Print Assumptions C01_mutation_unique_twice.

Theorem C01_mutation_required_missing : forall cfg s f p,
  basic_clean cfg s f -> (exists fl, full_checks cfg f = Ok fl) ->
  In p (c_required cfg) -> existsb (fun t => prefixb p (tf_long_fold t)) (all_tags f) = false ->
  reports cfg s f (spec_code R_required_missing).
Proof. exact rule_required_missing. Qed.
Print Assumptions C01_mutation_required_missing.

(* EMPTY GROUP "()" (the "empty delimiters" clause beside the comma forms above): an empty parenthesised group
   anywhere in the annotation is reported with TAG_EMPTY.  First form: on any annotation whose basic phase is clean.
   Second form: derived from per-tag conformity alone -- [wfg_n true]: the tags are individually conforming and groups
   MAY be empty (the string-level theorem holds for such forests too: "()" passes the delimiter scan), so the
   basic phase is clean and the full phase reports the group.  Several empty groups are covered as well; since fix
   commit 3e47c8c repeated empty groups no longer make validation raise (Example below and
   C01_duplicate_check_raised_before_3e47c8c). *)
Theorem C01_mutation_empty_group : forall cfg s f,
  basic_clean cfg s f -> In [] (sub_groups f) -> reports cfg s f (spec_code R_empty_tag).
Proof. exact rule_empty_group. Qed.
Print Assumptions C01_mutation_empty_group.

Theorem C01_mutation_empty_group_from_tags : forall cfg f,
  Forall (wfg_n true (tag_basic_ok cfg)) f -> In [] (sub_groups f) ->
  reports cfg (fprint f) f (spec_code R_empty_tag).
Proof. exact empty_group_reported. Qed.
Print Assumptions C01_mutation_empty_group_from_tags.

(* "Red,()" meets the premises; "(),()" and "((),(Red)),((Red),())" report TAG_EMPTY and the repeated group *)
Example C01_nonvacuous_empty_groups :
  basic_clean cfg830 (fprint ex_empty1) ex_empty1 /\ In [] (sub_groups ex_empty1)
  /\ reports cfg830 (fprint ex_empty1) ex_empty1 (spec_code R_empty_tag)
  /\ reports cfg830 (fprint ex_empty2) ex_empty2 (spec_code R_empty_tag)
  /\ reports cfg830 (fprint ex_empty2) ex_empty2 (spec_code R_repeated)
  /\ reports cfg830 (fprint ex_empty3) ex_empty3 (spec_code R_repeated).
Proof. exact ex_empty_groups. Qed.

(* repeated tag / repeated group, ALL forests, any depth: in any group of the annotation (the annotation itself
   included) two members with the same canonical text (case-folded short forms, members of groups in sorted order)
   are reported.  [names_ok]: folded short forms are non-empty and free of ",()" (what the parser guarantees).
   Reuses C04's unique decoding of canonical keys and its stable-sort facts. *)
Theorem C01_mutation_repeated : forall cfg s f Q g l1 a l2 b l3,
  basic_clean cfg s f -> Forall (wf_n Q) f -> names_ok (all_tags f) ->
  In g (f :: sub_groups f) -> g = l1 ++ a :: l2 ++ b :: l3 -> ckeyf a = ckeyf b ->
  reports cfg s f (spec_code R_repeated).
Proof. exact rule_repeated. Qed.
Print Assumptions C01_mutation_repeated.

Example C01_repeated_group_regression :
  reports cfg830 (fprint ex_f2) ex_f2 (spec_code R_repeated).
Proof. exact ex_f2_reported. Qed.
Print Assumptions C01_repeated_group_regression.

(* the theorem above speaks of ANY group of the annotation; instances where the group holding the repeat is the
   only member of its enclosing group(s): "Sensory-event,((Red,Red))", "Sensory-event,(((Red,Blue),(Blue,Red)))" *)
Example C01_repeated_in_singleton_nesting :
  reports cfg830 (fprint ex_nested_rep1) ex_nested_rep1 (spec_code R_repeated)
  /\ reports cfg830 (fprint ex_nested_rep2) ex_nested_rep2 (spec_code R_repeated).
Proof. exact ex_nested_repeats. Qed.

(* Duration / Delay group shape (g is a top-level group whose first Duration/Delay tag is t) *)
Theorem C01_mutation_duration_other_tags : forall cfg s f g t i u,
  basic_clean cfg s f -> (exists fl, full_checks cfg f = Ok fl) ->
  In g (groups_of f) -> first_anchor (map ascii_fold duration_keys) 0 g = Some (t, i) ->
  existsb (fun x => str_mem x temporal_keys) (top_level_names g) = false ->
  length (top_level_names g) <> length (tags_of g) ->
  In u (tags_of g) -> str_mem (sbase_of u) (top_level_names g) = false ->
  reports cfg s f (spec_code R_temporal_shape).
Proof. exact rule_duration_other_tags. Qed.
Print Assumptions C01_mutation_duration_other_tags.

Theorem C01_mutation_duration_wrong_number_groups : forall cfg s f g t i,
  basic_clean cfg s f -> (exists fl, full_checks cfg f = Ok fl) ->
  In g (groups_of f) -> first_anchor (map ascii_fold duration_keys) 0 g = Some (t, i) ->
  existsb (fun x => str_mem x temporal_keys) (top_level_names g) = false ->
  length (top_level_names g) = length (tags_of g) -> length (groups_of g) <> 1 ->
  reports cfg s f (spec_code R_temporal_shape).
Proof. exact rule_duration_wrong_number_groups. Qed.
Print Assumptions C01_mutation_duration_wrong_number_groups.

(* Onset / Offset / Inset group shape (g is a top-level group whose first temporal tag is [onset], child oi) *)
Theorem C01_mutation_onset_no_def : forall cfg s f g onset oi,
  basic_clean cfg s f -> (exists fl, full_checks cfg f = Ok fl) ->
  In g (groups_of f) -> first_anchor (map ascii_fold temporal_keys) 0 g = Some (onset, oi) ->
  def_tags_from 0 g = [] ->
  reports cfg s f (spec_code R_temporal_shape).
Proof. exact rule_onset_no_def. Qed.
Print Assumptions C01_mutation_onset_no_def.

Theorem C01_mutation_onset_too_many_defs : forall cfg s f g onset oi x y l,
  basic_clean cfg s f -> (exists fl, full_checks cfg f = Ok fl) ->
  In g (groups_of f) -> first_anchor (map ascii_fold temporal_keys) 0 g = Some (onset, oi) ->
  def_tags_from 0 g = x :: y :: l ->
  reports cfg s f (spec_code R_temporal_shape).
Proof. exact rule_onset_too_many_defs. Qed.
Print Assumptions C01_mutation_onset_too_many_defs.

Theorem C01_mutation_onset_wrong_number_groups : forall cfg s f g onset oi dt di,
  basic_clean cfg s f -> (exists fl, full_checks cfg f = Ok fl) ->
  In g (groups_of f) -> first_anchor (map ascii_fold temporal_keys) 0 g = Some (onset, oi) ->
  def_tags_from 0 g = [(dt, di)] -> onset_max onset < length (onset_children g di oi) ->
  reports cfg s f (spec_code R_temporal_shape).
Proof. exact rule_onset_wrong_number_groups. Qed.
Print Assumptions C01_mutation_onset_wrong_number_groups.

Theorem C01_mutation_onset_tag_outside_group : forall cfg s f g onset oi dt di u rest,
  basic_clean cfg s f -> (exists fl, full_checks cfg f = Ok fl) ->
  In g (groups_of f) -> first_anchor (map ascii_fold temporal_keys) 0 g = Some (onset, oi) ->
  def_tags_from 0 g = [(dt, di)] -> length (onset_children g di oi) <= onset_max onset ->
  onset_children g di oi = FTag u :: rest ->
  reports cfg s f (spec_code R_temporal_shape).
Proof. exact rule_onset_tag_outside_group. Qed.
Print Assumptions C01_mutation_onset_tag_outside_group.

Theorem C01_mutation_onset_def_unmatched : forall cfg s f g onset oi dt di,
  basic_clean cfg s f -> (exists fl, full_checks cfg f = Ok fl) ->
  In g (groups_of f) -> first_anchor (map ascii_fold temporal_keys) 0 g = Some (onset, oi) ->
  def_tags_from 0 g = [(dt, di)] -> length (onset_children g di oi) <= onset_max onset ->
  tf_def_known dt = false ->
  reports cfg s f (spec_code R_temporal_shape).
Proof. exact rule_onset_def_unmatched. Qed.
Print Assumptions C01_mutation_onset_def_unmatched.

Theorem C01_mutation_onset_placeholder_wrong : forall cfg s f g onset oi dt di,
  basic_clean cfg s f -> (exists fl, full_checks cfg f = Ok fl) ->
  In g (groups_of f) -> first_anchor (map ascii_fold temporal_keys) 0 g = Some (onset, oi) ->
  def_tags_from 0 g = [(dt, di)] -> length (onset_children g di oi) <= onset_max onset ->
  tf_def_known dt = true -> tf_def_takes_value dt <> has_placeholder dt ->
  reports cfg s f (spec_code R_temporal_shape).
Proof. exact rule_onset_placeholder_wrong. Qed.
Print Assumptions C01_mutation_onset_placeholder_wrong.

(* ------------------------------------------------------------------ value classes (one or SEVERAL per tag) *)
(* UnitValueValidator._check_value_class on the per-class verdicts (word form accepted? problem characters?) of the
   implementation's CharRexValidator: a value is accepted exactly when the tag has no value class or ONE class
   accepts it completely -- word form AND characters judged for the same class (Loudness/# has numericClass and
   nameClass: "5.5.5" has a valid name word form and numeric characters only, but no single class accepts it). *)
Theorem C01_value_accept_iff : forall cls,
  value_class_issues true cls = [] <-> (cls = [] \/ exists c, In c cls /\ class_accepts c = true).
Proof. exact value_accept_iff. Qed.
Print Assumptions C01_value_accept_iff.

Theorem C01_mutation_bad_value_classes : forall cfg s f t cls c,
  phase2_clean cfg s f -> phase3_total cfg f -> In t (all_tags f) ->
  str_eqb (sbase_of t) c_DEF_KEY = false -> str_eqb (sbase_of t) c_DEF_EXPAND_KEY = false ->
  str_eqb (sbase_of t) c_DEFINITION_KEY = false ->
  memb ch_hash (extension t) = false -> str_eqb (extension t) [ch_hash] = false ->
  tf_unit_class t = false -> tf_value_class t = true ->
  tf_values t = Ok (value_class_issues true cls) ->
  existsb class_accepts cls = false -> In c cls -> cv_word c = false ->
  reports cfg s f (spec_code R_bad_value).
Proof. exact rule_bad_value_classes. Qed.
Print Assumptions C01_mutation_bad_value_classes.

(* ------------------------------------------------------------------ one validator object, many annotations *)
(* operation-sequence model of a HedValidator object ([vrun]: the state is what the object keeps between calls):
   the verdict on an annotation is a function of (configuration, annotation) only, whatever was validated
   before or after with the same object.  The model has no mutable state, so this is immediate; that the
   IMPLEMENTATION's object behaves like the model's is the "history-independent" clause of the check
   (sequences on one HedValidator vs a fresh one, and vs [vrun]) -- tested, not proved. *)
Theorem C01_history_independent : forall st before x after,
  nth_error (snd (vrun st (before ++ x :: after))) (length before)
  = Some (validate (vs_cfg st) (fst x) (snd x)).
Proof. exact history_independent. Qed.
Print Assumptions C01_history_independent.

(* ------------------------------------------------------------------ relational form (string-level rules) *)
(* [MutString cfg f r x]: x is the canonical text of f with exactly one violation of the string-level rule r
   injected (a forbidden character / tilde / curly brace inserted anywhere, one parenthesis inserted or deleted
   anywhere, a comma added in front / at the end / doubled between two top-level members, the comma in front of a
   top-level group replaced by blanks).  Whatever tree [fx] the parser builds for the damaged text, the code of the
   rule is reported.  (The tag-level and group-level rules are stated above on the mutated annotation itself;
   C01_reach_phase1/3 and C01_reach_full_phase connect their hypotheses to per-tag conformity.) *)
Definition srule_rule (r : srule) : rule :=
  match r with
  | S_forbidden_character => R_forbidden_character | S_tilde => R_tilde | S_curly_brace => R_curly_brace
  | S_unbalanced => R_unbalanced_parentheses | S_empty => R_empty_tag | S_missing_comma => R_missing_comma
  end.

Theorem C01_mutation_reports_code_string_level : forall cfg f r x,
  Conforming cfg f -> MutString cfg f r x -> forall fx, reports cfg x fx (spec_code (srule_rule r)).
Proof.
  exact (fun cfg f r x Hc => mut_string_reports (fun r => spec_code (srule_rule r))
           (fun r => match r with
                     | S_forbidden_character => eq_refl | S_tilde => eq_refl | S_curly_brace => eq_refl
                     | S_unbalanced => eq_refl | S_empty => eq_refl | S_missing_comma => eq_refl end)
           cfg f r x (conforming_words cfg f Hc)).
Qed.
Print Assumptions C01_mutation_reports_code_string_level.

(* ------------------------------------------------------------------ non-vacuity (real HED 8.3.0 annotations) *)
Example C01_nonvacuous_valid :
  ConformingFull cfg830 ex_valid /\ validate_forest cfg830 ex_valid = Ok [iss K_TAG_EXTENDED].
Proof. exact ex_valid_conforming_full. Qed.

(* "(Def/OnDef,Onset,(Red)),(Duration/3 s,(Green)),Blue,(Def/OnVal/3,Offset)" *)
Example C01_nonvacuous_temporal :
  ConformingFull cfg830 ex_temporal /\ validate_forest cfg830 ex_temporal = Ok [].
Proof. exact ex_temporal_conforming_full. Qed.

(* "(Onset,Red)" and "(Duration/3 s)" *)
Example C01_nonvacuous_temporal_mutations :
  reports cfg830 (fprint ex_onset_bad) ex_onset_bad (spec_code R_temporal_shape)
  /\ reports cfg830 (fprint ex_duration_bad) ex_duration_bad (spec_code R_temporal_shape).
Proof. exact ex_temporal_mutations. Qed.

Example C01_nonvacuous_mutations :
  reports cfg830 (fprint ex_unknown) ex_unknown (spec_code R_unknown_tag)
  /\ reports cfg830 (fprint ex_ext) ex_ext (spec_code R_forbidden_extension)
  /\ reports cfg830 (fprint ex_placeholder) ex_placeholder (spec_code R_stray_placeholder)
  /\ reports cfg830 (fprint ex_reqchild) ex_reqchild (spec_code R_requires_child)
  /\ reports cfg830 (fprint ex_badunit) ex_badunit (spec_code R_bad_unit)
  /\ reports cfg830 (fprint ex_badvalue) ex_badvalue (spec_code R_bad_value)
  /\ reports cfg830 (fprint ex_definition) ex_definition (spec_code R_definition_in_data)
  /\ reports cfg830 (fprint ex_def) ex_def (spec_code R_undeclared_def)
  /\ reports cfg830 (fprint ex_defexpand) ex_defexpand (spec_code R_altered_def_expand)
  /\ reports cfg830 (fprint ex_taggroup) ex_taggroup (spec_code R_tag_group_outside)
  /\ reports cfg830 (fprint ex_toplevel) ex_toplevel (spec_code R_top_level_misplaced)
  /\ reports cfg830 (fprint ex_multitop) ex_multitop (spec_code R_several_top_level)
  /\ reports cfg830 (fprint ex_repeat) ex_repeat (spec_code R_repeated)
  /\ reports cfg830 (fprint ex_unique) ex_unique (spec_code R_unique_twice)
  /\ reports cfg830 (fprint ex_slash) ex_slash (spec_code R_slash)
  /\ reports cfg830 (fprint ex_tagchar) ex_tagchar (spec_code R_tag_character)
  /\ reports cfg830 (fprint ex_prefix) ex_prefix (spec_code R_prefix).
Proof. exact ex_mutations_report. Qed.
