(* C16 -- Each dataset file is validated with its inherited, merged sidecar.
   Property theorems only; each closed with [exact] and followed by Print Assumptions.
   sc = the sidecars of a file group (any list), f = an events file; the hypotheses
   [data_file], [all_fs_ok], [unique_paths] are file-system facts (f is not a sidecar,
   a path is a file or a directory, paths are unique); [at_most_one_applicable] is the
   property's own "at most one such file per directory".
   group_init true  = BidsFileGroup.__init__ as it is in /repo now (since fix commit be9bad3, which repaired
                      finding C16-F1; the harness default VERIF_C16_FIXED=1 runs this mode);
   group_init false = the behaviour before fix commit be9bad3 (part B, record of the repaired defect only).
   What is proved / by construction / tested:
     - chain, applicability, merge, override, walk, excluded directories, root independence: proved for all
       inputs against declarative specifications (applicableb, strict depth order, filter of the full walk);
     - C16_dataset_issues, C16_cli_exit_iff and the nothing-skipped corollaries: the driver is a structural
       transcription (a loop that concatenates, `int(bool(issues))`), so these hold essentially BY CONSTRUCTION
       of the model; what ties that structure to the code is the correspondence run (testing): the issue
       sequence and exit status of BidsDataset.validate / hed_validator against per-file validation;
     - the validators themselves are parameters (properties C07/C08). *)
From Coq Require Import List NArith Sorting.Sorted.
From HV Require Import Base.Res Base.Str Model.Bids Proofs.BidsProofs.
Import ListNotations.

(* ===================================================================== A. the code as it is *)

(* The chain the code computes for an events file consists exactly of the applicable
   sidecars (same suffix, directory on the root path, entities contained with equal
   values), in strictly increasing depth -- for every sidecar list and every file. *)
Theorem C16_chain_is_applicable : forall sc f,
  data_file sc f -> at_most_one_applicable sc f ->
  (forall s, In s (chain sc f) <-> In s sc /\ applicableb s f = true) /\
  StronglySorted ltd (chain sc f).
Proof. exact chain_is_applicable. Qed.
Print Assumptions C16_chain_is_applicable.

(* ... hence it EQUALS the applicable sidecars sorted by depth, however that list is produced. *)
Theorem C16_chain_unique : forall sc f l,
  data_file sc f -> at_most_one_applicable sc f ->
  StronglySorted ltd l -> (forall s, In s l <-> In s sc /\ applicableb s f = true) ->
  chain sc f = l.
Proof. exact chain_unique. Qed.
Print Assumptions C16_chain_unique.

(* merged_is_fold, code-relative form, every tree, no side condition: the sidecar attached to a
   data file is the top-down fold of the per-key update along THE CHAIN THE CODE COMPUTES for that
   file ([spec_merged] folds over [chain] = get_sidecars_from_path).  The declarative content of the
   clause is the next theorem, which carries the statement's own side conditions. *)
Theorem C16_merged_is_fold : forall excl sfx t g f m,
  group_init true excl sfx t = Ok g -> In (f, m) (g_data g) ->
  m = spec_merged (g_sidecars g) f.
Proof. exact merged_is_fold. Qed.
Print Assumptions C16_merged_is_fold.

(* merged_is_fold, DECLARATIVE FORM (the property's clause): under the statement's
   at-most-one-per-directory hypothesis (and f being an events file of a sane file system), the
   attached sidecar is the merge, in order of depth, of exactly the applicable sidecars, for ANY
   list l that enumerates them by strictly increasing depth (None when there is none). *)
Theorem C16_merged_is_fold_applicable : forall excl sfx t g f m l,
  group_init true excl sfx t = Ok g -> In (f, m) (g_data g) ->
  data_file (g_sidecars g) f -> at_most_one_applicable (g_sidecars g) f ->
  StronglySorted ltd l -> (forall s, In s l <-> In s (g_sidecars g) /\ applicableb s f = true) ->
  m = if is_empty l then None else Some (merge_dicts (map raw_of l)).
Proof. exact merged_is_fold_applicable. Qed.
Print Assumptions C16_merged_is_fold_applicable.

(* Outside the statement (two applicable sidecars in one directory violate BIDS and the property's
   hypothesis): without at-most-one the chain still holds only applicable sidecars, at most one per
   depth.  WHICH of several candidates is taken (the first in listing order) is not a theorem; it is
   compared with the implementation in the correspondence run only. *)
Theorem C16_chain_only_applicable : forall sc f s,
  data_file sc f -> In s (chain sc f) -> In s sc /\ applicableb s f = true.
Proof. exact chain_only_applicable. Qed.
Print Assumptions C16_chain_only_applicable.

Theorem C16_chain_one_per_depth : forall sc obj, StronglySorted ltd (chain sc obj).
Proof. exact chain_sorted. Qed.
Print Assumptions C16_chain_one_per_depth.

(* The merged contents of a sidecar file itself run along the sidecars applicable to it
   (itself included), in strictly increasing depth; its own chain is never empty. *)
Theorem C16_sidecar_chain_is_applicable : forall sc s,
  In s sc -> all_fs_ok sc -> at_most_one sc s ->
  (forall s', In s' (chain sc s) <->
     In s' sc /\ (same_file s s' = true \/ applicableb s' s = true)) /\
  StronglySorted ltd (chain sc s).
Proof. exact sidecar_chain_is_applicable. Qed.
Print Assumptions C16_sidecar_chain_is_applicable.

Theorem C16_own_chain_is_chain : forall sc s, In s sc -> own_chain sc s = chain sc s.
Proof. exact own_chain_is_chain. Qed.
Print Assumptions C16_own_chain_is_chain.

(* Override law of the merge: per column key, the deepest file defining the key wins;
   a key defined nowhere is absent. *)
Theorem C16_deeper_overrides : forall k v (shallower deeper : list jdict) (d : jdict),
  jlast k d = Some v -> Forall (fun d' => jlast k d' = None) deeper ->
  jget k (merge_dicts (shallower ++ d :: deeper)) = Some v.
Proof. exact deeper_overrides. Qed.
Print Assumptions C16_deeper_overrides.

Theorem C16_undefined_key_absent : forall k (ds : list jdict),
  Forall (fun d => jlast k d = None) ds -> jget k (merge_dicts ds) = None.
Proof. exact undefined_key_absent. Qed.
Print Assumptions C16_undefined_key_absent.

(* Excluded directories take no part: the pruned walk is the full walk restricted to the
   paths without an excluded name, so two trees that differ only below excluded names give
   the same file group (sidecars, merged contents, data files). *)
Theorem C16_walk_prune : forall excl t,
  walk excl t = filter (not_excluded excl) (walk [] t).
Proof. exact walk_prune. Qed.
Print Assumptions C16_walk_prune.

Theorem C16_excluded_take_no_part : forall fixed excl sfx t1 t2,
  filter (not_excluded excl) (walk [] t1) = filter (not_excluded excl) (walk [] t2) ->
  group_init fixed excl sfx t1 = group_init fixed excl sfx t2.
Proof. exact excluded_no_part. Qed.
Print Assumptions C16_excluded_take_no_part.

(* ... and no sidecar or data file of a constructed group lies below an excluded name. *)
Theorem C16_group_files_not_excluded : forall fixed excl sfx t g,
  group_init fixed excl sfx t = Ok g ->
  (forall s, In s (g_sidecars g) -> existsb (fun n => in_names n excl) (b_dir s) = false) /\
  (forall f m, In (f, m) (g_data g) -> existsb (fun n => in_names n excl) (b_dir f) = false).
Proof. exact group_files_not_excluded. Qed.
Print Assumptions C16_group_files_not_excluded.

(* The dataset root's own path is no input: os.walk started at a root given by ANY absolute
   components (its own name or a component above it may be an excluded name) lists the relative
   walk with the root in front; pruning concerns directories BELOW the root only.  The applicability
   test and the chain computed on real paths are those computed on paths relative to the root. *)
Theorem C16_os_walk_is_walk : forall excl rootp t,
  os_walk excl rootp t = map (fun e => (rootp ++ fst e, snd e)) (walk excl t).
Proof. exact os_walk_is_walk. Qed.
Print Assumptions C16_os_walk_is_walk.

Theorem C16_os_walk_root_independent : forall excl rootp t,
  map (fun e => (skipn (List.length rootp) (fst e), snd e)) (os_walk excl rootp t) = walk excl t.
Proof. exact os_walk_root_independent. Qed.
Print Assumptions C16_os_walk_root_independent.

Theorem C16_is_sidecar_for_root_independent : forall rootp s x,
  is_sidecar_for (abs_file rootp s) (abs_file rootp x) = is_sidecar_for s x.
Proof. exact is_sidecar_for_abs. Qed.
Print Assumptions C16_is_sidecar_for_root_independent.

Theorem C16_chain_root_independent : forall rootp sc obj,
  chain_aux (map (abs_file rootp) sc) (abs_file rootp obj) rootp (b_dir obj)
  = map (abs_file rootp) (chain sc obj).
Proof. exact chain_root_independent. Qed.
Print Assumptions C16_chain_root_independent.

(* dataset_issues: dataset validation is exactly the concatenation of the validations of
   each merged sidecar and of each events file with the fold along ITS OWN chain (for any
   validators vs, vf; no side condition), and the command line exits non-zero iff that
   list is non-empty. *)
Theorem C16_dataset_issues : forall (issue : Type) vs vf excl sfx t g,
  group_init true excl sfx t = Ok g ->
  dataset_validate issue vs vf g =
    flat_map (fun s => vs (b_name s) (merge_dicts (map raw_of (own_chain (g_sidecars g) s)))) (g_sidecars g)
    ++ flat_map (fun fm => vf (fst fm) (spec_merged (g_sidecars g) (fst fm))) (g_data g).
Proof. exact dataset_issues. Qed.
Print Assumptions C16_dataset_issues.

(* Nothing is skipped and nothing is added, whatever the contents of a merged sidecar (no HED key at
   all, misplaced HED keys, the empty object, ...): every issue of every sidecar of the group and of
   every events file is in the dataset's list, and every issue of the list comes from one of them. *)
Theorem C16_every_sidecar_validated : forall (issue : Type) vs vf fixed excl sfx t g s i,
  group_init fixed excl sfx t = Ok g -> In s (g_sidecars g) ->
  In i (vs (b_name s) (merge_dicts (map raw_of (own_chain (g_sidecars g) s)))) ->
  In i (dataset_validate issue vs vf g).
Proof. exact every_sidecar_validated. Qed.
Print Assumptions C16_every_sidecar_validated.

Theorem C16_every_data_file_validated : forall (issue : Type) vs vf excl sfx t g f m i,
  group_init true excl sfx t = Ok g -> In (f, m) (g_data g) ->
  In i (vf f (spec_merged (g_sidecars g) f)) ->
  In i (dataset_validate issue vs vf g).
Proof. exact every_data_file_validated. Qed.
Print Assumptions C16_every_data_file_validated.

Theorem C16_dataset_issue_origin : forall (issue : Type) vs vf excl sfx t g i,
  group_init true excl sfx t = Ok g -> In i (dataset_validate issue vs vf g) ->
  (exists s, In s (g_sidecars g) /\
             In i (vs (b_name s) (merge_dicts (map raw_of (own_chain (g_sidecars g) s))))) \/
  (exists f m, In (f, m) (g_data g) /\ In i (vf f (spec_merged (g_sidecars g) f))).
Proof. exact dataset_issue_origin. Qed.
Print Assumptions C16_dataset_issue_origin.

(* exit status: `return int(bool(issue_list))` transcribed; by construction of the model *)
Theorem C16_cli_exit_iff : forall (issue : Type) vs vf g,
  cli_exit issue vs vf g <> 0 <-> dataset_validate issue vs vf g <> [].
Proof. exact cli_exit_iff. Qed.
Print Assumptions C16_cli_exit_iff.

(* Non-vacuity: a BIDS-conformant tree (with an excluded code/ directory) meets every
   hypothesis; its chain has two sidecars and the merge shows both inheritance (key 1 from
   the root) and override (key 0 from the deeper file). *)
Example C16_nonvacuous :
  group_init true excl_default sfx_events ok_tree = Ok ok_group /\
  In (ok_file, Some [(0, 2); (1, 1); (2, 1)]) (g_data ok_group) /\
  unique_paths (g_sidecars ok_group) /\ all_fs_ok (g_sidecars ok_group) /\
  data_file (g_sidecars ok_group) ok_file /\ at_most_one_applicable (g_sidecars ok_group) ok_file /\
  ents_below_last (g_sidecars ok_group) ok_file /\
  List.length (chain (g_sidecars ok_group) ok_file) = 2 /\
  spec_merged (g_sidecars ok_group) ok_file = Some [(0, 2); (1, 1); (2, 1)].
Proof. exact ok_example. Qed.

(* The tree that refuted the statement before fix commit be9bad3 (part B), on the constructor as
   it is now: the events file inherits column r (key 1) of the root sidecar. *)
Example C16_old_witness_now_inherits :
  group_init true excl_default sfx_events wit_tree = Ok wit_group_fixed /\
  g_data wit_group_fixed = [(wit_file, Some [(0, 2); (1, 1); (2, 1)])] /\
  List.length (chain (g_sidecars wit_group_fixed) wit_file) = 2 /\
  data_file (g_sidecars wit_group_fixed) wit_file /\
  at_most_one_applicable (g_sidecars wit_group_fixed) wit_file.
Proof. exact wit_fixed_example. Qed.

(* ===================================================================== B. record of the repaired defect C16-F1
   (group_init false = the behaviour BEFORE fix commit be9bad3; none of this is true of /repo any more) *)

(* What the constructor before fix commit be9bad3 attached to every data file: the contents of the DEEPEST sidecar
   of its chain, merged along that sidecar's own chain. *)
Theorem C16_before_fix_merged_code : forall excl sfx t g f m,
  group_init false excl sfx t = Ok g -> unique_paths (g_sidecars g) -> In (f, m) (g_data g) ->
  m = code_merged (g_sidecars g) f.
Proof. exact group_data_merged. Qed.
Print Assumptions C16_before_fix_merged_code.

(* merged_is_fold was FALSE of the constructor before fix commit be9bad3: root task-rest_events.json,
   sub-01/sub-01_events.json, sub-01/eeg/sub-01_task-rest_events.tsv -- column r of the
   root sidecar was lost. *)
Theorem C16_before_fix_merged_is_fold_refuted :
  exists t g f m,
    group_init false excl_default sfx_events t = Ok g /\ In (f, m) (g_data g) /\
    unique_paths (g_sidecars g) /\ all_fs_ok (g_sidecars g) /\ data_file (g_sidecars g) f /\
    at_most_one_applicable (g_sidecars g) f /\
    m <> spec_merged (g_sidecars g) f /\
    (exists d d', m = Some d /\ spec_merged (g_sidecars g) f = Some d' /\
                  jget 1 d = None /\ jget 1 d' = Some 1).
Proof. exact merged_refuted. Qed.
Print Assumptions C16_before_fix_merged_is_fold_refuted.

(* It held only when every sidecar of the chain other than the deepest had its entities
   among the deepest one's (e.g. entity sets increasing along the chain). *)
Theorem C16_before_fix_merged_partial : forall excl sfx t g f m,
  group_init false excl sfx t = Ok g -> In (f, m) (g_data g) ->
  unique_paths (g_sidecars g) -> all_fs_ok (g_sidecars g) -> data_file (g_sidecars g) f ->
  at_most_one_applicable (g_sidecars g) f ->
  ents_below_last (g_sidecars g) f ->
  m = spec_merged (g_sidecars g) f.
Proof. exact merged_partial. Qed.
Print Assumptions C16_before_fix_merged_partial.

Theorem C16_before_fix_increasing_suffices : forall sc f,
  StronglySorted ents_le (chain sc f) -> ents_below_last sc f.
Proof. exact increasing_ents_below_last. Qed.
Print Assumptions C16_before_fix_increasing_suffices.

Theorem C16_before_fix_validate_exact : forall (issue : Type) vs vf excl sfx t g,
  group_init false excl sfx t = Ok g -> unique_paths (g_sidecars g) ->
  dataset_validate issue vs vf g =
    flat_map (fun s => vs (b_name s) (merge_dicts (map raw_of (own_chain (g_sidecars g) s)))) (g_sidecars g)
    ++ flat_map (fun fm => vf (fst fm) (code_merged (g_sidecars g) (fst fm))) (g_data g).
Proof. exact validate_exact_before_fix. Qed.
Print Assumptions C16_before_fix_validate_exact.
