(* C16 -- Each dataset file is validated with its inherited, merged sidecar.
   Property theorems only; each closed with [exact] and followed by Print Assumptions.
   sc = the sidecars of a file group (any list), f = an events file; the hypotheses
   [data_file], [all_fs_ok], [unique_paths] are file-system facts (f is not a sidecar,
   a path is a file or a directory, paths are unique); [at_most_one_applicable] is the
   property's own "at most one such file per directory". *)
From Coq Require Import List NArith Sorting.Sorted.
From HV Require Import Base.Res Base.Str Model.Bids Proofs.BidsProofs.
Import ListNotations.

(* The chain the code computes for an events file consists exactly of the applicable
   sidecars (same suffix, directory on the root path, entities contained with equal
   values), in strictly increasing depth -- for every sidecar list and every file. *)
Theorem C16_chain_is_applicable : forall sc f,
  data_file sc f -> at_most_one_applicable sc f ->
  (forall s, In s (chain sc f) <-> In s sc /\ applicableb s f = true) /\
  StronglySorted ltd (chain sc f).
Proof. exact chain_is_applicable. Qed.
Print Assumptions C16_chain_is_applicable.

(* ... hence it EQUALS the applicable sidecars sorted by depth, however that list is produced. *)
Theorem C16_chain_unique : forall sc f l,
  data_file sc f -> at_most_one_applicable sc f ->
  StronglySorted ltd l -> (forall s, In s l <-> In s sc /\ applicableb s f = true) ->
  chain sc f = l.
Proof. exact chain_unique. Qed.
Print Assumptions C16_chain_unique.

(* What the constructor attaches to every data file of every tree: the contents of the
   DEEPEST sidecar of its chain, merged along that sidecar's own chain. *)
Theorem C16_merged_code : forall excl sfx t g f m,
  group_init excl sfx t = Ok g -> unique_paths (g_sidecars g) -> In (f, m) (g_data g) ->
  m = code_merged (g_sidecars g) f.
Proof. exact group_data_merged. Qed.
Print Assumptions C16_merged_code.

(* FULL STATEMENT (merged_is_fold), false of the current code:
     forall excl sfx t g f m, group_init excl sfx t = Ok g -> In (f, m) (g_data g) ->
       unique_paths (g_sidecars g) -> all_fs_ok (g_sidecars g) -> data_file (g_sidecars g) f ->
       at_most_one_applicable (g_sidecars g) f ->
       m = spec_merged (g_sidecars g) f.
   Refuted: root task-rest_events.json, sub-01/sub-01_events.json,
   sub-01/eeg/sub-01_task-rest_events.tsv -- column r of the root sidecar is lost. *)
Theorem C16_merged_is_fold_refuted :
  exists t g f m,
    group_init excl_default sfx_events t = Ok g /\ In (f, m) (g_data g) /\
    unique_paths (g_sidecars g) /\ all_fs_ok (g_sidecars g) /\ data_file (g_sidecars g) f /\
    at_most_one_applicable (g_sidecars g) f /\
    m <> spec_merged (g_sidecars g) f /\
    (exists d d', m = Some d /\ spec_merged (g_sidecars g) f = Some d' /\
                  jget 1 d = None /\ jget 1 d' = Some 1).
Proof. exact merged_refuted. Qed.
Print Assumptions C16_merged_is_fold_refuted.

(* The statement holds with one extra hypothesis: every sidecar of the chain other than the
   deepest has its entities among the deepest one's.  Missing for the full statement: the
   constructor would have to merge the file's own chain (see the finding C16-F1). *)
Theorem C16_merged_partial : forall excl sfx t g f m,
  group_init excl sfx t = Ok g -> In (f, m) (g_data g) ->
  unique_paths (g_sidecars g) -> all_fs_ok (g_sidecars g) -> data_file (g_sidecars g) f ->
  at_most_one_applicable (g_sidecars g) f ->
  ents_below_last (g_sidecars g) f ->
  m = spec_merged (g_sidecars g) f.
Proof. exact merged_partial. Qed.
Print Assumptions C16_merged_partial.

(* entity sets increasing along the chain (the BIDS layout) give that hypothesis *)
Theorem C16_increasing_suffices : forall sc f,
  StronglySorted ents_le (chain sc f) -> ents_below_last sc f.
Proof. exact increasing_ents_below_last. Qed.
Print Assumptions C16_increasing_suffices.

(* Override law of the merge: per column key, the deepest file defining the key wins;
   a key defined nowhere is absent. *)
Theorem C16_deeper_overrides : forall k v (shallower deeper : list jdict) (d : jdict),
  jlast k d = Some v -> Forall (fun d' => jlast k d' = None) deeper ->
  jget k (merge_dicts (shallower ++ d :: deeper)) = Some v.
Proof. exact deeper_overrides. Qed.
Print Assumptions C16_deeper_overrides.

Theorem C16_undefined_key_absent : forall k (ds : list jdict),
  Forall (fun d => jlast k d = None) ds -> jget k (merge_dicts ds) = None.
Proof. exact undefined_key_absent. Qed.
Print Assumptions C16_undefined_key_absent.

(* Excluded directories take no part: the pruned walk is the full walk restricted to the
   paths without an excluded name, so two trees that differ only below excluded names give
   the same file group (sidecars, merged contents, data files). *)
Theorem C16_walk_prune : forall excl t,
  walk excl t = filter (not_excluded excl) (walk [] t).
Proof. exact walk_prune. Qed.
Print Assumptions C16_walk_prune.

Theorem C16_excluded_take_no_part : forall excl sfx t1 t2,
  filter (not_excluded excl) (walk [] t1) = filter (not_excluded excl) (walk [] t2) ->
  group_init excl sfx t1 = group_init excl sfx t2.
Proof. exact excluded_no_part. Qed.
Print Assumptions C16_excluded_take_no_part.

(* ... and no sidecar or data file of a constructed group lies below an excluded name. *)
Theorem C16_group_files_not_excluded : forall excl sfx t g,
  group_init excl sfx t = Ok g ->
  (forall s, In s (g_sidecars g) -> existsb (fun n => in_names n excl) (b_dir s) = false) /\
  (forall f m, In (f, m) (g_data g) -> existsb (fun n => in_names n excl) (b_dir f) = false).
Proof. exact group_files_not_excluded. Qed.
Print Assumptions C16_group_files_not_excluded.

(* Dataset validation is exactly the concatenation of the per-sidecar validations of the
   merged sidecars and the per-file validations with the attached merged sidecar (for any
   validators vs, vf), and the command line exits non-zero iff that list is non-empty. *)
Theorem C16_validate_exact : forall (issue : Type) vs vf excl sfx t g,
  group_init excl sfx t = Ok g -> unique_paths (g_sidecars g) ->
  dataset_validate issue vs vf g =
    flat_map (fun s => vs (b_name s) (merge_dicts (map raw_of (own_chain (g_sidecars g) s)))) (g_sidecars g)
    ++ flat_map (fun fm => vf (fst fm) (code_merged (g_sidecars g) (fst fm))) (g_data g).
Proof. exact validate_exact. Qed.
Print Assumptions C16_validate_exact.

Theorem C16_cli_exit_iff : forall (issue : Type) vs vf g,
  cli_exit issue vs vf g <> 0 <-> dataset_validate issue vs vf g <> [].
Proof. exact cli_exit_iff. Qed.
Print Assumptions C16_cli_exit_iff.

(* Non-vacuity: a BIDS-conformant tree (with an excluded code/ directory) meets every
   hypothesis of C16_merged_partial; its chain has two sidecars and the merge shows both
   inheritance (key 1 from the root) and override (key 0 from the deeper file). *)
Example C16_nonvacuous :
  group_init excl_default sfx_events ok_tree = Ok ok_group /\
  In (ok_file, Some [(0, 2); (1, 1); (2, 1)]) (g_data ok_group) /\
  unique_paths (g_sidecars ok_group) /\ all_fs_ok (g_sidecars ok_group) /\
  data_file (g_sidecars ok_group) ok_file /\ at_most_one_applicable (g_sidecars ok_group) ok_file /\
  ents_below_last (g_sidecars ok_group) ok_file /\
  List.length (chain (g_sidecars ok_group) ok_file) = 2 /\
  spec_merged (g_sidecars ok_group) ok_file = Some [(0, 2); (1, 1); (2, 1)].
Proof. exact ok_example. Qed.
