(* C14 -- Schema compliance checking accepts released schemas and flags seeded faults.
   Property theorems only; each closed with [exact] and followed by Print Assumptions.

   Reading guide.  [check_compliance fx E warn S] models hed.schema.from_string(xml) followed by
   schema.check_compliance(check_for_warnings=warn) for the raw schema S (what the XML says) in the
   environment E (known released versions, library id ranges, previous-version schemas, plurals);
   [load E S = Ok L] is the loaded schema and [check_loaded fx E warn L] the check proper.
   [fx] selects the repairs: [fixed_all] is the code as it is in /repo, which contains the fix: commits 55e2b09
   (C14-F1: validators only run on attributes declared for the section), 5844fee (C14-F2: the entry's own
   inLibrary value in the hedId and deprecatedFrom rules) and 4796114 (C14-F3: value-less allowedCharacter in the
   name check; outside the model); [fixed_none] is the behaviour BEFORE 55e2b09 / 5844fee, kept only as the
   record of the repaired defects (last section).  The seeded-fault theorems quantify over EVERY loaded schema L,
   every section and every entry e the check visits: "Seed k pos S S'" of the statement is the special
   case L = load S', e = the entry at pos. *)
From Coq Require Import List NArith ZArith String.
From HV Require Import Base.Res Base.Str Base.C14Base Gen.ComplianceTables Model.Compliance
     Proofs.ComplianceProofs Proofs.C14ExCommon Gen.C14_Env
     Proofs.C14Ex_8_0_0 Proofs.C14Ex_8_1_0 Proofs.C14Ex_8_2_0 Proofs.C14Ex_8_3_0
     Proofs.C14Ex_score_1_1_0 Proofs.C14Ex_score_2_0_0
     Proofs.C14Ex_testlib_2_0_0 Proofs.C14Ex_testlib_2_1_0 Proofs.C14Ex_testlib_3_0_0
     Proofs.C14Ex_Seeded830 Proofs.C14Ex_SeededScore Proofs.C14Ex_SeedLemma.
From HV Require Gen.Schema_8_0_0_c14 Gen.Schema_8_1_0_c14 Gen.Schema_8_2_0_c14 Gen.Schema_8_3_0_c14
     Gen.Schema_score_1_1_0_c14 Gen.Schema_score_2_0_0_c14 Gen.Schema_testlib_2_0_0_c14
     Gen.Schema_testlib_2_1_0_c14 Gen.Schema_testlib_3_0_0_c14.
Import ListNotations.
Local Open Scope string_scope.

(* ---- the specification's code for each fault kind of the statement (written by hand from the HED
   specification's schema error names, as hed/errors/error_types.py publishes them today).  The model
   obtains its codes from the translated decorator table (Gen/ComplianceTables.v: kind_code), so an
   edited actual_code makes the theorems below fail to type-check. *)
Inductive fault : Set :=
| F_duplicate_node | F_undeclared_attribute | F_unknown_unit_class | F_unknown_value_class
| F_unknown_tag | F_class_on_non_placeholder | F_deprecated_from | F_conversion_factor
| F_default_units | F_allowed_character | F_in_library | F_hed_id.

Definition spec_code (f : fault) : str :=
  match f with
  | F_duplicate_node => s2str "SCHEMA_DUPLICATE_NODE"
  | F_undeclared_attribute => s2str "SCHEMA_ATTRIBUTE_INVALID"
  | F_deprecated_from => s2str "SCHEMA_DEPRECATION_ERROR"
  | F_unknown_unit_class | F_unknown_value_class | F_unknown_tag | F_class_on_non_placeholder
  | F_conversion_factor | F_default_units | F_allowed_character | F_in_library | F_hed_id =>
      s2str "SCHEMA_ATTRIBUTE_VALUE_INVALID"
  end.

(* ================= clause 3: with warnings off only errors are returned ================= *)

(* For every schema and environment (before and after the repairs): the result with warnings off is
   exactly the error-severity part of the result with warnings on (same exception behaviour). *)
Theorem C14_warnings_off_only_errors : forall (fx : fixes) (E : env) (S : rschema),
  check_compliance fx E false S = errors_of (check_compliance fx E true S).
Proof. exact check_compliance_off. Qed.
Print Assumptions C14_warnings_off_only_errors.

Theorem C14_warnings_off_all_errors : forall (fx : fixes) (E : env) (S : rschema) (l : list issue),
  check_compliance fx E false S = Ok l -> Forall (fun i => is_error i = true) l.
Proof. exact check_compliance_off_all_errors. Qed.
Print Assumptions C14_warnings_off_all_errors.

(* Every finding of an attribute validator is a warning (the downgrade in _run_validators). *)
Theorem C14_attribute_findings_are_warnings :
  forall fx E I L e a vs l i, run_validators fx E I true L e a vs = Ok l -> In i l -> i_sev i = SevWarning.
Proof. exact attribute_findings_are_warnings. Qed.
Print Assumptions C14_attribute_findings_are_warnings.

(* ================= the rules, one by one: reported <-> the fault is present ================= *)

Theorem C14_rule_in_library : forall L e a,
  exists ks, in_library_check L e a = Ok ks /\
  (In K_SCHEMA_IN_LIBRARY_INVALID ks <->
   match dict_get a (le_attrs e) with
   | Some (VStr s) => ~ In s (split_comma (l_library L))
   | Some VFlag => True
   | None => ~ In [] (split_comma (l_library L))
   end).
Proof. exact in_library_check_spec. Qed.
Print Assumptions C14_rule_in_library.

(* The rule consults the HEADER of the schema being checked and nothing else: the environment (which libraries
   and versions are released, what the cache holds), the id-range data and the repairs play no role -- a foreign
   name is foreign even when it is the name of another released library.
   NOTE: this holds BY CONSTRUCTION of the model (run_validator passes neither fx, E nor I to in_library_check;
   the proof is eq_refl).  It documents the modelling decision; that the implementation behaves so is what the
   correspondence run checks (seeds with the names of other released libraries). *)
Theorem C14_rule_in_library_header_only : forall fx1 fx2 E1 E2 I1 I2 L e a,
  run_validator fx1 E1 I1 L V_in_library_check e a = run_validator fx2 E2 I2 L V_in_library_check e a.
Proof. exact (fun _ _ _ _ _ _ _ _ _ => eq_refl). Qed.
Print Assumptions C14_rule_in_library_header_only.

Theorem C14_rule_in_library_same_header : forall L1 L2 e a,
  l_library L1 = l_library L2 -> in_library_check L1 e a = in_library_check L2 e a.
Proof. exact in_library_depends_on_header_only. Qed.
Print Assumptions C14_rule_in_library_same_header.

Theorem C14_rule_conversion_factor : forall L e a,
  exists ks, conversion_factor L e a = Ok ks /\
  (In K_SCHEMA_CONVERSION_FACTOR_NOT_POSITIVE ks <->
   exists v, dict_get a (le_attrs e) = Some v /\ bad_conversion_factor v).
Proof. exact conversion_factor_spec. Qed.
Print Assumptions C14_rule_conversion_factor.

Theorem C14_rule_allowed_characters : forall L e a s,
  dict_get a (le_attrs e) = Some (VStr s) ->
  exists ks, allowed_characters_check L e a = Ok ks /\
  (In K_SCHEMA_ALLOWED_CHARACTERS_INVALID ks <->
   exists c, In c (split_comma s) /\ ~ In c character_type_names /\ List.length c <> 1%nat).
Proof. exact allowed_characters_spec. Qed.
Print Assumptions C14_rule_allowed_characters.

Theorem C14_rule_placeholder : forall L e a,
  le_sec e = SecTags ->
  exists ks, tag_is_placeholder_check L e a = Ok ks /\
  (In K_SCHEMA_NON_PLACEHOLDER_HAS_CLASS ks <-> ends_with slash_hash (le_name e) = false).
Proof. exact placeholder_spec. Qed.
Print Assumptions C14_rule_placeholder.

Theorem C14_rule_item_exists : forall sec L e a s ks,
  (sec = SecTags \/ sec = SecUnitClasses \/ sec = SecValueClasses) ->
  dict_get a (le_attrs e) = Some (VStr s) ->
  item_exists_check sec L e a = Ok ks ->
  (In K_SCHEMA_GENERIC_ATTRIBUTE_VALUE_INVALID ks <->
   exists item, In item (split_comma s) /\ item <> [] /\ lookup L sec item = None).
Proof. exact item_exists_spec. Qed.
Print Assumptions C14_rule_item_exists.

Theorem C14_rule_unit_exists : forall L e a u,
  le_sec e = SecUnitClasses -> dict_get a (le_attrs e) = Some (VStr u) ->
  exists ks, unit_exists L e a = Ok ks /\
  (In K_SCHEMA_DEFAULT_UNITS_INVALID ks <-> u <> [] /\ get_derivative_unit_entry L e u = None).
Proof. exact unit_exists_spec. Qed.
Print Assumptions C14_rule_unit_exists.

(* item_exists_check and deprecation.  C14_rule_item_exists above holds for EVERY entry e -- no hypothesis
   about e's own deprecatedFrom: a missing item is reported on a deprecated node like on any other (made
   explicit by the instance below).  The entry's deprecatedFrom matters in one place only: "refers to a
   deprecated item" is reported iff the item exists, IS deprecated, and the referring entry is not. *)
Theorem C14_rule_item_missing_on_deprecated_entry : forall sec L e a s ks item,
  (sec = SecTags \/ sec = SecUnitClasses \/ sec = SecValueClasses) ->
  has_attr e HedKey_DeprecatedFrom = true ->
  dict_get a (le_attrs e) = Some (VStr s) ->
  item_exists_check sec L e a = Ok ks ->
  In item (split_comma s) -> item <> [] -> lookup L sec item = None ->
  In K_SCHEMA_GENERIC_ATTRIBUTE_VALUE_INVALID ks.
Proof. exact item_missing_reported_on_deprecated_entry. Qed.
Print Assumptions C14_rule_item_missing_on_deprecated_entry.

Theorem C14_rule_item_deprecated : forall sec L e a s ks,
  (sec = SecTags \/ sec = SecUnitClasses \/ sec = SecValueClasses) ->
  dict_get a (le_attrs e) = Some (VStr s) ->
  item_exists_check sec L e a = Ok ks ->
  (In K_SCHEMA_ATTRIBUTE_VALUE_DEPRECATED ks <->
   exists item ie, In item (split_comma s) /\ item <> [] /\ lookup L sec item = Some ie
                   /\ has_attr ie HedKey_DeprecatedFrom = true /\ has_attr e HedKey_DeprecatedFrom = false).
Proof. exact item_exists_deprecated_spec. Qed.
Print Assumptions C14_rule_item_deprecated.

(* WHICH ATTRIBUTES ARE UNDECLARED.  For a schema loaded from its XML, an attribute of an entry is recorded
   as undeclared exactly when it is not among the valid attributes OF THE ENTRY'S OWN SECTION
   ([declared_for b L sec] = HedSchema._get_attributes_for_section under the 8.3 flag b).  Whether the schema
   declares the name for some OTHER section plays no role.  Unit modifiers and value classes are judged at
   load time (flag p83 from the header versions) and again in finalize_entry (final flag); attribute and
   property definitions in finalize_entry only; units and tags at load time only.  (Unit classes: same rule
   as units in the model; not restated here.) *)
Theorem C14_undeclared_modifiers_value_classes : forall E S L p83 sec e a,
  load E S = Ok L -> version_ge_83 S = Ok p83 ->
  sec = SecUnitModifiers \/ sec = SecValueClasses -> In e (section_all L sec) ->
  (In a (le_unknown e) <->
   In a (map fst (le_attrs e)) /\ ~ In a (declared_for p83 L sec) /\ ~ In a (declared_for (l_is83 L) L sec)).
Proof. exact load_unknown_modifiers_value_classes. Qed.
Print Assumptions C14_undeclared_modifiers_value_classes.

Theorem C14_undeclared_definitions : forall E S L p83 sec e a,
  load E S = Ok L -> version_ge_83 S = Ok p83 ->
  sec = SecAttributes \/ sec = SecProperties -> In e (section_all L sec) ->
  (In a (le_unknown e) <-> In a (map fst (le_attrs e)) /\ ~ In a (declared_for (l_is83 L) L sec)).
Proof. exact load_unknown_definitions. Qed.
Print Assumptions C14_undeclared_definitions.

Theorem C14_undeclared_units : forall E S L p83 e a,
  load E S = Ok L -> version_ge_83 S = Ok p83 -> In e (l_units L) ->
  (In a (le_unknown e) <-> In a (map fst (le_attrs e)) /\ ~ In a (declared_for p83 L SecUnits)).
Proof. exact load_unknown_units. Qed.
Print Assumptions C14_undeclared_units.

Theorem C14_undeclared_tags : forall E S L p83 e a,
  load E S = Ok L -> version_ge_83 S = Ok p83 -> In e (l_tags L) ->
  (In a (le_unknown e) <-> In a (map fst (le_attrs e)) /\ ~ In a (declared_for p83 L SecTags)).
Proof. exact load_unknown_tags. Qed.
Print Assumptions C14_undeclared_tags.

(* deprecatedFrom: an unknown version fires, a known and strictly older one is silent *)
Theorem C14_rule_deprecated_unknown : forall fx E L e a s ks,
  dict_get a (le_attrs e) = Some (VStr s) ->
  ~ In s (versions_for E (entry_library fx L e)) ->
  tag_is_deprecated_check fx E L e a = Ok ks -> In K_SCHEMA_DEPRECATED_INVALID ks.
Proof. exact deprecated_unknown_fires. Qed.
Print Assumptions C14_rule_deprecated_unknown.

Theorem C14_rule_deprecated_not_older : forall fx E L e a s lv v1 v2 ks,
  dict_get a (le_attrs e) = Some (VStr s) ->
  schema_version_for_library L (entry_library fx L e) = Some lv -> lv <> [] ->
  parse_version lv = Ok v1 -> parse_version s = Ok v2 -> version_leb v1 v2 = true ->
  tag_is_deprecated_check fx E L e a = Ok ks -> In K_SCHEMA_DEPRECATED_INVALID ks.
Proof. exact deprecated_not_older_fires. Qed.
Print Assumptions C14_rule_deprecated_not_older.

Theorem C14_rule_deprecated_ok_silent : forall fx E L e a s lv v1 v2 ks,
  dict_get a (le_attrs e) = Some (VStr s) ->
  In s (versions_for E (entry_library fx L e)) ->
  schema_version_for_library L (entry_library fx L e) = Some lv -> lv <> [] ->
  parse_version lv = Ok v1 -> parse_version s = Ok v2 -> version_leb v1 v2 = false ->
  tag_is_deprecated_check fx E L e a = Ok ks -> ~ In K_SCHEMA_DEPRECATED_INVALID ks.
Proof. exact deprecated_ok_silent. Qed.
Print Assumptions C14_rule_deprecated_ok_silent.

(* which rules run for which attribute: read from the translated old / 8.3 tables *)
Theorem C14_item_rule_applies_old : forall L,
  l_is83 L = false ->
  In (V_item_exists_check SecTags) (get_validators L HedKey_SuggestedTag) /\
  In (V_item_exists_check SecTags) (get_validators L HedKey_RelatedTag) /\
  In (V_item_exists_check SecUnitClasses) (get_validators L HedKey_UnitClass) /\
  In (V_item_exists_check SecValueClasses) (get_validators L HedKey_ValueClass).
Proof.
  exact (fun L H => conj (item_validator_old_tag L _ H (or_introl eq_refl))
                   (conj (item_validator_old_tag L _ H (or_intror eq_refl))
                   (conj (item_validator_old_unit_class L H) (item_validator_old_value_class L H)))).
Qed.
Print Assumptions C14_item_rule_applies_old.

Theorem C14_item_rule_applies_new : forall L a ae pv tsec p,
  l_is83 L = true -> lookup L SecAttributes a = Some ae -> In (p, pv) (le_attrs ae) ->
  (p = HedKey_TagRange /\ tsec = SecTags) \/ (p = HedKey_UnitClassRange /\ tsec = SecUnitClasses)
  \/ (p = HedKey_ValueClassRange /\ tsec = SecValueClasses) ->
  In (V_item_exists_check tsec) (get_validators L a).
Proof. exact item_validator_new. Qed.
Print Assumptions C14_item_rule_applies_new.

Theorem C14_default_units_rule_applies : forall L,
  (l_is83 L = false -> In V_unit_exists (get_validators L HedKey_DefaultUnits)) /\
  (forall a ae pv, l_is83 L = true -> lookup L SecAttributes a = Some ae ->
                   In (HedKey_UnitRange, pv) (le_attrs ae) -> In V_unit_exists (get_validators L a)).
Proof. exact (fun L => conj (unit_validator_old L) (unit_validator_new L)). Qed.
Print Assumptions C14_default_units_rule_applies.

(* ================= clause 2: a seeded fault is reported with the specification's code =================

   THE CODE AS IT IS IN /repo (fixed_all; fix: commits 55e2b09, 5844fee).  The statement
     seeded_fault_reported : Compliant S -> Seed k pos S S' -> In (spec_code k) (codes (check S'))
   is proved without any "the check does not raise" hypothesis.  What is left of it is named by cause:

     checkable E L :=  HedIDValidator.__init__ and the prerelease check succeed in E (header and cache
                       versions are MAJOR.MINOR.PATCH, the previous versions can be loaded)
                   /\  well_valued: every DECLARED attribute of every visited entry meets validators
                       written for its entry class and value type ([applicable]: tag_is_placeholder_check
                       on tags, unit_exists on unit classes, a string rather than value-less value for
                       item_exists / allowedCharacter / unit_exists / hedId, readable versions for
                       deprecatedFrom).

   Since fix: commit 55e2b09, undeclared attributes are not looked at by [well_valued] at all (skip_attribute),
   which is exactly what C14-F1 was about: seeding an undeclared attribute cannot make the check raise.
   [skip_attribute fixed_all e a = false] in the other theorems says "a is declared for e's section"
   (otherwise the fault present at e IS the undeclared attribute, theorem C14_seeded_undeclared_attribute).

   HOW THE PREMISE [checkable] IS ESTABLISHED (it is a universally quantified Prop, so this matters):
     * it is decidable: C14_checkable_decided gives a boolean pass ([evaluate]) that is sound for it;
     * it HOLDS of all nine eligible bundled schemas as loaded by the model: C14_bundled_schemas_checkable
       (kernel evaluation, same pass that establishes clause 1);
     * it is PRESERVED by a one-attribute seed: C14_seed_preserves_checkable -- L' is L with one entry e of one
       section replaced by e' that differs from e in the single attribute a (header and attribute definitions
       untouched); then checkable E L -> checkable E L', provided a is undeclared for the section OR meets its own
       rules (string value, right entry class), and the entry's own inLibrary value is unchanged (so: not for the
       inLibrary seed itself on an entry that also carries deprecatedFrom/hedId rules -- there the premise must be
       re-established, which the boolean pass does);
     * three seeded bundled schemas are taken THROUGH the theorems, every premise established by kernel
       evaluation: C14_seeded_examples_through_theorems (foreign inLibrary, undeclared defaultUnits = the old
       C14-F1 witness, out-of-range hedId on a nested library tag = the old C14-F2 witness).
   NOT PROVED IN GENERAL: that the record [load E S'] of the seeded XML stands in the relation
   [one_attribute_seed] to [load E S] (a statement about the loader).  It is DECIDED by evaluation for given S, S'
   (C14_seed_relation_decided) and exhibited for one instance (C14_seed_preservation_instance).  The duplicate-node seed adds an entry rather than an attribute and
   is not covered by the preservation lemma.

   SEVERITY.  Conclusions are stated with warnings ON.  By C14_attribute_findings_are_warnings every finding of an
   attribute rule is a warning, so nine of the fault kinds are reported with warnings on only -- which is what the
   statement's last clause says; the two error kinds (duplicate node, undeclared attribute) are concluded on
   [filter is_error] and therefore also with warnings off (C14_warnings_off_only_errors). *)

Theorem C14_checkable_decided : forall E S errs,
  evaluate E S = Ok (errs, true) ->
  errors_of (check_compliance fixed_all E true S) = Ok errs
  /\ exists L, load E S = Ok L /\ checkable E L.
Proof. exact evaluate_sound. Qed.
Print Assumptions C14_checkable_decided.

Theorem C14_bundled_schemas_checkable :
  (exists L, load env_8_0_0 Gen.Schema_8_0_0_c14.schema = Ok L /\ checkable env_8_0_0 L) /\
  (exists L, load env_8_1_0 Gen.Schema_8_1_0_c14.schema = Ok L /\ checkable env_8_1_0 L) /\
  (exists L, load env_8_2_0 Gen.Schema_8_2_0_c14.schema = Ok L /\ checkable env_8_2_0 L) /\
  (exists L, load env_8_3_0 Gen.Schema_8_3_0_c14.schema = Ok L /\ checkable env_8_3_0 L) /\
  (exists L, load env_score_1_1_0 Gen.Schema_score_1_1_0_c14.schema = Ok L /\ checkable env_score_1_1_0 L) /\
  (exists L, load env_score_2_0_0 Gen.Schema_score_2_0_0_c14.schema = Ok L /\ checkable env_score_2_0_0 L) /\
  (exists L, load env_testlib_2_0_0 Gen.Schema_testlib_2_0_0_c14.schema = Ok L /\ checkable env_testlib_2_0_0 L) /\
  (exists L, load env_testlib_2_1_0 Gen.Schema_testlib_2_1_0_c14.schema = Ok L /\ checkable env_testlib_2_1_0 L) /\
  (exists L, load env_testlib_3_0_0 Gen.Schema_testlib_3_0_0_c14.schema = Ok L /\ checkable env_testlib_3_0_0 L).
Proof.
  exact (conj checkable_8_0_0 (conj checkable_8_1_0 (conj checkable_8_2_0 (conj checkable_8_3_0
        (conj checkable_score_1_1_0 (conj checkable_score_2_0_0 (conj checkable_testlib_2_0_0
        (conj checkable_testlib_2_1_0 checkable_testlib_3_0_0)))))))).
Qed.
Print Assumptions C14_bundled_schemas_checkable.

Theorem C14_seed_preserves_checkable : forall E L L' sec e e' a,
  checkable E L -> one_attribute_seed L L' sec e e' a ->
  dict_get HedKey_InLibrary (le_attrs e') = dict_get HedKey_InLibrary (le_attrs e) ->
  (skip_attribute fixed_all e' a = true
   \/ forall I v, id_validator_init E L = Ok I -> In v (get_validators L a) -> applicable fixed_all E I L' v e' a) ->
  checkable E L'.
Proof. exact seed_preserves_checkable. Qed.
Print Assumptions C14_seed_preserves_checkable.

(* AN INSTANCE of the relation [one_attribute_seed], used through the preservation lemma: 8.3.0 and 8.3.0 with the
   attribute takesValue (declared for tags only) added to the unit modifier "deca".  The relation between the two
   LOADED records is decided by kernel evaluation ([appended_seed_raw]: equalities of closed terms, sound for
   [one_attribute_seed] by appended_seed_sound); [checkable] of the original is C14_bundled_schemas_checkable;
   [checkable] of the seeded schema is then DERIVED by C14_seed_preserves_checkable (skip_attribute branch) -- the
   checker is not evaluated on the seeded schema.  This is the one instance exhibited: the "meets its own rules"
   branch of the lemma and seeds on tags whose attribute is inherited by child entries (their inherited views
   change, which the relation as stated does not allow) have no instance. *)
Theorem C14_seed_relation_decided : forall E S S' sec name a v,
  (exists L, load E S = Ok L /\ checkable E L) ->
  appended_seed_raw E S S' sec name a v ->
  exists L', load E S' = Ok L' /\ checkable E L'.
Proof. exact checkable_of_appended_seed. Qed.
Print Assumptions C14_seed_relation_decided.

Theorem C14_seed_preservation_instance :
  appended_seed_raw env_8_3_0 Gen.Schema_8_3_0_c14.schema seeded_takes_value_on_deca_830
                    SecUnitModifiers (s2str "deca") HedKey_TakesValue VFlag
  /\ exists L', load env_8_3_0 seeded_takes_value_on_deca_830 = Ok L' /\ checkable env_8_3_0 L'.
Proof. exact (conj seed_relation_830_deca ex_checkable_through_seed_lemma). Qed.
Print Assumptions C14_seed_preservation_instance.

(* three seeded bundled schemas, through C14_seeded_in_library / C14_seeded_undeclared_attribute /
   C14_seeded_hed_id_range: the conclusion is obtained FROM the theorem, its premises from kernel evaluation *)
Theorem C14_seeded_examples_through_theorems :
  (exists L issues, load env_830 seeded_in_library_830 = Ok L /\ check_loaded fixed_all env_830 true L = Ok issues
                    /\ In (spec_code F_in_library) (codes issues))
  /\ (exists L issues, load env_830 seeded_default_units_on_tag_830 = Ok L
                       /\ check_loaded fixed_all env_830 true L = Ok issues
                       /\ In (spec_code F_undeclared_attribute) (codes (filter is_error issues)))
  /\ (exists L issues, load env_score200 seeded_hed_id_score_200 = Ok L
                       /\ check_loaded fixed_all env_score200 true L = Ok issues
                       /\ In (spec_code F_hed_id) (codes issues)).
Proof. exact (conj ex_in_library_through_theorem (conj ex_undeclared_through_theorem ex_hed_id_through_theorem)). Qed.
Print Assumptions C14_seeded_examples_through_theorems.

Theorem C14_check_does_not_raise : forall fx E L I pre,
  id_validator_init E L = Ok I -> check_if_prerelease_version E true L = Ok pre ->
  well_valued fx E I L -> exists issues, check_loaded fx E true L = Ok issues.
Proof. exact check_loaded_total. Qed.
Print Assumptions C14_check_does_not_raise.

Theorem C14_rule_total_when_applicable : forall fx E I L v e a,
  applicable fx E I L v e a -> exists ks, run_validator fx E I L v e a = Ok ks.
Proof. exact applicable_total. Qed.
Print Assumptions C14_rule_total_when_applicable.

Theorem C14_seeded_duplicate_node : forall E L sec d name ents,
  checkable E L -> In (sec, d) (l_dups L) -> In (name, ents) d ->
  (forall x y, In x ents -> In y ents -> snd x = snd y) ->      (* same origin: all library or all standard *)
  exists issues, check_loaded fixed_all E true L = Ok issues
                 /\ In (spec_code F_duplicate_node) (codes (filter is_error issues)).
Proof. exact seeded_duplicate_full. Qed.
Print Assumptions C14_seeded_duplicate_node.

Theorem C14_seeded_undeclared_attribute : forall E L sec e a,
  checkable E L -> In e (section_values L sec) -> In a (le_unknown e) ->
  exists issues, check_loaded fixed_all E true L = Ok issues
                 /\ In (spec_code F_undeclared_attribute) (codes (filter is_error issues)).
Proof. exact seeded_undeclared_full. Qed.
Print Assumptions C14_seeded_undeclared_attribute.

(* ONE theorem for three fault kinds (unknown suggested/related tag, unit class, value class), selected by tsec.
   That the attribute a actually carries the existence rule is the separate premise
   [In (V_item_exists_check tsec) (get_validators L a)]: in general it follows from C14_item_rule_applies_old
   (pre-8.3 table) or C14_item_rule_applies_new (8.3: the attribute's DEFINITION must carry tagRange /
   unitClassRange / valueClassRange -- a schema whose definition lacks the range property does not check the
   reference at all); for the nine bundled schemas it is established by C14_bundled_reference_rules. *)
Theorem C14_bundled_reference_rules :
  loaded_has_reference_rules env_8_0_0 Gen.Schema_8_0_0_c14.schema = true /\
  loaded_has_reference_rules env_8_1_0 Gen.Schema_8_1_0_c14.schema = true /\
  loaded_has_reference_rules env_8_2_0 Gen.Schema_8_2_0_c14.schema = true /\
  loaded_has_reference_rules env_8_3_0 Gen.Schema_8_3_0_c14.schema = true /\
  loaded_has_reference_rules env_score_1_1_0 Gen.Schema_score_1_1_0_c14.schema = true /\
  loaded_has_reference_rules env_score_2_0_0 Gen.Schema_score_2_0_0_c14.schema = true /\
  loaded_has_reference_rules env_testlib_2_0_0 Gen.Schema_testlib_2_0_0_c14.schema = true /\
  loaded_has_reference_rules env_testlib_2_1_0 Gen.Schema_testlib_2_1_0_c14.schema = true /\
  loaded_has_reference_rules env_testlib_3_0_0 Gen.Schema_testlib_3_0_0_c14.schema = true.
Proof.
  exact (conj reference_rules_8_0_0 (conj reference_rules_8_1_0 (conj reference_rules_8_2_0 (conj reference_rules_8_3_0
        (conj reference_rules_score_1_1_0 (conj reference_rules_score_2_0_0 (conj reference_rules_testlib_2_0_0
        (conj reference_rules_testlib_2_1_0 reference_rules_testlib_3_0_0)))))))).
Qed.
Print Assumptions C14_bundled_reference_rules.

Theorem C14_reference_rules_meaning : forall E S,
  loaded_has_reference_rules E S = true ->
  exists L, load E S = Ok L
  /\ In (V_item_exists_check SecTags) (get_validators L HedKey_SuggestedTag)
  /\ In (V_item_exists_check SecTags) (get_validators L HedKey_RelatedTag)
  /\ In (V_item_exists_check SecUnitClasses) (get_validators L HedKey_UnitClass)
  /\ In (V_item_exists_check SecValueClasses) (get_validators L HedKey_ValueClass)
  /\ In V_unit_exists (get_validators L HedKey_DefaultUnits).
Proof. exact loaded_has_reference_rules_sound. Qed.
Print Assumptions C14_reference_rules_meaning.

Theorem C14_seeded_unknown_item : forall E L sec e a s tsec item,
  checkable E L -> In e (section_values L sec) ->
  dict_get a (le_attrs e) = Some (VStr s) -> skip_attribute fixed_all e a = false ->
  In (V_item_exists_check tsec) (get_validators L a) ->
  (tsec = SecTags \/ tsec = SecUnitClasses \/ tsec = SecValueClasses) ->
  In item (split_comma s) -> item <> [] -> lookup L tsec item = None ->
  exists issues, check_loaded fixed_all E true L = Ok issues
                 /\ In (spec_code F_unknown_tag) (codes issues).  (* = F_unknown_unit_class = F_unknown_value_class *)
Proof. exact seeded_unknown_item_full. Qed.
Print Assumptions C14_seeded_unknown_item.

Theorem C14_seeded_class_on_non_placeholder : forall E L sec e a val,
  checkable E L -> In e (section_values L sec) -> le_sec e = SecTags ->
  dict_get a (le_attrs e) = Some val -> skip_attribute fixed_all e a = false ->
  a = HedKey_UnitClass \/ a = HedKey_ValueClass \/ a = HedKey_TakesValue ->
  ends_with slash_hash (le_name e) = false ->
  exists issues, check_loaded fixed_all E true L = Ok issues
                 /\ In (spec_code F_class_on_non_placeholder) (codes issues).
Proof. exact seeded_class_on_non_placeholder_full. Qed.
Print Assumptions C14_seeded_class_on_non_placeholder.

Theorem C14_seeded_deprecated_unknown : forall E L sec e s,
  checkable E L -> In e (section_values L sec) ->
  dict_get HedKey_DeprecatedFrom (le_attrs e) = Some (VStr s) ->
  skip_attribute fixed_all e HedKey_DeprecatedFrom = false ->
  ~ In s (versions_for E (entry_library fixed_all L e)) ->
  exists issues, check_loaded fixed_all E true L = Ok issues
                 /\ In (spec_code F_deprecated_from) (codes issues).
Proof. exact seeded_deprecated_unknown_full. Qed.
Print Assumptions C14_seeded_deprecated_unknown.

Theorem C14_seeded_deprecated_not_older : forall E L sec e s lv v1 v2,
  checkable E L -> In e (section_values L sec) ->
  dict_get HedKey_DeprecatedFrom (le_attrs e) = Some (VStr s) ->
  skip_attribute fixed_all e HedKey_DeprecatedFrom = false ->
  schema_version_for_library L (entry_library fixed_all L e) = Some lv -> lv <> [] ->
  parse_version lv = Ok v1 -> parse_version s = Ok v2 -> version_leb v1 v2 = true ->
  exists issues, check_loaded fixed_all E true L = Ok issues
                 /\ In (spec_code F_deprecated_from) (codes issues).
Proof. exact seeded_deprecated_not_older_full. Qed.
Print Assumptions C14_seeded_deprecated_not_older.

Theorem C14_seeded_conversion_factor : forall E L sec e val,
  checkable E L -> In e (section_values L sec) ->
  dict_get HedKey_ConversionFactor (le_attrs e) = Some val ->
  skip_attribute fixed_all e HedKey_ConversionFactor = false -> bad_conversion_factor val ->
  exists issues, check_loaded fixed_all E true L = Ok issues
                 /\ In (spec_code F_conversion_factor) (codes issues).
Proof. exact seeded_conversion_factor_full. Qed.
Print Assumptions C14_seeded_conversion_factor.

Theorem C14_seeded_default_units : forall E L sec e a u,
  checkable E L -> In e (section_values L sec) -> le_sec e = SecUnitClasses ->
  dict_get a (le_attrs e) = Some (VStr u) -> skip_attribute fixed_all e a = false ->
  In V_unit_exists (get_validators L a) ->
  u <> [] -> get_derivative_unit_entry L e u = None ->
  exists issues, check_loaded fixed_all E true L = Ok issues
                 /\ In (spec_code F_default_units) (codes issues).
Proof. exact seeded_default_units_full. Qed.
Print Assumptions C14_seeded_default_units.

Theorem C14_seeded_allowed_character : forall E L sec e s c,
  checkable E L -> In e (section_values L sec) ->
  dict_get HedKey_AllowedCharacter (le_attrs e) = Some (VStr s) ->
  skip_attribute fixed_all e HedKey_AllowedCharacter = false ->
  In c (split_comma s) -> ~ In c character_type_names -> List.length c <> 1%nat ->
  exists issues, check_loaded fixed_all E true L = Ok issues
                 /\ In (spec_code F_allowed_character) (codes issues).
Proof. exact seeded_allowed_character_full. Qed.
Print Assumptions C14_seeded_allowed_character.

Theorem C14_seeded_in_library : forall E L sec e s,
  checkable E L -> In e (section_values L sec) ->
  dict_get HedKey_InLibrary (le_attrs e) = Some (VStr s) ->
  skip_attribute fixed_all e HedKey_InLibrary = false ->
  ~ In s (split_comma (l_library L)) ->
  exists issues, check_loaded fixed_all E true L = Ok issues
                 /\ In (spec_code F_in_library) (codes issues).
Proof. exact seeded_in_library_full. Qed.
Print Assumptions C14_seeded_in_library.

(* hedId out of range: ANY library entry -- nested under other library tags or not -- is judged by its
   OWN inLibrary value k; k is a library of the header and library_data.json gives it a range. *)
Theorem C14_seeded_hed_id_range : forall E L sec e s nid k lo hi,
  checkable E L -> l_is83 L = true -> In e (section_values L sec) ->
  dict_get HedKey_HedID (le_attrs e) = Some (VStr s) -> skip_attribute fixed_all e HedKey_HedID = false ->
  parse_int (remove_prefix s hed_prefix) = Some nid ->
  dict_get HedKey_InLibrary (le_attrs e) = Some (VStr k) ->
  In k (map snd (zip_str (split_comma (l_version L)) (split_comma (l_library L)))) ->
  dict_get k (env_ranges E) = Some (lo, hi) ->
  (nid < lo \/ hi < nid)%Z ->
  exists issues, check_loaded fixed_all E true L = Ok issues
                 /\ In (spec_code F_hed_id) (codes issues).
Proof. exact seeded_hed_id_range_full. Qed.
Print Assumptions C14_seeded_hed_id_range.

(* the validator knows the id range of every library named in the header *)
Theorem C14_id_ranges_of_header_libraries : forall E L I k r,
  id_validator_init E L = Ok I ->
  In k (map snd (zip_str (split_comma (l_version L)) (split_comma (l_library L)))) ->
  dict_get k (env_ranges E) = Some r -> dict_get k (id_data I) = Some r.
Proof. exact id_data_of_init. Qed.
Print Assumptions C14_id_ranges_of_header_libraries.

(* entries of the standard part (no inLibrary; key "") and any other key: the range must be in id_data *)
Theorem C14_seeded_hed_id_range_by_key : forall fx E L I issues sec e s nid k lo hi,
  check_loaded fx E true L = Ok issues -> l_is83 L = true ->
  id_validator_init E L = Ok I ->
  In e (section_values L sec) ->
  dict_get HedKey_HedID (le_attrs e) = Some (VStr s) -> skip_attribute fx e HedKey_HedID = false ->
  parse_int (remove_prefix s hed_prefix) = Some nid ->
  tag_library_key fx e = Some k -> dict_get k (id_data I) = Some (lo, hi) ->
  (nid < lo \/ hi < nid)%Z ->
  In (spec_code F_hed_id) (codes issues).
Proof. exact seeded_hed_id_range. Qed.
Print Assumptions C14_seeded_hed_id_range_by_key.

(* THE RANGE RULE, edges included.  With no previous version of the entry's library to compare with, the
   hedId number n is reported exactly when n < lo or hi < n: both bounds belong to the range, and the number
   0 (HED_0000000) is an id like any other -- in particular it is out of every range with lo > 0. *)
Theorem C14_rule_hed_id_range : forall fx I L e a s nid k lo hi ks,
  dict_get a (le_attrs e) = Some (VStr s) ->
  parse_int (remove_prefix s hed_prefix) = Some nid ->
  tag_library_key fx e = Some k -> dict_get k (id_data I) = Some (lo, hi) ->
  dict_get k (id_prev I) = None ->
  verify_tag_id fx I L e a = Ok ks ->
  (In K_SCHEMA_HED_ID_INVALID ks <-> (nid < lo \/ hi < nid)%Z).
Proof. exact verify_tag_id_range_iff. Qed.
Print Assumptions C14_rule_hed_id_range.

Theorem C14_rule_hed_id_zero : forall fx I L e a s k lo hi ks,
  dict_get a (le_attrs e) = Some (VStr s) ->
  parse_int (remove_prefix s hed_prefix) = Some 0%Z ->
  tag_library_key fx e = Some k -> dict_get k (id_data I) = Some (lo, hi) -> (0 < lo)%Z ->
  verify_tag_id fx I L e a = Ok ks -> In K_SCHEMA_HED_ID_INVALID ks.
Proof. exact verify_tag_id_zero_reported. Qed.
Print Assumptions C14_rule_hed_id_zero.

(* the bounds in force, from the translated library_data.json: standard 10000..39999, score 40000..59999 *)
Theorem C14_bundled_id_ranges :
  dict_get [] Gen.C14_Env.id_ranges = Some (10000, 39999)%Z
  /\ dict_get (s2str "score") Gen.C14_Env.id_ranges = Some (40000, 59999)%Z
  /\ parse_int (remove_prefix (s2str "HED_0000000") hed_prefix) = Some 0%Z.
Proof. exact bundled_id_ranges. Qed.
Print Assumptions C14_bundled_id_ranges.

(* a changed hedId (not seedable on any bundled schema: no previous version records ids) *)
Theorem C14_seeded_hed_id_changed : forall E L I sec e s nid k Lp oe os oid,
  checkable E L -> l_is83 L = true -> id_validator_init E L = Ok I ->
  In e (section_values L sec) ->
  dict_get HedKey_HedID (le_attrs e) = Some (VStr s) -> skip_attribute fixed_all e HedKey_HedID = false ->
  parse_int (remove_prefix s hed_prefix) = Some nid ->
  tag_library_key fixed_all e = Some k -> dict_get k (id_prev I) = Some Lp ->
  lookup Lp (le_sec e) (le_name e) = Some oe ->
  dict_get HedKey_HedID (le_attrs oe) = Some (VStr os) ->
  parse_int (remove_prefix os hed_prefix) = Some oid -> oid <> 0%Z -> oid <> nid ->
  exists issues, check_loaded fixed_all E true L = Ok issues
                 /\ In (spec_code F_hed_id) (codes issues).
Proof. exact seeded_hed_id_changed_full. Qed.
Print Assumptions C14_seeded_hed_id_changed.

(* ================= clause 1: every eligible bundled schema passes with no error =================
   kernel evaluation (VM) of the model of the code as it is in /repo (fixed_all) on the translated XML data, in the
   environment of the package; [no_error] = no error-severity issue with warnings on AND an empty
   result with warnings off.  One theorem, so that the data is traversed once. *)
Theorem C14_bundled_schemas_compliant :
  no_error env_8_0_0 Gen.Schema_8_0_0_c14.schema /\
  no_error env_8_1_0 Gen.Schema_8_1_0_c14.schema /\
  no_error env_8_2_0 Gen.Schema_8_2_0_c14.schema /\
  no_error env_8_3_0 Gen.Schema_8_3_0_c14.schema /\
  no_error env_score_1_1_0 Gen.Schema_score_1_1_0_c14.schema /\
  no_error env_score_2_0_0 Gen.Schema_score_2_0_0_c14.schema /\
  no_error env_testlib_2_0_0 Gen.Schema_testlib_2_0_0_c14.schema /\
  no_error env_testlib_2_1_0 Gen.Schema_testlib_2_1_0_c14.schema /\
  no_error env_testlib_3_0_0 Gen.Schema_testlib_3_0_0_c14.schema.
Proof.
  exact (conj compliant_8_0_0 (conj compliant_8_1_0 (conj compliant_8_2_0 (conj compliant_8_3_0
        (conj compliant_score_1_1_0 (conj compliant_score_2_0_0 (conj compliant_testlib_2_0_0
        (conj compliant_testlib_2_1_0 compliant_testlib_3_0_0)))))))).
Qed.
Print Assumptions C14_bundled_schemas_compliant.

(* ================= non-vacuity and the old witnesses, on the code as it is in /repo (fixed_all) ================= *)
Example C14_nonvacuous_seeded_8_3_0 :
  res_codes (check_compliance fixed_all env_830 true seeded_in_library_830) = Ok [spec_code F_in_library]
  /\ check_compliance fixed_all env_830 false seeded_in_library_830 = Ok []
  /\ res_codes (check_compliance fixed_all env_830 false seeded_duplicate_830) = Ok [spec_code F_duplicate_node]
  (* the witness of C14-F1 (repaired by 55e2b09): reported, as an error, in both modes *)
  /\ res_codes (check_compliance fixed_all env_830 true seeded_default_units_on_tag_830)
     = Ok [spec_code F_undeclared_attribute]
  /\ res_codes (check_compliance fixed_all env_830 false seeded_default_units_on_tag_830)
     = Ok [spec_code F_undeclared_attribute].
Proof.
  exact (conj ex_seeded_in_library (conj ex_seeded_in_library_off (conj ex_seeded_duplicate
        ex_undeclared_attribute_reported))).
Qed.
Print Assumptions C14_nonvacuous_seeded_8_3_0.

(* the witness of C14-F2 (repaired by 5844fee): the out-of-range hedId of a nested library tag is reported *)
Example C14_nested_library_hed_id_reported :
  res_codes (check_compliance fixed_all env_score200 true seeded_hed_id_score_200) = Ok [spec_code F_hed_id].
Proof. exact ex_hed_id_out_of_range_reported. Qed.
Print Assumptions C14_nested_library_hed_id_reported.

(* ================= THE RECORD OF THE REPAIRED DEFECTS =================
   [fixed_none] = the behaviour BEFORE fix: commits 55e2b09 (C14-F1) and 5844fee (C14-F2).  These theorems are
   NOT about the implementation in /repo: there the property holds in the form proved above.  They record that
   for the code before those commits the full statement was false; both witnesses replay on a tree with the
   commits reverted (VERIF_C14_FIXED=0).  For that code only the `_partial` form held: for any fx, whenever the
   check does not raise, the fault is reported (C14_seeded_fault_partial_* below). *)
(* before 55e2b09: *)
Theorem C14_seeded_fault_reported_refuted_raises :
  has_tag s830 (s2str "Event") = true
  /\ check_compliance fixed_none env_830 true seeded_default_units_on_tag_830 = Exn AttributeError.
Proof. exact ex_undeclared_attribute_raised. Qed.
Print Assumptions C14_seeded_fault_reported_refuted_raises.

(* before 5844fee: *)

Theorem C14_seeded_fault_reported_refuted_hed_id :
  has_tag Gen.Schema_score_2_0_0_c14.schema n_rpp = true
  /\ check_compliance fixed_none env_score200 true seeded_hed_id_score_200 = Ok [].
Proof. exact ex_hed_id_out_of_range_unreported. Qed.
Print Assumptions C14_seeded_fault_reported_refuted_hed_id.

(* the partial form, for either version of the code: a finding of any rule that is run on a declared
   attribute of a visited entry reaches the result whenever the check returns *)
Theorem C14_seeded_fault_partial_any_rule : forall fx E L issues sec e a val v k,
  check_loaded fx E true L = Ok issues ->
  In e (section_values L sec) ->
  dict_get a (le_attrs e) = Some val ->
  skip_attribute fx e a = false ->
  In v (get_validators L a) ->
  (forall I ks, id_validator_init E L = Ok I -> run_validator fx E I L v e a = Ok ks -> In k ks) ->
  In (mkIssue k SevWarning (Some (le_sec e)) (Some (le_name e)) (Some a)) issues.
Proof. exact validator_issue_reported. Qed.
Print Assumptions C14_seeded_fault_partial_any_rule.

Theorem C14_seeded_fault_partial_undeclared : forall fx E warn L issues sec e a,
  check_loaded fx E warn L = Ok issues ->
  In e (section_values L sec) -> In a (le_unknown e) ->
  In (spec_code F_undeclared_attribute) (codes (filter is_error issues)).
Proof. exact seeded_undeclared. Qed.
Print Assumptions C14_seeded_fault_partial_undeclared.

Theorem C14_seeded_fault_partial_duplicate : forall fx E warn L issues sec d name ents,
  check_loaded fx E warn L = Ok issues ->
  In (sec, d) (l_dups L) -> In (name, ents) d ->
  (forall x y, In x ents -> In y ents -> snd x = snd y) ->
  In (spec_code F_duplicate_node) (codes (filter is_error issues)).
Proof. exact seeded_duplicate. Qed.
Print Assumptions C14_seeded_fault_partial_duplicate.
