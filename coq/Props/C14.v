(* C14 -- Schema compliance checking accepts released schemas and flags seeded faults.
   Property theorems only; each closed with [exact] and followed by Print Assumptions.

   Reading guide.  [check_compliance E warn S] models hed.schema.from_string(xml) followed by
   schema.check_compliance(check_for_warnings=warn) for the raw schema S (what the XML says) in the
   environment E (known released versions, library id ranges, previous-version schemas, plurals);
   [load E S = Ok L] is the loaded schema and [check_loaded E warn L] the check proper.  The seeded-
   fault theorems quantify over EVERY loaded schema L, every section and every entry e the check
   visits: "Seed k pos S S'" of the statement is the special case L = load S', e = the entry at pos. *)
From Coq Require Import List NArith ZArith String.
From HV Require Import Base.Res Base.Str Base.C14Base Gen.ComplianceTables Model.Compliance
     Proofs.ComplianceProofs Proofs.ComplianceExamples.
From HV Require Gen.Schema_8_0_0_c14 Gen.Schema_8_1_0_c14 Gen.Schema_8_2_0_c14 Gen.Schema_8_3_0_c14
     Gen.Schema_score_1_1_0_c14 Gen.Schema_score_2_0_0_c14 Gen.Schema_testlib_2_0_0_c14
     Gen.Schema_testlib_2_1_0_c14 Gen.Schema_testlib_3_0_0_c14.
Import ListNotations.
Local Open Scope string_scope.

(* ---- the specification's code for each fault kind of the statement (written by hand from the HED
   specification's schema error names, as hed/errors/error_types.py publishes them today).  The model
   obtains its codes from the translated decorator table (Gen/ComplianceTables.v: kind_code), so an
   edited actual_code makes the theorems below fail to type-check. *)
Inductive fault : Set :=
| F_duplicate_node | F_undeclared_attribute | F_unknown_unit_class | F_unknown_value_class
| F_unknown_tag | F_class_on_non_placeholder | F_deprecated_from | F_conversion_factor
| F_default_units | F_allowed_character | F_in_library | F_hed_id.

Definition spec_code (f : fault) : str :=
  match f with
  | F_duplicate_node => s2str "SCHEMA_DUPLICATE_NODE"
  | F_undeclared_attribute => s2str "SCHEMA_ATTRIBUTE_INVALID"
  | F_deprecated_from => s2str "SCHEMA_DEPRECATION_ERROR"
  | F_unknown_unit_class | F_unknown_value_class | F_unknown_tag | F_class_on_non_placeholder
  | F_conversion_factor | F_default_units | F_allowed_character | F_in_library | F_hed_id =>
      s2str "SCHEMA_ATTRIBUTE_VALUE_INVALID"
  end.

(* ================= clause 3: with warnings off only errors are returned ================= *)

(* For every schema and environment: the result with warnings off is exactly the error-severity
   part of the result with warnings on (same exception behaviour). *)
Theorem C14_warnings_off_only_errors : forall (E : env) (S : rschema),
  check_compliance E false S = errors_of (check_compliance E true S).
Proof. exact check_compliance_off. Qed.
Print Assumptions C14_warnings_off_only_errors.

Theorem C14_warnings_off_all_errors : forall (E : env) (S : rschema) (l : list issue),
  check_compliance E false S = Ok l -> Forall (fun i => is_error i = true) l.
Proof. exact check_compliance_off_all_errors. Qed.
Print Assumptions C14_warnings_off_all_errors.

(* Every finding of an attribute validator is a warning (the downgrade in _run_validators). *)
Theorem C14_attribute_findings_are_warnings :
  forall E I L e a vs l i, run_validators E I true L e a vs = Ok l -> In i l -> i_sev i = SevWarning.
Proof. exact attribute_findings_are_warnings. Qed.
Print Assumptions C14_attribute_findings_are_warnings.

(* ================= the rules, one by one: reported <-> the fault is present ================= *)

Theorem C14_rule_in_library : forall L e a,
  exists ks, in_library_check L e a = Ok ks /\
  (In K_SCHEMA_IN_LIBRARY_INVALID ks <->
   match dict_get a (le_attrs e) with
   | Some (VStr s) => ~ In s (split_comma (l_library L))
   | Some VFlag => True
   | None => ~ In [] (split_comma (l_library L))
   end).
Proof. exact in_library_check_spec. Qed.
Print Assumptions C14_rule_in_library.

Theorem C14_rule_conversion_factor : forall L e a,
  exists ks, conversion_factor L e a = Ok ks /\
  (In K_SCHEMA_CONVERSION_FACTOR_NOT_POSITIVE ks <->
   exists v, dict_get a (le_attrs e) = Some v /\ bad_conversion_factor v).
Proof. exact conversion_factor_spec. Qed.
Print Assumptions C14_rule_conversion_factor.

Theorem C14_rule_allowed_characters : forall L e a s,
  dict_get a (le_attrs e) = Some (VStr s) ->
  exists ks, allowed_characters_check L e a = Ok ks /\
  (In K_SCHEMA_ALLOWED_CHARACTERS_INVALID ks <->
   exists c, In c (split_comma s) /\ ~ In c character_type_names /\ List.length c <> 1%nat).
Proof. exact allowed_characters_spec. Qed.
Print Assumptions C14_rule_allowed_characters.

Theorem C14_rule_placeholder : forall L e a,
  le_sec e = SecTags ->
  exists ks, tag_is_placeholder_check L e a = Ok ks /\
  (In K_SCHEMA_NON_PLACEHOLDER_HAS_CLASS ks <-> ends_with slash_hash (le_name e) = false).
Proof. exact placeholder_spec. Qed.
Print Assumptions C14_rule_placeholder.

Theorem C14_rule_item_exists : forall sec L e a s ks,
  (sec = SecTags \/ sec = SecUnitClasses \/ sec = SecValueClasses) ->
  dict_get a (le_attrs e) = Some (VStr s) ->
  item_exists_check sec L e a = Ok ks ->
  (In K_SCHEMA_GENERIC_ATTRIBUTE_VALUE_INVALID ks <->
   exists item, In item (split_comma s) /\ item <> [] /\ lookup L sec item = None).
Proof. exact item_exists_spec. Qed.
Print Assumptions C14_rule_item_exists.

Theorem C14_rule_unit_exists : forall L e a u,
  le_sec e = SecUnitClasses -> dict_get a (le_attrs e) = Some (VStr u) ->
  exists ks, unit_exists L e a = Ok ks /\
  (In K_SCHEMA_DEFAULT_UNITS_INVALID ks <-> u <> [] /\ get_derivative_unit_entry L e u = None).
Proof. exact unit_exists_spec. Qed.
Print Assumptions C14_rule_unit_exists.

(* deprecatedFrom: an unknown version fires, a known and strictly older one is silent *)
Theorem C14_rule_deprecated_unknown : forall E L e a s ks,
  dict_get a (le_attrs e) = Some (VStr s) ->
  ~ In s (versions_for E (entry_library L e)) ->
  tag_is_deprecated_check E L e a = Ok ks -> In K_SCHEMA_DEPRECATED_INVALID ks.
Proof. exact deprecated_unknown_fires. Qed.
Print Assumptions C14_rule_deprecated_unknown.

Theorem C14_rule_deprecated_not_older : forall E L e a s lv v1 v2 ks,
  dict_get a (le_attrs e) = Some (VStr s) ->
  schema_version_for_library L (entry_library L e) = Some lv -> lv <> [] ->
  parse_version lv = Ok v1 -> parse_version s = Ok v2 -> version_leb v1 v2 = true ->
  tag_is_deprecated_check E L e a = Ok ks -> In K_SCHEMA_DEPRECATED_INVALID ks.
Proof. exact deprecated_not_older_fires. Qed.
Print Assumptions C14_rule_deprecated_not_older.

Theorem C14_rule_deprecated_ok_silent : forall E L e a s lv v1 v2 ks,
  dict_get a (le_attrs e) = Some (VStr s) ->
  In s (versions_for E (entry_library L e)) ->
  schema_version_for_library L (entry_library L e) = Some lv -> lv <> [] ->
  parse_version lv = Ok v1 -> parse_version s = Ok v2 -> version_leb v1 v2 = false ->
  tag_is_deprecated_check E L e a = Ok ks -> ~ In K_SCHEMA_DEPRECATED_INVALID ks.
Proof. exact deprecated_ok_silent. Qed.
Print Assumptions C14_rule_deprecated_ok_silent.

(* ================= clause 2: a seeded fault is reported with the specification's code =================

   FULL STATEMENT (kept visible):
     seeded_fault_reported : Compliant S -> Seed k pos S S' ->
                             In (spec_code k) (codes (check_compliance E true S')).
   It is FALSE of the faithful model as stated, for two reasons that are genuine defects of the code
   (C14_seeded_fault_reported_refuted_raises / _refuted_hed_id below).  What IS proved, for all
   environments, all loaded schemas, all sections and all positions (entries): whenever the check does
   not raise, the fault at the entry is reported with the specification's code.  The hypotheses spell
   out "the fault is present at e"; for hedId the library of the entry must have an id range. *)

Theorem C14_seeded_duplicate_node_partial : forall E warn L issues sec d name ents,
  check_loaded E warn L = Ok issues ->
  In (sec, d) (l_dups L) -> In (name, ents) d ->
  (forall x y, In x ents -> In y ents -> snd x = snd y) ->      (* same origin: all library or all standard *)
  In (spec_code F_duplicate_node) (codes (filter is_error issues)).
Proof. exact seeded_duplicate. Qed.
Print Assumptions C14_seeded_duplicate_node_partial.

Theorem C14_seeded_undeclared_attribute_partial : forall E warn L issues sec e a,
  check_loaded E warn L = Ok issues ->
  In e (section_values L sec) -> In a (le_unknown e) ->
  In (spec_code F_undeclared_attribute) (codes (filter is_error issues)).
Proof. exact seeded_undeclared. Qed.
Print Assumptions C14_seeded_undeclared_attribute_partial.

(* unit class / value class / suggested or related tag that does not exist; which attributes carry
   the existence rule is read from the translated tables: *)
Theorem C14_item_rule_applies_old : forall L,
  l_is83 L = false ->
  In (V_item_exists_check SecTags) (get_validators L HedKey_SuggestedTag) /\
  In (V_item_exists_check SecTags) (get_validators L HedKey_RelatedTag) /\
  In (V_item_exists_check SecUnitClasses) (get_validators L HedKey_UnitClass) /\
  In (V_item_exists_check SecValueClasses) (get_validators L HedKey_ValueClass).
Proof.
  exact (fun L H => conj (item_validator_old_tag L _ H (or_introl eq_refl))
                   (conj (item_validator_old_tag L _ H (or_intror eq_refl))
                   (conj (item_validator_old_unit_class L H) (item_validator_old_value_class L H)))).
Qed.
Print Assumptions C14_item_rule_applies_old.

Theorem C14_item_rule_applies_new : forall L a ae pv tsec p,
  l_is83 L = true -> lookup L SecAttributes a = Some ae -> In (p, pv) (le_attrs ae) ->
  (p = HedKey_TagRange /\ tsec = SecTags) \/ (p = HedKey_UnitClassRange /\ tsec = SecUnitClasses)
  \/ (p = HedKey_ValueClassRange /\ tsec = SecValueClasses) ->
  In (V_item_exists_check tsec) (get_validators L a).
Proof. exact item_validator_new. Qed.
Print Assumptions C14_item_rule_applies_new.

Theorem C14_seeded_unknown_item_partial : forall E L issues sec e a s tsec item,
  check_loaded E true L = Ok issues ->
  In e (section_values L sec) ->
  dict_get a (le_attrs e) = Some (VStr s) ->
  In (V_item_exists_check tsec) (get_validators L a) ->
  (tsec = SecTags \/ tsec = SecUnitClasses \/ tsec = SecValueClasses) ->
  In item (split_comma s) -> item <> [] -> lookup L tsec item = None ->
  In (spec_code F_unknown_tag) (codes issues).        (* = spec_code F_unknown_unit_class = F_unknown_value_class *)
Proof. exact seeded_unknown_item. Qed.
Print Assumptions C14_seeded_unknown_item_partial.

Theorem C14_seeded_class_on_non_placeholder_partial : forall E L issues sec e a val,
  check_loaded E true L = Ok issues ->
  In e (section_values L sec) -> le_sec e = SecTags ->
  dict_get a (le_attrs e) = Some val ->
  a = HedKey_UnitClass \/ a = HedKey_ValueClass \/ a = HedKey_TakesValue ->
  ends_with slash_hash (le_name e) = false ->
  In (spec_code F_class_on_non_placeholder) (codes issues).
Proof. exact seeded_class_on_non_placeholder. Qed.
Print Assumptions C14_seeded_class_on_non_placeholder_partial.

Theorem C14_seeded_deprecated_unknown_partial : forall E L issues sec e s,
  check_loaded E true L = Ok issues ->
  In e (section_values L sec) ->
  dict_get HedKey_DeprecatedFrom (le_attrs e) = Some (VStr s) ->
  ~ In s (versions_for E (entry_library L e)) ->
  In (spec_code F_deprecated_from) (codes issues).
Proof. exact seeded_deprecated_unknown. Qed.
Print Assumptions C14_seeded_deprecated_unknown_partial.

Theorem C14_seeded_deprecated_not_older_partial : forall E L issues sec e s lv v1 v2,
  check_loaded E true L = Ok issues ->
  In e (section_values L sec) ->
  dict_get HedKey_DeprecatedFrom (le_attrs e) = Some (VStr s) ->
  schema_version_for_library L (entry_library L e) = Some lv -> lv <> [] ->
  parse_version lv = Ok v1 -> parse_version s = Ok v2 -> version_leb v1 v2 = true ->
  In (spec_code F_deprecated_from) (codes issues).
Proof. exact seeded_deprecated_not_older. Qed.
Print Assumptions C14_seeded_deprecated_not_older_partial.

Theorem C14_seeded_conversion_factor_partial : forall E L issues sec e val,
  check_loaded E true L = Ok issues ->
  In e (section_values L sec) ->
  dict_get HedKey_ConversionFactor (le_attrs e) = Some val -> bad_conversion_factor val ->
  In (spec_code F_conversion_factor) (codes issues).
Proof. exact seeded_conversion_factor. Qed.
Print Assumptions C14_seeded_conversion_factor_partial.

Theorem C14_default_units_rule_applies : forall L,
  (l_is83 L = false -> In V_unit_exists (get_validators L HedKey_DefaultUnits)) /\
  (forall a ae pv, l_is83 L = true -> lookup L SecAttributes a = Some ae ->
                   In (HedKey_UnitRange, pv) (le_attrs ae) -> In V_unit_exists (get_validators L a)).
Proof. exact (fun L => conj (unit_validator_old L) (unit_validator_new L)). Qed.
Print Assumptions C14_default_units_rule_applies.

Theorem C14_seeded_default_units_partial : forall E L issues sec e a u,
  check_loaded E true L = Ok issues ->
  In e (section_values L sec) -> le_sec e = SecUnitClasses ->
  dict_get a (le_attrs e) = Some (VStr u) ->
  In V_unit_exists (get_validators L a) ->
  u <> [] -> get_derivative_unit_entry L e u = None ->
  In (spec_code F_default_units) (codes issues).
Proof. exact seeded_default_units. Qed.
Print Assumptions C14_seeded_default_units_partial.

Theorem C14_seeded_allowed_character_partial : forall E L issues sec e s c,
  check_loaded E true L = Ok issues ->
  In e (section_values L sec) ->
  dict_get HedKey_AllowedCharacter (le_attrs e) = Some (VStr s) ->
  In c (split_comma s) -> ~ In c character_type_names -> List.length c <> 1%nat ->
  In (spec_code F_allowed_character) (codes issues).
Proof. exact seeded_allowed_character. Qed.
Print Assumptions C14_seeded_allowed_character_partial.

Theorem C14_seeded_in_library_partial : forall E L issues sec e s,
  check_loaded E true L = Ok issues ->
  In e (section_values L sec) ->
  dict_get HedKey_InLibrary (le_attrs e) = Some (VStr s) ->
  ~ In s (split_comma (l_library L)) ->
  In (spec_code F_in_library) (codes issues).
Proof. exact seeded_in_library. Qed.
Print Assumptions C14_seeded_in_library_partial.

Theorem C14_seeded_hed_id_range_partial : forall E L I issues sec e s nid k lo hi,
  check_loaded E true L = Ok issues -> l_is83 L = true ->
  id_validator_init E L = Ok I ->
  In e (section_values L sec) ->
  dict_get HedKey_HedID (le_attrs e) = Some (VStr s) ->
  parse_int (remove_prefix s hed_prefix) = Some nid ->
  tag_library_key e = Some k -> dict_get k (id_data I) = Some (lo, hi) ->   (* MISSING for nested library tags *)
  (nid < lo \/ hi < nid)%Z ->
  In (spec_code F_hed_id) (codes issues).
Proof. exact seeded_hed_id_range. Qed.
Print Assumptions C14_seeded_hed_id_range_partial.

Theorem C14_seeded_hed_id_changed_partial : forall E L I issues sec e s nid k Lp oe os oid,
  check_loaded E true L = Ok issues -> l_is83 L = true ->
  id_validator_init E L = Ok I ->
  In e (section_values L sec) ->
  dict_get HedKey_HedID (le_attrs e) = Some (VStr s) ->
  parse_int (remove_prefix s hed_prefix) = Some nid ->
  tag_library_key e = Some k -> dict_get k (id_prev I) = Some Lp ->
  lookup Lp (le_sec e) (le_name e) = Some oe ->
  dict_get HedKey_HedID (le_attrs oe) = Some (VStr os) ->
  parse_int (remove_prefix os hed_prefix) = Some oid -> oid <> 0%Z -> oid <> nid ->
  In (spec_code F_hed_id) (codes issues).
Proof. exact seeded_hed_id_changed. Qed.
Print Assumptions C14_seeded_hed_id_changed_partial.

(* The full statement is refuted by the faithful model (both witnesses replay on the implementation):
   (1) 8.3.0 with the undeclared attribute defaultUnits on the node Event: the check raises;
   (2) score_2.0.0 with hedId HED_9999999 on a nested library tag: nothing at all is reported. *)
Theorem C14_seeded_fault_reported_refuted_raises :
  check_compliance env_bundled true seeded_default_units_on_tag_830 = Exn AttributeError.
Proof. exact ex_undeclared_attribute_raises. Qed.
Print Assumptions C14_seeded_fault_reported_refuted_raises.

Theorem C14_seeded_fault_reported_refuted_hed_id :
  existsb (fun r => str_eqb (re_name r) n_rpp) (rs_tags Gen.Schema_score_2_0_0_c14.schema) = true
  /\ check_compliance env_bundled true seeded_hed_id_score_200 = Ok [].
Proof. exact ex_hed_id_out_of_range_unreported. Qed.
Print Assumptions C14_seeded_fault_reported_refuted_hed_id.

(* ================= clause 1: every eligible bundled schema passes with no error =================
   kernel evaluation of the model on the translated XML data (vm_compute), environment of the package *)
Theorem C14_compliant_8_0_0 : no_error Gen.Schema_8_0_0_c14.schema.
Proof. exact compliant_8_0_0. Qed.
Print Assumptions C14_compliant_8_0_0.
Theorem C14_compliant_8_1_0 : no_error Gen.Schema_8_1_0_c14.schema.
Proof. exact compliant_8_1_0. Qed.
Print Assumptions C14_compliant_8_1_0.
Theorem C14_compliant_8_2_0 : no_error Gen.Schema_8_2_0_c14.schema.
Proof. exact compliant_8_2_0. Qed.
Print Assumptions C14_compliant_8_2_0.
Theorem C14_compliant_8_3_0 : no_error Gen.Schema_8_3_0_c14.schema.
Proof. exact compliant_8_3_0. Qed.
Print Assumptions C14_compliant_8_3_0.
Theorem C14_compliant_score_1_1_0 : no_error Gen.Schema_score_1_1_0_c14.schema.
Proof. exact compliant_score_1_1_0. Qed.
Print Assumptions C14_compliant_score_1_1_0.
Theorem C14_compliant_score_2_0_0 : no_error Gen.Schema_score_2_0_0_c14.schema.
Proof. exact compliant_score_2_0_0. Qed.
Print Assumptions C14_compliant_score_2_0_0.
Theorem C14_compliant_testlib_2_0_0 : no_error Gen.Schema_testlib_2_0_0_c14.schema.
Proof. exact compliant_testlib_2_0_0. Qed.
Print Assumptions C14_compliant_testlib_2_0_0.
Theorem C14_compliant_testlib_2_1_0 : no_error Gen.Schema_testlib_2_1_0_c14.schema.
Proof. exact compliant_testlib_2_1_0. Qed.
Print Assumptions C14_compliant_testlib_2_1_0.
Theorem C14_compliant_testlib_3_0_0 : no_error Gen.Schema_testlib_3_0_0_c14.schema.
Proof. exact compliant_testlib_3_0_0. Qed.
Print Assumptions C14_compliant_testlib_3_0_0.

(* ================= non-vacuity: the hypotheses are met by concrete seeded bundled schemas ================= *)
Example C14_nonvacuous_in_library :
  exists issues, check_compliance env_bundled true seeded_in_library_830 = Ok issues
                 /\ In (spec_code F_in_library) (codes issues)
                 /\ check_compliance env_bundled false seeded_in_library_830 = Ok [].
Proof. exact ex_seeded_in_library. Qed.
Print Assumptions C14_nonvacuous_in_library.

Example C14_nonvacuous_duplicate :
  exists issues, check_compliance env_bundled false seeded_duplicate_830 = Ok issues
                 /\ In (spec_code F_duplicate_node) (codes issues).
Proof. exact ex_seeded_duplicate. Qed.
Print Assumptions C14_nonvacuous_duplicate.
