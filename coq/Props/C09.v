(* C09 -- Definitions expand to their declared content and shrink back losslessly.
   Property theorems only; each closed with [exact] and followed by Print Assumptions.
   Layers: Model/Defs.v (pure forests), Model/DefStore.v (heap with object identity),
   Model/DefObj.v (ownership trees = the reachable heap read as a tree with per-tag
   object state).
   Modes.  "The code as it is" = the CURRENT /repo = [current_fx = true], [current_fs = true]
   (Model/DefStore.v, mirrored by FIXED/FIXED_F2 in harness/c09.py).  [fx = false] is the
   behaviour BEFORE fix commit 60986da ("keep HedTag._expanded in step with expand_defs and
   shrink_defs", former findings C09-F1/C09-F3); [fs = false] the behaviour BEFORE fix commit
   cbb8087 (sorted Def-expand comparison, former C09-F2); HedTag.__eq__ is modelled as it is
   since fix commit 2492808 (former C09-F4).  Theorems about [false] modes are records of
   repaired defects, not statements about the implementation. *)
From Coq Require Import List NArith Arith Bool.
From HV Require Import Base.Res Base.Str Model.Defs Model.DefStore Model.DefObj
  Proofs.DefsProofs Proofs.DefsCanon Proofs.DefObjProofs Proofs.DefLayers.
Import ListNotations.

(* the mode the model runs in for the correspondence check *)
Theorem C09_current_mode : current_fx = true /\ current_fs = true.
Proof. exact current_mode. Qed.
Print Assumptions C09_current_mode.

(* ---- acceptance ---------------------------------------------------------- *)

(* A definition group is stored (appended under its case-folded name, no issue)
   exactly when all acceptance conditions hold; otherwise the dictionary is
   unchanged and at least one DEFINITION_INVALID issue is reported.
   [acceptable] = at most one content group, no tag beside Definition, name
   without '/' and '#', no Def/Def-expand/Definition (nor unique/required tag)
   inside, no tag with two '#', name ends in "/#" -> exactly one tag with '#'
   and it is value-taking, otherwise -> not exactly one such tag, and the name
   is not stored yet.  (The code is stricter than the statement's "iff" in two
   corners -- a single '#' on a non-value-taking tag and a "##" are rejected
   even without "/#" -- and checks unique/required, which the statement does
   not mention; the statement only says "only if".) *)
Theorem C09_accept_iff : forall D dt g,
  (acceptable D dt g <-> check_one D dt g = (new_dict D dt g, [])) /\
  (~ acceptable D dt g -> fst (check_one D dt g) = D /\ snd (check_one D dt g) <> []).
Proof. exact accept_iff. Qed.
Print Assumptions C09_accept_iff.

(* the statement's literal clause: accepted => (name ends in "/#" <-> exactly
   one '#', on a value-taking tag) *)
Theorem C09_accept_placeholder_iff : forall D dt g,
  acceptable D dt g ->
  (def_takes dt = true <->
   exists p, filter (fun t => 1 <=? hashes t) (group_tags (content_group g)) = [p] /\
             hashes p = 1 /\ takes_value (tbase p) = true).
Proof. exact accept_placeholder_iff. Qed.
Print Assumptions C09_accept_placeholder_iff.

(* a duplicate name (up to case) is reported and ignored *)
Theorem C09_duplicate_ignored : forall D dt g,
  mem_key (lower (def_name dt)) D = true ->
  fst (check_one D dt g) = D /\ snd (check_one D dt g) <> [].
Proof. exact duplicate_ignored. Qed.
Print Assumptions C09_duplicate_ignored.

(* Several definitions in one string.  check_for_definitions is the fold of the
   per-definition check over the definition groups of the string, in order: the only
   thing carried from one definition to the next is the dictionary.  (This first theorem
   holds BY CONSTRUCTION of the model -- it re-expresses the fold_left that defines
   check_for_definitions as a recursion; that the code carries no other state is what the
   correspondence run with multi-definition strings checks.  The content is in the two
   theorems that follow.) *)
Theorem C09_check_for_definitions_fold : forall D f,
  check_for_definitions D f = check_defs D (find_top_level_definitions f).
Proof. exact check_for_definitions_fold. Qed.
Print Assumptions C09_check_for_definitions_fold.

(* ... so one string holding the definitions of two strings behaves as the two strings
   one after the other (same dictionary, same issues) ... *)
Theorem C09_check_for_definitions_split : forall D f1 f2,
  check_for_definitions D (f1 ++ f2) =
  let '(D1, i1) := check_for_definitions D f1 in
  let '(D2, i2) := check_for_definitions D1 f2 in (D2, i1 ++ i2).
Proof. exact check_for_definitions_split. Qed.
Print Assumptions C09_check_for_definitions_split.

(* ... and a definition gets, wherever it stands in its string, the verdict it gets
   alone -- except that its name must not have been stored by a predecessor *)
Theorem C09_verdict_in_string : forall D pre dt g post,
  let Dp := fst (check_defs D pre) in
  (acceptable [] dt g /\ mem_key (lower (def_name dt)) Dp = false <->
   check_one Dp dt g = (new_dict Dp dt g, [])) /\
  fst (check_defs D (pre ++ (dt, g) :: post)) = fst (check_defs (fst (check_one Dp dt g)) post).
Proof. exact verdict_in_string. Qed.
Print Assumptions C09_verdict_in_string.

(* every stored entry is well formed (no definition tags inside, a placeholder
   tag present when it takes a value): the hypothesis of the theorems below is
   what acceptance guarantees *)
Theorem C09_accept_keeps_wf : forall D dt g,
  clean_names (group_tags (content_group g)) ->
  wf_dict D = true -> wf_dict (fst (check_one D dt g)) = true.
Proof. exact check_one_wf. Qed.
Print Assumptions C09_accept_keeps_wf.

(* Definition names are compared case-folded (str.casefold(), table Gen/C09Fold.v
   regenerated from CPython for the code points of the generated names): kernel-evaluated
   example with a name whose lower() differs from its casefold() *)
Theorem C09_casefold_duplicate_example :
  map fst ex_dict_sz = [s_strasse_lo] /\
  check_one ex_dict_sz (tg BDefinition s_strasse_up) [T (tg BDefinition s_strasse_up); G [t_blue]]
    = (ex_dict_sz, [DuplicateDefinition]) /\
  option_map ename (def_entry ex_dict_sz (tg BDef s_strasse_up)) = Some s_strasse_sz.
Proof. exact casefold_duplicate_example. Qed.
Print Assumptions C09_casefold_duplicate_example.

(* ---- spec layer, all forests ---------------------------------------------- *)

(* expansion changes Def tags for which [expansion D t] is defined into that group and
   nothing else.  [expansion] is characterised declaratively by the next two theorems.
   Without wf_dict, [expansion D t = None] ("left alone") also stands for the internal
   ValueError of get_definition; under wf_dict (which acceptance guarantees,
   C09_accept_keeps_wf) that case does not exist (C09_expansion_none_iff), and the object
   layers raise the exception as the code does. *)
Theorem C09_expand_only_defs : forall D f, Forall2 (exp_rel D) f (expand_t D f).
Proof. exact expand_only_defs. Qed.
Print Assumptions C09_expand_only_defs.

(* "(Def-expand/Name[/v], content with '#' replaced by v)", stated without the model's
   substitution function: [plug_node v] puts v for every '#' of every placeholder tag.
   Side condition of the value case: at most one placeholder tag in the stored content
   (acceptance stores exactly one tag with '#' for a value-taking definition; the code
   substitutes in the FIRST placeholder tag only, which is then the only one). *)
Theorem C09_expansion_declarative : forall D t e,
  wf_dict D = true -> def_entry D t = Some e ->
  let v := def_placeholder t in
  let head := T (set_base t BDefExpand) in
  (etakes e = is_nil v -> expansion D t = None) /\
  (etakes e = negb (is_nil v) ->
     match econtents e with
     | Some (c0 :: c) =>
         if is_nil v then expansion D t = Some [head; G (c0 :: c)]
         else ph_count (c0 :: c) <= 1 -> expansion D t = Some [head; G (map (plug_node v) (c0 :: c))]
     | _ => expansion D t = Some [head]
     end).
Proof. exact expansion_declarative. Qed.
Print Assumptions C09_expansion_declarative.

(* a Def tag is left alone exactly when its definition is missing or its value-ness does
   not match -- never because of an exception *)
Theorem C09_expansion_none_iff : forall D t,
  wf_dict D = true ->
  (expansion D t = None <->
   def_entry D t = None \/
   exists e, def_entry D t = Some e /\ etakes e = is_nil (def_placeholder t)).
Proof. exact expansion_none_iff. Qed.
Print Assumptions C09_expansion_none_iff.

(* the premises of C09_expansion_declarative on a stored value-taking definition *)
Theorem C09_expansion_declarative_example :
  wf_dict ex_dict_q = true /\
  exists e c, def_entry ex_dict_q (tg BDef (s_q ++ [47;51]%N)) = Some e /\ etakes e = true /\
              econtents e = Some c /\ ph_count c = 1 /\
              expansion ex_dict_q (tg BDef (s_q ++ [47;51]%N)) =
                Some [T (set_base (tg BDef (s_q ++ [47;51]%N)) BDefExpand); G (map (plug_node [51]%N) c)].
Proof. exact expansion_declarative_example. Qed.
Print Assumptions C09_expansion_declarative_example.

(* tags carry their library namespace (tl:Def/A, sc:Def/A in a schema group): all
   theorems of this file quantify over it; the expansion of a Def tag starts with the
   same tag printed as <namespace>Def-expand/<extension> *)
Theorem C09_expand_keeps_namespace : forall D t ch,
  wf_dict D = true -> expansion D t = Some ch ->
  exists t' c, ch = T t' :: c /\ tns t' = tns t /\ text t' = text t /\
               short_tag t' = tns t ++ s_defexpand ++ match text t with [] => [] | e => ch_slash :: e end.
Proof. exact expand_keeps_namespace. Qed.
Print Assumptions C09_expand_keeps_namespace.

Theorem C09_expand_idem_t : forall D f,
  wf_dict D = true -> expand_t D (expand_t D f) = expand_t D f.
Proof. exact expand_idem_t. Qed.
Print Assumptions C09_expand_idem_t.

(* shrinking an EXPANDED annotation restores the original: f has no written Def-expand
   tag ([no_de]); a written Def-expand group is shrunk to a Def tag whatever its content *)
Theorem C09_shrink_expand_t : forall D f,
  wf_dict D = true -> forallb no_de (all_tags_f f) = true ->
  shrink_t (expand_t D f) = Ok f.
Proof. exact shrink_expand_t. Qed.
Print Assumptions C09_shrink_expand_t.

(* ---- Def-expand validation -------------------------------------------------
   Full statement, proved for the code as it is ([current_fs] = true: both sides sorted()
   before the comparison, since fix commit cbb8087) and ALL inputs:
     validation accepts a Def-expand group exactly when its content equals
     (t, content[# := v]) up to sibling order at every level
   ([lsim]: same tags by HedTag.__eq__, members of every group in any order).
   The "<-" direction needs that HedGroup.sorted() computes a canonical form, i.e.
   that printing of canonical forms is injective; that holds when tag texts are
   non-empty and free of ',', '(' and ')' ([wfl], what the parser produces -- C02's
   split_content/tagbody) and is the C04 theorem ckey_inj, reused here together
   with the C04 stable-sort lemmas. *)
Theorem C09_defexpand_valid_iff : forall D t g,
  wfl g = true ->
  (defexpand_accepted current_fs D t g = true <->
   exists e ch, def_entry D t = Some e /\
                get_definition e t (def_placeholder t) = Ok (Some ch) /\
                lsim g ch).
Proof. exact defexpand_valid_iff. Qed.
Print Assumptions C09_defexpand_valid_iff.

(* the "->" direction holds without the well-formedness hypothesis *)
Theorem C09_defexpand_valid_sound : forall D t g,
  defexpand_accepted true D t g = true ->
  exists e ch, def_entry D t = Some e /\
               get_definition e t (def_placeholder t) = Ok (Some ch) /\
               lsim g ch.
Proof. exact defexpand_valid_sound. Qed.
Print Assumptions C09_defexpand_valid_sound.

(* Record of the repaired defect C09-F2 (fs = false: behaviour before fix commit
   cbb8087, the ordered comparison): the spelling of the definition itself is rejected, its
   sorted spelling accepted; the repaired comparison accepts both *)
Theorem C09_defexpand_valid_refuted :
  exists t content,
    ex_defs = [[G [T (tg BDefinition s_mydef); G content]]] /\
    defexpand_accepted false ex_dict t [T t; G content] = false /\
    defexpand_accepted false ex_dict t [T t; G (sorted_children content)] = true /\
    defexpand_accepted true ex_dict t [T t; G content] = true.
Proof. exact defexpand_valid_refuted. Qed.
Print Assumptions C09_defexpand_valid_refuted.

(* record, behaviour before fix commit cbb8087: what was true of the ordered comparison: accepted iff ordered-equal to the
   stored, sorted expansion with the tag first *)
Theorem C09_defexpand_valid_partial : forall D t g,
  defexpand_accepted false D t g = true <->
  exists e ch, def_entry D t = Some e /\
               get_definition e t (def_placeholder t) = Ok (Some ch) /\
               nodes_eq g ch = true.
Proof. exact defexpand_valid_partial. Qed.
Print Assumptions C09_defexpand_valid_partial.

(* former C09-F4 (repaired by commit 2492808, tags compare by case-folded short
   form): the literal placeholder tag in place of the value is rejected *)
Theorem C09_defexpand_literal_placeholder_rejected :
  exists t g,
    expansion ex_dict_q (set_base t BDef) =
      Some [T t; G [T (mkTag (BOther s_label true false) [51]%N (s_label ++ [47;35]%N) [])]] /\
    g = [T t; G [T (tg (BOther s_label true false) [35]%N)]] /\
    defexpand_accepted false ex_dict_q t g = false /\ defexpand_accepted true ex_dict_q t g = false.
Proof. exact defexpand_literal_placeholder_rejected. Qed.
Print Assumptions C09_defexpand_literal_placeholder_rejected.

(* ---- object layer ------------------------------------------------------------ *)

(* a first expand_defs from any state satisfying the invariant (in particular a freshly
   built string) prints as expand_t of what was printed before, and never raises.  Holds
   of the code as it is (fx = true) and also held before fix commit 60986da (fx = false):
   the defect only showed from the second call on. *)
Theorem C09_expand_refines : forall fx D f,
  wf_dict D = true -> InvF D f ->
  exists f', expand_of fx D f = Ok f' /\ abs_of f' = Ok (expand_t D (map abs_p f)).
Proof. exact expand_refines. Qed.
Print Assumptions C09_expand_refines.

(* RECORD of the repaired defect C09-F1 (fx = false: behaviour before fix commit 60986da;
   no longer true of /repo): on the heap model the second expand_defs replaced the moved
   tag by its own group, the group became its own child, printing raised RecursionError.
   The statement "expanding twice = expanding once" for the code as it is:
   C09_expand_twice_now and C09_interleaving below. *)
Theorem C09_expand_twice_refuted :
  exists s2, run false ex_dict [OpExpand; OpExpand] (load ex_ann) = Ok s2 /\
             abs s2 = Exn RecursionError /\
             run_t ex_dict [OpExpand; OpExpand] ex_ann = Ok (expand_t ex_dict ex_ann).
Proof. exact expand_twice_refuted. Qed.
Print Assumptions C09_expand_twice_refuted.

(* RECORD of the repaired defect C09-F3 (fx = false: behaviour before fix commit 60986da;
   no longer true of /repo): after expand, shrink a tag that was written as Def-expand was
   not expanded again *)
Theorem C09_expand_after_shrink_refuted :
  exists s3 f3, run false ex_dict [OpExpand; OpShrink; OpExpand] (load ex_ann2) = Ok s3 /\
                abs s3 = Ok f3 /\
                run_t ex_dict [OpExpand; OpShrink; OpExpand] ex_ann2 <> Ok f3.
Proof. exact expand_after_shrink_refuted. Qed.
Print Assumptions C09_expand_after_shrink_refuted.

(* the code as it is (since 60986da) on the two witnesses, heap model *)
Theorem C09_expand_twice_now :
  (exists s2, run current_fx ex_dict [OpExpand; OpExpand] (load ex_ann) = Ok s2 /\
              abs s2 = Ok (expand_t ex_dict ex_ann)) /\
  (exists s3 f3, run current_fx ex_dict [OpExpand; OpShrink; OpExpand] (load ex_ann2) = Ok s3 /\
                 abs s3 = Ok f3 /\ run_t ex_dict [OpExpand; OpShrink; OpExpand] ex_ann2 = Ok f3).
Proof. exact expand_twice_now. Qed.
Print Assumptions C09_expand_twice_now.

(* Interleaving theorem for the code as it is ([current_fx] = true, since fix commit
   60986da), ownership-tree layer: for EVERY
   sequence of expand / shrink / copy / validate / swap (continue on the object
   the working one was copied from) from any invariant state of all live objects the
   invariant is kept and the object prints as the spec-level run; an exception
   (KeyError of shrink_defs on a group with two Def-expand tags) occurs exactly
   when the spec-level run has it.  By induction on the op list. *)
Theorem C09_interleaving : forall D, wf_dict D = true -> forall ops st, InvS D st ->
  match run_os current_fx D ops st with
  | Ok st' => InvS D st' /\ run_ts D ops (abs_st st) = Ok (abs_st st') /\
              abs_of (fst st') = Ok (map abs_p (fst st'))
  | Exn e => run_ts D ops (abs_st st) = Exn e
  end.
Proof. exact interleaving_now. Qed.
Print Assumptions C09_interleaving.

(* a freshly built string satisfies the invariant and prints as its text *)
Theorem C09_load_inv : forall D f, InvF D (load_o f) /\ map abs_p (load_o f) = f.
Proof. exact load_inv. Qed.
Print Assumptions C09_load_inv.

(* Heap layer (the pointer-level model) vs. ownership-tree layer.
   copy, ALL heaps: the deep copy prints as the original and the original, still
   reachable, prints as before (so "copy = the same ownership tree" is what the
   heap model does). *)
Theorem C09_copy_abs : forall s f,
  abs s = Ok f -> abs (copy s) = Ok f /\ abs (swap (copy s)) = Ok f.
Proof. exact copy_abs. Qed.
Print Assumptions C09_copy_abs.

(* expand_defs / shrink_defs (pointer surgery vs. structural recursion): NOT proved
   in general -- C09_interleaving is a theorem about the ownership-tree model only; its
   transfer to the heap model rests on this bounded check and on testing.  Kernel-evaluated on an enumerated family: 190 annotations (every
   leaf of {Def/MyDef, Def/P/3, Def/P, Def/U, Def-expand/MyDef, Red} and four
   written Def-expand groups, alone, in pairs, grouped, nested twice) x every op
   sequence over {expand, shrink, copy, swap} of length <= 4 for the code as it is
   (fx = true; <= 3 for fx = false, the behaviour before fix commit 60986da): same text, same _expandable/_expanded flags of
   every reachable tag, same exceptions.  Beyond that both layers are run in the
   driver on every generated case and each is compared with the implementation. *)
Theorem C09_layers_agree_family :
  length fam_forests = 190 /\
  (forall f ops, In f fam_forests -> In ops (all_ops 4) -> layers_agree2 true fam_dict f ops = true) /\
  (forall f ops, In f fam_forests -> In ops (all_ops 3) -> layers_agree2 false fam_dict f ops = true).
Proof. exact layers_agree_family. Qed.
Print Assumptions C09_layers_agree_family.

(* non-vacuity: a dictionary built by the acceptance code is well formed, the
   loaded witness satisfies the invariant, and it really expands *)
Example C09_nonvacuous :
  wf_dict ex_dict = true /\ InvF ex_dict (load_o ex_ann) /\
  str_forest (expand_t ex_dict ex_ann) =
    (* (Def-expand/MyDef,(Blue,Red)) *)
    [40;68;101;102;45;101;120;112;97;110;100;47;77;121;68;101;102;44;40;66;108;117;101;44;82;101;100;41;41]%N.
Proof. exact nonvacuous. Qed.
