(* C13 -- Library schemas and namespaces compose without changing meaning.
   Property theorems only; each closed with [exact] and followed by Print Assumptions.

   "Judged" = the list of issue kinds (with their error/warning severity) of HedValidator.validate, modelled
   in Model/Namespace.v: the namespace-sensitive mechanisms (namespace extraction, group dispatch, prefix syntax
   check, schema_83_props of a group, check_tag_formatting, check_capitalization, required/unique through
   get_tags_with_attribute) are concrete; all other rules are arbitrary functions R1 R2 R3 of the resolved tree.
   The schema is an arbitrary resolver (s_find) -- theorems hold for ALL schemas, groups and annotations. *)
From Coq Require Import List NArith.
From HV Require Import Base.Res Base.Str Base.SchemaData Model.Namespace Model.NamespaceX
  Proofs.NamespaceProofs Proofs.NamespaceData Gen.Repo_c13.
Import ListNotations.

Section Statements.
Variable isalpha_c isprint_c : N -> bool.
Variable foldc titlec lowerc : N -> N.
Variable R1 R2 R3 : bool -> ann rtag -> list code.
Notation V := (verdict isalpha_c isprint_c foldc titlec lowerc R1 R2 R3).

(* Dispatch: a tag written p:t is looked up in p's schema exactly as t is, and relabelled with p. *)
Theorem C13_resolve_group_prefix : forall (G : group) (p : str) (Sp : sch) (t : str),
  lookup p G = Some Sp -> wf_ns p ->
  resolve_tag (cfg_group G) (p ++ t) = (let '(e, rem, iss) := s_find Sp t in (mkR p t e rem, iss)).
Proof. exact resolve_group_prefix. Qed.

(* ... and an unprefixed tag is looked up in the unprefixed schema of the group. *)
Theorem C13_resolve_group_unprefixed : forall (G : group) (Sp : sch) (t : str),
  lookup [] G = Some Sp -> get_schema_namespace t = [] ->
  resolve_tag (cfg_group G) t = resolve_tag (cfg_single ([], Sp)) t.
Proof. exact resolve_group_unprefixed. Qed.

(* FULL STATEMENT (clause 1 of the property):
     forall G p Sp a, lookup p G = Some Sp -> wf_ns p -> all_unprefixed a ->
       V (cfg_group G) (prefix_ann p a) = V (cfg_single ([], Sp)) a.
   It is FALSE of the faithful model (four refutations below).  Proved with the explicit side conditions:
   the remaining rules are namespace-blind (RUniform), p is alphabetic and its characters pass the group's
   character rule, the group uses the same character-rule generation as p's schema, the slash pattern and the
   capitalisation rule answer the same with and without p on every tag, and the other schemas contribute no
   required/unique names that match (ForeignSilent; discharged syntactically by C13_foreign_silent_incomparable
   and on the bundled schemas by C13_bundled_side_condition). *)
Theorem C13_prefixed_equiv_partial : forall (G : group) (p : str) (Sp : sch) (a : ann str),
  RUniform R1 -> RUniform R2 -> RUniform R3 ->
  NoDup (map fst G) -> lookup p G = Some Sp -> wf_ns p ->
  str_isalpha isalpha_c (drop_last p) = true ->
  schema83_group G = schema83_single Sp ->
  char_issues isprint_c (schema83_group G) p = [] ->
  all_unprefixed a ->
  Forall (fun t => fmt_count (p ++ t) = fmt_count t) (ann_tags a) ->
  Forall (fun r => check_capitalization titlec lowerc (set_ns p r) = check_capitalization titlec lowerc r)
         (ann_tags (resolved (cfg_single ([], Sp)) a)) ->
  ForeignSilent foldc G p (map (set_ns p) (ann_tags (resolved (cfg_single ([], Sp)) a))) ->
  V (cfg_group G) (prefix_ann p a) = V (cfg_single ([], Sp)) a.
Proof. exact (prefixed_equiv_partial isalpha_c isprint_c foldc titlec lowerc R1 R2 R3). Qed.

(* Clause 2: an unprefixed annotation is judged as against the unprefixed schema alone.  FULL STATEMENT has
   no generation / ForeignSilent hypotheses and is false (C13_unprefixed_equiv_refuted_mixed_generation). *)
Theorem C13_unprefixed_equiv_partial : forall (G : group) (Sp : sch) (a : ann str),
  NoDup (map fst G) -> lookup [] G = Some Sp ->
  schema83_group G = schema83_single Sp ->
  all_unprefixed a ->
  ForeignSilent foldc G [] (ann_tags (resolved (cfg_single ([], Sp)) a)) ->
  V (cfg_group G) a = V (cfg_single ([], Sp)) a.
Proof. exact (unprefixed_equiv_partial isalpha_c isprint_c foldc titlec lowerc R1 R2 R3). Qed.

(* Clause 3: a tag whose prefix is not loaded, or not alphabetic, makes the verdict an error -- for every
   group, every annotation and whatever the other rules say. *)
Theorem C13_unknown_or_bad_prefix_is_error : forall (G : group) (a : ann str) (t : str),
  In t (ann_tags a) -> get_schema_namespace t <> [] ->
  lookup (get_schema_namespace t) G = None \/ str_isalpha isalpha_c (drop_last (get_schema_namespace t)) = false ->
  any_error (V (cfg_group G) a) = true.
Proof. exact (unknown_or_bad_prefix_is_error isalpha_c isprint_c foldc titlec lowerc R1 R2 R3). Qed.

Theorem C13_foreign_prefix_single_is_error : forall (L : loaded) (a : ann str) (t : str),
  In t (ann_tags a) -> get_schema_namespace t <> fst L ->
  any_error (V (cfg_single L) a) = true.
Proof. exact (foreign_prefix_single_is_error isalpha_c isprint_c foldc titlec lowerc R1 R2 R3). Qed.

(* discharging ForeignSilent from data *)
Theorem C13_foreign_silent_incomparable : forall (G : group) (p : str) (tags : list rtag),
  Forall (fun r => rt_ns r = p) tags ->
  (forall q Sq, In (q, Sq) G -> q <> p ->
     s_twa Sq Required = [] /\
     Forall (fun u => prefixb (fold foldc (q ++ u)) (fold foldc p) = false /\
                      prefixb (fold foldc p) (fold foldc (q ++ u)) = false) (s_twa Sq Unique)) ->
  ForeignSilent foldc G p tags.
Proof. exact (foreign_silent_incomparable foldc). Qed.

(* only namespaces that are alphabetic text + ':' can be set on a schema *)
Theorem C13_set_schema_prefix_ok : forall ns ns' : str,
  set_schema_prefix isalpha_c ns = Ok ns' -> ns' = [] \/ str_isalpha isalpha_c (drop_last ns') = true.
Proof. exact (set_schema_prefix_ok isalpha_c). Qed.

(* "loading the same library twice is refused": the version list is refused exactly when two of its items
   have the same prefix and the same version text; the refusal surfaces from load_schema_version. *)
Theorem C13_same_library_twice_refused : forall (rp : repo) (l1 : list str) (v : str) (l2 : list str) (v' : str)
    (l3 : list str),
  split_ns v = split_ns v' ->
  parse_version_list (l1 ++ v :: l2 ++ v' :: l3) = LErr SCHEMA_DUPLICATE_LIBRARY /\
  load_schema_version isalpha_c rp (l1 ++ v :: l2 ++ v' :: l3) = LErr SCHEMA_DUPLICATE_LIBRARY.
Proof. exact (same_library_twice_refused isalpha_c). Qed.

Theorem C13_load_rest_clash_refused : forall (rp : repo) (v : str) (rest : list str) (ns : str) (first L : lschema),
  load_sub isalpha_c rp v ns (Some first) = LOk L -> t_dups (l_table L) <> [] ->
  load_rest isalpha_c rp (v :: rest) ns first = LErr SCHEMA_DUPLICATE_NAMES.
Proof. exact (load_rest_clash_refused isalpha_c). Qed.
End Statements.

Print Assumptions C13_resolve_group_prefix.
Print Assumptions C13_resolve_group_unprefixed.
Print Assumptions C13_prefixed_equiv_partial.
Print Assumptions C13_unprefixed_equiv_partial.
Print Assumptions C13_unknown_or_bad_prefix_is_error.
Print Assumptions C13_foreign_prefix_single_is_error.
Print Assumptions C13_foreign_silent_incomparable.
Print Assumptions C13_set_schema_prefix_ok.
Print Assumptions C13_same_library_twice_refused.
Print Assumptions C13_load_rest_clash_refused.

(* the slash pattern under a namespace: the leading-slash alternative can never fire *)
Theorem C13_fmt_count_prefixed : forall p t : str,
  p <> [] -> forallb (fun c => negb (is_sts c)) p = true -> fmt_count (p ++ t) = fmt_mid 0 false t.
Proof. exact fmt_count_prefixed. Qed.
Print Assumptions C13_fmt_count_prefixed.

(* Refutations of the full statement on the faithful model (validator with no further rules, CPython's
   isalpha/isprintable tables).  Each witness is replayed on the implementation by the harness. *)
Theorem C13_prefixed_equiv_refuted_leading_slash :
  exists G p Sp a, structural G p Sp a /\ schema83_group G = schema83_single Sp /\
    x_verdict (cfg_group G) (prefix_ann p a) <> x_verdict (cfg_single ([], Sp)) a.
Proof. exact prefixed_equiv_refuted_leading_slash. Qed.
Print Assumptions C13_prefixed_equiv_refuted_leading_slash.

Theorem C13_prefixed_equiv_refuted_capitalization :
  exists G p Sp a, structural G p Sp a /\ schema83_group G = schema83_single Sp /\
    x_verdict (cfg_group G) (prefix_ann p a) <> x_verdict (cfg_single ([], Sp)) a.
Proof. exact prefixed_equiv_refuted_capitalization. Qed.
Print Assumptions C13_prefixed_equiv_refuted_capitalization.

Theorem C13_prefixed_equiv_refuted_mixed_generation :
  exists G p Sp a, structural G p Sp a /\
    x_verdict (cfg_group G) (prefix_ann p a) = [] /\ x_verdict (cfg_single ([], Sp)) a = [CharacterInvalid].
Proof. exact prefixed_equiv_refuted_mixed_generation. Qed.
Print Assumptions C13_prefixed_equiv_refuted_mixed_generation.

Theorem C13_unprefixed_equiv_refuted_mixed_generation :
  exists G Sp a, NoDup (map fst G) /\ lookup [] G = Some Sp /\
    Forall (fun t => get_schema_namespace t = []) (ann_tags a) /\
    x_verdict (cfg_group G) a = [] /\ x_verdict (cfg_single ([], Sp)) a = [CharacterInvalid].
Proof. exact unprefixed_equiv_refuted_mixed_generation. Qed.
Print Assumptions C13_unprefixed_equiv_refuted_mixed_generation.

Theorem C13_prefixed_equiv_refuted_nonascii_prefix :
  exists G p Sp a, structural G p Sp a /\ schema83_group G = schema83_single Sp /\
    x_set_schema_prefix p = Ok p /\
    x_verdict (cfg_group G) (prefix_ann p a) = [CharacterInvalid] /\ x_verdict (cfg_single ([], Sp)) a = [].
Proof. exact prefixed_equiv_refuted_nonascii_prefix. Qed.
Print Assumptions C13_prefixed_equiv_refuted_nonascii_prefix.

(* Partner merge at the level of tag tables, for ALL tables and entry lists: entries that do not collide
   with a standard name leave every standard lookup (long, intermediate and short form) unchanged ... *)
Theorem C13_partnered_contains_standard : forall (es : list entry) (B : table) (k : key) (x : entry),
  km_get k (t_keys B) = Some x ->
  Forall (fun e => tail_id (key_of (en_name e)) <> tail_id k) es ->
  km_get k (t_keys (fold_left add_tag es B)) = Some x.
Proof. exact merge_keeps_standard. Qed.
Print Assumptions C13_partnered_contains_standard.

(* ... and a collision with an ordinary standard name never goes unnoticed: the lookup is unchanged or a
   duplicate is recorded (has_duplicates / SCHEMA_DUPLICATE_NAMES). *)
Theorem C13_standard_kept_or_clash : forall (es : list entry) (B : table) (k : key) (x : str) (v : entry),
  KeyInv B -> km_get k (t_keys B) = Some v -> rev k = x :: tl (rev k) -> x <> hash_comp ->
  km_get k (t_keys (fold_left add_tag es B)) = Some v \/ t_dups (fold_left add_tag es B) <> [].
Proof. exact standard_kept_or_clash. Qed.
Print Assumptions C13_standard_kept_or_clash.

Theorem C13_built_tables_invariant : forall nodes : list tagdef, KeyInv (build_table nodes).
Proof. exact KeyInv_build. Qed.
Print Assumptions C13_built_tables_invariant.

(* "two schemas under one prefix with clashing names are refused": two names with the same last component
   can never be registered in one table without a recorded duplicate, wherever they occur *)
Theorem C13_same_prefix_clash_recorded : forall (T : table) (es1 : list entry) (e1 : entry) (es2 : list entry)
    (e2 : entry) (es3 : list entry) (x : str),
  last_key e1 = [x] -> last_key e2 = [x] -> x <> hash_comp ->
  t_dups (fold_left add_tag (es1 ++ e1 :: es2 ++ e2 :: es3) T) <> [].
Proof. exact same_prefix_clash_recorded. Qed.
Print Assumptions C13_same_prefix_clash_recorded.

Theorem C13_parse_version_list_refuses_iff : forall l : list str,
  parse_version_list l = LErr SCHEMA_DUPLICATE_LIBRARY <-> ~ NoDup (map split_ns l).
Proof. exact parse_version_list_refuses_iff. Qed.
Print Assumptions C13_parse_version_list_refuses_iff.

(* Kernel-evaluated on the translated bundled schemas (Gen/Repo_c13.v, regenerated from the XML on every run): *)
(* every standard tag of 8.3.0 / 8.2.0 is present in score 2.0.0 / score 1.1.0 / testlib 2.0.0, 2.1.0, 3.0.0 under
   its long and short name with the same attributes and without inLibrary *)
Theorem C13_partnered_pairs_bundled : partnered_pairs_ok = true.
Proof. exact partnered_pairs_hold. Qed.
Print Assumptions C13_partnered_pairs_bundled.

(* no bundled schema has a required tag; unique names are incomparable with the other namespaces *)
Theorem C13_bundled_side_condition : bundled_side_condition = true.
Proof. exact bundled_side_condition_holds. Qed.
Print Assumptions C13_bundled_side_condition.

(* the loader model on the bundled files: group of three, merge of two libraries, and the four refusals *)
Theorem C13_bundled_loads :
  map (fun l => summary (x_load_schema_version bundled_repo l)) bundled_load_cases = bundled_load_expected.
Proof. exact bundled_loads. Qed.
Print Assumptions C13_bundled_loads.

(* non-vacuity: all hypotheses of C13_prefixed_equiv_partial are met by a nested annotation *)
Example C13_nonvacuous :
  x_verdict (cfg_group G83) (prefix_ann ns_tl ex_ann) = x_verdict (cfg_single ([], lib83)) ex_ann
  /\ ann_tags (prefix_ann ns_tl ex_ann) = [ns_tl ++ s_red; ns_tl ++ s_blue; ns_tl ++ s_red].
Proof. exact prefixed_equiv_nonvacuous. Qed.
Print Assumptions C13_nonvacuous.
