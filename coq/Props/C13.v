(* C13 -- Library schemas and namespaces compose without changing meaning.
   Property theorems only; each closed with [exact] and followed by Print Assumptions.

   "Judged" = the list of issue kinds (with their error/warning severity) of HedValidator.validate, modelled
   in Model/Namespace.v: the namespace-sensitive mechanisms (namespace extraction, group dispatch, prefix syntax
   check, schema_83_props of a group, check_tag_formatting, check_capitalization, required/unique through
   get_tags_with_attribute) are concrete; all other rules are arbitrary functions R1 R2 R3 of the resolved tree.
   The schema is an arbitrary resolver (s_find) -- theorems hold for ALL schemas, groups and annotations.

   WHAT IS ASSUMED, NOT PROVED: every other validation rule (tag characters, value classes, units, extensions,
   definitions, duplicates, placement, temporal rules ...) is an ARBITRARY function R1 R2 R3 of the resolved tree,
   and the equivalence theorems ASSUME it is namespace-blind (hypothesis RUniform: its result does not change when
   one namespace is written in front of every tag).  So C13_prefixed_equiv / C13_unprefixed_equiv prove that the
   six namespace-sensitive mechanisms listed above commute with prefixing and assume it for all the others; for the
   real rules this is TESTED only (implementation-side differential oracle).  C13_runiform_instances shows the
   assumption is satisfiable by rules that ignore the namespace and by a rule that reads it.

   "The code as it is" = /repo with the fix commits 02171e0 (C13-F2, check_tag_formatting looks after the
   namespace), bb02e3e (C13-F3, check_capitalization ignores the namespace), 9d4df4f (C13-F4, set_schema_prefix
   requires an ASCII namespace) and 02f8597 (C13-F5, tags are re-identified with the validator's schema before the
   tag character check).  Model switches: [fixed] = true for the first three, [fixed5] = true for the fourth; the
   value false of either switch is the behaviour BEFORE the commit and appears only in PART 2 (records of repaired
   defects).  STILL OPEN in /repo: C13-F1 (one character-rule generation for a whole group: the explicit
   hypothesis [schema83_group G = schema83_single Sp], refuted without it) and C13-F6 (re-identification from the
   old short form: the explicit hypothesis [CleanReident], refuted without it). *)
From Coq Require Import List NArith.
From HV Require Import Base.Res Base.Str Base.SchemaData Model.Namespace Model.NamespaceX
  Model.NamespaceHist Proofs.NamespaceProofs Proofs.NamespaceHistProofs Proofs.NamespaceData Gen.Repo_c13.
Import ListNotations.


(* ====================================================================== PART 1: the code as it is now
   (fixed = true: /repo with fix commits 02171e0, bb02e3e, 9d4df4f) *)
Section Statements.
Variable isalpha_c isprint_c : N -> bool.
Variable foldc titlec lowerc : N -> N.
Variable R1 R2 R3 : bool -> ann rtag -> list code.
(* facts about the Unicode tables; discharged for CPython's tables by C13_cpython_tables below *)
Hypothesis HA : forall c, is_ascii_letter c = true -> isalpha_c c = true.
Hypothesis HP : forall c, (32 <= c <= 126)%N -> isprint_c c = true.
Hypothesis HC : forall c, isalpha_c c = true -> (c <= 127)%N -> is_ascii_letter c = true.
Notation V := (verdict isalpha_c isprint_c foldc titlec lowerc true R1 R2 R3).

(* Dispatch: a tag written p:t is looked up in p's schema exactly as t is, and relabelled with p. *)
Theorem C13_resolve_group_prefix : forall (G : group) (p : str) (Sp : sch) (t : str),
  lookup p G = Some Sp -> wf_ns p ->
  resolve_tag (cfg_group G) (p ++ t) = (let '(e, rem, iss) := s_find Sp t in (mkR p t e rem, iss)).
Proof. exact resolve_group_prefix. Qed.

(* ... and an unprefixed tag is looked up in the unprefixed schema of the group. *)
Theorem C13_resolve_group_unprefixed : forall (G : group) (Sp : sch) (t : str),
  lookup [] G = Some Sp -> get_schema_namespace t = [] ->
  resolve_tag (cfg_group G) t = resolve_tag (cfg_single ([], Sp)) t.
Proof. exact resolve_group_unprefixed. Qed.

(* Clause 1.  For every group, every namespace p the loader can set (ASCII letters + ':'), every schema whose
   resolver returns remainders that are part of the text (FindFits) and every annotation tree: the annotation
   written with p on every tag is judged by the group exactly as the unprefixed annotation is judged by p's
   schema alone.  Since the repairs there is no condition on slashes, capitalisation or the characters of p.
   Remaining explicit side conditions: the other rules are namespace-blind (RUniform); the group and p's schema
   use the same character-rule generation (unrepaired C13-F1; refuted without it below); the other schemas
   contribute no matching required/unique names (ForeignSilent; C13_foreign_silent_incomparable,
   C13_bundled_side_condition). *)
Theorem C13_prefixed_equiv : forall (G : group) (p : str) (Sp : sch) (a : ann str),
  RUniform R1 -> RUniform R2 -> RUniform R3 ->
  NoDup (map fst G) -> lookup p G = Some Sp -> ns_ok p -> FindFits Sp ->
  schema83_group G = schema83_single Sp ->
  all_unprefixed a ->
  ForeignSilent foldc G p (map (set_ns p) (ann_tags (resolved (cfg_single ([], Sp)) a))) ->
  V (cfg_group G) (prefix_ann p a) = V (cfg_single ([], Sp)) a.
Proof. exact (prefixed_equiv isalpha_c isprint_c foldc titlec lowerc R1 R2 R3 HA HP). Qed.

(* Clause 2: an unprefixed annotation is judged as against the unprefixed schema alone (same two side conditions). *)
Theorem C13_unprefixed_equiv : forall (G : group) (Sp : sch) (a : ann str),
  NoDup (map fst G) -> lookup [] G = Some Sp ->
  schema83_group G = schema83_single Sp ->
  all_unprefixed a ->
  ForeignSilent foldc G [] (ann_tags (resolved (cfg_single ([], Sp)) a)) ->
  V (cfg_group G) a = V (cfg_single ([], Sp)) a.
Proof. exact (unprefixed_equiv_partial isalpha_c isprint_c foldc titlec lowerc R1 R2 R3 true). Qed.

(* Clause 3: a tag whose prefix is not loaded, or not alphabetic, makes the verdict an error -- for every
   group, every annotation and whatever the other rules say. *)
Theorem C13_unknown_or_bad_prefix_is_error : forall (G : group) (a : ann str) (t : str),
  In t (ann_tags a) -> get_schema_namespace t <> [] ->
  lookup (get_schema_namespace t) G = None \/ str_isalpha isalpha_c (drop_last (get_schema_namespace t)) = false ->
  any_error (V (cfg_group G) a) = true.
Proof. exact (unknown_or_bad_prefix_is_error isalpha_c isprint_c foldc titlec lowerc R1 R2 R3 true). Qed.

Theorem C13_foreign_prefix_single_is_error : forall (L : loaded) (a : ann str) (t : str),
  In t (ann_tags a) -> get_schema_namespace t <> fst L ->
  any_error (V (cfg_single L) a) = true.
Proof. exact (foreign_prefix_single_is_error isalpha_c isprint_c foldc titlec lowerc R1 R2 R3 true). Qed.

(* discharging ForeignSilent from data *)
Theorem C13_foreign_silent_incomparable : forall (G : group) (p : str) (tags : list rtag),
  Forall (fun r => rt_ns r = p) tags ->
  (forall q Sq, In (q, Sq) G -> q <> p ->
     s_twa Sq Required = [] /\
     Forall (fun u => prefixb (fold foldc (q ++ u)) (fold foldc p) = false /\
                      prefixb (fold foldc p) (fold foldc (q ++ u)) = false) (s_twa Sq Unique)) ->
  ForeignSilent foldc G p tags.
Proof. exact (foreign_silent_incomparable foldc). Qed.

(* the namespaces the (repaired) loader can put on a schema are exactly ASCII letters + ':' *)
Theorem C13_loaded_namespace_ok : forall ns ns' : str,
  set_schema_prefix isalpha_c true ns = Ok ns' -> ns' = [] \/ ns_ok ns'.
Proof. exact (loaded_namespace_ok isalpha_c HC). Qed.

(* "loading the same library twice is refused": the version list is refused exactly when two of its items
   have the same prefix and the same version text; the refusal surfaces from load_schema_version. *)
Theorem C13_same_library_twice_refused : forall (rp : repo) (l1 : list str) (v : str) (l2 : list str) (v' : str)
    (l3 : list str),
  split_ns v = split_ns v' ->
  parse_version_list (l1 ++ v :: l2 ++ v' :: l3) = LErr SCHEMA_DUPLICATE_LIBRARY /\
  load_schema_version isalpha_c true rp (l1 ++ v :: l2 ++ v' :: l3) = LErr SCHEMA_DUPLICATE_LIBRARY.
Proof. exact (same_library_twice_refused isalpha_c true). Qed.

Theorem C13_load_rest_clash_refused : forall (rp : repo) (v : str) (rest : list str) (ns : str) (first L : lschema),
  load_sub isalpha_c true rp v ns (Some first) = LOk L -> t_dups (l_table L) <> [] ->
  load_rest isalpha_c true rp (v :: rest) ns first = LErr SCHEMA_DUPLICATE_NAMES.
Proof. exact (load_rest_clash_refused isalpha_c true). Qed.
End Statements.

Print Assumptions C13_resolve_group_prefix.
Print Assumptions C13_resolve_group_unprefixed.
Print Assumptions C13_prefixed_equiv.
Print Assumptions C13_unprefixed_equiv.
Print Assumptions C13_unknown_or_bad_prefix_is_error.
Print Assumptions C13_foreign_prefix_single_is_error.
Print Assumptions C13_foreign_silent_incomparable.
Print Assumptions C13_loaded_namespace_ok.
Print Assumptions C13_same_library_twice_refused.
Print Assumptions C13_load_rest_clash_refused.

(* the FindFits hypothesis of C13_prefixed_equiv holds for every schema built by the loader model: the remainder
   returned by the transcription of HedSchema._find_tag_entry is never longer than the text it was given *)
Theorem C13_loaded_schema_fits : forall L : lschema, FindFits (sch_of L).
Proof. exact sch_of_fits. Qed.
Print Assumptions C13_loaded_schema_fits.

(* CPython's isalpha/isprintable tables (Gen/UniTable_c13.v) satisfy the three table hypotheses above *)
Theorem C13_cpython_tables :
  (forall c, is_ascii_letter c = true -> x_isalpha c = true) /\
  (forall c, (32 <= c <= 126)%N -> x_isprint c = true) /\
  (forall c, x_isalpha c = true -> (c <= 127)%N -> is_ascii_letter c = true).
Proof. exact (conj x_HA (conj x_HP x_HC)). Qed.
Print Assumptions C13_cpython_tables.

(* C13-F1 (NOT repaired): without the generation hypothesis both clauses are false of the code as it is now.
   A group mixing an 8.3-generation schema with an 8.2-partnered library validates the library's tags with the
   8.3 character rules: "tl:Label/é" is clean, "Label/é" against the library alone is not; and conversely. *)
Theorem C13_prefixed_equiv_refuted_mixed_generation :
  exists G p Sp a, structural G p Sp a /\
    x_verdict true (cfg_group G) (prefix_ann p a) = [] /\ x_verdict true (cfg_single ([], Sp)) a = [CharacterInvalid].
Proof. exact prefixed_equiv_refuted_mixed_generation. Qed.
Print Assumptions C13_prefixed_equiv_refuted_mixed_generation.

Theorem C13_unprefixed_equiv_refuted_mixed_generation :
  exists G Sp a, NoDup (map fst G) /\ lookup [] G = Some Sp /\
    Forall (fun t => get_schema_namespace t = []) (ann_tags a) /\
    x_verdict true (cfg_group G) a = [] /\ x_verdict true (cfg_single ([], Sp)) a = [CharacterInvalid].
Proof. exact unprefixed_equiv_refuted_mixed_generation. Qed.
Print Assumptions C13_unprefixed_equiv_refuted_mixed_generation.

(* Partner merge at the level of tag tables, for ALL tables and entry lists: entries that do not collide
   with a standard name leave every standard lookup (long, intermediate and short form) unchanged ... *)
Theorem C13_partnered_contains_standard : forall (es : list entry) (B : table) (k : key) (x : entry),
  km_get k (t_keys B) = Some x ->
  Forall (fun e => tail_id (key_of (en_name e)) <> tail_id k) es ->
  km_get k (t_keys (fold_left add_tag es B)) = Some x.
Proof. exact merge_keeps_standard. Qed.
Print Assumptions C13_partnered_contains_standard.

(* WHAT IS PROVED FOR "contains every standard tag with unchanged meaning": (i) the theorem above is conditional on
   the library's names not colliding with the looked-up name; (ii) below, unconditionally in the library: an
   ordinary (non-"#") standard name is unchanged OR a duplicate is recorded, hence unchanged whenever the merged
   table records no duplicate (C13_standard_kept_if_no_dups); (iii) unconditional, all forms including "#" nodes,
   attributes compared, only for the five bundled pairings by kernel evaluation (C13_partnered_pairs_bundled;
   finite by nature).  For value ("#") nodes of arbitrary schemas only (i) is proved. *)
(* ... and a collision with an ordinary standard name never goes unnoticed: the lookup is unchanged or a
   duplicate is recorded (has_duplicates / SCHEMA_DUPLICATE_NAMES). *)
Theorem C13_standard_kept_or_clash : forall (es : list entry) (B : table) (k : key) (x : str) (v : entry),
  KeyInv B -> km_get k (t_keys B) = Some v -> rev k = x :: tl (rev k) -> x <> hash_comp ->
  km_get k (t_keys (fold_left add_tag es B)) = Some v \/ t_dups (fold_left add_tag es B) <> [].
Proof. exact standard_kept_or_clash. Qed.
Print Assumptions C13_standard_kept_or_clash.

Theorem C13_standard_kept_if_no_dups : forall (es : list entry) (B : table) (k : key) (x : str) (v : entry),
  KeyInv B -> km_get k (t_keys B) = Some v -> rev k = x :: tl (rev k) -> x <> hash_comp ->
  t_dups (fold_left add_tag es B) = [] ->
  km_get k (t_keys (fold_left add_tag es B)) = Some v.
Proof. exact standard_kept_if_no_dups. Qed.
Print Assumptions C13_standard_kept_if_no_dups.

Theorem C13_built_tables_invariant : forall nodes : list tagdef, KeyInv (build_table nodes).
Proof. exact KeyInv_build. Qed.
Print Assumptions C13_built_tables_invariant.

(* "two schemas under one prefix with clashing names are refused": two names with the same last component
   can never be registered in one table without a recorded duplicate, wherever they occur *)
Theorem C13_same_prefix_clash_recorded : forall (T : table) (es1 : list entry) (e1 : entry) (es2 : list entry)
    (e2 : entry) (es3 : list entry) (x : str),
  last_key e1 = [x] -> last_key e2 = [x] -> x <> hash_comp ->
  t_dups (fold_left add_tag (es1 ++ e1 :: es2 ++ e2 :: es3) T) <> [].
Proof. exact same_prefix_clash_recorded. Qed.
Print Assumptions C13_same_prefix_clash_recorded.

Theorem C13_parse_version_list_refuses_iff : forall l : list str,
  parse_version_list l = LErr SCHEMA_DUPLICATE_LIBRARY <-> ~ NoDup (map split_ns l).
Proof. exact parse_version_list_refuses_iff. Qed.
Print Assumptions C13_parse_version_list_refuses_iff.

(* Kernel-evaluated on the translated bundled schemas (Gen/Repo_c13.v, regenerated from the XML on every run): *)
(* every standard tag of 8.3.0 / 8.2.0 is present in score 2.0.0 / score 1.1.0 / testlib 2.0.0, 2.1.0, 3.0.0 under
   its long and short name with the same attributes and without inLibrary *)
Theorem C13_partnered_pairs_bundled : partnered_pairs_ok = true.
Proof. exact partnered_pairs_hold. Qed.
Print Assumptions C13_partnered_pairs_bundled.

(* no bundled schema has a required tag; unique names are incomparable with the other namespaces *)
Theorem C13_bundled_side_condition : bundled_side_condition = true.
Proof. exact bundled_side_condition_holds. Qed.
Print Assumptions C13_bundled_side_condition.

(* the loader model on the bundled files: group of three, merge of two libraries, and the five refusals
   (the last one: a non-ASCII namespace, refused since the repair of C13-F4) *)
Theorem C13_bundled_loads :
  map (fun l => summary (x_load_schema_version true bundled_repo l)) bundled_load_cases = bundled_load_expected.
Proof. exact bundled_loads. Qed.
Print Assumptions C13_bundled_loads.

(* non-vacuity: all hypotheses of C13_prefixed_equiv are met by nested annotations, among them the witnesses
   "/Red/" and "3a" that refute the unrepaired code *)
Example C13_nonvacuous :
  x_verdict true (cfg_group G83) (prefix_ann ns_tl ex_ann) = x_verdict true (cfg_single ([], lib83)) ex_ann
  /\ x_verdict true (cfg_group G83) (prefix_ann ns_tl ex_ann2) = x_verdict true (cfg_single ([], lib83)) ex_ann2
  /\ ann_tags (prefix_ann ns_tl ex_ann) = [ns_tl ++ s_red; ns_tl ++ s_blue; ns_tl ++ s_red].
Proof. exact prefixed_equiv_nonvacuous. Qed.
Print Assumptions C13_nonvacuous.

(* ====================================================================== PART 1b: histories -- objects used under one
   schema configuration and then under another (Model/NamespaceHist.v) *)
Section Histories.
Variable isalpha_c isprint_c : N -> bool.
Variable foldc titlec lowerc : N -> N.
Variable fixed : bool.
Variable R1 R2 R3 : bool -> ann rtag -> list code.

(* (b) For EVERY sequence of set_schema_prefix / validate operations on loaded schema objects (with their
   attribute caches, filled by whatever policy [fill]), every verdict equals the verdict of a freshly assembled
   group carrying the current prefixes: the verdict is a function of (current group, text) only. *)
Theorem C13_reprefix_history_irrelevant :
  forall (fill : hgroup -> ann str -> bool) (ops : list op) (G : hgroup),
  CacheOK G ->
  h_run isalpha_c isprint_c foldc titlec lowerc fixed R1 R2 R3 fill G ops =
  s_run isalpha_c isprint_c foldc titlec lowerc fixed R1 R2 R3 (strip G) ops.
Proof. exact (reprefix_history_irrelevant isalpha_c isprint_c foldc titlec lowerc fixed R1 R2 R3). Qed.

(* (a) An annotation object built under configuration A and judged by a validator for B, for the code as it is
   (fixed5 = true: re-identification precedes the tag character check since fix commit 02f8597).  FULL STATEMENT:
     forall cA cB a, verdict_cross true cA cB a = verdict cB a
   is FALSE of the code as it is because of the OPEN finding C13-F6 (refutation below).  Proved with that defect as
   the one explicit hypothesis: re-identifying each tag under B gives what a fresh identification gives. *)
Theorem C13_cross_validation_fresh_partial : forall (cA cB : cfg) (a : ann str),
  CleanReident cA cB a ->
  verdict_cross isalpha_c isprint_c foldc titlec lowerc fixed R1 R2 R3 true cA cB a =
  verdict isalpha_c isprint_c foldc titlec lowerc fixed R1 R2 R3 cB a.
Proof. exact (cross_validation_fresh_now isalpha_c isprint_c foldc titlec lowerc fixed R1 R2 R3). Qed.
End Histories.
Print Assumptions C13_reprefix_history_irrelevant.
Print Assumptions C13_cross_validation_fresh_partial.

(* Non-vacuity of C13_reprefix_history_irrelevant: a freshly loaded group satisfies CacheOK, and on a concrete
   history (validate, re-prefix to "tl:", validate, refused re-prefix "t1", validate) the modelled code gives the
   memory-less verdicts, the unique-tag error included. *)
Theorem C13_fresh_group_cache_ok : forall l : list loaded,
  CacheOK (map (fun L => mkH (fst L) (snd L) (fun _ => None)) l).
Proof. exact fresh_cache_ok. Qed.
Print Assumptions C13_fresh_group_cache_ok.

Example C13_reprefix_history_nonvacuous :
  CacheOK hist_G /\
  x_h_run hist_G hist_ops = [Some [TagNotUnique]; None; Some [TagNotUnique]; None; Some []] /\
  x_s_run (strip hist_G) hist_ops = [Some [TagNotUnique]; None; Some [TagNotUnique]; None; Some []].
Proof. exact reprefix_history_nonvacuous. Qed.
Print Assumptions C13_reprefix_history_nonvacuous.

(* The history theorem depends on WHAT the cache holds.  The model caches entry names without the namespace because
   that is what HedSchemaSection.get_entries_with_attribute does (checked by the re-prefix histories of the harness).
   CONTRAST, not the code: for the variant that caches the names WITH the namespace current at the first use (the
   independently seeded change C13/4) the statement is false on the same history. *)
Theorem C13_stale_name_cache_variant_refuted :
  CacheOK hist_G /\ x_h_run_stale hist_G hist_ops <> x_s_run (strip hist_G) hist_ops
  /\ x_h_run_stale hist_G hist_ops = [Some [TagNotUnique]; None; Some []; None; Some []].
Proof. exact stale_name_cache_refuted. Qed.
Print Assumptions C13_stale_name_cache_variant_refuted.

(* C13-F6 (OPEN in /repo): re-identification starts from the short form the tag had under the other schemas.
   Witness for the code as it is (fixed5 = true): "I/O", a full tag under A, base + extension under B. *)
Theorem C13_cross_refuted_reidentification_from_short_form :
  let cA := cfg_single ([], toy_sch find_A None true (8, 3, 0) true) in
  let cB := cfg_single ([], toy_sch find_B None true (8, 3, 0) true) in
  let a := AGrp [ATag s_I_O] in
  x_fresh cB a = [] /\ x_cross false cA cB a = [NoValidTagFound] /\ x_cross true cA cB a = [NoValidTagFound].
Proof. exact cross_refuted_reidentification_from_short_form. Qed.
Print Assumptions C13_cross_refuted_reidentification_from_short_form.

(* the code as it is (fixed5 = true) on the witness that refuted the behaviour before 02f8597: fresh verdict *)
Example C13_cross_char_check_witness_now :
  let cA := cfg_group [([], s_ext); (ns_tl, s_ext)] in
  let cB := cfg_group [([], s_ext)] in
  x_cross true cA cB (AGrp [ATag s_tl_r_ab]) = x_fresh cB (AGrp [ATag s_tl_r_ab]).
Proof. exact (proj2 (proj2 cross_refuted_char_check_before_reidentification)). Qed.
Print Assumptions C13_cross_char_check_witness_now.

Example C13_cross_nonvacuous :
  let cA := cfg_group [([], s_ext); (ns_tl, s_ext)] in
  let cB := cfg_group [([], s_ext); (ns_tl, std83)] in
  let a := AGrp [ATag [82%N]; AGrp [ATag (ns_tl ++ [82%N])]] in
  CleanReident cA cB a /\ x_cross true cA cB a = x_fresh cB a.
Proof. exact cross_nonvacuous. Qed.
Print Assumptions C13_cross_nonvacuous.

(* RUniform (the ASSUMPTION on the abstract rules) is satisfiable: by every rule that reads the tags with the
   namespace erased, and by a rule that does read the namespace ("the same tag text twice") *)
Theorem C13_runiform_instances :
  (forall f : bool -> ann rtag -> list code, RUniform (fun b t => f b (ann_map (set_ns []) t))) /\
  RUniform repeated_text_rule.
Proof. exact (conj RUniform_erased RUniform_repeated_text). Qed.
Print Assumptions C13_runiform_instances.

(* Several libraries merged under ONE prefix ("x:score_1.1.0,testlib_2.0.0"): in the loader model the merged schema
   is the same as the one merged without a prefix, except for its namespace -- same tag table, same recorded
   duplicates, for every folder of schema files and every version list.  (The unit sections, which the merge
   re-finalises, are not modelled: values with units are covered by the implementation-side oracle only.) *)
Theorem C13_merged_under_prefix_same_schema :
  forall (isa : N -> bool) (fixed : bool) (rp : repo) (v0 : str) (vs : list str) (ns : str) (L : lschema),
  lbind (load_sub isa fixed rp v0 ns None) (load_rest isa fixed rp vs ns) = LOk L ->
  exists L', lbind (load_sub isa fixed rp v0 [] None) (load_rest isa fixed rp vs []) = LOk L' /\
             same_but_ns L L' /\ l_table L' = l_table L.
Proof. exact merged_under_prefix_same_schema. Qed.
Print Assumptions C13_merged_under_prefix_same_schema.

(* Construction routes.  A library merged into an already prefixed schema object through the public `schema=`
   parameter of load_schema / from_string WITHOUT repeating the namespace keeps the object's namespace, gives exactly
   the schema that _load_schema_version builds at the same step of "ns:v0,...,v", and repeating the namespace
   changes nothing -- for every folder, file and object (tag section only, as everywhere in the loader model). *)
Theorem C13_merge_route_keeps_prefix :
  forall (isa : N -> bool) (fixed : bool) (rp : repo) (f : sfile) (first L : lschema),
  load_schema_pub isa fixed rp f [] (Some first) = LOk L -> l_ns L = l_ns first.
Proof. exact merge_route_keeps_prefix. Qed.
Print Assumptions C13_merge_route_keeps_prefix.

Theorem C13_merge_route_equals_version_list :
  forall (isa : N -> bool) (fixed : bool) (rp : repo) (v : str) (f : sfile) (ns : str) (first L : lschema),
  lookup v rp = Some f ->
  (ns = [] /\ l_ns first = [] \/ set_schema_prefix isa fixed ns = Ok (l_ns first) /\ ns <> []) ->
  load_sub isa fixed rp v ns (Some first) = LOk L ->
  load_schema_pub isa fixed rp f [] (Some first) = LOk L.
Proof. exact merge_route_equals_version_list. Qed.
Print Assumptions C13_merge_route_equals_version_list.

Theorem C13_merge_route_repeat_same :
  forall (isa : N -> bool) (fixed : bool) (rp : repo) (f : sfile) (ns : str) (first L : lschema),
  set_schema_prefix isa fixed ns = Ok (l_ns first) -> ns <> [] ->
  load_schema_pub isa fixed rp f [] (Some first) = LOk L ->
  load_schema_pub isa fixed rp f ns (Some first) = LOk L.
Proof. exact merge_route_repeat_same. Qed.
Print Assumptions C13_merge_route_repeat_same.

(* The PLACE named by an issue (index_in_tag, index_in_tag_end of INVALID_PARENT_NODE, "extension word is a schema tag"):
   for a tag written with a namespace it is the place reported for the unprefixed tag moved by the length of the
   namespace, for every table, text and namespace length; and it is the place of the first extension word that is a
   tag of the schema.  (Places of the other issue kinds are compared on the implementation only.) *)
Theorem C13_invalid_parent_span_shift : forall (T : table) (clean : str) (adj : nat),
  invalid_parent_span T clean adj = option_map (shift_span adj) (invalid_parent_span T clean 0).
Proof. exact invalid_parent_span_shift. Qed.
Print Assumptions C13_invalid_parent_span_shift.

Theorem C13_first_schema_word_points : forall (T : table) (names : list str) (pos a b : nat),
  first_schema_word T names pos = Some (a, b) ->
  exists i nm, nth_error names i = Some nm /\ km_get [nm] (t_keys T) <> None /\
               (forall j x, j < i -> nth_error names j = Some x -> km_get [x] (t_keys T) = None) /\
               a = pos + words_offset (firstn i names) /\ b = a + length nm.
Proof. exact first_schema_word_points. Qed.
Print Assumptions C13_first_schema_word_points.

(* ====================================================================== PART 2: record of the repaired defects
   (fixed = false: the behaviour before fix commits 02171e0 (C13-F2), bb02e3e (C13-F3), 9d4df4f (C13-F4);
    fixed5 = false: the behaviour before fix commit 02f8597 (C13-F5).  None of this is true of /repo any more.) *)

(* C13-F5, REPAIRED by fix commit 02f8597.  Record: before it the tag character check ran on the state left by the
   schemas the object was built with -- "tl:R/a b" built where tl: is loaded and judged where it is not lost the
   invalid-character issue of the blank.  (Its third conjunct, the code as it is now, is C13_cross_char_check_witness_now.) *)
Theorem C13_cross_refuted_char_check_before_fix_02f8597 :
  let cA := cfg_group [([], s_ext); (ns_tl, s_ext)] in
  let cB := cfg_group [([], s_ext)] in
  let a := AGrp [ATag s_tl_r_ab] in
  x_cross false cA cB a = [LibraryUnmatched] /\ x_fresh cB a = [OtherCode 1 true; LibraryUnmatched]
  /\ x_cross true cA cB a = x_fresh cB a.
Proof. exact cross_refuted_char_check_before_reidentification. Qed.
Print Assumptions C13_cross_refuted_char_check_before_fix_02f8597.

(* what could be proved of the behaviour before 02f8597: the fresh verdict only when, in addition, the character
   check happened to see no difference between the two identifications *)
Theorem C13_cross_validation_fresh_partial_before_fix_02f8597 :
  forall (isalpha_c isprint_c : N -> bool) (foldc titlec lowerc : N -> N) (fixed : bool)
         (R1 R2 R3 : bool -> ann rtag -> list code) (cA cB : cfg) (a : ann str),
  CleanReident cA cB a ->
  R1 (c_flag cB) (ann_map (fun t => fst (resolve_tag cA t)) a) = R1 (c_flag cB) (ann_map (fun t => fst (resolve_tag cB t)) a) ->
  verdict_cross isalpha_c isprint_c foldc titlec lowerc fixed R1 R2 R3 false cA cB a =
  verdict isalpha_c isprint_c foldc titlec lowerc fixed R1 R2 R3 cB a.
Proof.
  exact (fun ia ip fc tc lc fx r1 r2 r3 cA cB a H1 H2 =>
           cross_validation_fresh ia ip fc tc lc fx r1 r2 r3 false cA cB a H1 (or_intror H2)).
Qed.
Print Assumptions C13_cross_validation_fresh_partial_before_fix_02f8597.

(* what could be proved of the unrepaired code: the equivalence only where the slash pattern and the
   capitalisation rule happened to agree and the characters of the namespace passed the character rule *)
Theorem C13_prefixed_equiv_partial_before_repairs :
  forall (isalpha_c isprint_c : N -> bool) (foldc titlec lowerc : N -> N) (R1 R2 R3 : bool -> ann rtag -> list code)
         (G : group) (p : str) (Sp : sch) (a : ann str),
  RUniform R1 -> RUniform R2 -> RUniform R3 ->
  NoDup (map fst G) -> lookup p G = Some Sp -> wf_ns p ->
  str_isalpha isalpha_c (drop_last p) = true ->
  schema83_group G = schema83_single Sp ->
  char_issues isprint_c (schema83_group G) p = [] ->
  all_unprefixed a ->
  Forall (fun t => fmt_count (p ++ t) = fmt_count t) (ann_tags a) ->
  Forall (fun r => check_capitalization titlec lowerc false (set_ns p r) = check_capitalization titlec lowerc false r)
         (ann_tags (resolved (cfg_single ([], Sp)) a)) ->
  ForeignSilent foldc G p (map (set_ns p) (ann_tags (resolved (cfg_single ([], Sp)) a))) ->
  verdict isalpha_c isprint_c foldc titlec lowerc false R1 R2 R3 (cfg_group G) (prefix_ann p a) =
  verdict isalpha_c isprint_c foldc titlec lowerc false R1 R2 R3 (cfg_single ([], Sp)) a.
Proof. exact prefixed_equiv_partial. Qed.
Print Assumptions C13_prefixed_equiv_partial_before_repairs.

(* the slash pattern under a namespace: the leading-slash alternative could never fire (C13-F2) *)
Theorem C13_fmt_count_prefixed : forall p t : str,
  p <> [] -> forallb (fun c => negb (is_sts c)) p = true -> fmt_count (p ++ t) = fmt_mid 0 false t.
Proof. exact fmt_count_prefixed. Qed.
Print Assumptions C13_fmt_count_prefixed.

(* C13-F2 (REPAIRED by fix commit 02171e0; behaviour before it): "tl:/Red/" got one NODE_NAME_EMPTY, "/Red/" two *)
Theorem C13_prefixed_equiv_refuted_leading_slash_before_repair :
  exists G p Sp a, structural G p Sp a /\ schema83_group G = schema83_single Sp /\
    x_verdict false (cfg_group G) (prefix_ann p a) <> x_verdict false (cfg_single ([], Sp)) a.
Proof. exact prefixed_equiv_refuted_leading_slash. Qed.
Print Assumptions C13_prefixed_equiv_refuted_leading_slash_before_repair.

(* C13-F3 (REPAIRED by fix commit bb02e3e; behaviour before it): "tl:3a" got a STYLE_WARNING, "3a" did not *)
Theorem C13_prefixed_equiv_refuted_capitalization_before_repair :
  exists G p Sp a, structural G p Sp a /\ schema83_group G = schema83_single Sp /\
    x_verdict false (cfg_group G) (prefix_ann p a) <> x_verdict false (cfg_single ([], Sp)) a.
Proof. exact prefixed_equiv_refuted_capitalization. Qed.
Print Assumptions C13_prefixed_equiv_refuted_capitalization_before_repair.

(* C13-F4 (REPAIRED by fix commit 9d4df4f; behaviour before it): "é:" was accepted as a namespace although every tag written with it is CHARACTER_INVALID
   under the pre-8.3 rules; it is refused now *)
Theorem C13_prefixed_equiv_refuted_nonascii_prefix_before_repair :
  exists G p Sp a, structural G p Sp a /\ schema83_group G = schema83_single Sp /\
    x_set_schema_prefix false p = Ok p /\
    x_verdict false (cfg_group G) (prefix_ann p a) = [CharacterInvalid] /\ x_verdict false (cfg_single ([], Sp)) a = [].
Proof. exact prefixed_equiv_refuted_nonascii_prefix. Qed.
Print Assumptions C13_prefixed_equiv_refuted_nonascii_prefix_before_repair.

Theorem C13_nonascii_namespace_refused_now :
  x_set_schema_prefix false ns_e_acute = Ok ns_e_acute /\ x_set_schema_prefix true ns_e_acute = Exn HedFileError.
Proof. exact nonascii_namespace_refused_now. Qed.
Print Assumptions C13_nonascii_namespace_refused_now.
