(* C12 -- model of issue construction, decoration, filtering, ordering and export:
   hed/errors/error_reporter.py, the call path of hed/validator/hed_validator.py:
   HedValidator.validate and hed/models/hed_string.py:HedString._get_org_span.
   Model only (no proofs).  The error-kind table, the severities and the sort-key
   lists come from Gen/ErrorCodes.v (translated from the sources on every run). *)
From Coq Require Import List NArith ZArith Arith Bool.
From HV Require Import Base.Res Base.Str Base.IssueTypes Gen.ErrorCodes.
Import ListNotations.

(* Mirror of harness/c12.py FIXED.  true = the code as it is in /repo since fix commit 5312cdc
   (_update_error_with_char_pos returns early when 'char_index' is already present, so decoration
   is idempotent); false = the behaviour BEFORE that commit (the location suffix was appended on
   every decoration -- finding C12-F1, repaired). *)
Definition code_is_fixed : bool := true.

(* ------------------------------------------------------------------ python values *)

(* A HedString as the reporter sees it: its original text, the identities of every
   node of its original tree (HedGroup.check_if_in_original walks _original_children,
   the string itself included) and, for HedString.from_hed_strings, its parts. *)
Inductive hstr : Set := HS (text : str) (orig : list nat) (from : list hstr).
Definition hs_text (h : hstr) : str := match h with HS t _ _ => t end.
Definition hs_orig (h : hstr) : list nat := match h with HS _ o _ => o end.
Definition hs_from (h : hstr) : list hstr := match h with HS _ _ f => f end.

(* A HedTag: identity, span in its own source string, .tag, .org_tag, bool(._tag) *)
Record srctag : Set := {
  t_id : nat; t_start : nat; t_end : nat; t_text : str; t_org : str; t_modified : bool }.

(* what callers pass as tag= / what ends up under 'source_tag' *)
Inductive source : Set :=
| SrcTag (t : srctag)
| SrcGroup (id s e : nat) (nonempty : bool) (printed org : str)
    (* HedGroup; bool(group)=bool(children); str(group); get_original_hed_string() *)
| SrcInt
| SrcStr (s : str).

Inductive cval : Set := VStr (s : str) | VInt (z : Z) | VHed (h : hstr).

(* the quoted parts of the message (texts are compared structurally, never rendered) *)
Record msg : Set := { m_tag : option str; m_frag : option str }.

Record issue : Set := {
  i_code : str;
  i_sev : nat;
  i_msg : msg;
  i_idx : option nat;             (* 'index_in_tag' *)
  i_idx_end : option nat;         (* 'index_in_tag_end' *)
  i_src : option source;          (* 'source_tag' *)
  i_ctx : list (ckey * cval);     (* ec_* entries, insertion ordered *)
  i_char : option (nat * nat);    (* 'char_index', 'char_index_end' *)
  i_suffixes : list (nat * nat)   (* location suffixes appended to the message, in order *)
}.

Definition set_code (c : str) (i : issue) : issue :=
  {| i_code := c; i_sev := i_sev i; i_msg := i_msg i; i_idx := i_idx i; i_idx_end := i_idx_end i;
     i_src := i_src i; i_ctx := i_ctx i; i_char := i_char i; i_suffixes := i_suffixes i |}.
Definition set_ctx (d : list (ckey * cval)) (i : issue) : issue :=
  {| i_code := i_code i; i_sev := i_sev i; i_msg := i_msg i; i_idx := i_idx i; i_idx_end := i_idx_end i;
     i_src := i_src i; i_ctx := d; i_char := i_char i; i_suffixes := i_suffixes i |}.
Definition set_char (ns ne : nat) (i : issue) : issue :=
  {| i_code := i_code i; i_sev := i_sev i; i_msg := i_msg i; i_idx := i_idx i; i_idx_end := i_idx_end i;
     i_src := i_src i; i_ctx := i_ctx i; i_char := Some (ns, ne);
     i_suffixes := i_suffixes i ++ [(ns, ne)] |}.

(* ------------------------------------------------------------------ dict helpers *)

Fixpoint dict_get (k : ckey) (d : list (ckey * cval)) : option cval :=
  match d with
  | [] => None
  | (k', v) :: r => if ckey_eqb k k' then Some v else dict_get k r
  end.

(* d[k] = v : overwrite in place, else append *)
Fixpoint dict_set (k : ckey) (v : cval) (d : list (ckey * cval)) : list (ckey * cval) :=
  match d with
  | [] => [(k, v)]
  | (k', v') :: r => if ckey_eqb k k' then (k, v) :: r else (k', v') :: dict_set k v r
  end.

(* ------------------------------------------------------------------ construction *)

(* ErrorHandler._create_error_object *)
Definition create_error_object (code : str) (m : msg) (sev : nat)
           (idx idx_end : option nat) (src : option source) : issue :=
  {| i_code := code; i_sev := sev; i_msg := m; i_idx := idx; i_idx_end := idx_end; i_src := src;
     i_ctx := []; i_char := None; i_suffixes := [] |}.

(* try: tag.tag except AttributeError: str(tag) *)
Definition tag_as_string (s : source) : str :=
  match s with
  | SrcTag t => t_text t
  | SrcGroup _ _ _ _ printed _ => printed
  | SrcInt => []
  | SrcStr x => x
  end.
(* tag.org_tag / group.get_original_hed_string() / str(tag) *)
Definition org_tag_text (s : source) : str :=
  match s with
  | SrcTag t => t_org t
  | SrcGroup _ _ _ _ _ org => org
  | SrcInt => []
  | SrcStr x => x
  end.

Definition sev_or (o : option nat) (d : nat) : nat := match o with Some s => s | None => d end.

(* hed_error(...).wrapper *)
Definition wrap_error (r : kind_row) (sev : option nat) : issue :=
  create_error_object (k_code r) {| m_tag := None; m_frag := None |} (sev_or sev (k_sev r)) None None None.

(* hed_tag_error(..., has_sub_tag=True).wrapper *)
Definition wrap_tag_sub (r : kind_row) (tag : source) (idx : nat) (idx_end : option nat)
           (sev : option nat) : issue :=
  let ts := tag_as_string tag in
  let e := match idx_end with None => length ts | Some e => e end in
  let problem_sub_tag := sub ts idx e in
  create_error_object (k_code r) {| m_tag := Some (org_tag_text tag); m_frag := Some problem_sub_tag |}
                      (sev_or sev (k_sev r)) (Some idx) (Some e) (Some tag).

(* hed_tag_error(...).wrapper *)
Definition wrap_tag (r : kind_row) (tag : source) (sev : option nat) : issue :=
  create_error_object (k_code r) {| m_tag := Some (org_tag_text tag); m_frag := None |}
                      (sev_or sev (k_sev r)) None None (Some tag).

Fixpoint find_kind (table : list kind_row) (kind : str) : option kind_row :=
  match table with
  | [] => None
  | r :: rs => if str_eqb (k_kind r) kind then Some r else find_kind rs kind
  end.

Record call_args : Set := {
  a_tag : option source; a_idx : nat; a_idx_end : option nat; a_sev : option nat }.

(* ErrorHandler.format_error *)
Definition format_error (table : list kind_row) (kind : str) (a : call_args)
           (actual_error : option str) : res issue :=
  let* obj :=
    match find_kind table kind with
    | None =>   (* val_error_unknown, then error_object['code'] = error_type *)
        Ok (create_error_object kind {| m_tag := None; m_frag := None |}
                                (sev_or (a_sev a) sev_error) None None None)
    | Some r =>
        if k_tag r then
          match a_tag a with
          | None => Exn TypeError           (* missing positional argument *)
          | Some t => Ok (if k_sub r then wrap_tag_sub r t (a_idx a) (a_idx_end a) (a_sev a)
                          else wrap_tag r t (a_sev a))
          end
        else Ok (wrap_error r (a_sev a))
    end in
  Ok (match actual_error with
      | Some (c :: cs) => set_code (c :: cs) obj
      | _ => obj
      end).

(* ------------------------------------------------------------------ handler state *)

Record handler : Set := { h_ctx : list (ckey * cval); h_warn : bool }.

(* ErrorHandler.push_error_context *)
Definition push_error_context (h : handler) (k : ckey) (v : option cval) : handler :=
  let v' := match v with
            | Some x => x
            | None => if ckey_mem k int_sort_list then VInt 0 else VStr []
            end in
  {| h_ctx := h_ctx h ++ [(k, v')]; h_warn := h_warn h |}.

(* ErrorHandler.pop_error_context *)
Definition pop_error_context (h : handler) : res handler :=
  match h_ctx h with
  | [] => Exn IndexError
  | _ => Ok {| h_ctx := removelast (h_ctx h); h_warn := h_warn h |}
  end.

(* ------------------------------------------------------------------ decoration *)

(* ErrorHandler._add_context_to_errors *)
Definition add_context_to_errors (i : issue) (ctx : list (ckey * cval)) : issue :=
  fold_left (fun acc kv => set_ctx (dict_set (fst kv) (snd kv) (i_ctx acc)) acc) ctx i.

Definition in_original (h : hstr) (id : nat) : bool := existsb (Nat.eqb id) (hs_orig h).

Definition src_id_span (s : source) : option (nat * (nat * nat)) :=
  match s with
  | SrcTag t => Some (t_id t, (t_start t, t_end t))
  | SrcGroup id a b _ _ _ => Some (id, (a, b))
  | SrcInt => None
  | SrcStr _ => None
  end.

(* HedString._get_org_span_from_strings *)
Fixpoint get_org_span_from_strings (parts : list hstr) (off id a b : nat) : option (nat * nat) :=
  match parts with
  | [] => None
  | p :: ps => if in_original p id then Some (a + off, b + off)
               else get_org_span_from_strings ps (off + length (hs_text p) + 1) id a b
  end.

(* HedString._get_org_span *)
Definition get_org_span (h : hstr) (s : source) : option (nat * nat) :=
  match src_id_span s with
  | None => None                          (* a str is never identical to a node *)
  | Some (id, (a, b)) =>
      match hs_from h with
      | [] => if in_original h id then Some (a, b) else None
      | parts => get_org_span_from_strings parts 0 id a b
      end
  end.

(* ErrorHandler._get_tag_span_to_error_object *)
Definition get_tag_span_to_error_object (i : issue) : res (option (nat * nat)) :=
  match dict_get CHedString (i_ctx i) with
  | None => Ok None
  | Some v =>
      match i_src i with
      | None => Ok None
      | Some SrcInt => Ok None
      | Some s =>
          match v with
          | VHed h => Ok (get_org_span h s)
          | _ => Exn AttributeError          (* str/int has no _get_org_span *)
          end
      end
  end.

(* ErrorHandler._update_error_with_char_pos.  [fixed] = true: with the guard
   "if 'char_index' in error_object: return" in front (in /repo since fix commit 5312cdc);
   false: the function before that commit. *)
Definition update_error_with_char_pos (fixed : bool) (i : issue) : res issue :=
  if fixed && (match i_char i with Some _ => true | None => false end) then Ok i else
  let* sp := get_tag_span_to_error_object i in
  match sp with
  | None => Ok i
  | Some (start, end_) =>
      (* if source_tag and source_tag._tag *)
      let* whole := match i_src i with
                    | Some (SrcTag t) => Ok (t_modified t)
                    | Some (SrcGroup _ _ _ nonempty _ _) =>
                        if nonempty then Exn AttributeError   (* HedGroup has no _tag *)
                        else Ok false
                    | _ => Ok false
                    end in
      if whole then Ok (set_char start end_ i)
      else
        let new_start := start + match i_idx i with Some k => k | None => 0 end in
        let new_end := match i_idx_end i with Some e => start + e | None => end_ end in
        Ok (set_char new_start new_end i)
  end.

(* ErrorHandler.filter_issues_by_severity *)
Definition filter_issues_by_severity (l : list issue) (sev : nat) : list issue :=
  filter (fun i => i_sev i <=? sev) l.

Definition decorate_one (fixed : bool) (ctx : list (ckey * cval)) (i : issue) : res issue :=
  update_error_with_char_pos fixed (add_context_to_errors i ctx).

(* ErrorHandler.add_context_and_filter (the list is updated in place; the model returns it) *)
Definition add_context_and_filter (fixed : bool) (h : handler) (issues : list issue) : res (list issue) :=
  let l := if h_warn h then issues else filter_issues_by_severity issues sev_error in
  mapM (decorate_one fixed (h_ctx h)) l.

(* ErrorHandler.format_error_with_context (self may be None) *)
Definition format_error_with_context (fixed : bool) (h : option handler) (table : list kind_row)
           (kind : str) (a : call_args) (actual_error : option str) : res (list issue) :=
  let* i := format_error table kind a actual_error in
  match h with
  | None => Ok [i]
  | Some hd =>
      if negb (h_warn hd) && (sev_warning <=? i_sev i) then Ok []
      else let* i' := decorate_one fixed (h_ctx hd) i in Ok [i']
  end.

(* error_reporter.check_for_any_errors *)
Definition check_for_any_errors (l : list issue) : bool :=
  existsb (fun i => i_sev i <? sev_warning) l.

(* HedValidator.validate: [basic]/[full] are what run_basic_checks /
   run_full_string_checks return (any lists). *)
Definition validate (fixed : bool) (h : handler) (basic full : list issue) : res (list issue) :=
  let* issues := add_context_and_filter fixed h basic in
  if check_for_any_errors issues then Ok issues
  else add_context_and_filter fixed h (issues ++ full).

(* ------------------------------------------------------------------ ordering *)

(* components of the key tuple of sort_issues._get_keys (as of fix commit 2e53521):
     key in int_sort_list : the raw value, default -1        -> KI z | KS s
     any other key        : (0, text) if it is a str else (1, value), default (0, "")  -> KT0 s | KT1 z *)
Inductive kv : Set := KI (z : Z) | KS (s : str) | KT0 (s : str) | KT1 (z : Z).

Fixpoint lex_cmp {A} (c : A -> A -> comparison) (a b : list A) : comparison :=
  match a, b with
  | [], [] => Eq
  | [], _ :: _ => Lt
  | _ :: _, [] => Gt
  | x :: a', y :: b' => match c x y with Eq => lex_cmp c a' b' | o => o end
  end.

Definition str_cmp : str -> str -> comparison := lex_cmp N.compare.

Definition kv_rank (a : kv) : nat :=
  match a with KI _ => 0 | KS _ => 1 | KT0 _ => 2 | KT1 _ => 3 end.

(* a total order that agrees with Python wherever Python can compare: int<int, str<str,
   (0, text) < (1, number) (text labels before numeric ones); a raw int against a raw str is
   ordered int < str here, Python raises TypeError on it: see [comparable].  Raw and tagged
   components never meet (a position is either an int key or not). *)
Definition kv_cmp (a b : kv) : comparison :=
  match a, b with
  | KI x, KI y => Z.compare x y
  | KS x, KS y => str_cmp x y
  | KT0 x, KT0 y => str_cmp x y
  | KT1 x, KT1 y => Z.compare x y
  | _, _ => Nat.compare (kv_rank a) (kv_rank b)
  end.

Definition key_cmp : list kv -> list kv -> comparison := lex_cmp kv_cmp.

(* tuple comparison raises iff the first differing position holds a raw int against a raw str *)
Fixpoint comparable (a b : list kv) : bool :=
  match a, b with
  | x :: a', y :: b' =>
      match x, y with
      | KI p, KI q => if Z.eqb p q then comparable a' b' else true
      | KS p, KS q => if str_eqb p q then comparable a' b' else true
      | KT0 p, KT0 q => if str_eqb p q then comparable a' b' else true
      | KT1 p, KT1 q => if Z.eqb p q then comparable a' b' else true
      | KT0 _, KT1 _ | KT1 _, KT0 _ => true
      | _, _ => false
      end
  | _, _ => true
  end.

(* sort_issues._get_keys for one key; None = a HedString object used as a sort key (not modelled) *)
Definition get_key1 (d : list (ckey * cval)) (k : ckey) : option kv :=
  let is_int := ckey_mem k int_sort_list in
  match dict_get k d with
  | Some (VStr s) => Some (if is_int then KS s else KT0 s)
  | Some (VInt z) => Some (if is_int then KI z else KT1 z)
  | Some (VHed _) => None
  | None => Some (if is_int then KI (-1)%Z else KT0 [])
  end.

Definition get_keys (i : issue) : list kv :=
  map (fun k => match get_key1 (i_ctx i) k with Some v => v | None => KT0 [] end) default_sort_list.

Definition keys_modelled (i : issue) : bool :=
  forallb (fun k => match get_key1 (i_ctx i) k with Some _ => true | None => false end) default_sort_list.

Definition issue_leb (reverse : bool) (a b : issue) : bool :=
  match (if reverse then key_cmp (get_keys b) (get_keys a) else key_cmp (get_keys a) (get_keys b)) with
  | Gt => false
  | _ => true
  end.

(* stable insertion sort: x (which stood before every element of l) goes in front of
   the first y with leb x y *)
Fixpoint insert_by {A} (leb : A -> A -> bool) (x : A) (l : list A) : list A :=
  match l with
  | [] => [x]
  | y :: ys => if leb x y then x :: y :: ys else y :: insert_by leb x ys
  end.

Fixpoint isort {A} (leb : A -> A -> bool) (l : list A) : list A :=
  match l with
  | [] => []
  | x :: xs => insert_by leb x (isort leb xs)
  end.

Fixpoint all_pairs {A} (p : A -> A -> bool) (l : list A) : bool :=
  match l with
  | [] => true
  | x :: xs => forallb (p x) xs && all_pairs p xs
  end.

(* error_reporter.sort_issues = sorted(issues, key=_get_keys, reverse=reverse).
   Exact when every pair of keys is comparable (then no comparison can raise and
   sorted() is a stable sort); when some pair is not, CPython raises TypeError only
   if it happens to compare that pair -- the model always answers TypeError
   (exact for two-element lists). *)
Definition sort_issues (issues : list issue) (reverse : bool) : res (list issue) :=
  if forallb keys_modelled issues then
    if all_pairs (fun a b => comparable (get_keys a) (get_keys b)) issues
    then Ok (isort (issue_leb reverse) issues)
    else Exn TypeError
  else Exn Unmodelled.

(* ------------------------------------------------------------------ export *)

Inductive pyval : Set :=
| PBool (b : bool) | PInt (z : Z) | PFloat (id : nat) | PStr (s : str) | PNone
| PObj (repr : str)                       (* HedTag, HedString, tuple, set, ...: str(value) = repr *)
| PList (l : list pyval)
| PDict (d : list (str * pyval)).          (* keys of issue dicts are strings *)

Definition s_None : str := [78; 111; 110; 101]%N.

(* error_reporter.replace_tag_references *)
Fixpoint replace_tag_references (v : pyval) : pyval :=
  let item := fun x : pyval =>
    match x with
    | PDict _ | PList _ => replace_tag_references x
    | PBool _ | PInt _ | PFloat _ => x
    | PStr s => PStr s
    | PNone => PStr s_None
    | PObj r => PStr r
    end in
  match v with
  | PDict d => PDict (map (fun kx => (fst kx, item (snd kx))) d)
  | PList l => PList (map item l)
  | other => other
  end.

(* json.dumps succeeds (default settings: NaN allowed, str keys) *)
Fixpoint json_ok (v : pyval) : bool :=
  match v with
  | PObj _ => false
  | PList l => forallb json_ok l
  | PDict d => forallb (fun kx => json_ok (snd kx)) d
  | _ => true
  end.

Definition s_code : str := [99; 111; 100; 101]%N.
Definition s_message : str := [109; 101; 115; 115; 97; 103; 101]%N.
Definition s_severity : str := [115; 101; 118; 101; 114; 105; 116; 121]%N.
Definition s_index_in_tag : str := [105; 110; 100; 101; 120; 95; 105; 110; 95; 116; 97; 103]%N.
Definition s_index_in_tag_end : str := s_index_in_tag ++ [95; 101; 110; 100]%N.
Definition s_source_tag : str := [115; 111; 117; 114; 99; 101; 95; 116; 97; 103]%N.
Definition s_char_index : str := [99; 104; 97; 114; 95; 105; 110; 100; 101; 120]%N.
Definition s_char_index_end : str := s_char_index ++ [95; 101; 110; 100]%N.

Definition source_py (s : source) : pyval :=
  match s with
  | SrcTag t => PObj (t_text t)
  | SrcGroup _ _ _ _ printed _ => PObj printed
  | SrcInt => PInt 0
  | SrcStr x => PStr x
  end.

Definition cval_py (v : cval) : pyval :=
  match v with
  | VStr s => PStr s
  | VInt z => PInt z
  | VHed h => PObj (hs_text h)
  end.

Definition opt_entry {A} (k : str) (f : A -> pyval) (o : option A) : list (str * pyval) :=
  match o with Some x => [(k, f x)] | None => [] end.

(* the dict an issue is in Python, keys in insertion order (the message text is abstract) *)
Definition issue_py (i : issue) : pyval :=
  PDict ([(s_code, PStr (i_code i)); (s_message, PStr []); (s_severity, PInt (Z.of_nat (i_sev i)))]
         ++ opt_entry s_index_in_tag (fun k => PInt (Z.of_nat k)) (i_idx i)
         ++ opt_entry s_index_in_tag_end (fun k => PInt (Z.of_nat k)) (i_idx_end i)
         ++ opt_entry s_source_tag source_py (i_src i)
         ++ map (fun kv => (ckey_name (fst kv), cval_py (snd kv))) (i_ctx i)
         ++ opt_entry s_char_index (fun p => PInt (Z.of_nat (fst p))) (i_char i)
         ++ opt_entry s_char_index_end (fun p => PInt (Z.of_nat (snd p))) (i_char i)).

Definition export (l : list issue) : pyval := replace_tag_references (PList (map issue_py l)).

Fixpoint py_get (k : str) (d : list (str * pyval)) : option pyval :=
  match d with
  | [] => None
  | (k', v) :: r => if str_eqb k k' then Some v else py_get k r
  end.

Definition py_code (v : pyval) : option str :=
  match v with
  | PDict d => match py_get s_code d with Some (PStr c) => Some c | _ => None end
  | _ => None
  end.

Definition py_items (v : pyval) : list pyval := match v with PList l => l | _ => [] end.
