(* C14 -- model of hed/schema/schema_compliance.py, schema_attribute_validators.py,
   schema_attribute_validator_hed_id.py and of the load-time bookkeeping they rely on
   (hed_schema_entry.py, hed_schema_section.py, hed_schema.py:_get_attributes_for_section).
   Model only -- no proofs.  Each definition names the Python function it transcribes.

   Not modelled (see harness/c14.py TRUSTED): check_invalid_chars / check_prologue_epilogue
   (warning-only character checks), sort_issues (a permutation), message texts, the re-ordering
   of HedSchemaTagSection.all_entries before finalisation, str.casefold()/lower() outside ASCII,
   unmerged partnered files (a second schema would have to be loaded). *)
From Coq Require Import List NArith ZArith Bool Arith.
From HV Require Import Base.Res Base.Str Base.C14Base Gen.ComplianceTables.
Import ListNotations.
Local Open Scope N_scope.

(* ------------------------------------------------------------------ strings *)

(* list reversal, linear (the standard library's [rev] is quadratic when extracted) *)
Definition rev {A} (l : list A) : list A := rev_append l [].

Definition lower_char (c : N) : N := if (65 <=? c) && (c <=? 90) then c + 32 else c.
(* str.casefold() / str.lower(): exact on ASCII, identity elsewhere (inputs are checked) *)
Definition casefold (s : str) : str := map lower_char s.

(* s.split(c) *)
Fixpoint split_on (c : N) (s : str) : list str :=
  match s with
  | [] => [[]]
  | x :: xs =>
      if N.eqb x c then [] :: split_on c xs
      else match split_on c xs with
           | [] => [[x]]
           | h :: t => (x :: h) :: t
           end
  end.

Definition split_comma (s : str) : list str := split_on 44 s.

Definition ends_with (suf s : str) : bool := prefixb (rev suf) (rev s).

Definition slash_hash : str := [47; 35].

Fixpoint mem_str (x : str) (l : list str) : bool :=
  match l with [] => false | y :: r => str_eqb x y || mem_str x r end.

(* s.find("/") : the text after the first slash *)
Fixpoint after_slash (s : str) : option str :=
  match s with
  | [] => None
  | c :: r => if N.eqb c ch_slash then Some r else after_slash r
  end.

(* name.rpartition("/") -> (parent, child) *)
Fixpoint rpart_rev (r acc : str) : str * str :=
  match r with
  | [] => ([], acc)
  | c :: r' => if N.eqb c ch_slash then (rev r', acc) else rpart_rev r' (c :: acc)
  end.
Definition rpartition_slash (s : str) : str * str := rpart_rev (rev s) [].

Definition is_ws (c : N) : bool := isspace c.
Fixpoint lstrip (s : str) : str :=
  match s with [] => [] | c :: r => if is_ws c then lstrip r else s end.
Definition strip (s : str) : str := rev (lstrip (rev (lstrip s))).

(* dicts with Python insertion-order semantics *)
Section Dict.
  Context {V : Type}.
  Fixpoint dict_get (k : str) (d : list (str * V)) : option V :=
    match d with
    | [] => None
    | (k', v) :: r => if str_eqb k k' then Some v else dict_get k r
    end.
  Fixpoint dict_set (k : str) (v : V) (d : list (str * V)) : list (str * V) :=
    match d with
    | [] => [(k, v)]
    | (k', v') :: r => if str_eqb k k' then (k', v) :: r else (k', v') :: dict_set k v r
    end.
  Definition dict_has (k : str) (d : list (str * V)) : bool :=
    match dict_get k d with Some _ => true | None => false end.
  Definition dict_of (l : list (str * V)) : list (str * V) :=
    fold_left (fun d kv => dict_set (fst kv) (snd kv) d) l [].
End Dict.

(* a trie keyed by code points: HedSchemaTagSection.long_form_tags *)
Inductive trie : Set := TNode (v : option N) (ch : list (N * trie)).
Definition t_empty : trie := TNode None [].

Fixpoint t_find (k : str) (t : trie) {struct k} : option N :=
  match t with
  | TNode v ch =>
      match k with
      | [] => v
      | c :: k' =>
          (fix look (l : list (N * trie)) : option N :=
             match l with
             | [] => None
             | (c', sub) :: r => if N.eqb c c' then t_find k' sub else look r
             end) ch
      end
  end.

Fixpoint t_upd (c : N) (f : trie -> trie) (l : list (N * trie)) : list (N * trie) :=
  match l with
  | [] => [(c, f t_empty)]
  | (c', sub) :: r => if N.eqb c c' then (c', f sub) :: r else (c', sub) :: t_upd c f r
  end.

(* long_form_tags[k] = v  (overwrites) *)
Fixpoint t_insert (k : str) (v : N) (t : trie) {struct k} : trie :=
  match t with
  | TNode o ch =>
      match k with
      | [] => TNode (Some v) ch
      | c :: k' => TNode o (t_upd c (t_insert k' v) ch)
      end
  end.

(* lists indexed by binary numbers (indices are compared often; unary nat would be slow) *)
Fixpoint drop_pos {A} (p : positive) (l : list A) : list A :=
  match p with
  | xH => tl l
  | xO q => drop_pos q (drop_pos q l)
  | xI q => tl (drop_pos q (drop_pos q l))
  end.
Definition nth_n {A} (l : list A) (i : N) : option A :=
  match i with N0 => hd_error l | Npos p => hd_error (drop_pos p l) end.
Fixpoint enum_from {A} (i : N) (l : list A) : list (N * A) :=
  match l with [] => [] | x :: r => (i, x) :: enum_from (N.succ i) r end.

(* res helpers *)
Fixpoint concat_mapM {A B} (f : A -> res (list B)) (l : list A) : res (list B) :=
  match l with
  | [] => Ok []
  | x :: xs => let* a := f x in let* b := concat_mapM f xs in Ok (a ++ b)
  end.

(* ------------------------------------------------------------------ numbers *)

Definition is_digit (c : N) : bool := (48 <=? c) && (c <=? 57).

(* digitpart ::= digit (["_"] digit)*   -> digits (most significant first) and the rest *)
Fixpoint digitpart_more (fuel : nat) (s : str) (acc : list N) : list N * str :=
  match fuel with
  | O => (rev acc, s)
  | S f =>
      match s with
      | c :: r =>
          if is_digit c then digitpart_more f r ((c - 48) :: acc)
          else if N.eqb c 95 then
                 match r with
                 | d :: r' => if is_digit d then digitpart_more f r' ((d - 48) :: acc) else (rev acc, s)
                 | [] => (rev acc, s)
                 end
               else (rev acc, s)
      | [] => (rev acc, s)
      end
  end.
Definition digitpart (s : str) : option (list N * str) :=
  match s with
  | c :: r => if is_digit c then Some (digitpart_more (length s) r [c - 48]) else None
  | [] => None
  end.

Definition digits_val (ds : list N) : Z := fold_left (fun a d => (a * 10 + Z.of_N d)%Z) ds 0%Z.

(* optional sign *)
Definition split_sign (s : str) : bool * str :=
  match s with
  | c :: r => if N.eqb c 45 then (true, r) else if N.eqb c 43 then (false, r) else (false, s)
  | [] => (false, s)
  end.

(* int(text) for base 10: surrounding whitespace, sign, digits with single underscores *)
Definition parse_int (s : str) : option Z :=
  let '(neg, body) := split_sign (strip s) in
  match digitpart body with
  | Some (ds, []) => Some (if neg then (- digits_val ds)%Z else digits_val ds)
  | _ => None
  end.

Inductive pyfloat : Set :=
| FNan
| FInf (neg : bool)
| FDec (neg : bool) (mant : Z) (exp10 : Z) (ndigits : nat).   (* mant * 10^exp10 *)

Definition word_inf : str := [105; 110; 102].
Definition word_infinity : str := [105; 110; 102; 105; 110; 105; 116; 121].
Definition word_nan : str := [110; 97; 110].

(* optional fraction: "." [digitpart] *)
Definition split_fraction (rest : str) : list N * str :=
  match rest with
  | c :: r => if N.eqb c 46
              then match digitpart r with Some (ds, r') => (ds, r') | None => ([], r) end
              else ([], rest)
  | [] => ([], rest)
  end.

(* optional exponent: ("e"|"E") [sign] digitpart, then end of text *)
Definition parse_exponent (rest : str) : option Z :=
  match rest with
  | [] => Some 0%Z
  | e :: r =>
      if N.eqb e 101 || N.eqb e 69 then
        let '(eneg, r2) := split_sign r in
        match digitpart r2 with
        | Some (es, []) => Some (if eneg then (- digits_val es)%Z else digits_val es)
        | _ => None
        end
      else None
  end.

(* float(text): whitespace, sign, inf/infinity/nan, decimal with optional fraction and exponent *)
Definition parse_float (s : str) : option pyfloat :=
  let '(neg, body) := split_sign (strip s) in
  let lb := casefold body in
  if str_eqb lb word_inf || str_eqb lb word_infinity then Some (FInf neg)
  else if str_eqb lb word_nan then Some FNan
  else
    let '(ip, rest) := match digitpart body with Some (ds, r) => (ds, r) | None => ([], body) end in
    let '(fp, rest2) := split_fraction rest in
    match ip ++ fp with
    | [] => None
    | ds =>
        match parse_exponent rest2 with
        | None => None
        | Some ev => Some (FDec neg (digits_val ds) (ev - Z.of_nat (length fp))%Z (length ds))
        end
    end.

(* x <= 0.0 for the IEEE double nearest to the parsed text: a positive decimal rounds to 0.0
   exactly when it is <= 2^-1075 *)
Definition float_le_zero (x : pyfloat) : bool :=
  match x with
  | FNan => false
  | FInf neg => neg
  | FDec neg m e nd =>
      if (m =? 0)%Z then true
      else if neg then true
      else if (0 <=? e)%Z then false
      else if (Z.of_nat nd + e <? -330)%Z then true
      else if (Z.of_nat nd + 400 <? - e)%Z then true
      else (m * 2 ^ 1075 <=? 10 ^ (- e))%Z
  end.

(* semantic_version.Version(text), plain MAJOR.MINOR.PATCH only (no leading zeros) *)
Definition parse_num_id (s : str) : option N :=
  match s with
  | [] => None
  | c :: r =>
      if N.eqb c 48 then match r with [] => Some 0 | _ => None end
      else if forallb is_digit s then Some (fold_left (fun a c => a * 10 + (c - 48)) s 0) else None
  end.

Definition parse_version (s : str) : res (N * N * N) :=
  match split_on 46 s with
  | [a; b; c] =>
      match parse_num_id a, parse_num_id b, parse_num_id c with
      | Some x, Some y, Some z => Ok (x, y, z)
      | _, _, _ => Exn ValueError
      end
  | _ => Exn ValueError
  end.

Definition version_ltb (a b : N * N * N) : bool :=
  let '(a1, a2, a3) := a in
  let '(b1, b2, b3) := b in
  (a1 <? b1) || ((a1 =? b1) && ((a2 <? b2) || ((a2 =? b2) && (a3 <? b3)))).
Definition version_leb (a b : N * N * N) : bool := negb (version_ltb b a).

(* ------------------------------------------------------------------ environment *)

Record env : Set := mkEnv {
  env_known : list (str * list str);    (* get_hed_versions: library ("" standard) -> versions, newest first *)
  env_ranges : list (str * (Z * Z));    (* library_data.json id_range *)
  env_plural : list (str * str);        (* inflect plural of lower-cased unit names *)
  env_loadable : list (str * rschema)   (* what load_schema_version("lib_x.y.z" | "x.y.z") yields *)
}.

(* hed_cache.get_hed_versions(library_name=...): a missing library gives {} *)
Definition get_hed_versions (E : env) (lib : str) : list str :=
  match dict_get lib (env_known E) with Some l => l | None => [] end.

(* ------------------------------------------------------------------ loaded schema *)

Record lentry : Set := mkLE {
  le_name : str;
  le_sec : section;
  le_attrs : list (str * aval);     (* entry.attributes *)
  le_inh : list (str * aval);       (* HedTagEntry.inherited_attributes; = le_attrs elsewhere *)
  le_unknown : list str;            (* keys of entry._unknown_attributes *)
  le_registered : bool;             (* in section.all_names (not a duplicate) *)
  le_parent : option N;             (* tags: index of _parent_tag in l_tags *)
  le_tvchild : bool;                (* tags: takes_value_child_entry is set *)
  le_short : str;                   (* tags: short_tag_name *)
  le_units : list N;                (* unit classes: values of .units (indices into l_units) *)
  le_deriv : list (str * N)         (* unit classes: derivative_units *)
}.

Record lschema : Set := mkL {
  l_version : str;
  l_library : str;
  l_with_standard : str;
  l_is83 : bool;                    (* schema_83_props after finalize_dictionaries *)
  l_props : list lentry;
  l_attrs : list lentry;
  l_mods : list lentry;
  l_uclasses : list lentry;
  l_units : list lentry;
  l_vclasses : list lentry;
  l_tags : list lentry;             (* all_entries, registration order, duplicates included *)
  l_forms : trie;                   (* long_form_tags: casefolded form -> index into l_tags *)
  l_dups : list (section * list (str * list (str * bool)))   (* duplicate_names: key -> (name, has inLibrary) *)
}.

Definition has_attr (e : lentry) (a : str) : bool := dict_has a (le_inh e).   (* entry.has_attribute(a) *)
Definition attr_value (e : lentry) (a : str) : option aval := dict_get a (le_inh e).

Definition section_all (L : lschema) (sec : section) : list lentry :=
  match sec with
  | SecTags => l_tags L | SecUnitClasses => l_uclasses L | SecUnits => l_units L
  | SecUnitModifiers => l_mods L | SecValueClasses => l_vclasses L
  | SecAttributes => l_attrs L | SecProperties => l_props L
  end.

(* section.values(): the registered entries *)
Definition section_values (L : lschema) (sec : section) : list lentry :=
  filter le_registered (section_all L sec).

Fixpoint find_named (name : str) (l : list lentry) : option lentry :=
  match l with
  | [] => None
  | e :: r => if le_registered e && str_eqb name (le_name e) then Some e else find_named name r
  end.

(* HedSchemaUnitSection: key of an entry in all_names *)
Definition unit_key (e : lentry) : str :=
  if dict_has HedKey_UnitSymbol (le_attrs e) then le_name e else casefold (le_name e).

Fixpoint find_unit_key (k : str) (l : list lentry) : option lentry :=
  match l with
  | [] => None
  | e :: r => if le_registered e && str_eqb k (unit_key e) then Some e else find_unit_key k r
  end.

(* HedSchemaUnitSection.__getitem__ *)
Definition units_get (units : list lentry) (key : str) : option lentry :=
  match find_unit_key key units with
  | Some e => Some e
  | None =>
      match find_unit_key (casefold key) units with
      | None => None
      | Some e => if dict_has HedKey_UnitSymbol (le_attrs e) then None else Some e
      end
  end.

(* HedSchema.get_tag_entry(name, key_class) with an empty namespace *)
Definition lookup (L : lschema) (sec : section) (name : str) : option lentry :=
  match sec with
  | SecTags => match t_find (casefold name) (l_forms L) with
               | Some i => nth_n (l_tags L) i
               | None => None
               end
  | SecUnits => units_get (l_units L) name
  | _ => find_named name (section_all L sec)
  end.

(* ---- valid attributes per section: HedSchema._get_attributes_for_section *)

Definition names_with (attr_entries : list lentry) (p : str) : list str :=
  map le_name (filter (fun e => le_registered e && dict_has p (le_attrs e)) attr_entries).

Definition valid_attributes (is83 : bool) (props attrs : list lentry) (sec : section) : list str :=
  let elem := if is83 then HedKey_ElementDomain else HedKeyOld_ElementProperty in
  let either (p : str) :=
      map le_name (filter (fun e => le_registered e && (dict_has p (le_attrs e) || dict_has elem (le_attrs e))) attrs) in
  match sec with
  | SecProperties => names_with attrs elem
  | SecAttributes => map le_name (filter le_registered props) ++ names_with attrs elem
  | SecTags =>
      if is83 then either HedKey_TagDomain
      else (* get_tag_attribute_names_old *)
        map le_name (filter (fun e => le_registered e
                                      && negb (dict_has HedKeyOld_UnitClassProperty (le_attrs e))
                                      && negb (dict_has HedKeyOld_UnitProperty (le_attrs e))
                                      && negb (dict_has HedKeyOld_UnitModifierProperty (le_attrs e))
                                      && negb (dict_has HedKeyOld_ValueClassProperty (le_attrs e))) attrs)
  | SecUnitClasses => either (if is83 then HedKey_UnitClassDomain else HedKeyOld_UnitClassProperty)
  | SecUnits => either (if is83 then HedKey_UnitDomain else HedKeyOld_UnitProperty)
  | SecUnitModifiers => either (if is83 then HedKey_UnitModifierDomain else HedKeyOld_UnitModifierProperty)
  | SecValueClasses => either (if is83 then HedKey_ValueClassDomain else HedKeyOld_ValueClassProperty)
  end.

(* schema_util.schema_version_greater_equal(schema, "8.3.0") for a single schema *)
Definition version_ge_83 (RS : rschema) : res bool :=
  let cand := match rs_with_standard RS with
              | [] => match rs_library RS with [] => [rs_version RS] | _ => [] end
              | ws => [ws]
              end in
  (fix go (l : list str) : res bool :=
     match l with
     | [] => Ok false
     | v :: r => let* pv := parse_version v in
                 if version_leb (8, 3, 0) pv then Ok true else go r
     end) cand.

(* ---- generic sections: HedSchemaSection._add_to_dict / _check_if_duplicate *)

Definition mk_plain (sec : section) (name : str) (attrs : list (str * aval)) (reg : bool) : lentry :=
  mkLE name sec attrs attrs [] reg None false [] [] [].

Definition add_dup (key : str) (first : str * bool) (new : str * bool)
           (d : list (str * list (str * bool))) : list (str * list (str * bool)) :=
  match dict_get key d with
  | None => dict_set key [first; new] d
  | Some l => dict_set key (l ++ [new]) d
  end.

(* SchemaLoader._add_to_dict_base: stand-alone library files get inLibrary added *)
Definition auto_in_library (RS : rschema) (attrs : list (str * aval)) : list (str * aval) :=
  match rs_library RS, rs_with_standard RS with
  | _ :: _, [] => if dict_has HedKey_InLibrary attrs then attrs
                  else dict_set HedKey_InLibrary (VStr (rs_library RS)) attrs
  | _, _ => attrs
  end.

Definition entry_in_library (e : lentry) : bool := dict_has HedKey_InLibrary (le_attrs e).

Fixpoint register_generic (RS : rschema) (sec : section) (keyf : lentry -> str) (l : list rentry)
         (acc : list lentry) (dups : list (str * list (str * bool)))
  : list lentry * list (str * list (str * bool)) :=
  match l with
  | [] => (rev acc, dups)
  | r :: rest =>
      let attrs := auto_in_library RS (dict_of (re_attrs r)) in
      let e0 := mk_plain sec (re_name r) attrs true in
      let key := keyf e0 in
      match find (fun x => le_registered x && str_eqb key (keyf x)) acc with
      | Some x =>
          register_generic RS sec keyf rest (mk_plain sec (re_name r) attrs false :: acc)
                           (add_dup key (le_name x, entry_in_library x) (re_name r, dict_has HedKey_InLibrary attrs) dups)
      | None => register_generic RS sec keyf rest (e0 :: acc) dups
      end
  end.

(* ---- unit classes and units: SchemaLoaderXML._populate_unit_class_dictionaries *)

(* A unit class whose only attribute is inLibrary and whose name is already present adds its
   units to the existing class (HedSchemaUnitClassSection._check_if_duplicate). *)
Definition is_uc_placeholder (attrs : list (str * aval)) : bool :=
  match attrs with [(k, _)] => str_eqb k HedKey_InLibrary | _ => false end.

(* result: unit-class entries (le_units = indices of its units in the flat unit list, before
   de-duplication by name), flat raw units *)
Fixpoint register_uclasses (RS : rschema) (l : list ruclass) (acc : list lentry) (units : list rentry)
         (dups : list (str * list (str * bool)))
  : list lentry * list rentry * list (str * list (str * bool)) :=
  match l with
  | [] => (rev acc, units, dups)
  | uc :: rest =>
      let r := uc_entry uc in
      let attrs := auto_in_library RS (dict_of (re_attrs r)) in
      let n0 := length units in
      let idxs := map N.of_nat (seq n0 (length (uc_units uc))) in
      let units' := units ++ uc_units uc in
      let present := existsb (fun x => le_registered x && str_eqb (re_name r) (le_name x)) acc in
      if present && is_uc_placeholder attrs then
        (* units go to the existing class; the placeholder itself is only in all_entries *)
        let acc' := map (fun x => if le_registered x && str_eqb (re_name r) (le_name x)
                                  then mkLE (le_name x) (le_sec x) (le_attrs x) (le_inh x) (le_unknown x) true None false []
                                            (le_units x ++ idxs) []
                                  else x) acc in
        register_uclasses RS rest (mk_plain SecUnitClasses (re_name r) attrs false :: acc') units' dups
      else if present then
        let first := find_named (re_name r) (rev acc) in
        let fi := match first with Some x => (le_name x, entry_in_library x) | None => (re_name r, false) end in
        let e := mkLE (re_name r) SecUnitClasses attrs attrs [] false None false [] idxs [] in
        register_uclasses RS rest (e :: acc) units'
                          (add_dup (re_name r) fi (re_name r, dict_has HedKey_InLibrary attrs) dups)
      else
        let e := mkLE (re_name r) SecUnitClasses attrs attrs [] true None false [] idxs [] in
        register_uclasses RS rest (e :: acc) units' dups
  end.

(* ---- tags: HedSchemaTagSection *)

(* _get_tag_forms(name) -> (name_key, tag_forms) *)
Fixpoint tag_forms_loop (fuel : nat) (s : str) (acc : list str) (last : str) : str * list str :=
  match fuel with
  | O => (last, rev acc)
  | S f =>
      match s with
      | [] => ([], rev acc)
      | _ => match after_slash s with
             | None => (s, rev (s :: acc))
             | Some r => tag_forms_loop f r (s :: acc) s
             end
      end
  end.

Definition get_tag_forms (name : str) : res (str * list str) :=
  let '(key, forms) := tag_forms_loop (S (length name)) name [] [] in
  match rev forms with
  | [] => Exn IndexError
  | lastf :: before => if str_eqb lastf [ch_hash] then Ok (key, rev before) else Ok (key, forms)
  end.

Definition strip_hash (s : str) : str :=
  if ends_with slash_hash s then firstn (length s - 2)%nat s else s.

Record tagstate : Set := mkTS {
  ts_forms : trie;
  ts_acc : list lentry;      (* reversed *)
  ts_n : N;
  ts_dups : list (str * list N)        (* duplicate_names: key -> indices of the entries *)
}.

(* SchemaLoader.find_rooted_entry for a file that is loaded as merged *)
Definition check_rooted (RS : rschema) (st : tagstate) (name : str) (attrs : list (str * aval)) : res unit :=
  match dict_get HedKey_Rooted attrs with
  | None => Ok tt
  | Some v =>
      match rs_with_standard RS with
      | [] => Exn HedFileError
      | _ =>
          match v with
          | VFlag => Exn HedFileError
          | VStr rt =>
              match fst (rpartition_slash name) with
              | [] => Exn HedFileError
              | _ =>
                  match t_find (casefold rt) (ts_forms st) with
                  | None => Exn HedFileError
                  | Some i =>
                      match nth_n (rev (ts_acc st)) i with
                      | None => Exn HedFileError
                      | Some e => if dict_has HedKey_InLibrary (le_attrs e) then Exn HedFileError else Ok tt
                      end
                  end
              end
          end
      end
  end.

(* _create_tag_entry + _add_to_dict + _check_if_duplicate for one node *)
Definition register_tag (RS : rschema) (st : tagstate) (r : rentry) : res tagstate :=
  let name := re_name r in
  let* kf0 := get_tag_forms name in
  let short0 := match rev (snd kf0) with [] => [] | x :: _ => x end in
  let* _ := match snd kf0 with [] => Exn IndexError | _ => Ok tt end in
  let short := strip_hash short0 in
  let attrs0 := dict_of (re_attrs r) in
  let* _ := check_rooted RS st name attrs0 in
  let attrs := auto_in_library RS attrs0 in
  let* kf := get_tag_forms (casefold name) in
  let '(key, forms) := kf in
  let i := ts_n st in
  match t_find (casefold key) (ts_forms st) with
  | Some j =>
      let e := mkLE name SecTags attrs attrs [] false None false short [] [] in
      Ok (mkTS (ts_forms st) (e :: ts_acc st) (N.succ i)
               (match dict_get key (ts_dups st) with
                | None => dict_set key [j; i] (ts_dups st)
                | Some l => dict_set key (l ++ [i]) (ts_dups st)
                end))
  | None =>
      let e := mkLE name SecTags attrs attrs [] true None false short [] [] in
      Ok (mkTS (fold_left (fun t f => t_insert (casefold f) i t) forms (ts_forms st))
               (e :: ts_acc st) (N.succ i) (ts_dups st))
  end.

Fixpoint register_tags (RS : rschema) (l : list rentry) (st : tagstate) : res tagstate :=
  match l with
  | [] => Ok st
  | r :: rest => let* st' := register_tag RS st r in register_tags RS rest st'
  end.

(* HedTagEntry._check_inherited_attribute_internal, seen from entry i0 while it is being
   finalised: entries before i0 (and i0 itself) already have parent / takes-value child set *)
Fixpoint inherit_chain (fuel : nat) (tags : list (lentry * (option N * bool))) (i0 i : N)
  : list (list (str * aval)) :=
  match fuel with
  | O => []
  | S f =>
      match nth_n tags i with
      | None => []
      | Some (e, (par, tv)) =>
          let fin := N.leb i i0 in
          if fin && tv then []
          else le_attrs e :: (if fin then match par with
                                          | Some p => inherit_chain f tags i0 p
                                          | None => []
                                          end
                              else [])
      end
  end.

Definition all_str (l : list aval) : option (list str) :=
  fold_right (fun v acc => match v, acc with VStr s, Some r => Some (s :: r) | _, _ => None end) (Some []) l.

(* _check_inherited_attribute(attribute, True): ",".join(values) or values[0] on TypeError *)
Definition joined_value (vals : list aval) : option aval :=
  match vals with
  | [] => None
  | v0 :: _ => match all_str vals with
               | Some ss => Some (VStr (join [44] ss))
               | None => Some v0
               end
  end.

(* HedSchemaTagSection._finalize_section: which attributes are inherited *)
Definition inheritable_attributes (is83 : bool) (attrs : list lentry) : list str :=
  let l := if is83
           then map le_name (filter (fun e => le_registered e && negb (dict_has HedKey_AnnotationProperty (le_attrs e))) attrs)
           else names_with attrs HedKeyOld_IsInheritedProperty in
  match l with [] => [HedKey_ExtensionAllowed] | _ => l end.

(* ---- units: UnitEntry.finalize_entry / UnitClassEntry.finalize_entry *)

Definition plural_of (E : env) (w : str) : res str :=
  match dict_get w (env_plural E) with Some p => Ok p | None => Exn Unmodelled end.

(* HedSchema._get_modifiers_for_unit *)
Definition modifiers_for_unit (units mods : list lentry) (uname : str) : list lentry :=
  match units_get units uname with
  | None => []
  | Some ue =>
      if negb (dict_has HedKey_SIUnit (le_attrs ue)) then []
      else
        let a := if dict_has HedKey_UnitSymbol (le_attrs ue) then HedKey_SIUnitSymbolModifier else HedKey_SIUnitModifier in
        filter (fun m => le_registered m && dict_has a (le_attrs m)) mods
  end.

(* keys of UnitEntry.derivative_units *)
Definition unit_derivative_keys (E : env) (units mods : list lentry) (u : lentry) : res (list str) :=
  let ms := modifiers_for_unit units mods (le_name u) in
  let* bases :=
     if dict_has HedKey_UnitSymbol (le_attrs u) then Ok [le_name u]
     else let lw := casefold (le_name u) in
          let* p := plural_of E lw in Ok (if str_eqb p lw then [lw] else [lw; p]) in
  Ok (flat_map (fun b => b :: map (fun m => le_name m ++ b) ms) bases).

Definition class_derivatives (E : env) (units mods : list lentry) (idxs : list N) : res (list (str * N)) :=
  (* self.units = {name: entry}: later entries replace earlier ones of the same name *)
  let named := fold_left (fun d i => match nth_n units i with
                                     | Some u => dict_set (le_name u) i d
                                     | None => d
                                     end) idxs [] in
  let uidx := map snd named in
  fold_left (fun acc i =>
               let* d := acc in
               match nth_n units i with
               | None => Ok d
               | Some u => let* ks := unit_derivative_keys E units mods u in
                           Ok (fold_left (fun d' k => dict_set k i d') ks d)
               end) uidx (Ok []).

(* UnitClassEntry.get_derivative_unit_entry *)
Definition get_derivative_unit_entry (L : lschema) (uc : lentry) (u : str) : option lentry :=
  let get k := match dict_get k (le_deriv uc) with Some i => nth_n (l_units L) i | None => None end in
  match get u with
  | Some e => if dict_has HedKey_UnitSymbol (le_attrs e) then Some e
              else match get (casefold u) with
                   | Some e' => if dict_has HedKey_UnitSymbol (le_attrs e') then None else Some e'
                   | None => None
                   end
  | None => match get (casefold u) with
            | Some e' => if dict_has HedKey_UnitSymbol (le_attrs e') then None else Some e'
            | None => None
            end
  end.

(* ---- the loader: SchemaLoaderXML._parse_data + HedSchema.finalize_dictionaries *)

Definition set_unknown (valid1 valid2 : list str) (e : lentry) : lentry :=
  mkLE (le_name e) (le_sec e) (le_attrs e) (le_inh e)
       (filter (fun a => negb (mem_str a valid1) && negb (mem_str a valid2)) (map fst (le_attrs e)))
       (le_registered e) (le_parent e) (le_tvchild e) (le_short e) (le_units e) (le_deriv e).

Definition sec_dups (sec : section) (d : list (str * list (str * bool)))
  : list (section * list (str * list (str * bool))) :=
  match d with [] => [] | _ => [(sec, d)] end.

Definition load (E : env) (RS : rschema) : res lschema :=
  if rs_unmerged RS && (match rs_with_standard RS with [] => false | _ => true end) then Exn Unmodelled
  else
  let* is83_parse := version_ge_83 RS in
  let name_key (e : lentry) := le_name e in
  let '(props, d_props) := register_generic RS SecProperties name_key (rs_props RS) [] [] in
  let '(attrs, d_attrs) := register_generic RS SecAttributes name_key (rs_attrs RS) [] [] in
  let '(mods, d_mods) := register_generic RS SecUnitModifiers name_key (rs_mods RS) [] [] in
  let '(ucs0, runits, d_ucs) := register_uclasses RS (rs_uclasses RS) [] [] [] in
  let '(units0, d_units) := register_generic RS SecUnits unit_key runits [] [] in
  let '(vcs, d_vcs) := register_generic RS SecValueClasses name_key (rs_vclasses RS) [] [] in
  let* st := register_tags RS (rs_tags RS) (mkTS t_empty [] 0 []) in
  let tags0 := rev (ts_acc st) in
  let forms := ts_forms st in
  (* finalize_dictionaries: schema_83_props is recomputed with every section present *)
  let is83 := is83_parse || (match find_named HedKey_ElementDomain props with Some _ => true | None => false end) in
  let va p := valid_attributes p props attrs in
  let props' := map (set_unknown (va is83 SecProperties) []) props in
  let attrs' := map (set_unknown (va is83 SecAttributes) []) attrs in
  let mods' := map (set_unknown (va is83_parse SecUnitModifiers) (va is83 SecUnitModifiers)) mods in
  let vcs' := map (set_unknown (va is83_parse SecValueClasses) (va is83 SecValueClasses)) vcs in
  let units1 := map (set_unknown (va is83_parse SecUnits) []) units0 in
  let ucs1 := map (set_unknown (va is83_parse SecUnitClasses) []) ucs0 in
  let* ucs2 := mapM (fun uc => let* d := class_derivatives E units1 mods' (le_units uc) in
                               Ok (mkLE (le_name uc) (le_sec uc) (le_attrs uc) (le_inh uc) (le_unknown uc)
                                        (le_registered uc) None false []
                                        (map snd (fold_left (fun d i => match nth_n units1 i with
                                                                        | Some u => dict_set (le_name u) i d
                                                                        | None => d
                                                                        end) (le_units uc) []))
                                        d)) ucs1 in
  (* tags: parent / takes-value child / inherited attributes, in registration order *)
  let n := length tags0 in
  let par_of (e : lentry) : option N :=
      match fst (rpartition_slash (le_name e)) with
      | [] => None
      | pn => t_find (casefold pn) forms
      end in
  let tv_of (e : lentry) : bool :=
      match t_find (casefold (le_name e ++ slash_hash)) forms with Some _ => true | None => false end in
  let infos := map (fun e => (e, (par_of e, tv_of e))) tags0 in
  let inheritable := inheritable_attributes is83 attrs' in
  let valid_tags := va is83_parse SecTags in
  let tags1 :=
      map (fun ie : N * (lentry * (option N * bool)) =>
             let '(i, (e, (par_i, tv_i))) := ie in
             let chain := inherit_chain (S n) infos i i in
             let inh := fold_left (fun d a =>
                                     match joined_value (flat_map (fun at_ => match dict_get a at_ with
                                                                              | Some v => [v]
                                                                              | None => []
                                                                              end) chain) with
                                     | Some v => dict_set a v d
                                     | None => d
                                     end) inheritable (le_attrs e) in
             mkLE (le_name e) SecTags (le_attrs e) inh
                  (filter (fun a => negb (mem_str a valid_tags)) (map fst (le_attrs e)))
                  (le_registered e) par_i tv_i (le_short e) [] [])
          (enum_from 0 infos) in
  Ok (mkL (rs_version RS) (rs_library RS) (rs_with_standard RS) is83
          props' attrs' mods' ucs2 units1 vcs' tags1 forms
          (sec_dups SecTags (map (fun kd => (fst kd, flat_map (fun j => match nth_n tags1 j with
                                                                           | Some x => [(le_name x, dict_has HedKey_InLibrary (le_inh x))]
                                                                           | None => []
                                                                           end) (snd kd)))
                                 (ts_dups st)) ++ sec_dups SecUnitClasses d_ucs ++ sec_dups SecUnits d_units
           ++ sec_dups SecUnitModifiers d_mods ++ sec_dups SecValueClasses d_vcs
           ++ sec_dups SecAttributes d_attrs ++ sec_dups SecProperties d_props)).

(* tag_entry.children of a tag (a dict keyed by short_tag_name): indices into l_tags *)
Definition tag_children (L : lschema) (i : N) : list N :=
  map snd (fold_left (fun d je => let '(j, e) := (je : N * lentry) in
                                  match le_parent e with
                                  | Some p => if N.eqb p i then dict_set (le_short e) j d else d
                                  | None => d
                                  end)
                     (enum_from 0 (l_tags L)) []).

Fixpoint index_of_tag (name : str) (l : list lentry) (i : N) : option N :=
  match l with
  | [] => None
  | e :: r => if le_registered e && str_eqb name (le_name e) then Some i else index_of_tag name r (N.succ i)
  end.

(* ------------------------------------------------------------------ issues *)

Record issue : Set := mkIssue {
  i_kind : kind;
  i_sev : sev;
  i_sec : option section;       (* ErrorContext.SCHEMA_SECTION *)
  i_tag : option str;           (* ErrorContext.SCHEMA_TAG *)
  i_attr : option str           (* ErrorContext.SCHEMA_ATTRIBUTE *)
}.

Definition i_code (i : issue) : str := kind_code (i_kind i).
Definition is_error (i : issue) : bool := match i_sev i with SevError => true | SevWarning => false end.

(* ErrorHandler.format_error: the decorator's default severity *)
Definition format_error (k : kind) : issue := mkIssue k (kind_sev k) None None None.

(* ErrorHandler.add_context_and_filter *)
Definition add_context_and_filter (warn : bool) (sec : option section) (tag attr : option str)
           (l : list issue) : list issue :=
  map (fun i => mkIssue (i_kind i) (i_sev i) sec tag attr)
      (if warn then l else filter is_error l).

(* ------------------------------------------------------------------ attribute rules
   each: validator(hed_schema, tag_entry, attribute_name) -> issues (kinds), may raise *)

(* tag_is_placeholder_check *)
Definition tag_is_placeholder_check (L : lschema) (e : lentry) (a : str) : res (list kind) :=
  match le_sec e with
  | SecTags =>
      let i1 := if ends_with slash_hash (le_name e) then [] else [K_SCHEMA_NON_PLACEHOLDER_HAS_CLASS] in
      let self_idx := index_of_tag (le_name e) (l_tags L) 0 in
      let i2 := match le_parent e with
                | Some p =>
                    let others := filter (fun j => match self_idx with Some s => negb (N.eqb j s) | None => true end)
                                         (tag_children L p) in
                    match others with [] => [] | _ => [K_SCHEMA_INVALID_SIBLING] end
                | None => []
                end in
      let i3 := match self_idx with
                | Some s => match tag_children L s with [] => [] | _ => [K_SCHEMA_INVALID_CHILD] end
                | None => []
                end in
      Ok (i1 ++ i2 ++ i3)
  | _ => Exn AttributeError     (* tag_entry.parent does not exist on other entry classes *)
  end.

(* attribute_is_deprecated *)
Definition attribute_is_deprecated (L : lschema) (e : lentry) (a : str) : res (list kind) :=
  let sk := match le_sec e with SecAttributes => SecProperties | _ => SecAttributes end in
  match lookup L sk a with
  | Some ae => if has_attr ae HedKey_DeprecatedFrom && negb (has_attr e HedKey_DeprecatedFrom)
               then Ok [K_SCHEMA_ATTRIBUTE_VALUE_DEPRECATED] else Ok []
  | None => Ok []
  end.

(* item_exists_check(section_key=sec) *)
Definition item_exists_check (sec : section) (L : lschema) (e : lentry) (a : str) : res (list kind) :=
  match dict_get a (le_attrs e) with
  | Some VFlag => Exn AttributeError            (* True.split *)
  | v =>
      let items := split_comma (match v with Some (VStr s) => s | _ => [] end) in
      concat_mapM (fun item =>
                     match item with
                     | [] => Ok []
                     | _ =>
                         match sec with
                         | SecTags | SecUnitClasses | SecValueClasses =>
                             match lookup L sec item with
                             | None => Ok [K_SCHEMA_GENERIC_ATTRIBUTE_VALUE_INVALID]
                             | Some ie =>
                                 if has_attr ie HedKey_DeprecatedFrom && negb (has_attr e HedKey_DeprecatedFrom)
                                 then Ok [K_SCHEMA_ATTRIBUTE_VALUE_DEPRECATED] else Ok []
                             end
                         | _ => Exn ValueError
                         end
                     end) items
  end.

(* unit_exists *)
Definition unit_exists (L : lschema) (e : lentry) (a : str) : res (list kind) :=
  match le_sec e with
  | SecUnitClasses =>
      match dict_get a (le_attrs e) with
      | Some VFlag => Exn AttributeError        (* True.casefold *)
      | None => Ok []
      | Some (VStr u) =>
          match get_derivative_unit_entry L e u with
          | None => match u with [] => Ok [] | _ => Ok [K_SCHEMA_DEFAULT_UNITS_INVALID] end
          | Some ue => if has_attr ue HedKey_DeprecatedFrom && negb (has_attr e HedKey_DeprecatedFrom)
                       then Ok [K_SCHEMA_DEFAULT_UNITS_DEPRECATED] else Ok []
          end
      end
  | _ => Exn AttributeError     (* get_derivative_unit_entry only exists on unit classes *)
  end.

(* schema_validation_util.schema_version_for_library *)
Definition schema_version_for_library (L : lschema) (lib : option aval) : option str :=
  match lib with
  | Some VFlag => None
  | _ =>
      let name := match lib with Some (VStr s) => s | _ => [] end in
      let fix go (ns vs : list str) : option str :=
          match ns, vs with
          | n :: ns', v :: vs' => if str_eqb n name then Some v else go ns' vs'
          | _, _ => None
          end in
      match go (split_comma (l_library L)) (split_comma (l_version L)) with
      | Some v => Some v
      | None => match name, l_with_standard L with
                | [], _ :: _ => Some (l_with_standard L)
                | _, _ => None
                end
      end
  end.

(* tag_entry.children.values() for the deprecation rule: tags and unit classes have children *)
Definition children_entries (L : lschema) (e : lentry) : option (list lentry) :=
  match le_sec e with
  | SecTags => match index_of_tag (le_name e) (l_tags L) 0 with
               | Some s => Some (flat_map (fun j => match nth_n (l_tags L) j with Some c => [c] | None => [] end)
                                          (tag_children L s))
               | None => Some []
               end
  | SecUnitClasses => Some (flat_map (fun j => match nth_n (l_units L) j with Some c => [c] | None => [] end)
                                     (le_units e))
  | _ => None
  end.

(* ---- the two repairs of the code (fix: commits 55e2b09 and 5844fee, both in /repo), selectable so that the
   behaviour before them stays available as the record of the repaired defects:
     fx_skip_undeclared : SchemaValidator._check_tag_entry_attributes runs validators only on attributes that
                          are declared for the section (C14-F1, 55e2b09)
     fx_own_library     : verify_tag_id / tag_is_deprecated_check read the entry's OWN inLibrary value, not
                          the inherited comma-joined one (C14-F2, 5844fee) *)
Record fixes : Set := mkFx { fx_skip_undeclared : bool; fx_own_library : bool }.
Definition fixed_all : fixes := mkFx true true.
Definition fixed_none : fixes := mkFx false false.

(* tag_entry.attributes.get(inLibrary)  /  tag_entry.has_attribute(inLibrary, return_value=True) before the repair *)
Definition library_value (fx : fixes) (e : lentry) : option aval :=
  if fx_own_library fx then dict_get HedKey_InLibrary (le_attrs e) else attr_value e HedKey_InLibrary.

(* tag_is_deprecated_check: the library whose released versions are consulted
   (library_name after the `if not library_name and not hed_schema.with_standard` adjustment) *)
Definition entry_library (fx : fixes) (L : lschema) (e : lentry) : option aval :=
  match library_value fx e with
  | Some v => Some v
  | None => match l_with_standard L with
            | [] => Some (VStr (l_library L))
            | _ => None
            end
  end.

(* get_hed_versions(library_name=library_name) *)
Definition versions_for (E : env) (lib : option aval) : list str :=
  match lib with
  | Some (VStr s) => get_hed_versions E s
  | Some VFlag => []
  | None => get_hed_versions E []
  end.

(* tag_is_deprecated_check *)
Definition tag_is_deprecated_check (fx : fixes) (E : env) (L : lschema) (e : lentry) (a : str)
  : res (list kind) :=
  let lib := entry_library fx L e in
  let all_versions := versions_for E lib in
  let* i1 :=
     match dict_get a (le_attrs e) with
     | None => Ok []
     | Some dv =>
         let unknown := match dv with VStr s => negb (mem_str s all_versions) | VFlag => true end in
         if unknown then Ok [K_SCHEMA_DEPRECATED_INVALID]
         else
           match schema_version_for_library L lib, dv with
           | Some lv, VStr s =>
               match lv with
               | [] => Ok []
               | _ => let* a1 := parse_version lv in
                      let* a2 := parse_version s in
                      if version_leb a1 a2 then Ok [K_SCHEMA_DEPRECATED_INVALID] else Ok []
               end
           | _, _ => Ok []
           end
     end in
  let i2 := match children_entries L e with
            | None => []
            | Some cs => flat_map (fun c => if has_attr c a then [] else [K_SCHEMA_CHILD_OF_DEPRECATED]) cs
            end in
  Ok (i1 ++ i2).

Definition replace_caret (s : str) : str := map (fun c => if N.eqb c 94 then 101 else c) s.

(* conversion_factor *)
Definition conversion_factor (L : lschema) (e : lentry) (a : str) : res (list kind) :=
  match dict_get a (le_attrs e) with
  | None => Ok []                                     (* default "1.0" *)
  | Some VFlag => Ok [K_SCHEMA_CONVERSION_FACTOR_NOT_POSITIVE]    (* AttributeError caught, not a float *)
  | Some (VStr s) =>
      match parse_float (replace_caret s) with
      | None => Ok [K_SCHEMA_CONVERSION_FACTOR_NOT_POSITIVE]      (* ValueError caught, still a str *)
      | Some x => if float_le_zero x then Ok [K_SCHEMA_CONVERSION_FACTOR_NOT_POSITIVE] else Ok []
      end
  end.

(* allowed_characters_check *)
Definition allowed_characters_check (L : lschema) (e : lentry) (a : str) : res (list kind) :=
  match dict_get a (le_attrs e) with
  | Some VFlag => Exn AttributeError
  | v =>
      let s := match v with Some (VStr s) => s | _ => [] end in
      Ok (flat_map (fun c => if negb (mem_str c character_type_names) && negb (Nat.eqb (length c) 1%nat)
                             then [K_SCHEMA_ALLOWED_CHARACTERS_INVALID] else [])
                   (split_comma s))
  end.

(* in_library_check *)
Definition in_library_check (L : lschema) (e : lentry) (a : str) : res (list kind) :=
  let ok := match dict_get a (le_attrs e) with
            | Some (VStr s) => mem_str s (split_comma (l_library L))
            | Some VFlag => false
            | None => mem_str [] (split_comma (l_library L))
            end in
  Ok (if ok then [] else [K_SCHEMA_IN_LIBRARY_INVALID]).

(* is_numeric_value *)
Definition is_numeric_value (L : lschema) (e : lentry) (a : str) : res (list kind) :=
  match dict_get a (le_attrs e) with
  | Some VFlag => Ok []                               (* float(True) *)
  | v =>
      let s := match v with Some (VStr s) => s | _ => [] end in
      match parse_float s with
      | Some _ => Ok []
      | None => Ok [K_SCHEMA_ATTRIBUTE_NUMERIC_INVALID]
      end
  end.

(* tag_exists_base_schema_check (unused by the tables today) *)
Definition tag_exists_base_schema_check (L : lschema) (e : lentry) (a : str) : res (list kind) :=
  match dict_get a (le_attrs e) with
  | Some (VStr s) => match lookup L SecTags s with
                     | Some _ => Ok []
                     | None => Exn Unmodelled     (* a ValidationErrors kind: outside the schema kind table *)
                     end
  | Some VFlag => Exn TypeError
  | None => Ok []
  end.

(* ---- HedIDValidator *)

Record idenv : Set := mkIdEnv {
  id_prev : list (str * lschema);       (* _previous_schemas: library -> loaded schema *)
  id_data : list (str * (Z * Z))        (* library_data: library -> id_range *)
}.

Definition hed_prefix : str := [72; 69; 68; 95].     (* "HED_" *)
Definition remove_prefix (s p : str) : str := if prefixb p s then skipn (length p) s else s.

(* HedIDValidator._get_previous_version *)
Definition get_previous_version (E : env) (version lib : str) : res (option str) :=
  let* cur := parse_version version in
  (fix go (l : list str) : res (option str) :=
     match l with
     | [] => Ok None
     | old :: r => let* ov := parse_version old in
                   if version_ltb ov cur then
                     Ok (Some (match lib with [] => old | _ => lib ++ [95] ++ old end))
                   else go r
     end) (get_hed_versions E lib).

(* zip(versions, libraries) *)
Fixpoint zip_str (a b : list str) : list (str * str) :=
  match a, b with x :: a', y :: b' => (x, y) :: zip_str a' b' | _, _ => [] end.

(* adding the id range of a library to library_data when library_data.json has one *)
Definition add_range (E : env) (lib : str) (ld : list (str * (Z * Z))) : list (str * (Z * Z)) :=
  match dict_get lib (env_ranges E) with Some r => dict_set lib r ld | None => ld end.

(* one round of the loop over zip(versions, libraries) in HedIDValidator.__init__ *)
Definition id_step (E : env) (acc : res (list (str * str) * list (str * (Z * Z)))) (vl : str * str)
  : res (list (str * str) * list (str * (Z * Z))) :=
  let* s := acc in
  let* p := get_previous_version E (fst vl) (snd vl) in
  Ok (match p with Some x => dict_set (snd vl) x (fst s) | None => fst s end, add_range E (snd vl) (snd s)).

(* the standard schema of a partnered library ("" not in prev_versions and with_standard) *)
Definition id_standard_step (E : env) (L : lschema) (s : list (str * str) * list (str * (Z * Z)))
  : res (list (str * str) * list (str * (Z * Z))) :=
  match dict_get [] (fst s), l_with_standard L with
  | None, _ :: _ =>
      let* p := get_previous_version E (l_with_standard L) [] in
      Ok (match p with Some x => dict_set [] x (fst s) | None => fst s end, add_range E [] (snd s))
  | _, _ => Ok s
  end.

(* HedIDValidator.__init__ *)
Definition id_validator_init (E : env) (L : lschema) : res idenv :=
  let* st := fold_left (id_step E) (zip_str (split_comma (l_version L)) (split_comma (l_library L))) (Ok ([], [])) in
  let* st2 := id_standard_step E L st in
  let* prev := mapM (fun lv => match dict_get (snd lv) (env_loadable E) with
                               | None => Exn HedFileError
                               | Some rs => let* Lp := load E rs in Ok (fst lv, Lp)
                               end) (fst st2) in
  Ok (mkIdEnv prev (snd st2)).

Inductive idval : Set := IdInt (z : Z) | IdRaw.

(* tag_library of verify_tag_id as a dictionary key (None: the value True matches no key) *)
Definition tag_library_key (fx : fixes) (e : lentry) : option str :=
  match library_value fx e with
  | None => Some []
  | Some (VStr s) => Some s
  | Some VFlag => None
  end.

(* HedIDValidator.verify_tag_id *)
Definition verify_tag_id (fx : fixes) (I : idenv) (L : lschema) (e : lentry) (a : str) : res (list kind) :=
  let tag_library := tag_library_key fx e in
  let prev := match tag_library with Some k => dict_get k (id_prev I) | None => None end in
  let old_attr := match prev with
                  | Some Lp => match lookup Lp (le_sec e) (le_name e) with
                               | Some oe => dict_get HedKey_HedID (le_attrs oe)
                               | None => None
                               end
                  | None => None
                  end in
  let* old_id := match old_attr with
                 | None => Ok None
                 | Some VFlag => Exn AttributeError
                 | Some (VStr s) => match parse_int (remove_prefix s hed_prefix) with
                                    | Some z => Ok (Some (IdInt z))
                                    | None => Ok (Some IdRaw)
                                    end
                 end in
  match dict_get a (le_attrs e) with
  | Some VFlag => Exn AttributeError
  | None =>
      (* new_id = "" : only a recorded old id can be reported *)
      Ok (match old_id with
          | Some (IdInt z) => if (z =? 0)%Z then [] else [K_SCHEMA_HED_ID_INVALID]
          | Some IdRaw => [K_SCHEMA_HED_ID_INVALID]
          | None => []
          end)
  | Some (VStr s) =>
      match parse_int (remove_prefix s hed_prefix) with
      | None => Ok [K_SCHEMA_HED_ID_INVALID]
      | Some nid =>
          let i1 := match old_id with
                    | Some (IdInt z) => if (z =? 0)%Z then [] else if (z =? nid)%Z then [] else [K_SCHEMA_HED_ID_INVALID]
                    | Some IdRaw => [K_SCHEMA_HED_ID_INVALID]
                    | None => []
                    end in
          let i2 := match (match tag_library with Some k => dict_get k (id_data I) | None => None end) with
                    | Some (lo, hi) => if (nid <? lo)%Z || (hi <? nid)%Z then [K_SCHEMA_HED_ID_INVALID] else []
                    | None => []
                    end in
          Ok (i1 ++ i2)
      end
  end.

(* ------------------------------------------------------------------ SchemaValidator *)

Definition run_validator (fx : fixes) (E : env) (I : idenv) (L : lschema) (v : validator) (e : lentry) (a : str)
  : res (list kind) :=
  match v with
  | V_tag_is_placeholder_check => tag_is_placeholder_check L e a
  | V_item_exists_check sec => item_exists_check sec L e a
  | V_tag_is_deprecated_check => tag_is_deprecated_check fx E L e a
  | V_unit_exists => unit_exists L e a
  | V_conversion_factor => conversion_factor L e a
  | V_allowed_characters_check => allowed_characters_check L e a
  | V_in_library_check => in_library_check L e a
  | V_attribute_is_deprecated => attribute_is_deprecated L e a
  | V_is_numeric_value => is_numeric_value L e a
  | V_verify_tag_id => verify_tag_id fx I L e a
  | V_tag_exists_base_schema_check => tag_exists_base_schema_check L e a
  end.

Definition table_get (a : str) (t : list (str * list validator)) : list validator :=
  match dict_get a t with Some l => l | None => [] end.

(* SchemaValidator._get_range_validators *)
Definition get_range_validators (ae : lentry) : list validator :=
  flat_map (fun kv => table_get (fst kv) range_validators) (le_attrs ae).

(* SchemaValidator._get_validators *)
Definition get_validators (L : lschema) (a : str) : list validator :=
  if l_is83 L then
    table_get a validators_new ++ [V_attribute_is_deprecated]
    ++ (if str_eqb a HedKey_HedID then [V_verify_tag_id] else [])
    ++ match lookup L SecAttributes a with Some ae => get_range_validators ae | None => [] end
  else table_get a validators_old ++ [V_attribute_is_deprecated].

(* SchemaValidator._run_validators: every finding is downgraded to WARNING, then filtered *)
Definition run_validators (fx : fixes) (E : env) (I : idenv) (warn : bool) (L : lschema) (e : lentry) (a : str)
           (vs : list validator) : res (list issue) :=
  concat_mapM (fun v =>
                 let* ks := run_validator fx E I L v e a in
                 Ok (add_context_and_filter warn (Some (le_sec e)) (Some (le_name e)) (Some a)
                                            (map (fun k => mkIssue k SevWarning None None None) ks)))
              vs.

(* SchemaValidator._check_unknown_attributes: format_error_with_context *)
Definition check_unknown_attributes (warn : bool) (e : lentry) : list issue :=
  flat_map (fun _ => add_context_and_filter warn (Some (le_sec e)) (Some (le_name e)) None
                                            [format_error K_SCHEMA_ATTRIBUTE_INVALID])
           (le_unknown e).

(* SchemaValidator._check_tag_entry_attributes *)
Definition skip_attribute (fx : fixes) (e : lentry) (a : str) : bool :=
  fx_skip_undeclared fx && mem_str a (le_unknown e).

Definition check_tag_entry_attributes (fx : fixes) (E : env) (I : idenv) (warn : bool) (L : lschema) (e : lentry)
  : res (list issue) :=
  let* r := concat_mapM (fun kv => if skip_attribute fx e (fst kv) then Ok []
                                   else run_validators fx E I warn L e (fst kv) (get_validators L (fst kv)))
                        (le_attrs e) in
  Ok (check_unknown_attributes warn e ++ r).

(* SchemaValidator.check_attributes *)
Definition check_attributes (fx : fixes) (E : env) (I : idenv) (warn : bool) (L : lschema) : res (list issue) :=
  concat_mapM (fun sec => concat_mapM (check_tag_entry_attributes fx E I warn L) (section_values L sec))
              all_sections.

(* SchemaValidator.check_duplicate_names *)
Definition check_duplicate_names (warn : bool) (L : lschema) : list issue :=
  flat_map (fun sd =>
              flat_map (fun nd =>
                          let flags := map snd (snd nd) in
                          let k := if existsb (fun b => b) flags && existsb negb flags
                                   then K_SCHEMA_DUPLICATE_FROM_LIBRARY else K_SCHEMA_DUPLICATE_NODE in
                          add_context_and_filter warn None None None [format_error k])
                       (snd sd))
           (fold_right (fun sec acc => match filter (fun sd => section_eqb (fst sd) sec) (l_dups L) with
                                       | [] => acc
                                       | l => l ++ acc
                                       end) [] all_sections).

(* SchemaValidator.check_if_prerelease_version *)
Definition check_if_prerelease_version (E : env) (warn : bool) (L : lschema) : res (list issue) :=
  let libs := split_comma (l_library L) in
  let vers := split_comma (l_version L) in
  let has_comma (s : str) := existsb (N.eqb 44) s in
  let older (known : list str) (v : str) : res bool :=
      match known with
      | [] => Exn KeyError
      | k0 :: _ => let* a := parse_version k0 in let* b := parse_version v in Ok (version_ltb a b)
      end in
  let fix go (ls vs : list str) : res (list issue) :=
      match ls, vs with
      | lib :: ls', v :: vs' =>
          let known := get_hed_versions E lib in
          let* hit := if negb (has_comma lib) && (match known with [] => true | _ => false end) then Ok true
                      else older known v in
          let* rest := go ls' vs' in
          Ok ((if hit then [format_error K_SCHEMA_PRERELEASE_VERSION_USED] else []) ++ rest)
      | _, _ => Ok []
      end in
  let* i1 := go libs vers in
  let* i2 := match l_with_standard L with
             | [] => Ok []
             | ws => let known := get_hed_versions E [] in
                     let* hit := match known with [] => Ok true | _ => older known ws end in
                     Ok (if hit then [format_error K_SCHEMA_PRERELEASE_VERSION_USED] else [])
             end in
  Ok (add_context_and_filter warn None None None (i1 ++ i2)).

(* check_compliance on a loaded schema (without the character checks and the final sort) *)
Definition check_loaded (fx : fixes) (E : env) (warn : bool) (L : lschema) : res (list issue) :=
  let* ide := id_validator_init E L in
  let* pre := check_if_prerelease_version E warn L in
  let* at_ := check_attributes fx E ide warn L in
  Ok (pre ++ at_ ++ check_duplicate_names warn L).

(* hed.schema.from_string(xml) followed by schema.check_compliance(check_for_warnings) *)
Definition check_compliance (fx : fixes) (E : env) (warn : bool) (RS : rschema) : res (list issue) :=
  let* L := load E RS in check_loaded fx E warn L.

Definition errors_of (r : res (list issue)) : res (list issue) :=
  match r with Ok l => Ok (filter is_error l) | Exn e => Exn e end.
