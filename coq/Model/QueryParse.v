(* Model of hed/models/query_handler.py: QueryHandler.__init__/_parse/_tokenize/
   _get_next_token/_next_token_is/_handle_or_op/_handle_and_op/_handle_negation/
   _handle_grouping_op and of hed/models/query_util.py: Token.
   Models only -- proofs live in Proofs/QueryParseProofs.v.

   The parser position (self.at_token) is modelled by the list of remaining
   tokens.  Every [raise] in the parser is a ValueError; recursion is fuelled
   on the token count, out of fuel is [Exn Unmodelled] (shown unreachable). *)
From Coq Require Import List NArith Arith Bool.
From HV Require Import Base.Res Base.Str Model.Query.
Import ListNotations.

(* Token.kind *)
Inductive kind : Set :=
| KAnd | KTag | KDesc | KDescEnd | KOr | KLG | KLGEnd | KNeg | KWild
| KExact | KExactEnd | KExactOpt | KNotInLine.

Definition kind_eqb (a b : kind) : bool :=
  match a, b with
  | KAnd, KAnd | KTag, KTag | KDesc, KDesc | KDescEnd, KDescEnd | KOr, KOr | KLG, KLG
  | KLGEnd, KLGEnd | KNeg, KNeg | KWild, KWild | KExact, KExact | KExactEnd, KExactEnd
  | KExactOpt, KExactOpt | KNotInLine, KNotInLine => true
  | _, _ => false
  end.

Record token := { tk_kind : kind; tk_text : str }.

Definition ch_amp : N := 38%N.
Definition ch_bar : N := 124%N.
Definition ch_lbrack : N := 91%N.
Definition ch_rbrack : N := 93%N.
Definition ch_colon : N := 58%N.

(* Token.__init__: tokens.get(text, Token.Tag) *)
Definition kind_of (t : str) : kind :=
  if str_eqb t [ch_comma] then KAnd
  else if str_eqb t [ch_amp; ch_amp] then KAnd
  else if str_eqb t [ch_bar; ch_bar] then KOr
  else if str_eqb t [ch_lbrack] then KDesc
  else if str_eqb t [ch_rbrack] then KDescEnd
  else if str_eqb t [ch_open] then KLG
  else if str_eqb t [ch_close] then KLGEnd
  else if str_eqb t [ch_tilde] then KNeg
  else if str_eqb t [ch_qmark] then KWild
  else if str_eqb t [ch_qmark; ch_qmark] then KWild
  else if str_eqb t [ch_qmark; ch_qmark; ch_qmark] then KWild
  else if str_eqb t [ch_lbrace] then KExact
  else if str_eqb t [ch_rbrace] then KExactEnd
  else if str_eqb t [ch_colon] then KExactOpt
  else if str_eqb t [ch_at] then KNotInLine
  else KTag.

Definition mk_token (t : str) : token := {| tk_kind := kind_of t; tk_text := t |}.

(* word class of word_re: dquote _ - a-z A-Z 0-9 / . ^ # star @ *)
Definition is_word (c : N) : bool :=
  ((c =? 34) || (c =? 95) || (c =? 45) || ((97 <=? c) && (c <=? 122)) || ((65 <=? c) && (c <=? 90))
   || ((48 <=? c) && (c <=? 57)) || (c =? 47) || (c =? 46) || (c =? 94) || (c =? 35) || (c =? 42)
   || (c =? 64))%N.

(* single-character tokens of grouping_re / paren_re / comma *)
Definition is_single (c : N) : bool :=
  ((c =? 91) || (c =? 93) || (c =? 125) || (c =? 123) || (c =? 58) || (c =? 41) || (c =? 40)
   || (c =? 126) || (c =? 44))%N.

(* token_re.findall: leftmost match, alternatives in order
   [[ | [ | ]] | ] | } | { | : | ) | ( | ~ | ?+ | && | || | , | word+ ;
   unmatched characters are skipped.  [cur] is the current (reversed) run,
   [q] tells whether it is a run of '?' (else a word run). *)
Fixpoint scan (cur : str) (q : bool) (s : str) : list str :=
  let flush := match cur with [] => [] | _ :: _ => [rev cur] end in
  match s with
  | [] => flush
  | c :: r =>
      if is_word c then
        match cur with
        | [] => scan [c] false r
        | _ :: _ => if q then flush ++ scan [c] false r else scan (c :: cur) false r
        end
      else if N.eqb c ch_qmark then
        match cur with
        | [] => scan [c] true r
        | _ :: _ => if q then scan (c :: cur) true r else flush ++ scan [c] true r
        end
      else
        match r with
        | c2 :: r2 =>
            if (N.eqb c ch_lbrack && N.eqb c2 ch_lbrack) || (N.eqb c ch_rbrack && N.eqb c2 ch_rbrack)
               || (N.eqb c ch_amp && N.eqb c2 ch_amp) || (N.eqb c ch_bar && N.eqb c2 ch_bar)
            then flush ++ [c; c2] :: scan [] false r2
            else if is_single c then flush ++ [c] :: scan [] false r
            else flush ++ scan [] false r
        | [] =>
            if is_single c then flush ++ [[c]] else flush
        end
  end.

(* QueryHandler._tokenize *)
Definition tokenize (s : str) : list token := map mk_token (scan [] false s).

(* [c in str(expr)]: the token texts of the whole tree (Expression.__init__ only
   removes at-signs, double quotes and stars from a text, never question marks or tildes) *)
Fixpoint expr_has_ch (c : N) (e : expr) : bool :=
  match e with
  | ETerm t | EWild t => mem_ch c t
  | EAnd t l r | EOr t l r | EExactOpt t l r => mem_ch c t || expr_has_ch c l || expr_has_ch c r
  | ENeg t r | EDesc t r | EExactAny t r | EExactNone t r => mem_ch c t || expr_has_ch c r
  end.

Definition parser := list token -> res (expr * list token).

(* _next_token_is([k]) on the remaining tokens *)
Definition next_is (k : kind) (ts : list token) : option (token * list token) :=
  match ts with
  | t :: r => if kind_eqb (tk_kind t) k then Some (t, r) else None
  | [] => None
  end.

(* a token that may stand where a search term is expected (current code, fix commit 1bd4096):
   a Tag token other than the legacy double brackets *)
Definition is_operand (t : token) : bool :=
  kind_eqb (tk_kind t) KTag
  && negb (str_eqb (tk_text t) [ch_lbrack; ch_lbrack]) && negb (str_eqb (tk_text t) [ch_rbrack; ch_rbrack]).

(* QueryHandler._handle_grouping_op; [rec] = self._handle_or_op.
   [fx = false]: behaviour before fix commit 1bd4096: any other token became a search term;
   [fx = true]: current code: a token that is not an operand raises ValueError. *)
Definition p_grouping (fx : bool) (rec : parser) (ts : list token) : res (expr * list token) :=
  match ts with
  | [] => Exn ValueError                                  (* _get_next_token: Parse error *)
  | t :: r =>
      match tk_kind t with
      | KLG =>
          let* (e, r1) := rec r in
          match next_is KLGEnd r1 with
          | Some (_, r2) => Ok (e, r2)
          | None => Exn ValueError                        (* Missing closing paren *)
          end
      | KDesc =>
          let* (e, r1) := rec r in
          match next_is KDescEnd r1 with
          | Some (_, r2) => Ok (EDesc (tk_text t) e, r2)
          | None => Exn ValueError                        (* Missing closing square bracket *)
          end
      | KExact =>
          let* (e, r1) := rec r in
          match next_is KExactEnd r1 with
          | Some (_, r2) => Ok (EExactAny (tk_text t) e, r2)
          | None =>
              match next_is KExactOpt r1 with
              | None => Exn ValueError                    (* Missing closing curly bracket *)
              | Some (_, r2) =>
                  match next_is KExactEnd r2 with
                  | Some (_, r3) =>
                      let ex := EExactNone (tk_text t) e in
                      if expr_has_ch ch_tilde ex then Exn ValueError else Ok (ex, r3)
                  | None =>
                      let* (o, r3) := rec r2 in
                      let ex := EExactOpt (tk_text t) o e in
                      if expr_has_ch ch_tilde ex then Exn ValueError
                      else
                        match next_is KExactEnd r3 with
                        | Some (_, r4) => Ok (ex, r4)
                        | None => Exn ValueError          (* Missing closing curly bracket *)
                        end
                  end
              end
          end
      | KWild => Ok (EWild (tk_text t), r)
      | _ => if fx && negb (is_operand t) then Exn ValueError   (* ... found where a search term is expected *)
             else Ok (ETerm (tk_text t), r)
      end
  end.

(* QueryHandler._handle_negation *)
Definition p_neg (fx : bool) (rec : parser) (ts : list token) : res (expr * list token) :=
  match next_is KNeg ts with
  | Some (t, r) =>
      let* (e, r1) := p_grouping fx rec r in
      if expr_has_ch ch_qmark e then Exn ValueError       (* Cannot negate wildcards *)
      else Ok (ENeg (tk_text t) e, r1)
  | None => p_grouping fx rec ts
  end.

(* the while loops of _handle_and_op / _handle_or_op; [n] bounds the number of
   iterations by the number of remaining tokens *)
Fixpoint p_loop (p : parser) (k : kind) (mk : str -> expr -> expr -> expr)
         (n : nat) (e : expr) (ts : list token) : res (expr * list token) :=
  match next_is k ts with
  | None => Ok (e, ts)
  | Some (t, r) =>
      match n with
      | O => Exn Unmodelled
      | S n' =>
          let* (e2, r2) := p r in
          p_loop p k mk n' (mk (tk_text t) e e2) r2
      end
  end.

(* QueryHandler._handle_and_op *)
Definition p_and (fx : bool) (rec : parser) (ts : list token) : res (expr * list token) :=
  let* (e, r) := p_neg fx rec ts in
  p_loop (p_neg fx rec) KAnd EAnd (length r) e r.

(* QueryHandler._handle_or_op *)
Definition p_or_body (fx : bool) (rec : parser) (ts : list token) : res (expr * list token) :=
  let* (e, r) := p_and fx rec ts in
  p_loop (p_and fx rec) KOr EOr (length r) e r.

(* [fuel] = nesting levels still available to the recursive-descent parser.
   [fx = false] (behaviour before fix commit 0643166): the fuel is the token
   count + 1 and never runs out; Python's own recursion limit is not modelled.
   [fx = true] (current code): the fuel is also bounded by [limit], the nesting
   depth the interpreter allows; running out of it is Python's RecursionError,
   a value of its own, distinct from every genuine rejection (ValueError). *)
Fixpoint p_or (fx : bool) (fuel : nat) (ts : list token) : res (expr * list token) :=
  match fuel with
  | O => if fx then Exn RecursionError else Exn Unmodelled
  | S f => p_or_body fx (p_or fx f) ts
  end.

(* QueryHandler._parse on the token list; a depth overrun surfaces as RecursionError *)
Definition parse_raw (fx : bool) (limit : nat) (ts : list token) : res expr :=
  let fuel := if fx then Nat.min (S (length ts)) limit else S (length ts) in
  let* (e, r) := p_or fx fuel ts in
  match r with
  | [] => Ok e
  | _ :: _ => Exn ValueError                              (* Parse error in search string *)
  end.

(* QueryHandler.__init__ around _parse (commit 0643166):
   except RecursionError: raise ValueError("... nested too deeply") *)
Definition parse_tokens (fx : bool) (limit : nat) (ts : list token) : res expr :=
  match parse_raw fx limit ts with
  | Exn RecursionError => if fx then Exn ValueError else Exn RecursionError
  | r => r
  end.

(* _parse(expression_string.casefold()) before the except clause: tells a genuine
   rejection (ValueError) from an exhausted depth (RecursionError) *)
Definition compile_raw (fx : bool) (limit : nat) (q : str) : res expr :=
  parse_raw fx limit (tokenize (fold q)).

(* QueryHandler.__init__ *)
Definition compile (fx : bool) (limit : nat) (q : str) : res expr :=
  parse_tokens fx limit (tokenize (fold q)).

(* bool(QueryHandler(q).search(hed_string)) *)
Definition search (fx : bool) (limit : nat) (q : str) (root : node) : res bool :=
  let* e := compile fx limit q in Ok (matches fx e root).

(* ---------------------------------------------------------------- grouping balance *)

(* grouping characters of a query text nest properly: ( ) [ ] { } *)
Fixpoint balanced_go (stack : list N) (s : str) : bool :=
  match s with
  | [] => match stack with [] => true | _ :: _ => false end
  | c :: r =>
      if N.eqb c ch_open then balanced_go (ch_close :: stack) r
      else if N.eqb c ch_lbrack then balanced_go (ch_rbrack :: stack) r
      else if N.eqb c ch_lbrace then balanced_go (ch_rbrace :: stack) r
      else if N.eqb c ch_close || N.eqb c ch_rbrack || N.eqb c ch_rbrace then
        match stack with
        | x :: st => if N.eqb x c then balanced_go st r else false
        | [] => false
        end
      else balanced_go stack r
  end.
Definition balanced_groupers (q : str) : bool := balanced_go [] q.
