(* C05 (b): the attribute-string grammar shared by the MediaWiki and TSV formats.
   Model only -- no proofs here.

   Python sources (hed/schema/schema_io):
     schema2base.py  Schema2Base._format_tag_attributes / _attribute_disallowed /
                     _get_attribs_string_from_schema
     schema2df.py    Schema2DF._attribute_disallowed
     text_util.py    _validate_attribute_string / parse_attribute_string /
                     _parse_header_attributes_line
     hed_schema_entry.py  HedSchemaEntry._compare_attributes_no_order            *)
From Coq Require Import List NArith ZArith Arith Bool.
From HV Require Import Base.Res Base.Str Base.StrOps.
Import ListNotations.

(* attribute value: True or a (comma-joined) string *)
Inductive aval : Set := ATrue | AStr (s : str).

(* Python dict with insertion order: association list with unique keys *)
Definition attrs := list (str * aval).

Definition ch_eq : N := 61%N.      (* = *)
Definition ch_nl : N := 10%N.
Definition ch_quote : N := 34%N.   (* '' *)
Definition ch_lbrack : N := 91%N.  (* [ *)
Definition ch_rbrack : N := 93%N.  (* ] *)

Fixpoint dict_get {V} (k : str) (d : list (str * V)) : option V :=
  match d with
  | [] => None
  | (k', v) :: t => if str_eqb k' k then Some v else dict_get k t
  end.

(* d[k] = v : update in place, or append *)
Fixpoint dict_set {V} (k : str) (v : V) (d : list (str * V)) : list (str * V) :=
  match d with
  | [] => [(k, v)]
  | (k', v') :: t => if str_eqb k' k then (k', v) :: t else (k', v') :: dict_set k v t
  end.

(* ''inLibrary'', ''hedId'', ''annotationProperty'' *)
Definition s_inLibrary : str := [105;110;76;105;98;114;97;114;121]%N.
Definition s_hedId : str := [104;101;100;73;100]%N.
Definition s_annotationProperty : str :=
  [97;110;110;111;116;97;116;105;111;110;80;114;111;112;101;114;116;121]%N.

(* Schema2Base._attribute_disallowed *)
Definition attribute_disallowed (strip_out_in_library : bool) (attribute : str) : bool :=
  strip_out_in_library && str_eqb attribute s_inLibrary.

(* Schema2DF._attribute_disallowed *)
Definition attribute_disallowed_df (strip_out_in_library : bool) (attribute : str) : bool :=
  if attribute_disallowed strip_out_in_library attribute then true
  else str_eqb attribute s_hedId || str_eqb attribute s_annotationProperty.

(* one iteration of the loop in _format_tag_attributes *)
Definition format_one (kv : str * aval) : list str :=
  let prop := fst kv in
  match snd kv with
  | ATrue => [prop]
  | AStr value =>
      if memb ch_comma value
      then map (fun split_value => prop ++ ch_eq :: split_value) (split_on ch_comma value)
      else [prop ++ ch_eq :: value]
  end.

Definition final_props (disallowed : str -> bool) (attributes : attrs) : list str :=
  flat_map format_one (filter (fun kv => negb (disallowed (fst kv))) attributes).

(* Schema2Base._format_tag_attributes *)
Definition format_tag_attributes (disallowed : str -> bool) (attributes : attrs) : str :=
  join [ch_comma; ch_space] (final_props disallowed attributes).

(* ------------------------------------------------------------------ reader *)

Definition is_alpha (c : N) : bool :=
  ((65 <=? c) && (c <=? 90) || (97 <=? c) && (c <=? 122))%N.

Fixpoint span_alpha (s : str) : str * str :=
  match s with
  | [] => ([], [])
  | c :: t => if is_alpha c then let (a, r) := span_alpha t in (c :: a, r) else ([], s)
  end.

(* text_util._validate_attribute_string: re.fullmatch(r'^[A-Za-z]+(=.+)?$', s);
   true = no ValueError ('.' does not match a line feed) *)
Definition validate_attribute_string (s : str) : bool :=
  let (nm, rest) := span_alpha s in
  nonempty nm &&
  match rest with
  | [] => true
  | c :: v => N.eqb c ch_eq && nonempty v && negb (memb ch_nl v)
  end.

(* body of the for loop in parse_attribute_string *)
Definition parse_step (final_attributes : attrs) (attribute : str) : res attrs :=
  if negb (validate_attribute_string attribute) then Exn ValueError
  else match split_on ch_eq attribute with
       | [] => Exn Unmodelled
       | [k] => Ok (dict_set k ATrue final_attributes)
       | k :: v :: _ =>
           match dict_get k final_attributes with
           | Some (AStr old) => Ok (dict_set k (AStr (old ++ ch_comma :: v)) final_attributes)
           | Some ATrue => Exn TypeError             (* True += '','' + v *)
           | None => Ok (dict_set k (AStr v) final_attributes)
           end
       end.

Fixpoint parse_loop (final_attributes : attrs) (pieces : list str) : res attrs :=
  match pieces with
  | [] => Ok final_attributes
  | p :: ps => let* f := parse_step final_attributes p in parse_loop f ps
  end.

(* text_util.parse_attribute_string on a str ('''' gives {}) *)
Definition parse_attribute_string (attr_string : str) : res attrs :=
  match attr_string with
  | [] => Ok []
  | _ => parse_loop [] (map strip (split_on ch_comma attr_string))
  end.

(* ------------------------------------------------------------------ header line *)

(* Schema2Base._get_attribs_string_from_schema *)
Definition get_attribs_string (header_attributes : list (str * str)) (sep : str) : str :=
  join sep (map (fun kv => fst kv ++ ch_eq :: ch_quote :: snd kv ++ [ch_quote]) header_attributes).

(* ''(.*?)\'''' after the opening quote: value and the text after the closing quote *)
Fixpoint take_until_quote (s : str) : option (str * str) :=
  match s with
  | [] => None
  | c :: t =>
      if N.eqb c ch_quote then Some ([], t)
      else if N.eqb c ch_nl then None
      else match take_until_quote t with
           | Some (v, r) => Some (c :: v, r)
           | None => None
           end
  end.

(* attr_re = ([^ ,]+?)=''(.*?)''  anchored at the head of s; key accumulates group 1 *)
Fixpoint hdr_match_at (s : str) (key : str) : option (str * str * str) :=
  match s with
  | [] => None
  | c :: t =>
      if N.eqb c ch_space || N.eqb c ch_comma then None
      else
        let key' := key ++ [c] in
        match t with
        | e :: q :: t2 =>
            if N.eqb e ch_eq && N.eqb q ch_quote
            then match take_until_quote t2 with
                 | Some (v, r) => Some (key', v, r)
                 | None => hdr_match_at t key'
                 end
            else hdr_match_at t key'
        | _ => hdr_match_at t key'
        end
  end.

(* attr_re.finditer with the bookkeeping of _parse_header_attributes_line;
   [pending] = unmatched text since the last match (reversed) *)
Fixpoint hdr_scan (fuel : nat) (s : str) (pending : str)
         (matches : list (str * str)) (unmatched : list str)
  : option (list (str * str) * list str) :=
  match fuel with
  | O => None
  | S fuel' =>
      match s with
      | [] => Some (matches, if nonempty pending then unmatched ++ [rev pending] else unmatched)
      | c :: t =>
          match hdr_match_at s [] with
          | Some (k, v, r) =>
              hdr_scan fuel' r [] (dict_set k v matches)
                       (if nonempty pending then unmatched ++ [rev pending] else unmatched)
          | None => hdr_scan fuel' t (c :: pending) matches unmatched
          end
      end
  end.

(* text_util._parse_header_attributes_line; None = out of fuel (never happens:
   fuel = len+1 and every step consumes at least one character) *)
Definition parse_header_attributes_line (version_line : str)
  : option (list (str * str) * list str) :=
  match hdr_scan (S (length version_line)) version_line [] [] [] with
  | None => None
  | Some (m, u) => Some (m, filter nonempty (map strip u))
  end.

(* ------------------------------------------------------------------ equality used as oracle *)

Definition aval_eqb (a b : aval) : bool :=
  match a, b with
  | ATrue, ATrue => true
  | AStr x, AStr y => str_eqb x y
  | _, _ => false
  end.

Inductive nval : Set := NTrue | NSet (l : list str).

Definition incl_b (a b : list str) : bool := forallb (fun x => existsb (str_eqb x) b) a.

Definition nval_eqb (a b : nval) : bool :=
  match a, b with
  | NTrue, NTrue => true
  | NSet x, NSet y => incl_b x y && incl_b y x
  | _, _ => false
  end.

Definition norm_val (v : aval) : nval :=
  match v with ATrue => NTrue | AStr s => NSet (split_on ch_comma s) end.

(* dict == dict : same size and every key of l in r with an equal value *)
Definition dict_eqb {V} (veq : V -> V -> bool) (l r : list (str * V)) : bool :=
  Nat.eqb (length l) (length r) &&
  forallb (fun kv => match dict_get (fst kv) r with
                     | Some v' => veq (snd kv) v'
                     | None => false
                     end) l.

(* HedSchemaEntry._compare_attributes_no_order *)
Definition compare_attributes_no_order (left right : attrs) : bool :=
  if dict_eqb aval_eqb left right then true
  else dict_eqb nval_eqb (map (fun kv => (fst kv, norm_val (snd kv))) left)
                         (map (fun kv => (fst kv, norm_val (snd kv))) right).

(* ------------------------------------------------------------------ side conditions *)

Definition ch_rbrace_ : N := ch_rbrace.

(* one comma-separated piece of a value: non-empty, no '=' ',' LF, no outer blanks *)
Definition piece_ok (p : str) : bool :=
  nonempty p && none_of [ch_comma; ch_eq; ch_nl] p && no_outer_ws p.

Definition key_ok (k : str) : bool := nonempty k && forallb is_alpha k.

Definition val_ok (v : aval) : bool :=
  match v with ATrue => true | AStr s => forallb piece_ok (split_on ch_comma s) end.

Fixpoint keys_unique (a : attrs) : bool :=
  match a with
  | [] => true
  | (k, _) :: t => negb (existsb (fun kv => str_eqb (fst kv) k) t) && keys_unique t
  end.

(* AttrOK: the exact class on which the attribute grammar round-trips *)
Definition attr_ok (a : attrs) : bool :=
  keys_unique a && forallb (fun kv => key_ok (fst kv) && val_ok (snd kv)) a.
