(* C13 -- the concrete instantiation of Model/Namespace.v that is extracted and run against the
   implementation: Unicode predicates from Gen/UniTable_c13.v (CPython's tables), ASCII case maps
   (the generators only use code points on which they agree with str.casefold/capitalize), and no
   further rules (R1 = R2 = R3 = nothing).  No proofs here. *)
From Coq Require Import List NArith Arith Bool.
From HV Require Import Base.Res Base.Str Base.SchemaData Model.Namespace Gen.UniTable_c13.
Import ListNotations.

Definition x_isalpha : N -> bool := in_ranges alpha_ranges.
Definition x_isprint : N -> bool := in_ranges printable_ranges.
Definition no_rules : bool -> ann rtag -> list code := fun _ _ => [].

Definition x_str_isalpha := str_isalpha x_isalpha.
Definition x_prefix_issues := check_invalid_prefix_issues x_isalpha.
Definition x_set_schema_prefix (fixed : bool) := set_schema_prefix x_isalpha fixed.
Definition x_check_tag_formatting (fixed : bool) := check_tag_formatting fixed.
Definition x_char_issues := char_issues x_isprint.
Definition x_check_capitalization (fixed : bool) := check_capitalization upper_ascii lower_ascii fixed.
Definition x_check_required := check_required lower_ascii.
Definition x_check_unique := check_unique lower_ascii.
(* fixed = true: the code as it is (fix commits 02171e0, bb02e3e, 9d4df4f in /repo); fixed = false: the behaviour
   before them (records of the repaired defects C13-F2, F3, F4) *)
Definition x_verdict (fixed : bool) :=
  verdict x_isalpha x_isprint lower_ascii upper_ascii lower_ascii fixed no_rules no_rules no_rules.
Definition x_load_schema_version (fixed : bool) := load_schema_version x_isalpha fixed.

(* a loaded list of schemas as the validator's configuration: one schema -> HedSchema, several -> group *)
Definition cfg_of (ls : list lschema) : cfg :=
  match ls with
  | [L] => cfg_single (l_ns L, sch_of L)
  | _ => cfg_group (map (fun L => (l_ns L, sch_of L)) ls)
  end.

Definition x_resolve (ls : list lschema) (t : str) : rtag * list code := resolve_tag (cfg_of ls) t.

Definition x_get_tag_entry (ls : list lschema) (name ns : str) : option entry :=
  match ls with
  | [L] => schema_get_tag_entry (l_ns L, sch_of L) name ns
  | _ => group_get_tag_entry (map (fun L => (l_ns L, sch_of L)) ls) name ns
  end.

Definition x_group_rules (ls : list lschema) (tags : list str) : list code :=
  let c := cfg_of ls in
  let rs := map (fun t => fst (resolve_tag c t)) tags in
  x_check_required (c_twa c Required) rs ++ x_check_unique (c_twa c Unique) rs.

(* toy schemas for the witnesses: a resolver that knows every tag / no tag *)
Definition toy_entry (t : str) : entry := mkEntry t t t [].
Definition toy_find_all : str -> fres := fun t => (Some (toy_entry t), Some [], []).
Definition toy_find_none : str -> fres := fun _ => (None, None, [NoValidTagFound]).
Definition toy_sch (find : str -> fres) (with_std : option ver) (is_std : bool) (v : ver) (ed : bool) : sch :=
  mkSch find (fun _ => None) (fun _ => []) with_std is_std v ed.

Definition ns_tl : str := [116; 108; 58]%N.     (* "tl:" *)
Definition ns_e_acute : str := [233; 58]%N.     (* "é:" *)
Definition std83 : sch := toy_sch toy_find_all None true (8, 3, 0) true.
Definition lib83 : sch := toy_sch toy_find_all (Some (8, 3, 0)) false (3, 0, 0) true.
Definition lib82 : sch := toy_sch toy_find_all (Some (8, 2, 0)) false (2, 0, 0) false.
Definition std82 : sch := toy_sch toy_find_all None true (8, 2, 0) false.
