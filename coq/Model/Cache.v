(* C19 -- small-step model of the HED schema cache protocol.

   Python sources modelled (hed/schema):
     hed_cache.py       get_hed_versions, get_hed_version_path, cache_local_versions,
                        _copy_installed_folder_to_cache, cache_xml_versions (offline),
                        _safe_move_tmp_to_folder
     hed_cache_lock.py  CacheLock.__enter__/__exit__, _read_last_cached_time,
                        _write_last_cached_time
     hed_schema_io.py   _load_schema_version_sub (lookup, load, fallback to re-caching)

   The cache directory is a finite map from file names to contents; a content
   is a list of chunks, each either the chunk of the installed file at that
   offset ([Good]) or a hole ([Hole], zero bytes left by a write beyond the
   end of a truncated file).  Every process runs one program, one file
   operation per step.  [Run p] lets process p do its next operation,
   [Crash p] kills it (the OS drops its advisory lock), [Tick d] advances the
   wall clock.  Two sets of programs:
   * F.. / X.. states (kinds KLoadFixed / KRefreshFixed / KRefreshOf): THE CODE AS IT IS in /repo,
     i.e. with the fix commits da46472 (C19-F1: the lock is acquired), 19ec63c (C19-F2: copy to a
     temporary name, then os.replace), 160dd4a (C19-F3: a missing bundled version is looked up in
     the installed folder; except tuples), b23f2f7 (C19-F4: tolerant read and atomic write of
     last_update.txt) and, with the switch parse_fallback on, 8dfe516 (C19-F5: an unparseable
     cache copy falls back to the installed file); D.. states: _safe_move_tmp_to_folder, unchanged by the fixes;
   * L.. / P.. / R.. states (kinds KLoad / KRefresh): the behaviour BEFORE those commits (lock
     object constructed but never acquired, in-place copy, fall-through to the network), kept
     as the record of the repaired defects.
   The boolean switches of [cfg] are anti-patterns that were never in /repo (all false for the
   code as it is before 8dfe516) and one repair switch (parse_fallback: true = the code as it is since fix commit
   8dfe516, C19-F5; false = the behaviour before it).
   Models only -- proofs live in Proofs/CacheProofs.v. *)
From Coq Require Import List Arith Bool PeanoNat.
From HV Require Import Base.Res.
Import ListNotations.

(* ------------------------------------------------------------------ files *)

Inductive cell : Set := Good | Hole.

Definition cell_eqb (a b : cell) : bool :=
  match a, b with Good, Good => true | Hole, Hole => true | _, _ => false end.

Definition content := list cell.

Fixpoint content_eqb (a b : content) : bool :=
  match a, b with
  | [], [] => true
  | x :: a', y :: b' => cell_eqb x y && content_eqb a' b'
  | _, _ => false
  end.

(* the installed (bundled) file: n good chunks *)
Definition good (n : nat) : content := repeat Good n.

Definition cell_at (c : content) (j : nat) : cell := nth j c Hole.

(* write the installed file's chunk i at offset i (a write beyond the end of
   the file leaves holes) *)
Fixpoint write_at (i : nat) (c : content) : content :=
  match i, c with
  | O, [] => [Good]
  | O, _ :: t => Good :: t
  | S i', [] => Hole :: write_at i' []
  | S i', x :: t => x :: write_at i' t
  end.

(* [Ver f]: a name matching HED_VERSION_FINAL, the cache copy of bundled file
   number f.  [Tmp p f]: a temporary name (does not match the pattern) used by
   process p. *)
Inductive fname : Set := Ver (f : nat) | Tmp (p f : nat).

Definition fname_eqb (a b : fname) : bool :=
  match a, b with
  | Ver f, Ver g => Nat.eqb f g
  | Tmp p f, Tmp q g => Nat.eqb p q && Nat.eqb f g
  | _, _ => false
  end.

Definition files := list (fname * content).

Fixpoint fget (m : files) (k : fname) : option content :=
  match m with
  | [] => None
  | (k', v) :: t => if fname_eqb k k' then Some v else fget t k
  end.

Fixpoint fdel (m : files) (k : fname) : files :=
  match m with
  | [] => []
  | (k', v) :: t => if fname_eqb k k' then fdel t k else (k', v) :: fdel t k
  end.

Definition fset (m : files) (k : fname) (v : content) : files := (k, v) :: fdel m k.

Definition has (m : files) (k : fname) : bool :=
  match fget m k with Some _ => true | None => false end.

(* ------------------------------------------------------------ shared state *)

(* last_update.txt: absent, opened for writing and still empty, or a time *)
Inductive stamp_state : Set := NoStamp | StampTorn | StampAt (t : nat).

(* advisory locks: inode of a lock file -> pid holding the lock on it *)
Definition locktab := list (nat * nat).

Fixpoint lget (l : locktab) (i : nat) : option nat :=
  match l with
  | [] => None
  | (j, q) :: t => if Nat.eqb i j then Some q else lget t i
  end.

Fixpoint ldel (l : locktab) (i : nat) : locktab :=
  match l with
  | [] => []
  | (j, q) :: t => if Nat.eqb i j then ldel t i else (j, q) :: ldel t i
  end.

Definition lset (l : locktab) (i p : nat) : locktab := (i, p) :: ldel l i.

Record shared := mkSh {
  files_of : files;          (* HED*.xml copies and temporary files *)
  stamp : stamp_state;       (* last_update.txt *)
  lockfile : option nat;     (* the file (inode number) now named cache_lock.lock, if any *)
  locks : locktab;           (* OS advisory locks, per inode: unlinking a file does not touch the
                                lock a process holds through its open descriptor *)
  next_ino : nat;            (* next fresh inode number: unlink + re-create gives a different file *)
  clock : nat;               (* time.time() *)
  netreqs : nat;             (* number of network requests made so far *)
  memos : locktab            (* ANTI-PATTERN state only: OS process -> last-update time it remembers *)
}.

Definition set_files (s : shared) (m : files) : shared :=
  mkSh m (stamp s) (lockfile s) (locks s) (next_ino s) (clock s) (netreqs s) (memos s).
Definition set_stamp (s : shared) (t : stamp_state) : shared :=
  mkSh (files_of s) t (lockfile s) (locks s) (next_ino s) (clock s) (netreqs s) (memos s).
Definition set_locks (s : shared) (l : locktab) : shared :=
  mkSh (files_of s) (stamp s) (lockfile s) l (next_ino s) (clock s) (netreqs s) (memos s).
Definition set_lockfile (s : shared) (f : option nat) : shared :=
  mkSh (files_of s) (stamp s) f (locks s) (next_ino s) (clock s) (netreqs s) (memos s).
Definition set_clock (s : shared) (t : nat) : shared :=
  mkSh (files_of s) (stamp s) (lockfile s) (locks s) (next_ino s) t (netreqs s) (memos s).
Definition add_net (s : shared) : shared :=
  mkSh (files_of s) (stamp s) (lockfile s) (locks s) (next_ino s) (clock s) (S (netreqs s)) (memos s).
Definition set_memos (s : shared) (l : locktab) : shared :=
  mkSh (files_of s) (stamp s) (lockfile s) (locks s) (next_ino s) (clock s) (netreqs s) l.

(* open(cache_lock.lock, 'a'): creates the file (a fresh inode) when the name does not exist *)
Definition create_lockfile (s : shared) : shared :=
  mkSh (files_of s) (stamp s) (Some (next_ino s)) (locks s) (S (next_ino s)) (clock s) (netreqs s) (memos s).

(* the OS drops the advisory lock p holds through descriptor fd (unlock/close, or process death) *)
Definition release (p : nat) (fd : option nat) (s : shared) : shared :=
  match fd with
  | Some i => match lget (locks s) i with
              | Some q => if Nat.eqb p q then set_locks s (ldel (locks s) i) else s
              | None => s
              end
  | None => s
  end.

(* os.listdir(cache) == [] *)
Definition dir_empty (s : shared) : bool :=
  match files_of s, stamp s, lockfile s with
  | [], NoStamp, None => true
  | _, _, _ => false
  end.

Record cfg := mkCfg {
  nfiles : nat;       (* number of bundled schema files *)
  nchunks : nat;      (* chunks per file *)
  threshold : nat;    (* CACHE_TIME_THRESHOLD *)
  max_tries : nat;    (* lock attempts before the timeout expires *)
  (* ANTI-PATTERN switches, never in /repo: all false for the code as it is (and before the fixes): *)
  unlink_on_release : bool;     (* __exit__ also removes cache_lock.lock *)
  cleanup_outside_lock : bool;  (* cache_local_versions deletes every *.tmp BEFORE taking the lock *)
  memo_stamp : bool;            (* the last-update time is memoised per OS process *)
  per_process_locks : bool;     (* the advisory lock belongs to the OS PROCESS (POSIX record locks, lockf)
                                   instead of the open file (flock): a second holder in the same process
                                   gets in, and its close drops the lock of the whole process *)
  ignore_future_stamp : bool;   (* a recorded time AHEAD of the caller's clock is treated as "no stamp" *)
  (* REPAIR switch: true = the code as it is (fix commit 8dfe516, C19-F5), false = before that commit *)
  parse_fallback : bool         (* a cache copy that does not parse falls back to the installed file *)
}.

(* time_since_update < time_threshold, last time 0 when there is no stamp
   (time.time() is far beyond the threshold) *)
Definition within (c : cfg) (s : shared) : bool :=
  match stamp s with
  | StampAt t =>
      (* time_since_update = now - last may be NEGATIVE (the clock was stepped back, or another host
         with a clock ahead recorded the time): negative < threshold, the attempt is skipped;
         with truncated subtraction: 0 < threshold *)
      if ignore_future_stamp c && Nat.ltb (clock s) t then false
      else Nat.ltb (clock s - t) (threshold c)
  | _ => false
  end.

(* --------------------------------------------------------------- processes *)

Inductive fail : Set :=
| FParse        (* HedFileError cannotParseXML *)
| FURLError     (* urllib.error.URLError *)
| FNotCached    (* HedFileError fileNotFound *)
| FValueError   (* ValueError: could not convert string to float *)
| FFileNotFound. (* FileNotFoundError from os.replace / os.remove of a vanished temporary file *)

Definition fail_exn (e : fail) : exn :=
  match e with
  | FParse => HedFileError | FNotCached => HedFileError
  | FValueError => ValueError | FURLError => Unmodelled | FFileNotFound => Unmodelled
  end.

Inductive outcome : Set :=
| OLoaded              (* the bundled schema was returned *)
| OFail (e : fail)     (* the call raised *)
| OSkipped             (* cache_xml_versions returned -1 *)
| OMoved.              (* _safe_move_tmp_to_folder returned the destination *)

Inductive kind : Set :=
| KLoad (v : nat)         (* load_schema_version(v), behaviour BEFORE da46472/19ec63c/160dd4a/b23f2f7 *)
| KRefresh                (* cache_xml_versions(), behaviour before those commits *)
| KDownload (f : nat)     (* _safe_move_tmp_to_folder(tmp, HED<f>.xml) *)
| KLoadFixed (v : nat)    (* load_schema_version(v), THE CODE AS IT IS (with the fix commits; 8dfe516 = parse_fallback true) *)
| KRefreshFixed           (* cache_xml_versions(), the code as it is *)
| KRefreshOf (o : nat).   (* the same, as one of several calls made by OS process o *)

(* the OS process a model process (= one call) belongs to; its own by default *)
Definition owner_of (k : kind) (p : nat) : nat :=
  match k with KRefreshOf o => o | _ => p end.

Definition target (k : kind) : nat :=
  match k with KLoad v => v | KLoadFixed v => v | KDownload f => f | _ => 0 end.

Inductive pc : Set :=
(* -- behaviour before the fix commits (record of the repaired defects) -- *)
| LList1                 (* get_hed_versions: os.listdir *)
| PEnter                 (* cache_local_versions: CacheLock(write_time=False).__enter__ *)
| PExists (f : nat)      (* _copy_installed_folder_to_cache: os.path.exists(cache_name) *)
| POpen (f : nat)        (* shutil.copy: open(cache_name, 'wb') *)
| PWrite (f i : nat)     (* shutil.copy: write chunk i *)
| PExit                  (* CacheLock.__exit__ *)
| LList2                 (* get_hed_versions: second os.listdir *)
| LRead (second : bool)  (* load_schema(final_hed_xml_file) *)
| LFallback              (* cache_xml_versions: CacheLock().__enter__ *)
| RBody                  (* make_url_request *)
| RExitOpen              (* __exit__: open(last_update.txt, 'w') *)
| RExitWrite             (* __exit__: f.write(str(time)) ; release *)
| LRecheck               (* get_hed_version_path after cache_xml_versions *)
| DOpen (f : nat)        (* copyfile(tmp, cache/tmpname): open *)
| DWrite (f i : nat)     (* copyfile: write chunk i *)
| DReplace (f : nat)     (* os.replace(cache/tmpname, dest) *)
(* -- the code as it is (/repo with da46472, 19ec63c, 160dd4a, b23f2f7; 8dfe516 = parse_fallback on) -- *)
| FList1                 (* get_hed_versions: os.listdir *)
| FClean                 (* ANTI-PATTERN only: remove every *.tmp in the folder, outside the lock *)
| FEnter                 (* CacheLock.__enter__: read the time stamp (tolerant), threshold test *)
| FAcquire               (* CacheLock.__enter__: one attempt of portalocker's acquire(timeout) *)
| FExists (f : nat)
| FTOpen (f : nat)       (* open(temp name, 'wb') *)
| FTWrite (f i : nat)
| FReplace (f : nat)     (* os.replace(temp name, cache_name) *)
| FRelease               (* CacheLock.__exit__: release *)
| FCheck                 (* get_hed_versions: second os.listdir *)
| FRead                  (* load_schema(cache file) *)
| FReadInstalled         (* get_hed_version_path(.., INSTALLED_CACHE_LOCATION); load_schema(installed file) *)
| XEnter                 (* refresh: threshold test *)
| XAcquire
| XBody
| XExit                  (* atomic stamp write, release *)
| Done (o : outcome)
| Dead.

Record proc := mkProc {
  kind_of : kind;
  pc_of : pc;
  tries : nat;           (* failed lock attempts so far *)
  populated : bool;      (* went through a whole population *)
  cache_err : bool;      (* CacheLock.__enter__ raised CacheException *)
  ts : nat;              (* self.current_timestamp *)
  fd : option nat;       (* inode of the lock file this process has open (portalocker's fh) *)
  nreq : nat             (* network requests this process has made *)
}.

Definition goto (r : proc) (c : pc) : proc :=
  mkProc (kind_of r) c (tries r) (populated r) (cache_err r) (ts r) (fd r) (nreq r).
Definition set_err (r : proc) : proc :=
  mkProc (kind_of r) (pc_of r) (tries r) (populated r) true (ts r) (fd r) (nreq r).
Definition set_pop (r : proc) : proc :=
  mkProc (kind_of r) (pc_of r) (tries r) true (cache_err r) (ts r) (fd r) (nreq r).
Definition set_ts (r : proc) (t : nat) : proc :=
  mkProc (kind_of r) (pc_of r) (tries r) (populated r) (cache_err r) t (fd r) (nreq r).
Definition inc_tries (r : proc) : proc :=
  mkProc (kind_of r) (pc_of r) (S (tries r)) (populated r) (cache_err r) (ts r) (fd r) (nreq r).
Definition set_fd (r : proc) (d : option nat) : proc :=
  mkProc (kind_of r) (pc_of r) (tries r) (populated r) (cache_err r) (ts r) d (nreq r).
Definition inc_req (r : proc) : proc :=
  mkProc (kind_of r) (pc_of r) (tries r) (populated r) (cache_err r) (ts r) (fd r) (S (nreq r)).

Definition start_pc (k : kind) : pc :=
  match k with
  | KLoad _ => LList1
  | KRefresh => LFallback
  | KDownload f => DOpen f
  | KLoadFixed _ => FList1
  | KRefreshFixed => XEnter
  | KRefreshOf _ => XEnter
  end.

Definition start (k : kind) : proc := mkProc k (start_pc k) 0 false false 0 None 0.

Definition cur_content (m : files) (k : fname) : content :=
  match fget m k with Some c => c | None => [] end.

(* where a write loop goes after chunk i *)
Definition after_chunk (c : cfg) (i : nat) (again next : pc) : pc :=
  if Nat.ltb (S i) (nchunks c) then again else next.

(* lookup of the code as it is (160dd4a): the cache copy if the listing has it, else the installed file of a bundled
   version (anything else goes to the network path, not modelled) *)
Definition lookup_fixed (c : cfg) (m : files) (v : nat) : pc :=
  if has m (Ver v) then FRead
  else if Nat.ltb v (nfiles c) then FReadInstalled
  else Done (OFail FNotCached).

(* portalocker.Lock.acquire: the file is opened ONCE (first attempt, creating it if the name does
   not exist); every attempt then tries a non-blocking lock on that same open file *)
Definition lock_ino (s : shared) (r : proc) : nat :=
  match fd r with
  | Some i => i
  | None => match lockfile s with Some i => i | None => next_ino s end
  end.

Definition opened (s : shared) (r : proc) : shared :=
  match fd r with
  | Some _ => s
  | None => match lockfile s with Some _ => s | None => create_lockfile s end
  end.

(* who owns an advisory lock taken by model process p (one contender: a thread, or a nested
   CacheLock object, of some OS process): the contender's own open file -- or, with the
   ANTI-PATTERN switch, its OS process *)
Definition hid (c : cfg) (r : proc) (p : nat) : nat :=
  if per_process_locks c then owner_of (kind_of r) p else p.

Definition acquire_step (c : cfg) (p : nat) (s : shared) (r : proc) (ok giveup : pc) : shared * proc :=
  let i := lock_ino s r in
  let s1 := opened s r in
  match lget (locks s) i with
  | None => (set_locks s1 (lset (locks s) i (hid c r p)), set_fd (goto r ok) (Some i))
  | Some h => if per_process_locks c && Nat.eqb h (hid c r p)
              then (s1, set_fd (goto r ok) (Some i))      (* "the process already has it" *)
              else if Nat.ltb (S (tries r)) (max_tries c)
              then (s1, set_fd (inc_tries r) (Some i))
              else (s1, set_fd (set_err (goto r giveup)) None)
  end.

(* CacheLock.__exit__: unlock and close; with the anti-pattern switch also os.remove(lock file) --
   whatever file carries the name now *)
Definition leave (c : cfg) (p : nat) (d : option nat) (s : shared) : shared :=
  let s1 := release p d s in
  if unlink_on_release c then set_lockfile s1 None else s1.

(* _read_last_cached_time as seen by OS process o.  The code as it is (and before the fixes): the shared file, always.
   ANTI-PATTERN memo_stamp: a remembered value wins as long as last_update.txt exists. *)
Definition within_for (c : cfg) (o : nat) (s : shared) : bool :=
  if memo_stamp c then
    match lget (memos s) o, stamp s with
    | Some m, StampAt _ => Nat.ltb (clock s - m) (threshold c)
    | _, _ => within c s
    end
  else within c s.

Definition remember (c : cfg) (o : nat) (s : shared) : shared :=
  if memo_stamp c then
    match lget (memos s) o, stamp s with
    | None, StampAt t => set_memos s (lset (memos s) o t)
    | _, _ => s
    end
  else s.

Definition memo_written (c : cfg) (o t : nat) (s : shared) : shared :=
  if memo_stamp c then set_memos s (lset (memos s) o t) else s.

Definition not_tmp (kv : fname * content) : bool :=
  match fst kv with Tmp _ _ => false | Ver _ => true end.

(* one file operation of process p *)
Definition pstep (c : cfg) (p : nat) (s : shared) (r : proc) : shared * proc :=
  let v := target (kind_of r) in
  let m := files_of s in
  match pc_of r with
  (* get_hed_versions: "if not hed_files: cache_local_versions(...)" *)
  | LList1 =>
      if dir_empty s then (s, goto r PEnter)
      else if has m (Ver v) then (s, goto r (LRead false))
      else (s, goto r LFallback)
  (* CacheLock.__enter__: threshold test even though write_time=False;
     portalocker.Lock(...) is constructed, never acquired *)
  | PEnter =>
      match stamp s with
      | StampTorn => (s, goto r (Done (OFail FValueError)))
      | _ => if within c s then (s, set_err (goto r LList2))
             else (s, goto r (PExists 0))
      end
  | PExists f =>
      if Nat.leb (nfiles c) f then (s, goto r PExit)
      else if has m (Ver f) then (s, goto r (PExists (S f)))
      else (s, goto r (POpen f))
  | POpen f =>
      (set_files s (fset m (Ver f) []),
       goto r (if Nat.eqb (nchunks c) 0 then PExists (S f) else PWrite f 0))
  | PWrite f i =>
      (set_files s (fset m (Ver f) (write_at i (cur_content m (Ver f)))),
       goto r (after_chunk c i (PWrite f (S i)) (PExists (S f))))
  | PExit => (s, set_pop (goto r LList2))
  | LList2 =>
      if has m (Ver v) then (s, goto r (LRead false)) else (s, goto r LFallback)
  (* load_schema: a missing file is FILE_NOT_FOUND (handled on the first try),
     anything that is not the complete file is a parse error *)
  | LRead second =>
      match fget m (Ver v) with
      | None => if second then (s, goto r (Done (OFail FNotCached))) else (s, goto r LFallback)
      | Some x => if content_eqb x (good (nchunks c)) then (s, goto r (Done OLoaded))
                  else (s, goto r (Done (OFail FParse)))
      end
  (* cache_xml_versions: "with CacheLock(cache_folder)" *)
  | LFallback =>
      match stamp s with
      | StampTorn => (s, goto r (Done (OFail FValueError)))
      | _ => if within c s
             then (s, set_err (goto r (match kind_of r with KLoad _ => LRecheck | _ => Done OSkipped end)))
             else (s, set_ts (goto r RBody) (clock s))
      end
  (* no network: URLError; __exit__ still runs *)
  | RBody => (add_net s, inc_req (goto r RExitOpen))
  | RExitOpen => (set_stamp s StampTorn, goto r RExitWrite)
  (* "except CacheException or ValueError or URLError" catches CacheException only *)
  | RExitWrite => (set_stamp s (StampAt (ts r)), goto r (Done (OFail FURLError)))
  | LRecheck =>
      if has m (Ver v) then (s, goto r (LRead true)) else (s, goto r (Done (OFail FNotCached)))
  (* _safe_move_tmp_to_folder *)
  | DOpen f =>
      (set_files s (fset m (Tmp p f) []),
       goto r (if Nat.eqb (nchunks c) 0 then DReplace f else DWrite f 0))
  | DWrite f i =>
      (* (a file whose name was removed meanwhile is still written through the open descriptor,
         but the name stays gone) *)
      match fget m (Tmp p f) with
      | Some x => (set_files s (fset m (Tmp p f) (write_at i x)),
                   goto r (after_chunk c i (DWrite f (S i)) (DReplace f)))
      | None => (s, goto r (after_chunk c i (DWrite f (S i)) (DReplace f)))
      end
  | DReplace f =>
      match fget m (Tmp p f) with
      | Some x => (set_files s (fset (fdel m (Tmp p f)) (Ver f) x), goto r (Done OMoved))
      | None => (s, goto r (Done (OFail FNotCached)))
      end
  (* ---- the code as it is ---- *)
  (* get_hed_versions as before: the cache is seeded only when the folder is empty; the lookup
     uses this listing, and (160dd4a, C19-F3) a version missing from it is looked up in the installed folder *)
  | FList1 =>
      if dir_empty s then (s, goto r (if cleanup_outside_lock c then FClean else FEnter))
      else (s, goto r (lookup_fixed c m v))
  (* ANTI-PATTERN: "remove leftover temporary files" before (= outside) the lock *)
  | FClean => (set_files s (filter not_tmp m), goto r FEnter)
  (* CacheLock.__enter__ (b23f2f7, C19-F4: an unreadable stamp counts as 0): threshold test first ... *)
  | FEnter => if within c s then (s, set_err (goto r FCheck)) else (s, goto r FAcquire)
  (* ... then (da46472, C19-F1) the lock is really acquired; LockException -> CacheException -> -1 *)
  | FAcquire => acquire_step c p s r (FExists 0) FCheck
  | FExists f =>
      if Nat.leb (nfiles c) f then (s, goto r FRelease)
      else if has m (Ver f) then (s, goto r (FExists (S f)))
      else (s, goto r (FTOpen f))
  | FTOpen f =>
      (set_files s (fset m (Tmp p f) []),
       goto r (if Nat.eqb (nchunks c) 0 then FReplace f else FTWrite f 0))
  | FTWrite f i =>
      match fget m (Tmp p f) with
      | Some x => (set_files s (fset m (Tmp p f) (write_at i x)),
                   goto r (after_chunk c i (FTWrite f (S i)) (FReplace f)))
      | None => (s, goto r (after_chunk c i (FTWrite f (S i)) (FReplace f)))
      end
  (* os.replace of a temporary file that is gone: FileNotFoundError (again from the os.remove in
     the handler); __exit__ releases the lock; cache_local_versions catches CacheException only *)
  | FReplace f =>
      match fget m (Tmp p f) with
      | Some x => (set_files s (fset (fdel m (Tmp p f)) (Ver f) x), goto r (FExists (S f)))
      | None => (leave c (hid c r p) (fd r) s, set_fd (goto r (Done (OFail FFileNotFound))) None)
      end
  | FRelease => (leave c (hid c r p) (fd r) s, set_fd (set_pop (goto r FCheck)) None)
  | FCheck => (s, goto r (lookup_fixed c m v))
  | FRead =>
      match fget m (Ver v) with
      | None => if Nat.ltb v (nfiles c) then (s, goto r FReadInstalled)
                else (s, goto r (Done (OFail FNotCached)))
      | Some x => if content_eqb x (good (nchunks c)) then (s, goto r (Done OLoaded))
                  else if parse_fallback c && Nat.ltb v (nfiles c) then (s, goto r FReadInstalled)
                  else (s, goto r (Done (OFail FParse)))
      end
  | FReadInstalled => (s, goto r (Done OLoaded))
  | XEnter =>
      let o := owner_of (kind_of r) p in
      if within_for c o s then (remember c o s, set_err (goto r (Done OSkipped)))
      else (remember c o s, set_ts (goto r XAcquire) (clock s))
  | XAcquire => acquire_step c p s r XBody (Done OSkipped)
  | XBody => (add_net s, inc_req (goto r XExit))
  | XExit => (leave c (hid c r p) (fd r) (memo_written c (owner_of (kind_of r) p) (ts r) (set_stamp s (StampAt (ts r)))),
              set_fd (goto r (Done OSkipped)) None)
  | Done _ => (s, r)
  | Dead => (s, r)
  end.

(* ------------------------------------------------------------------ worlds *)

Record world := mkW { sh : shared; procs : list proc }.

Fixpoint upd {A} (l : list A) (i : nat) (x : A) : list A :=
  match l, i with
  | [], _ => []
  | _ :: t, O => x :: t
  | h :: t, S i' => h :: upd t i' x
  end.

(* [Back d]: the wall clock is stepped BACK by d (NTP correction, VM resume; also stands for a
   host whose clock is behind the one that wrote the stamp) *)
Inductive event : Set := Run (p : nat) | Crash (p : nat) | Tick (d : nat) | Back (d : nat).

Definition is_done (c : pc) : bool := match c with Done _ => true | _ => false end.

Definition step (c : cfg) (w : world) (e : event) : world :=
  match e with
  | Run p =>
      match nth_error (procs w) p with
      | Some r => let (s', r') := pstep c p (sh w) r in mkW s' (upd (procs w) p r')
      | None => w
      end
  | Crash p =>
      match nth_error (procs w) p with
      | Some r => if is_done (pc_of r) then w
                  else mkW (release (hid c r p) (fd r) (sh w)) (upd (procs w) p (set_fd (goto r Dead) None))
      | None => w
      end
  | Tick d => mkW (set_clock (sh w) (clock (sh w) + d)) (procs w)
  | Back d => mkW (set_clock (sh w) (clock (sh w) - d)) (procs w)
  end.

Definition run (c : cfg) (w : world) (evs : list event) : world := fold_left (step c) evs w.

Definition sh0 (t : nat) : shared := mkSh [] NoStamp None [] 0 t 0 [].

(* an empty cache directory at time t and one process per kind *)
Definition init (t : nat) (ks : list kind) : world := mkW (sh0 t) (map start ks).

(* the same processes started on a directory in ANY state s0 left by whoever used it before:
   arbitrary files (leftover temporary files of dead processes included), time stamp (also a torn
   one), lock file, advisory locks still held by processes outside ks, clock *)
Definition init_from (s0 : shared) (ks : list kind) : world := mkW s0 (map start ks).

(* the pc of every stepping process before its step (for trace comparison) *)
Fixpoint trace (c : cfg) (w : world) (evs : list event) : list (option pc) :=
  match evs with
  | [] => []
  | e :: evs' =>
      (match e with
       | Run p => option_map pc_of (nth_error (procs w) p)
       | _ => None
       end) :: trace c (step c w e) evs'
  end.

(* ----------------------------------------------------- observations / specs *)

(* between a successful __enter__ and __exit__ *)
Definition holding (c : pc) : bool :=
  match c with
  | PExists _ | POpen _ | PWrite _ _ | PExit => true
  | RBody | RExitOpen | RExitWrite => true
  | FExists _ | FTOpen _ | FTWrite _ _ | FReplace _ | FRelease => true
  | XBody | XExit => true
  | _ => false
  end.

Definition outcome_of (w : world) (p : nat) : option outcome :=
  match nth_error (procs w) p with
  | Some r => match pc_of r with Done o => Some o | _ => None end
  | None => None
  end.

Definition pc_at (w : world) (p : nat) : option pc := option_map pc_of (nth_error (procs w) p).

Definition ver (w : world) (f : nat) : option content := fget (files_of (sh w)) (Ver f).

Definition no_crash (evs : list event) : Prop :=
  Forall (fun e => match e with Crash _ => False | _ => True end) evs.

Definition all_done (w : world) : Prop :=
  Forall (fun r => is_done (pc_of r) = true) (procs w).

Definition is_prefix_kind (k : kind) : bool :=
  match k with KLoad _ | KRefresh => true | _ => false end.
Definition is_fixed_kind (k : kind) : bool :=
  match k with KLoadFixed _ | KRefreshFixed | KRefreshOf _ | KDownload _ => true | _ => false end.
Definition is_download_kind (k : kind) : bool :=
  match k with KDownload _ => true | _ => false end.

(* n times Run p *)
Definition runs (p n : nat) : list event := repeat (Run p) n.
