(* Model of hed/models/df_util.py: replace_ref (with its nested _remover and the
   regular expression it builds) and of the reference scanner used by
   hed/models/sidecar.py: Sidecar.get_column_refs.
   Models only -- proofs live in Proofs/AssembleProofs.v. *)
From Coq Require Import List NArith Arith Bool.
From HV Require Import Base.Res Base.Str.
Import ListNotations.

Definition ch_na : str := [110; 47; 97]%N.                 (* "n/a" *)
Definition sep_cs : str := [ch_comma; ch_space].           (* ", " *)

Definition is_empty (s : str) : bool := match s with [] => true | _ => false end.

(* not e.strip(" "): the text is empty or holds only U+0020 *)
Definition is_blank (s : str) : bool := forallb (N.eqb ch_space) s.

(* ---------- the three character classes of the pattern ----------
   pattern = c1 p1 oldvalue p2 c2 where the named groups are the greedy stars
   c1 = [\s,]* , p1 = [(\s]* , p2 = [\s)]* , c2 = [\s,]* .
   \s on str patterns is str.isspace() (compared for every code point on each run). *)
Definition cls_c (c : N) : bool := isspace c || N.eqb c ch_comma.     (* [\s,] *)
Definition cls_p1 (c : N) : bool := N.eqb c ch_open || isspace c.     (* [(\s] *)
Definition cls_p2 (c : N) : bool := isspace c || N.eqb c ch_close.    (* [\s)] *)

(* greedy X* : length of the longest prefix inside the class *)
Fixpoint span_len (f : N -> bool) (s : str) : nat :=
  match s with
  | c :: s' => if f c then S (span_len f s') else 0
  | [] => 0
  end.

(* ---------- _remover(match) ---------- *)
Fixpoint memc (c : N) (s : str) : bool :=
  match s with [] => false | x :: s' => N.eqb x c || memc c s' end.

(* fixed = true (the code as it is since fix commit 2ad4134): in the balanced case keep c2
   exactly when a comma precedes (c1 is tested for a comma).  fixed = false is the behaviour
   before that commit (c1 tested for being non-empty). *)
Definition remover (fixed : bool) (c1 p1 p2 c2 : str) : str :=
  let n1 := count ch_open p1 in
  let n2 := count ch_close p2 in
  if Nat.ltb n2 n1 then c1 ++ repeat ch_open (n1 - n2)
  else if Nat.ltb n1 n2 then repeat ch_close (n2 - n1) ++ c2
  else if fixed then (if memc ch_comma c1 then c2 else [])
  else
    let '(c1', c2') :=
      if negb (is_empty c1) then ([], c2)
      else if negb (is_empty c2) then (c1, [])
      else (c1, c2) in
    c1' ++ c2'.

(* ---------- one match attempt at the current position, literal reference ----------
   The regex engine gives c1 its longest run, then p1 its longest run, then needs
   the literal; on failure it backtracks p1 (shorter and shorter), then c1.
   [back_p1]/[back_c1] are those two backtracking loops, longest first. *)
Fixpoint back_p1 (lit s1 : str) (j : nat) : option nat :=
  if prefixb lit (skipn j s1) then Some j
  else match j with 0 => None | S j' => back_p1 lit s1 j' end.

Fixpoint back_c1 (lit s : str) (i : nat) : option (nat * nat) :=
  let s1 := skipn i s in
  match back_p1 lit s1 (span_len cls_p1 s1) with
  | Some j => Some (i, j)
  | None => match i with 0 => None | S i' => back_c1 lit s i' end
  end.

(* result of a successful match: replacement text and length of the matched text *)
Definition match_lit (fixed : bool) (lit s : str) : option (str * nat) :=
  match back_c1 lit s (span_len cls_c s) with
  | None => None
  | Some (i, j) =>
      let c1 := firstn i s in
      let s1 := skipn i s in
      let p1 := firstn j s1 in
      let s2 := skipn (j + length lit) s1 in
      let k := span_len cls_p2 s2 in
      let p2 := firstn k s2 in
      let s3 := skipn k s2 in
      let l := span_len cls_c s3 in
      let c2 := firstn l s3 in
      Some (remover fixed c1 p1 p2 c2, i + j + length lit + k + l)
  end.

(* re.sub(pattern, _remover, text): leftmost match, then continue after it
   (non-overlapping).  [skip] = characters of the current match still to drop. *)
Fixpoint resub_lit (lit s : str) (skip : nat) : str :=
  match s with
  | [] => []
  | c :: s' =>
      match skip with
      | S k => resub_lit lit s' k
      | 0 =>
          match match_lit false lit s with
          | Some (out, len) => out ++ resub_lit lit s' (len - 1)
          | None => c :: resub_lit lit s' 0
          end
      end
  end.

(* ---------- digits-only reference: "{12}" is a quantifier of the p1 group ----------
   pattern = c1 (p1){n} p2 c2 : matches (possibly the empty string) at
   every position; an empty match is replaced by _remover's "" and the scan moves on
   one character.  For n >= 2 the named group keeps its LAST iteration, which is
   empty; for n = 0 the group did not participate: match.group("p1") is None. *)
Definition match_quant (p1_kept : bool) (s : str) : str * nat :=
  let i := span_len cls_c s in
  let c1 := firstn i s in
  let s1 := skipn i s in
  let j := span_len cls_p1 s1 in
  let p1 := if p1_kept then firstn j s1 else [] in
  let s2 := skipn j s1 in
  let k := span_len cls_p2 s2 in
  let p2 := firstn k s2 in
  let s3 := skipn k s2 in
  let l := span_len cls_c s3 in
  let c2 := firstn l s3 in
  (remover false c1 p1 p2 c2, i + j + k + l).

Fixpoint resub_quant (p1_kept : bool) (s : str) (skip : nat) : str :=
  match s with
  | [] => []
  | c :: s' =>
      match skip with
      | S k => resub_quant p1_kept s' k
      | 0 =>
          let '(out, len) := match_quant p1_kept s in
          match len with
          | 0 => c :: resub_quant p1_kept s' 0
          | S len' => out ++ resub_quant p1_kept s' len'
          end
      end
  end.

Definition is_digit (c : N) : bool := (48 <=? c)%N && (c <=? 57)%N.

(* int(ref) when ref is a non-empty run of ASCII digits *)
Definition quantifier_of (ref : str) : option N :=
  match ref with
  | [] => None
  | _ => if forallb is_digit ref
         then Some (fold_left (fun acc c => (acc * 10 + (c - 48))%N) ref 0%N)
         else None
  end.

Definition maxrepeat : N := 4294967295%N.

(* str.replace(old, new) for non-empty old: leftmost, non-overlapping *)
Fixpoint str_replace (old new s : str) (skip : nat) : str :=
  match s with
  | [] => []
  | c :: s' =>
      match skip with
      | S k => str_replace old new s' k
      | 0 => if prefixb old s then new ++ str_replace old new s' (length old - 1)
             else c :: str_replace old new s' 0
      end
  end.

Definition brace (ref : str) : str := [ch_lbrace] ++ ref ++ [ch_rbrace].

(* repaired removal (fixed = true): escape the reference and remove one occurrence at
   a time, so that a later occurrence sees the result of the earlier removal *)
Fixpoint resub_first (lit s : str) : option str :=
  match s with
  | [] => None
  | c :: s' =>
      match match_lit true lit s with
      | Some (out, len) => Some (out ++ skipn len s)
      | None => match resub_first lit s' with Some r => Some (c :: r) | None => None end
      end
  end.

Fixpoint resub_iter (fuel : nat) (lit s : str) : str :=
  match fuel with
  | 0 => s
  | S f => match resub_first lit s with Some s' => resub_iter f lit s' | None => s end
  end.

Definition remove_ref_fixed (lit s : str) : str := resub_iter (length s) lit s.

(* replace_ref(text, oldvalue = "{ref}", newvalue).
   fixed = true: the code as it is now, i.e. /repo since the fix commits a455136 (an empty
   replacement is treated like "n/a"), 37fb060 (the reference is re.escape()d), 2ad4134
   (_remover tests for a comma) and a8ad4f5 (occurrences are removed one at a time).
   fixed = false: the behaviour BEFORE those commits, kept only as the record of the
   repaired defects (it is not a model of the current implementation). *)
Definition replace_ref_gen (blank fixed : bool) (text ref newvalue : str) : res str :=
  let old := brace ref in
  if fixed then
    if str_eqb newvalue ch_na || is_empty newvalue || (blank && is_blank newvalue)
    then Ok (remove_ref_fixed old text)
    else Ok (str_replace old newvalue text 0)
  else if negb (str_eqb newvalue ch_na) then Ok (str_replace old newvalue text 0)
  else
    match quantifier_of ref with
    | None => Ok (resub_lit old text 0)
    | Some n =>
        if (maxrepeat <=? n)%N then Exn Unmodelled         (* OverflowError in sre_parse *)
        else if (n =? 0)%N then Exn AttributeError         (* None.count("(") *)
        else Ok (resub_quant (n =? 1)%N text 0)
    end.

(* Does replace_ref treat a blanks-only replacement like an empty one?  true = the code as it
   is since fix commit d53ebab (newvalue.strip(" ") == "" goes to the remover); false = the
   behaviour BEFORE that commit (repaired defect C06-F8: blanks substituted literally), kept
   as replace_ref_gen false for the record theorems.  The harness reads this constant. *)
Definition blank_ref_removed : bool := true.

Definition replace_ref (fixed : bool) (text ref newvalue : str) : res str :=
  replace_ref_gen blank_ref_removed fixed text ref newvalue.

(* ---------- re.findall(r"\{([a-z_\-0-9]+)\}", s, re.IGNORECASE) ----------
   With IGNORECASE on a str pattern the range a-z also matches U+0130, U+0131,
   U+017F and U+212A (compared with CPython for every code point on each run). *)
Definition is_ref_char (c : N) : bool :=
  ((97 <=? c) && (c <=? 122) || (65 <=? c) && (c <=? 90) || (48 <=? c) && (c <=? 57)
   || (c =? 95) || (c =? 45) || (c =? 304) || (c =? 305) || (c =? 383) || (c =? 8490))%N.

Fixpoint find_refs (s : str) (skip : nat) : list str :=
  match s with
  | [] => []
  | c :: s' =>
      match skip with
      | S k => find_refs s' k
      | 0 =>
          if N.eqb c ch_lbrace then
            let n := span_len is_ref_char s' in
            match n, nth_error s' n with
            | S _, Some d =>
                if N.eqb d ch_rbrace then firstn n s' :: find_refs s' (S n)
                else find_refs s' 0
            | _, _ => find_refs s' 0
            end
          else find_refs s' 0
      end
  end.
