(* C09 object layer (heap): HedString / HedGroup / HedTag objects with
   identity, as the Python mutates them.
   Model of hed_string.py (HedString.expand_defs, shrink_defs, copy/__deepcopy__),
   hed_group.py (HedGroup.__init__, replace, _replace, get_all_groups,
   get_all_tags, find_def_tags, _get_def_tags_from_group, find_tags, __str__),
   hed_tag.py (HedTag.expandable, expanded, short_base_tag setter, __deepcopy__).
   [fx = true] = the code as it is since fix commit 60986da (former C09-F1/F3):
   expand_defs sets tag._expanded = True and shrink_defs sets it to False;
   [fx = false] = the behaviour before that commit, kept as a record.  Models only -- no proofs. *)
From Coq Require Import List NArith Arith Bool.
From HV Require Import Base.Res Base.Str Model.Defs.
Import ListNotations.

Definition id := nat.

(* The mode of the code as it is in /repo: mirrored by FIXED / FIXED_F2 in
   harness/c09.py (checked on every run).  true = since fix commits 60986da (fx) and
   cbb8087 (fs); false = the behaviour before them. *)
Definition current_fx : bool := true.
Definition current_fs : bool := true.

(* HedTag: the abstract tag, _parent, _expandable, _expanded, and whether a
   _def_entry lookup was made at construction (def_dict given and the tag was
   Def/Def-expand).  HedGroup: children, _parent. *)
Inductive cell : Set :=
| CTag (t : tag) (parent : option id) (expandable : option id) (expanded : bool) (hasdefs : bool)
| CGroup (ch : list id) (parent : option id).

(* root = the HedString object being worked on; saved = the objects it was copied from
   (most recent first), still alive and reachable by the caller *)
Record store : Set := mkStore { cells : list cell; root : id; saved : list id }.

Fixpoint set_nth {A} (l : list A) (i : nat) (x : A) : list A :=
  match l, i with
  | [], _ => []
  | _ :: l', 0 => x :: l'
  | y :: l', S j => y :: set_nth l' j x
  end.

Definition get (cs : list cell) (i : id) : res cell :=
  match nth_error cs i with Some c => Ok c | None => Exn Unmodelled end.

Definition set_parent (cs : list cell) (i : id) (p : option id) : res (list cell) :=
  let* c := get cs i in
  match c with
  | CTag t _ e x h => Ok (set_nth cs i (CTag t p e x h))
  | CGroup ch _ => Ok (set_nth cs i (CGroup ch p))
  end.

(* ------------------------------------------------------------------ construction *)

(* HedString.split_into_groups / HedGroup.__init__: allocate the objects of one
   node; children get _parent = the new group *)
Fixpoint alloc_node (hasd : bool) (parent : id) (n : node) (cs : list cell) {struct n}
  : id * list cell :=
  match n with
  | T t => (length cs,
            cs ++ [CTag t (Some parent) None false
                     (hasd && (is_def (tbase t) || is_defexpand (tbase t)))])
  | G ch =>
      let me := length cs in
      let cs1 := cs ++ [CGroup [] (Some parent)] in
      let '(ids, cs2) :=
        (fix go (l : list node) (cs : list cell) {struct l} : list id * list cell :=
           match l with
           | [] => ([], cs)
           | x :: l' => let '(i, cs') := alloc_node hasd me x cs in
                        let '(is, cs'') := go l' cs' in (i :: is, cs'')
           end) ch cs1 in
      (me, set_nth cs2 me (CGroup ids (Some parent)))
  end.

Fixpoint alloc_list (hasd : bool) (parent : id) (l : list node) (cs : list cell)
  : list id * list cell :=
  match l with
  | [] => ([], cs)
  | x :: l' => let '(i, cs') := alloc_node hasd parent x cs in
               let '(is, cs'') := alloc_list hasd parent l' cs' in (i :: is, cs'')
  end.

(* HedString(text, schema, def_dict) for the parsed forest f *)
Definition load (f : forest) : store :=
  let '(ids, cs) := alloc_list true 0 f [CGroup [] None] in
  mkStore (set_nth cs 0 (CGroup ids None)) 0 [].

(* ------------------------------------------------------------------ reading *)

(* str() / tree shape; out of fuel = RecursionError (cyclic children) *)
Fixpoint abs_node (fuel : nat) (cs : list cell) (i : id) : res node :=
  match fuel with
  | 0 => Exn RecursionError
  | S k =>
      let* c := get cs i in
      match c with
      | CTag t _ _ _ _ => Ok (T t)
      | CGroup ch _ => let* l := mapM (abs_node k cs) ch in Ok (G l)
      end
  end.

Definition abs (s : store) : res forest :=
  let* n := abs_node (S (length (cells s))) (cells s) (root s) in
  match n with G ch => Ok ch | T _ => Exn Unmodelled end.

(* HedGroup.get_all_groups: self first, pre-order.  The Python loop does not
   terminate on a cyclic tree; out of fuel = Unmodelled (hang) *)
Fixpoint groups_from (fuel : nat) (cs : list cell) (i : id) : res (list id) :=
  match fuel with
  | 0 => Exn Unmodelled
  | S k =>
      let* c := get cs i in
      match c with
      | CTag _ _ _ _ _ => Ok []
      | CGroup ch _ => let* l := mapM (groups_from k cs) ch in Ok (i :: concat l)
      end
  end.

(* HedGroup.get_all_tags *)
Fixpoint tags_from (fuel : nat) (cs : list cell) (i : id) : res (list id) :=
  match fuel with
  | 0 => Exn Unmodelled
  | S k =>
      let* c := get cs i in
      match c with
      | CTag _ _ _ _ _ => Ok [i]
      | CGroup ch _ => let* l := mapM (tags_from k cs) ch in Ok (concat l)
      end
  end.

(* per reachable tag, in get_all_tags order: (short_tag, _expandable is not None, _expanded) *)
Definition tag_flags (s : store) : res (list (str * (bool * bool))) :=
  let* ts := tags_from (S (length (cells s))) (cells s) (root s) in
  mapM (fun i => let* c := get (cells s) i in
                 match c with
                 | CTag t _ e x _ => Ok (short_tag t, (match e with Some _ => true | None => false end, x))
                 | CGroup _ _ => Exn Unmodelled
                 end) ts.

(* every reachable child's _parent is its container *)
Definition parents_ok (s : store) : res bool :=
  let* gs := groups_from (S (length (cells s))) (cells s) (root s) in
  let* l := mapM (fun g => let* c := get (cells s) g in
                  match c with
                  | CGroup ch _ =>
                      let* l2 := mapM (fun k => let* ck := get (cells s) k in
                                       Ok (match ck with
                                           | CTag _ (Some p) _ _ _ => Nat.eqb p g
                                           | CGroup _ (Some p) => Nat.eqb p g
                                           | _ => false
                                           end)) ch in
                      Ok (forallb (fun b => b) l2)
                  | CTag _ _ _ _ _ => Exn Unmodelled
                  end) gs in
  Ok (forallb (fun b => b) l).

(* ------------------------------------------------------------------ HedTag.expandable *)

(* lazily builds HedGroup([self, deepcopy(contents) with the value]) and caches it;
   self._parent is saved and restored, _expanded = (short_base_tag == "Def-expand") *)
Definition expandable (D : dict) (cs : list cell) (tid : id) : res (option id * list cell) :=
  let* c := get cs tid in
  match c with
  | CGroup _ _ => Exn AttributeError
  | CTag t p (Some g) x h => Ok (Some g, cs)
  | CTag t p None x h =>
      if h then
        match def_entry D t with
        | None => Ok (None, cs)
        | Some e =>
            let* r := get_definition e t (def_placeholder t) in
            match r with
            | None => Ok (None, cs)
            | Some ch =>
                let g := length cs in
                let cs1 := cs ++ [CGroup [] None] in
                let '(kids, cs2) :=
                  match ch with
                  | _ :: G c :: _ => let '(cid, cs2) := alloc_node false g (G c) cs1 in
                                     ([tid; cid], cs2)
                  | _ => ([tid], cs1)
                  end in
                let cs3 := set_nth cs2 g (CGroup kids None) in
                Ok (Some g, set_nth cs3 tid (CTag t p (Some g) (is_defexpand (tbase t)) h))
            end
        end
      else Ok (None, cs)
  end.

(* ------------------------------------------------------------------ HedGroup._replace *)

Fixpoint replace_first (item new : id) (ch : list id) : list id :=
  match ch with
  | [] => []
  | c :: ch' => if Nat.eqb c item then new :: ch' else c :: replace_first item new ch'
  end.

(* parent._replace(item, new): first child identical to item; KeyError if none;
   new._parent = parent *)
Definition replace_child (cs : list cell) (pid item new : id) : res (list cell) :=
  let* c := get cs pid in
  match c with
  | CTag _ _ _ _ _ => Exn AttributeError
  | CGroup ch pp =>
      if existsb (Nat.eqb item) ch then
        set_parent (set_nth cs pid (CGroup (replace_first item new ch) pp)) new (Some pid)
      else Exn KeyError
  end.

(* ------------------------------------------------------------------ expand_defs *)

(* HedGroup._get_def_tags_from_group, include_groups=0 *)
Definition def_tags_of_group (cs : list cell) (gid : id) : res (list id) :=
  let* c := get cs gid in
  match c with
  | CTag _ _ _ _ _ => Exn Unmodelled
  | CGroup ch _ =>
      let* l := mapM (fun k =>
                  let* ck := get cs k in
                  match ck with
                  | CTag t _ _ _ _ => Ok (if is_def (tbase t) then [k] else [])
                  | CGroup ch2 _ =>
                      let* l2 := mapM (fun k2 =>
                                   let* c2 := get cs k2 in
                                   match c2 with
                                   | CTag t2 _ _ _ _ => Ok (if is_defexpand (tbase t2) then [k2] else [])
                                   | CGroup _ _ => Ok []
                                   end) ch2 in
                      Ok (concat l2)
                  end) ch in
      Ok (concat l)
  end.

(* the loop building [replacements] *)
Fixpoint collect_replacements (D : dict) (cs : list cell) (tags : list id)
  : res (list (id * id) * list cell) :=
  match tags with
  | [] => Ok ([], cs)
  | tid :: tags' =>
      let* (e, cs1) := expandable D cs tid in
      let* c := get cs1 tid in
      let ex := match c with CTag _ _ _ x _ => x | CGroup _ _ => false end in
      let* (reps, cs2) := collect_replacements D cs1 tags' in
      match e with
      | Some g => if ex then Ok (reps, cs2) else Ok ((tid, g) :: reps, cs2)
      | None => Ok (reps, cs2)
      end
  end.

(* the loop applying them *)
Fixpoint apply_replacements (fx : bool) (cs : list cell) (reps : list (id * id)) : res (list cell) :=
  match reps with
  | [] => Ok cs
  | (tid, g) :: reps' =>
      let* c := get cs tid in
      match c with
      | CGroup _ _ => Exn Unmodelled
      | CTag t None _ _ _ => Exn AttributeError
      | CTag t (Some pid) e x h =>
          let* cs1 := replace_child cs pid tid g in
          let cs2 := set_nth cs1 tid (CTag (set_base t BDefExpand) (Some g) e (if fx then true else x) h) in
          apply_replacements fx cs2 reps'
      end
  end.

(* HedString.expand_defs *)
Definition expand_defs (fx : bool) (D : dict) (s : store) : res store :=
  let cs := cells s in
  let* gs := groups_from (S (length cs)) cs (root s) in
  let* tl := mapM (def_tags_of_group cs) gs in
  let* (reps, cs1) := collect_replacements D cs (concat tl) in
  let* cs2 := apply_replacements fx cs1 reps in
  Ok (mkStore cs2 (root s) (saved s)).

(* ------------------------------------------------------------------ shrink_defs *)

(* find_tags({Def-expand}, recursive=True): (tag, tag._parent) *)
Definition find_de_tags (cs : list cell) (rt : id) : res (list (id * option id)) :=
  let* ts := tags_from (S (length cs)) cs rt in
  let* l := mapM (fun i => let* c := get cs i in
                  match c with
                  | CTag t p _ _ _ => Ok (if is_defexpand (tbase t) then [(i, p)] else [])
                  | CGroup _ _ => Exn Unmodelled
                  end) ts in
  Ok (concat l).

Fixpoint apply_shrinks (fx : bool) (cs : list cell) (l : list (id * option id)) : res (list cell) :=
  match l with
  | [] => Ok cs
  | (tid, None) :: _ => Exn AttributeError
  | (tid, Some gid) :: l' =>
      let* gc := get cs gid in
      match gc with
      | CTag _ _ _ _ _ => Exn Unmodelled
      | CGroup _ None => apply_shrinks fx cs l'
      | CGroup _ (Some pid) =>
          let* pc := get cs pid in
          match pc with
          | CGroup (_ :: _) _ =>
              let* c := get cs tid in
              match c with
              | CGroup _ _ => Exn Unmodelled
              | CTag t _ e x h =>
                  let cs1 := set_nth cs tid (CTag (set_base t BDef) (Some pid) e (if fx then false else x) h) in
                  let* cs2 := replace_child cs1 pid gid tid in
                  apply_shrinks fx cs2 l'
              end
          | _ => apply_shrinks fx cs l'
          end
      end
  end.

(* HedString.shrink_defs *)
Definition shrink_defs (fx : bool) (s : store) : res store :=
  let* l := find_de_tags (cells s) (root s) in
  let* cs := apply_shrinks fx (cells s) l in
  Ok (mkStore cs (root s) (saved s)).

(* ------------------------------------------------------------------ copy *)

Definition shift_o (n : nat) (o : option id) : option id := option_map (fun i => i + n) o.
Definition shift_cell (n : nat) (c : cell) : cell :=
  match c with
  | CTag t p e x h => CTag t (shift_o n p) (shift_o n e) x h
  | CGroup ch p => CGroup (map (fun i => i + n) ch) (shift_o n p)
  end.

(* HedString.copy = deepcopy with memo: an isomorphic copy of everything
   reachable through children/_parent/_expandable; copying every object (a
   superset) is observationally the same.  The working object becomes the copy. *)
Definition copy (s : store) : store :=
  let n := length (cells s) in
  mkStore (cells s ++ map (shift_cell n) (cells s)) (root s + n) (root s :: saved s).

(* continue on the object the working one was copied from (and keep the copy) *)
Definition swap (s : store) : store :=
  match saved s with
  | [] => s
  | r :: rest => mkStore (cells s) r (root s :: rest)
  end.

(* ------------------------------------------------------------------ op sequences *)

Inductive op : Set := OpExpand | OpShrink | OpCopy | OpValidate | OpSwap.

Definition step (fx : bool) (D : dict) (o : op) (s : store) : res store :=
  match o with
  | OpExpand => expand_defs fx D s
  | OpShrink => shrink_defs fx s
  | OpCopy => Ok (copy s)
  | OpValidate => Ok s
  | OpSwap => Ok (swap s)
  end.

Fixpoint run (fx : bool) (D : dict) (ops : list op) (s : store) : res store :=
  match ops with
  | [] => Ok s
  | o :: ops' => let* s' := step fx D o s in run fx D ops' s'
  end.

(* spec-level semantics of the same op sequence: the working annotation and the
   saved ones *)
Definition tstate := (forest * list forest)%type.

Definition step_ts (D : dict) (o : op) (st : tstate) : res tstate :=
  let '(f, sv) := st in
  match o with
  | OpExpand => Ok (expand_t D f, sv)
  | OpShrink => let* f' := shrink_t f in Ok (f', sv)
  | OpCopy => Ok (f, f :: sv)
  | OpValidate => Ok (f, sv)
  | OpSwap => match sv with [] => Ok (f, sv) | g :: r => Ok (g, f :: r) end
  end.

Fixpoint run_ts (D : dict) (ops : list op) (st : tstate) : res tstate :=
  match ops with
  | [] => Ok st
  | o :: ops' => let* st' := step_ts D o st in run_ts D ops' st'
  end.

Definition run_t (D : dict) (ops : list op) (f : forest) : res forest :=
  let* st := run_ts D ops (f, []) in Ok (fst st).
