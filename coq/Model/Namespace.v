(* C13 -- Library schemas and namespaces compose without changing meaning.
   MODEL ONLY (no proofs).  Transcribed function by function from

     hed/models/hed_tag.py            HedTag._get_schema_namespace, org_base_tag, long_tag
     hed/schema/hed_schema_group.py   HedSchemaGroup.__init__/schema_for_namespace/find_tag_entry/
                                      get_tag_entry/get_tags_with_attribute
     hed/schema/hed_schema.py         HedSchema.find_tag_entry/get_tag_entry/get_tags_with_attribute/
                                      set_schema_prefix/_find_tag_entry/_find_tag_subfunction/
                                      _validate_remaining_terms/has_duplicates
     hed/schema/hed_schema_base.py    schema_83_props (+ schema_util.schema_version_greater_equal)
     hed/schema/hed_schema_section.py HedSchemaTagSection._get_tag_forms/_check_if_duplicate/get
     hed/schema/hed_schema_io.py      load_schema_version/parse_version_list/_load_schema_version/
                                      _load_schema_version_sub
     hed/schema/schema_io/base2schema.py  SchemaLoader.__init__ (merge pre-conditions), _load (partner),
                                      _add_to_dict_base, find_rooted_entry; xml2schema._add_tags_recursive
     hed/validator/util/char_util.py  CharValidator._check_invalid_prefix_issues/check_invalid_character_issues
     hed/validator/hed_validator.py   HedValidator.validate/run_basic_checks/check_tag_formatting (stages and
                                      short-circuits; the rules that never look at a namespace are abstract)
     hed/validator/util/tag_util.py   TagValidator.check_capitalization
     hed/validator/util/group_util.py GroupValidator.check_for_required_tags/check_multiple_unique_tags_exist

   Strings are code-point lists.  Unicode predicates/case maps are section variables (instantiated from
   Gen/UniTable_c13.v and by ASCII maps for the extracted driver). *)
From Coq Require Import List NArith Arith Bool.
From HV Require Import Base.Res Base.Str Base.SchemaData.
Import ListNotations.

Definition ch_colon : N := 58%N.
Definition ch_under : N := 95%N.
Definition ch_tab : N := 9%N.

(* ------------------------------------------------------------------ strings *)

Fixpoint find_char (c : N) (s : str) : option nat :=
  match s with
  | [] => None
  | x :: xs => if N.eqb x c then Some 0 else option_map S (find_char c xs)
  end.

Definition mem_char (c : N) (s : str) : bool := existsb (N.eqb c) s.

(* s.split(c): always at least one piece *)
Fixpoint split_on (c : N) (s : str) : list str :=
  match s with
  | [] => [[]]
  | x :: xs =>
      if N.eqb x c then [] :: split_on c xs
      else match split_on c xs with
           | [] => [[x]]
           | p :: ps => (x :: p) :: ps
           end
  end.

(* s.partition(c) when c occurs: (before, after) *)
Definition partition_at (c : N) (s : str) : option (str * str) :=
  match find_char c s with
  | None => None
  | Some i => Some (firstn i s, skipn (S i) s)
  end.

(* index of the last occurrence *)
Fixpoint rfind_char (c : N) (s : str) : option nat :=
  match s with
  | [] => None
  | x :: xs => match rfind_char c xs with
               | Some i => Some (S i)
               | None => if N.eqb x c then Some 0 else None
               end
  end.

Definition rpartition_at (c : N) (s : str) : option (str * str) :=
  match rfind_char c s with
  | None => None
  | Some i => Some (firstn i s, skipn (S i) s)
  end.

Definition drop_last (s : str) : str := firstn (length s - 1) s.   (* s[:-1] *)

Fixpoint strs_eqb (a b : list str) : bool :=
  match a, b with
  | [], [] => true
  | x :: a', y :: b' => str_eqb x y && strs_eqb a' b'
  | _, _ => false
  end.

Fixpoint mem_str (x : str) (l : list str) : bool :=
  match l with [] => false | y :: ys => str_eqb x y || mem_str x ys end.

Fixpoint has_dup (l : list str) : bool :=
  match l with [] => false | x :: xs => mem_str x xs || has_dup xs end.

Fixpoint lookup {A} (k : str) (l : list (str * A)) : option A :=
  match l with
  | [] => None
  | (k', v) :: r => if str_eqb k k' then Some v else lookup k r
  end.

Definition in_ranges (r : list (N * N)) (c : N) : bool :=
  existsb (fun lh => (fst lh <=? c)%N && (c <=? snd lh)%N) r.

Definition is_ascii (s : str) : bool := forallb (fun c => (c <=? 127)%N) s.   (* str.isascii *)
Definition lower_ascii (c : N) : N := if ((65 <=? c) && (c <=? 90))%N then (c + 32)%N else c.
Definition upper_ascii (c : N) : N := if ((97 <=? c) && (c <=? 122))%N then (c - 32)%N else c.
Definition is_ascii_upper (c : N) : bool := ((65 <=? c) && (c <=? 90))%N.
Definition is_digit (c : N) : bool := ((48 <=? c) && (c <=? 57))%N.

(* ------------------------------------------------------------------ namespace of a tag *)

(* HedTag._get_schema_namespace: text up to and including the first ':' unless a '/' comes first *)
Definition get_schema_namespace (t : str) : str :=
  match find_char ch_colon t with
  | None => []
  | Some ic =>
      match find_char ch_slash t with
      | Some isl => if Nat.ltb isl ic then [] else firstn (S ic) t
      | None => firstn (S ic) t
      end
  end.

(* ------------------------------------------------------------------ issues *)

Inductive code : Set :=
| CharacterInvalid        (* CHARACTER_INVALID *)
| TildesUnsupported       (* TILDES_UNSUPPORTED *)
| NodeNameEmpty           (* NODE_NAME_EMPTY, published TAG_INVALID *)
| PrefixInvalidChars      (* char_util: TAG_NAMESPACE_PREFIX_INVALID *)
| LibraryUnmatched        (* HED_LIBRARY_UNMATCHED, published TAG_NAMESPACE_PREFIX_INVALID *)
| NoValidTagFound         (* NO_VALID_TAG_FOUND, published TAG_INVALID *)
| InvalidParentNode       (* INVALID_PARENT_NODE, published TAG_INVALID... *)
| StyleWarning            (* STYLE_WARNING (severity warning) *)
| RequiredTagMissing      (* REQUIRED_TAG_MISSING *)
| TagNotUnique            (* TAG_NOT_UNIQUE *)
| OtherCode (id : N) (err : bool).   (* any issue of the rules that are kept abstract *)

Definition is_error (c : code) : bool :=
  match c with
  | StyleWarning => false
  | OtherCode _ e => e
  | _ => true
  end.

(* error_reporter.check_for_any_errors *)
Definition any_error (l : list code) : bool := existsb is_error l.

Inductive attr : Set := Required | Unique.

Definition ver := (nat * nat * nat)%type.
Definition ver_ge (a b : ver) : bool :=
  let '(a1, a2, a3) := a in let '(b1, b2, b3) := b in
  if Nat.ltb b1 a1 then true else if Nat.ltb a1 b1 then false
  else if Nat.ltb b2 a2 then true else if Nat.ltb a2 b2 then false
  else Nat.leb b3 a3.
Definition v830 : ver := (8, 3, 0).

(* a schema entry as the rules see it *)
Record entry := mkEntry {
  en_name : str;                       (* registered long name, "/#" kept *)
  en_long : str;                       (* long_tag_name ("/#" stripped) *)
  en_short : str;                      (* short_tag_name *)
  en_attrs : list (str * list str)
}.

Definition fres := (option entry * option str * list code)%type.   (* entry, remainder, issues *)

(* what a HedSchema offers to the validator; the resolver is abstract here (a concrete table model is below) *)
Record sch := mkSch {
  s_find : str -> fres;                (* HedSchema._find_tag_entry on the text after the namespace *)
  s_get : str -> option entry;         (* HedSchema._get_tag_entry(name, Tags) *)
  s_twa : attr -> list str;            (* names of the tag entries carrying the attribute *)
  s_with_std : option ver;             (* header withStandard *)
  s_is_std : bool;                     (* header library == "" *)
  s_ver : ver;                         (* header version *)
  s_elem_domain : bool                 (* properties section defines elementDomain *)
}.

Definition loaded := (str * sch)%type.           (* a HedSchema with its _namespace *)
Definition group := list loaded.                 (* HedSchemaGroup._schemas in insertion order *)

Inductive ann (A : Type) : Type :=
| ATag (t : A)
| AGrp (l : list (ann A)).
Arguments ATag {A} t.
Arguments AGrp {A} l.

Fixpoint ann_map {A B} (f : A -> B) (a : ann A) : ann B :=
  match a with
  | ATag t => ATag (f t)
  | AGrp l => AGrp (map (ann_map f) l)
  end.

Fixpoint ann_tags {A} (a : ann A) : list A :=
  match a with
  | ATag t => [t]
  | AGrp l => flat_map ann_tags l
  end.

Section Ns.
Variable isalpha_c : N -> bool.      (* str.isalpha per code point *)
Variable isprint_c : N -> bool.      (* str.isprintable per code point *)
Variable foldc : N -> N.             (* str.casefold per code point (length preserving part) *)
Variable titlec lowerc : N -> N.     (* str.capitalize: first / other code points *)
(* true = the code as it is: /repo with fix commits 02171e0 (C13-F2, check_tag_formatting), bb02e3e (C13-F3,
   check_capitalization) and 9d4df4f (C13-F4, set_schema_prefix); false = the behaviour before those commits, kept
   only as the record of the repaired defects *)
Variable fixed : bool.

Definition fold (s : str) : str := map foldc s.

Definition str_isalpha (s : str) : bool :=
  match s with [] => false | _ => forallb isalpha_c s end.

(* CharValidator._check_invalid_prefix_issues *)
Definition check_invalid_prefix_issues (ns : str) : list code :=
  match ns with
  | [] => []
  | _ => if str_isalpha (drop_last ns) then [] else [PrefixInvalidChars]
  end.

(* HedSchema.set_schema_prefix: returns the stored _namespace or raises HedFileError *)
Definition set_schema_prefix (ns : str) : res str :=
  let ns' := match ns with
             | [] => []
             | _ => if N.eqb (last ns 0%N) ch_colon then ns else ns ++ [ch_colon]
             end in
  match ns' with
  | [] => Ok []
  | _ => if str_isalpha (drop_last ns') && (negb fixed || is_ascii ns') then Ok ns' else Exn HedFileError
  end.

(* HedSchemaGroup.__init__ *)
Definition mk_group (l : list loaded) : res group :=
  match l with
  | [] => Exn HedFileError
  | _ => if has_dup (map fst l) then Exn HedFileError else Ok l
  end.

(* HedSchemaGroup.schema_for_namespace *)
Definition schema_for_namespace (G : group) (ns : str) : option sch := lookup ns G.

(* HedSchemaGroup.find_tag_entry *)
Definition group_find_tag_entry (G : group) (tag ns : str) : fres :=
  match schema_for_namespace G ns with
  | None => (None, None, [LibraryUnmatched])
  | Some Sc => s_find Sc (skipn (length ns) tag)
  end.

(* HedSchema.find_tag_entry *)
Definition schema_find_tag_entry (L : loaded) (tag ns : str) : fres :=
  if str_eqb ns (fst L) then s_find (snd L) (skipn (length ns) tag)
  else (None, None, [LibraryUnmatched]).

(* HedSchema.get_tag_entry (Tags section) *)
Definition schema_get_tag_entry (L : loaded) (name ns : str) : option entry :=
  if str_eqb ns (fst L)
  then s_get (snd L) (if prefixb (fst L) name then skipn (length (fst L)) name else name)
  else None.

(* HedSchemaGroup.get_tag_entry *)
Definition group_get_tag_entry (G : group) (name ns : str) : option entry :=
  match schema_for_namespace G ns with
  | None => None
  | Some Sc => schema_get_tag_entry (ns, Sc) name ns
  end.

(* HedSchema.get_tags_with_attribute: names with the namespace prepended *)
Definition schema_twa (L : loaded) (a : attr) : list str := map (app (fst L)) (s_twa (snd L) a).

(* HedSchemaGroup.get_tags_with_attribute.  Python builds a set; names of different schemas start with
   different namespaces, so the union is modelled as concatenation (compared as sorted lists). *)
Definition group_twa (G : group) (a : attr) : list str := flat_map (fun L => schema_twa L a) G.

(* schema_util.schema_version_greater_equal(., "8.3.0") + HedSchemaBase.schema_83_props *)
Definition candidate_versions (l : list sch) : list ver :=
  let ws := flat_map (fun Sc => match s_with_std Sc with Some v => [v] | None => [] end) l in
  match ws with
  | [] => flat_map (fun Sc => if s_is_std Sc then [s_ver Sc] else []) l
  | _ => ws
  end.

Definition schema83_single (Sc : sch) : bool :=
  existsb (fun v => ver_ge v v830) (candidate_versions [Sc]) || s_elem_domain Sc.

Definition schema83_group (G : group) : bool :=
  existsb (fun v => ver_ge v v830) (candidate_versions (map snd G))
  || match schema_for_namespace G [] with Some Sc => s_elem_domain Sc | None => false end.

(* ------------------------------------------------------------------ annotations *)

(* the annotation with namespace p written in front of every tag *)
Definition prefix_ann (p : str) (a : ann str) : ann str := ann_map (app p) a.

(* a tag after HedTag.__init__ / _calculate_to_canonical_forms *)
Record rtag := mkR {
  rt_ns : str;                 (* _namespace *)
  rt_body : str;               (* org_tag without the namespace *)
  rt_entry : option entry;     (* _schema_entry *)
  rt_rem : option str          (* remainder returned by find_tag_entry *)
}.

Definition set_ns (p : str) (r : rtag) : rtag := mkR p (rt_body r) (rt_entry r) (rt_rem r).

Definition ext_value (r : rtag) : str := match rt_rem r with Some x => x | None => [] end.

(* HedTag.long_tag *)
Definition long_tag (r : rtag) : str :=
  match rt_entry r with
  | Some e => rt_ns r ++ en_long e ++ ext_value r
  | None => rt_ns r ++ rt_body r
  end.

(* HedTag.org_base_tag *)
Definition org_base_tag (r : rtag) : str :=
  let tag := rt_ns r ++ rt_body r in
  match rt_entry r with
  | Some _ =>
      let ext := ext_value r in
      if Nat.eqb (length ext) 0 then tag
      else if Nat.eqb (length tag) (length ext) then []
      else firstn (length tag - length ext) tag
  | None => tag
  end.

(* how the validator reaches the schema(s): find_tag_entry, get_tags_with_attribute, schema_83_props *)
Record cfg := mkCfg {
  c_find : str -> str -> fres;
  c_twa : attr -> list str;
  c_flag : bool
}.

Definition cfg_group (G : group) : cfg :=
  mkCfg (group_find_tag_entry G) (group_twa G) (schema83_group G).
Definition cfg_single (L : loaded) : cfg :=
  mkCfg (schema_find_tag_entry L) (schema_twa L) (schema83_single (snd L)).

(* HedTag.__init__ + _calculate_to_canonical_forms *)
Definition resolve_tag (c : cfg) (t : str) : rtag * list code :=
  let ns := get_schema_namespace t in
  let '(e, rem, iss) := c_find c t ns in
  (mkR ns (skipn (length ns) t) e rem, iss).

(* CharValidator.check_invalid_character_issues (allow_placeholders = False), per character of the text *)
Definition invalid_string_chars : str := [91; 93; 123; 125; 126]%N.   (* []{}~ *)
Definition char_issue (flag : bool) (c : N) : list code :=
  if mem_char c invalid_string_chars || (if flag then negb (isprint_c c) else (127 <? c)%N)
  then [if N.eqb c 126%N then TildesUnsupported else CharacterInvalid]
  else [].
Definition char_issues (flag : bool) (s : str) : list code := flat_map (char_issue flag) s.

(* HedValidator.check_tag_formatting: number of matches of  ([ \t/]{2,}|^/|/$)  in org_tag.
   A match is a maximal block of blank/tab/slash of length >= 2, or a lone '/' block at either end. *)
Definition is_sts (c : N) : bool := N.eqb c ch_space || N.eqb c ch_tab || N.eqb c ch_slash.

Fixpoint fmt_mid (blk : nat) (slash1 : bool) (s : str) : nat :=
  match s with
  | [] => if Nat.leb 2 blk then 1 else if Nat.eqb blk 1 && slash1 then 1 else 0
  | c :: rest =>
      if is_sts c then fmt_mid (S blk) (Nat.eqb blk 0 && N.eqb c ch_slash) rest
      else (if Nat.leb 2 blk then 1 else 0) + fmt_mid 0 false rest
  end.

Definition fmt_count (s : str) : nat :=
  match s with
  | [] => 0
  | c :: rest =>
      if N.eqb c ch_slash then
        match rest with
        | [] => 1
        | d :: _ => if is_sts d then fmt_mid 0 false s else 1 + fmt_mid 0 false rest
        end
      else fmt_mid 0 false s
  end.

(* since the repair the pattern is applied to the text after the namespace *)
Definition check_tag_formatting (org_tag : str) : list code :=
  repeat NodeNameEmpty
    (fmt_count (if fixed then skipn (length (get_schema_namespace org_tag)) org_tag else org_tag)).

(* TagValidator.check_capitalization; CAMEL_CASE_EXPRESSION matches iff an ASCII capital occurs *)
Definition capitalize (s : str) : str :=
  match s with [] => [] | c :: r => titlec c :: map lowerc r end.
Definition cap_warn (name : str) : bool :=
  negb (str_eqb name (capitalize name)) && negb (existsb is_ascii_upper name).
(* since the repair the namespace is removed from org_base_tag before the node names are examined *)
Definition cap_base (r : rtag) : str :=
  let b := org_base_tag r in
  if fixed then
    match rt_ns r with
    | [] => b
    | ns => if prefixb ns b then skipn (length ns) b else b
    end
  else b.
Definition check_capitalization (r : rtag) : list code :=
  if existsb cap_warn (split_on ch_slash (cap_base r)) then [StyleWarning] else [].

(* GroupValidator.check_for_required_tags / check_multiple_unique_tags_exist *)
Definition starts_with_fold (pre : str) (r : rtag) : bool := prefixb (fold pre) (fold (long_tag r)).
Definition count_true (l : list bool) : nat := length (filter (fun b => b) l).
Definition check_required (req : list str) (tags : list rtag) : list code :=
  flat_map (fun rp => if existsb (starts_with_fold rp) tags then [] else [RequiredTagMissing]) req.
Definition check_unique (uq : list str) (tags : list rtag) : list code :=
  flat_map (fun up => if Nat.leb 2 (count_true (map (starts_with_fold up) tags)) then [TagNotUnique] else []) uq.

(* All remaining rules (delimiters, tag characters, value classes, units, extensions, definitions, duplicates,
   top-level/tag-group placement, onsets, ...) are abstract functions of the resolved tree. *)
Variable R1 : bool -> ann rtag -> list code.   (* rest of run_basic_checks before the conversion-error cut *)
Variable R2 : bool -> ann rtag -> list code.   (* individual tag validators, def validators *)
Variable R3 : bool -> ann rtag -> list code.   (* run_full_string_checks except required/unique *)

(* HedValidator.validate = run_basic_checks, cut on errors, run_full_string_checks *)
Definition verdict (c : cfg) (a : ann str) : list code :=
  let tags := ann_tags a in
  let s1 := flat_map (char_issues (c_flag c)) tags ++ flat_map check_tag_formatting tags in
  if any_error s1 then s1 else
  let rs := ann_map (fun t => fst (resolve_tag c t)) a in
  let s2 := flat_map (fun t => check_invalid_prefix_issues (get_schema_namespace t)) tags
            ++ R1 (c_flag c) rs
            ++ flat_map (fun t => snd (resolve_tag c t)) tags in
  if any_error (s1 ++ s2) then s1 ++ s2 else
  let s3 := flat_map check_capitalization (ann_tags rs) ++ R2 (c_flag c) rs in
  if any_error (s1 ++ s2 ++ s3) then s1 ++ s2 ++ s3 else
  s1 ++ s2 ++ s3 ++ R3 (c_flag c) rs
     ++ check_required (c_twa c Required) (ann_tags rs)
     ++ check_unique (c_twa c Unique) (ann_tags rs).

End Ns.

(* ------------------------------------------------------------------ version lists (hed_schema_io) *)

Inductive loaderr : Set :=
| SCHEMA_DUPLICATE_LIBRARY       (* parse_version_list: same version text twice under one prefix *)
| SCHEMA_VERSION_INVALID
| FILE_NOT_FOUND                 (* not in the folder (the implementation then tries the network) *)
| SCHEMA_DUPLICATE_PREFIX        (* merging into a schema without withStandard / duplicate group prefix *)
| BAD_WITH_STANDARD_MULTIPLE_VALUES
| SCHEMA_DUPLICATE_NAMES         (* clash of names when two schemas share a prefix *)
| INVALID_LIBRARY_PREFIX
| ROOTED_TAG_INVALID
| ROOTED_TAG_DOES_NOT_EXIST
| IN_LIBRARY_IN_UNMERGED
| BAD_PARAMETERS
| TYPE_ERROR.                    (* load_schema_version([]) : lru_cache hashes the list *)

Inductive lres (A : Type) : Type := LOk (a : A) | LErr (e : loaderr).
Arguments LOk {A} a.
Arguments LErr {A} e.
Definition lbind {A B} (r : lres A) (f : A -> lres B) : lres B :=
  match r with LOk a => f a | LErr e => LErr e end.

(* the exception class an error surfaces as *)
Definition loaderr_exn (e : loaderr) : exn := match e with TYPE_ERROR => TypeError | _ => HedFileError end.

(* "ns:version" -> (ns, version); the condition is  `version and ":" in version` *)
Definition split_ns (v : str) : str * str :=
  match partition_at ch_colon v with
  | Some (ns, rest) => (ns, rest)
  | None => ([], v)
  end.

Fixpoint od_get (k : str) (d : list (str * list str)) : list str :=
  match d with [] => [] | (k', v) :: r => if str_eqb k k' then v else od_get k r end.

(* append to the list under key k, keeping insertion order of keys (defaultdict(list)) *)
Fixpoint od_append (k x : str) (d : list (str * list str)) : list (str * list str) :=
  match d with
  | [] => [(k, [x])]
  | (k', v) :: r => if str_eqb k k' then (k', v ++ [x]) :: r else (k', v) :: od_append k x r
  end.

Fixpoint pvl_loop (l : list str) (out : list (str * list str)) : lres (list (str * list str)) :=
  match l with
  | [] => LOk out
  | v :: rest =>
      let '(ns, ver) := split_ns v in
      if mem_str ver (od_get ns out) then LErr SCHEMA_DUPLICATE_LIBRARY
      else pvl_loop rest (od_append ns ver out)
  end.

(* parse_version_list: {ns: "ns:v1,v2"} in insertion order *)
Definition parse_version_list (l : list str) : lres (list (str * str)) :=
  lbind (pvl_loop l [])
    (fun d => LOk (map (fun kv => (fst kv,
                                   match fst kv with
                                   | [] => join [ch_comma] (snd kv)
                                   | k => k ++ [ch_colon] ++ join [ch_comma] (snd kv)
                                   end)) d)).

(* ------------------------------------------------------------------ tag tables (hed_schema_section) *)

Definition key := list str.     (* a name split at '/', case-folded *)

(* The dict long_form_tags as a finite map: association lists bucketed by the name-like component of the key
   (the last component, or the one before a final "#"), most recent binding first inside a bucket. *)
Definition kmap := list (str * list (key * entry)).

Fixpoint key_lookup (k : key) (l : list (key * entry)) : option entry :=
  match l with
  | [] => None
  | (k', v) :: r => if strs_eqb k k' then Some v else key_lookup k r
  end.

Definition bid (k : key) : str :=
  match rev k with
  | x :: y :: _ => if str_eqb x [ch_hash] then y else x
  | [x] => x
  | [] => []
  end.

Fixpoint bucket_add (b : str) (kvs : list (key * entry)) (M : kmap) : kmap :=
  match M with
  | [] => [(b, kvs)]
  | (b', l) :: r => if str_eqb b b' then (b', kvs ++ l) :: r else (b', l) :: bucket_add b kvs r
  end.

Definition km_get (k : key) (M : kmap) : option entry :=
  match lookup (bid k) M with Some l => key_lookup k l | None => None end.

Record table := mkTable {
  t_entries : list entry;              (* all_entries, registration order *)
  t_names : list entry;                (* all_names.values(): the registered (non-duplicate) entries *)
  t_keys : kmap;                       (* long_form_tags *)
  t_dups : list key                    (* duplicate_names keys in order of detection *)
}.

Definition empty_table : table := mkTable [] [] [] [].

Fixpoint mem_key (k : key) (l : list key) : bool :=
  match l with [] => false | k' :: r => strs_eqb k k' || mem_key k r end.

Definition hash_comp : str := [ch_hash].

(* non-empty suffixes, longest first *)
Fixpoint tails_ne {A} (l : list A) : list (list A) :=
  match l with [] => [] | _ :: r => l :: tails_ne r end.

(* HedSchemaTagSection._get_tag_forms on a folded component list: (last component, forms).  Python drops the
   last form when it is "#"; only the final one-component suffix can be "#", so this is a filter. *)
Definition tag_forms (k : key) : key * list key :=
  (match rev k with [] => [] | x :: _ => [x] end,
   filter (fun f => negb (strs_eqb f [hash_comp])) (tails_ne k)).

Definition fold_ascii (s : str) : str := map lower_ascii s.
Definition key_of (name : str) : key := map fold_ascii (split_on ch_slash name).

(* HedSchemaTagSection.get *)
Definition table_get (T : table) (name : str) : option entry := km_get (key_of name) (t_keys T).

Definition strip_hash (comps : list str) : list str :=
  match rev comps with
  | x :: (_ :: _) as r => if str_eqb x hash_comp then rev (tl (rev comps)) else comps
  | _ => comps
  end.

(* HedSchemaTagSection._create_tag_entry *)
Definition make_entry (long : str) (attrs : list (str * list str)) : entry :=
  let comps := split_on ch_slash long in
  let lc := strip_hash comps in
  mkEntry long (join [ch_slash] lc) (last lc []) attrs.

(* HedSchemaSection._add_to_dict + HedSchemaTagSection._check_if_duplicate *)
Definition add_tag (T : table) (e : entry) : table :=
  let k := key_of (en_name e) in
  let '(short, forms) := tag_forms k in
  if match km_get short (t_keys T) with Some _ => true | None => false end
  then mkTable (t_entries T ++ [e]) (t_names T) (t_keys T)
               (t_dups T ++ (if mem_key short (t_dups T) then [] else [short]))
  else mkTable (t_entries T ++ [e]) (t_names T ++ [e]) (bucket_add (bid k) (rev (map (fun f => (f, e)) forms)) (t_keys T)) (t_dups T).

Definition has_attr (a : str) (e : entry) : bool :=
  match lookup a (en_attrs e) with Some _ => true | None => false end.

Definition s_inLibrary : str := [105; 110; 76; 105; 98; 114; 97; 114; 121]%N.
Definition s_rooted : str := [114; 111; 111; 116; 101; 100]%N.
Definition s_required : str := [114; 101; 113; 117; 105; 114; 101; 100]%N.
Definition s_unique : str := [117; 110; 105; 113; 117; 101]%N.

(* HedSchema._validate_remaining_terms *)
Definition validate_remaining_terms (T : table) (names : list str) : bool :=   (* true = some term is a schema term *)
  existsb (fun nm => match km_get [nm] (t_keys T) with Some _ => true | None => false end) names.

(* HedSchema._find_tag_subfunction: longest registered prefix (in whole components); k = components consumed *)
Fixpoint walk (T : table) (w : key) (k : nat) (n : nat) (cur : option entry) : option entry * nat :=
  match n with
  | 0 => (cur, k)
  | S n' =>
      match km_get (firstn (S k) w) (t_keys T) with
      | Some e => walk T w (S k) n' (Some e)
      | None => (cur, k)
      end
  end.

Definition takes_value_child (T : table) (e : entry) : option entry :=
  km_get (key_of (en_name e) ++ [hash_comp]) (t_keys T).

(* HedSchema._find_tag_entry on the text after the namespace *)
Definition table_find (T : table) (clean : str) : fres :=
  let comps := split_on ch_slash clean in
  let w := map fold_ascii comps in
  match km_get w (t_keys T) with
  | Some e =>
      let ends_hash := match rev w with x :: _ :: _ => str_eqb x hash_comp | _ => false end in
      (Some e, Some (if ends_hash then [ch_slash; ch_hash] else []), [])
  | None =>
      match walk T w 0 (length w) None with
      | (None, _) => (None, None, [NoValidTagFound])
      | (Some e, k) =>
          let tvc := takes_value_child T e in
          if Nat.ltb k (length w) && (match tvc with None => true | Some _ => false end)
             && validate_remaining_terms T (skipn k w)
          then (None, None, [InvalidParentNode])
          else
            let rem := if Nat.ltb k (length w) then ch_slash :: join [ch_slash] (skipn k comps) else [] in
            match rem, tvc with
            | _ :: _, Some v => (Some v, Some rem, [])
            | _, _ => (Some e, Some rem, [])
            end
      end
  end.

Definition table_twa (T : table) (a : str) : list str := map en_name (filter (has_attr a) (t_names T)).

(* ------------------------------------------------------------------ schema files and loading *)

Record sfile := mkFile {
  f_library : str;
  f_version : str;
  f_with_std : str;
  f_unmerged : bool;
  f_elem_domain : bool;            (* the properties section defines elementDomain *)
  f_nodes : list tagdef            (* document order; td_long is the path inside the file *)
}.

Record lschema := mkL {
  l_ns : str;
  l_library : str;                 (* comma joined *)
  l_version : str;                 (* comma joined version numbers *)
  l_with_std : str;
  l_merged : bool;
  l_elem_domain : bool;
  l_table : table
}.

Definition entry_of_tagdef (t : tagdef) : entry := make_entry (td_long t) (td_attrs t).

Definition set_attr (a : str) (v : list str) (e : entry) : entry :=
  mkEntry (en_name e) (en_long e) (en_short e) (en_attrs e ++ [(a, v)]).

(* SchemaLoader._add_to_dict_base *)
Definition add_to_dict_base (library : str) (appending merged with_std_nonempty : bool) (T : table) (e : entry)
  : table :=
  if negb (has_attr s_inLibrary e) && appending && merged then T
  else
    let e' := match library with
              | [] => e
              | _ => if negb with_std_nonempty || (negb merged && with_std_nonempty)
                     then (if has_attr s_inLibrary e then e else set_attr s_inLibrary [library] e)
                     else e
              end in
    add_tag T e'.

(* SchemaLoader.find_rooted_entry + SchemaLoaderXML._add_tags_recursive over the flattened node list.
   roots: library root name -> replacement path (set when the root carried `rooted`). *)
Definition first_comp (s : str) : str := match split_on ch_slash s with c :: _ => c | [] => [] end.
Definition is_root_node (s : str) : bool := negb (mem_char ch_slash s).

Fixpoint add_nodes (library : str) (appending merged with_std_nonempty loading_merged : bool)
         (nodes : list tagdef) (roots : list (str * str)) (T : table) : lres table :=
  match nodes with
  | [] => LOk T
  | n :: rest =>
      let long := td_long n in
      let rooted := lookup s_rooted (td_attrs n) in
      let step (long' : str) (roots' : list (str * str)) :=
          (* SchemaLoaderXML._add_to_dict *)
          if has_attr s_inLibrary (make_entry long' (td_attrs n)) && negb loading_merged && negb appending
          then LErr IN_LIBRARY_IN_UNMERGED else
          add_nodes library appending merged with_std_nonempty loading_merged rest roots'
                    (add_to_dict_base library appending merged with_std_nonempty T (make_entry long' (td_attrs n))) in
      match rooted with
      | Some rv =>
          if negb with_std_nonempty then LErr ROOTED_TAG_INVALID
          else match rv with
               | [r] =>
                   if negb (is_root_node long) && negb loading_merged then LErr ROOTED_TAG_INVALID
                   else if is_root_node long && loading_merged then LErr ROOTED_TAG_INVALID
                   else match table_get T r with
                        | None => LErr ROOTED_TAG_DOES_NOT_EXIST
                        | Some re =>
                            if has_attr s_inLibrary re then LErr ROOTED_TAG_DOES_NOT_EXIST
                            else if loading_merged then step long roots
                            else let np := en_name re ++ [ch_slash] ++ long in
                                 step np ((long, np) :: roots)
                        end
               | _ => LErr ROOTED_TAG_INVALID
               end
      | None =>
          match lookup (first_comp long) roots with
          | Some np => step (np ++ skipn (length (first_comp long)) long) roots
          | None => step long roots
          end
      end
  end.

(* the folder the versions are looked up in: (library, version) -> file *)
Definition repo := list (str * sfile).      (* key = "library_version" or "version" *)

Definition is_num (s : str) : bool := match s with [] => false | _ => forallb is_digit s end.
(* semantic_version.Version accepts exactly MAJOR.MINOR.PATCH here (pre-release/build parts are not generated) *)
Definition valid_version (v : str) : bool :=
  match split_on 46%N v with
  | [a; b; c] => is_num a && is_num b && is_num c
                 && forallb (fun x => match x with 48%N :: _ :: _ => false | _ => true end) [a; b; c]
  | _ => false
  end.

(* SchemaLoader.__init__ + _load for one file; `into` = the schema being appended to *)
Definition load_file (isalpha_c : N -> bool) (rp : repo) (f : sfile) (into : option lschema) : lres lschema :=
  let with_std_ne := match f_with_std f with [] => false | _ => true end in
  match into with
  | Some first =>
      match l_with_std first with
      | [] => LErr SCHEMA_DUPLICATE_PREFIX
      | ws =>
          if negb (str_eqb (f_with_std f) ws) then LErr BAD_WITH_STANDARD_MULTIPLE_VALUES
          else
            let merged := negb (f_unmerged f) in
            (* header_attributes are replaced by those of the new file *)
            lbind (add_nodes (f_library f) true merged with_std_ne true (f_nodes f) [] (l_table first))
              (fun T => LOk (mkL (l_ns first) (l_library first ++ [ch_comma] ++ f_library f)
                                 (l_version first ++ [ch_comma] ++ f_version f) (f_with_std f) merged
                                 (l_elem_domain first || f_elem_domain f) T))
      end
  | None =>
      let merged := negb (f_unmerged f) in
      if with_std_ne && negb merged then
        (* partnered, stored unmerged: start from a copy of the standard schema *)
        match lookup (f_with_std f) rp with
        | None => LErr FILE_NOT_FOUND
        | Some base =>
            lbind (add_nodes (f_library base) false (negb (f_unmerged base)) false true (f_nodes base) [] empty_table)
              (fun TB =>
                 lbind (add_nodes (f_library f) false merged with_std_ne false (f_nodes f) [] TB)
                   (fun T => LOk (mkL [] (f_library f) (f_version f) (f_with_std f) merged
                                                  (f_elem_domain base || f_elem_domain f) T)))
        end
      else
        lbind (add_nodes (f_library f) false merged with_std_ne true (f_nodes f) [] empty_table)
          (fun T => LOk (mkL [] (f_library f) (f_version f) (f_with_std f) merged (f_elem_domain f) T))
  end.

(* _load_schema_version_sub *)
Definition load_sub (isalpha_c : N -> bool) (fixed : bool) (rp : repo) (v ns : str) (into : option lschema) : lres lschema :=
  match v with
  | [] => LErr SCHEMA_VERSION_INVALID
  | _ =>
      let num := match rpartition_at ch_under v with Some (_, x) => x | None => v end in
      if negb (valid_version num) then LErr SCHEMA_VERSION_INVALID
      else match lookup v rp with
           | None => LErr FILE_NOT_FOUND
           | Some f =>
               lbind (load_file isalpha_c rp f into)
                 (fun L =>
                    match ns with
                    | [] => LOk L
                    | _ => match set_schema_prefix isalpha_c fixed ns with
                           | Ok ns' => LOk (mkL ns' (l_library L) (l_version L) (l_with_std L) (l_merged L)
                                               (l_elem_domain L) (l_table L))
                           | Exn _ => LErr INVALID_LIBRARY_PREFIX
                           end
                    end)
           end
  end.

Fixpoint load_rest (isalpha_c : N -> bool) (fixed : bool) (rp : repo) (vs : list str) (ns : str) (first : lschema) : lres lschema :=
  match vs with
  | [] => LOk first
  | v :: rest =>
      lbind (load_sub isalpha_c fixed rp v ns (Some first))
        (fun L => match t_dups (l_table L) with
                  | _ :: _ => LErr SCHEMA_DUPLICATE_NAMES
                  | [] => load_rest isalpha_c fixed rp rest ns L
                  end)
  end.

(* _load_schema_version *)
Definition load_schema_version_1 (isalpha_c : N -> bool) (fixed : bool) (rp : repo) (xml_version : str) : lres lschema :=
  let '(ns, v) := match xml_version with
                  | [] => ([], [])
                  | _ => split_ns xml_version
                  end in
  let vs := match v with [] => [[]] | _ => split_on ch_comma v end in
  match vs with
  | [] => LErr SCHEMA_VERSION_INVALID
  | v0 :: rest => lbind (load_sub isalpha_c fixed rp v0 ns None) (load_rest isalpha_c fixed rp rest ns)
  end.

Fixpoint lmapM {A B} (f : A -> lres B) (l : list A) : lres (list B) :=
  match l with
  | [] => LOk []
  | x :: xs => lbind (f x) (fun y => lbind (lmapM f xs) (fun ys => LOk (y :: ys)))
  end.

(* load_schema_version on a list: one schema, or a group (HedSchemaGroup.__init__ checks the prefixes) *)
Definition load_schema_version (isalpha_c : N -> bool) (fixed : bool) (rp : repo) (l : list str) : lres (list lschema) :=
  match l with
  | [] => LErr TYPE_ERROR
  | _ =>
      lbind (parse_version_list l)
        (fun d => lbind (lmapM (fun kv => load_schema_version_1 isalpha_c fixed rp (snd kv)) d)
           (fun ss => match ss with
                      | [_] => LOk ss
                      | _ => if has_dup (map l_ns ss) then LErr SCHEMA_DUPLICATE_PREFIX else LOk ss
                      end))
  end.

(* a loaded schema as the validator sees it *)
Definition parse_ver (s : str) : ver :=
  let num (x : str) := fold_left (fun a c => a * 10 + N.to_nat (c - 48)) x 0 in
  match split_on 46%N s with
  | [a; b; c] => (num a, num b, num c)
  | _ => (0, 0, 0)
  end.

Definition sch_of (L : lschema) : sch :=
  mkSch (table_find (l_table L)) (table_get (l_table L))
        (fun a => table_twa (l_table L) (match a with Required => s_required | Unique => s_unique end))
        (match l_with_std L with [] => None | w => Some (parse_ver w) end)
        (match l_library L with [] => true | _ => false end)
        (parse_ver (l_version L)) (l_elem_domain L).

(* ------------------------------------------------------------------ partnered schemas *)

(* same attributes up to inLibrary *)
Definition attrs_wo_lib (e : entry) : list (str * list str) :=
  filter (fun kv => negb (str_eqb (fst kv) s_inLibrary)) (en_attrs e).

Fixpoint attrs_eqb (a b : list (str * list str)) : bool :=
  match a, b with
  | [], [] => true
  | (k, v) :: a', (k', v') :: b' => str_eqb k k' && strs_eqb v v' && attrs_eqb a' b'
  | _, _ => false
  end.

Definition same_node (e e' : entry) : bool :=
  str_eqb (en_name e) (en_name e') && str_eqb (en_long e) (en_long e') && str_eqb (en_short e) (en_short e')
  && attrs_eqb (attrs_wo_lib e) (attrs_wo_lib e').

(* every tag of the standard table B resolves in L, by its long name and by its short name, to the same node *)
Definition contains_standard (B L : table) : bool :=
  forallb (fun e =>
             negb (has_attr s_inLibrary e)
             && match table_get L (en_name e) with Some e' => same_node e e' && negb (has_attr s_inLibrary e') | None => false end
             && match table_get B (en_name e) with
                | Some eb => match table_get L (en_short e) , table_get B (en_short e) with
                             | Some x, Some y => same_node x y
                             | None, None => true
                             | _, _ => false
                             end && same_node eb e
                | None => false
                end)
          (t_entries B).

Definition build_table (nodes : list tagdef) : table :=
  fold_left (fun T n => add_tag T (entry_of_tagdef n)) nodes empty_table.

(* the entries of a table that belong to the library / to the standard part *)
Definition lib_entries (T : table) : list entry := filter (has_attr s_inLibrary) (t_entries T).
Definition std_entries (T : table) : list entry := filter (fun e => negb (has_attr s_inLibrary e)) (t_entries T).
