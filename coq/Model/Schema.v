(* C03 model, part 1: the tag section of a schema and its lookup table.
   Transcribes hed/schema/hed_schema_section.py (HedSchemaTagSection) function by function.
   Strings are code-point lists; [foldc] gives the case folding of one code point as a string
   (str.casefold maps some code points to several, e.g. U+00DF to "ss"); [fold] = str.casefold.
   Models only -- no proofs here. *)
From Coq Require Import List NArith Bool.
From HV Require Import Base.Str Base.Res.
From HV Require Model.Parse.
Import ListNotations.

Definition ch_colon : N := 58%N.
Definition s_hash : str := [ch_hash].
Definition s_slash_hash : str := [ch_slash; ch_hash].

Definition nonempty (s : str) : bool := match s with [] => false | _ => true end.

(* every s[i+1:] with s[i] = '/', in increasing i: the successive values of [name_key]
   in the loop of _get_tag_forms after the first *)
Fixpoint tails (s : str) : list str :=
  match s with
  | [] => []
  | c :: r => if N.eqb c ch_slash then r :: tails r else tails r
  end.

(* every s[:i] with s[i] = '/', in increasing i, then s itself: the successive values of
   [parent_name] in HedSchema._find_tag_subfunction *)
Fixpoint slash_prefixes (s : str) : list str :=
  match s with
  | [] => [[]]
  | c :: r => (if N.eqb c ch_slash then [[]] else []) ++ map (cons c) (slash_prefixes r)
  end.

(* str.split("/") *)
Fixpoint split_slash (s : str) : list str :=
  match s with
  | [] => [[]]
  | c :: r =>
      if N.eqb c ch_slash then [] :: split_slash r
      else match split_slash r with
           | [] => [[c]]
           | w :: ws => (c :: w) :: ws
           end
  end.

(* s.endswith("/#") and s[:-2] *)
Definition ends_slash_hash (s : str) : bool :=
  str_eqb (skipn (length s - 2) s) s_slash_hash.
Definition drop_last2 (s : str) : str := firstn (length s - 2) s.

(* the last component of a name: the final [name_key] of _get_tag_forms *)
Definition last_comp (name : str) : str := last (name :: tails name) [].
Definition is_value (name : str) : bool := str_eqb (last_comp name) s_hash.

(* HedSchemaTagSection._get_tag_forms(name) -> (name_key, tag_forms).
   while name_key: append; cut after the first '/'  ==  the non-empty members of name :: tails name
   (an empty one can only be the last).  tag_forms[-1] raises IndexError for the empty name. *)
Definition get_tag_forms (name : str) : res (str * list str) :=
  match name with
  | [] => Exn IndexError
  | _ =>
      let all := filter nonempty (name :: tails name) in
      let forms := if str_eqb (last all []) s_hash then removelast all else all in
      Ok (last_comp name, forms)
  end.

(* a schema entry as far as C03 observes it: HedTagEntry.name / long_tag_name / short_tag_name *)
Record entry := mkEntry { e_name : str; e_long : str; e_short : str }.

(* HedSchemaTagSection._create_tag_entry: short_name = tag_forms[-1]; both names lose a final "/#" *)
Definition create_tag_entry (name : str) : res entry :=
  let* nf := get_tag_forms name in
  match snd nf with
  | [] => Exn IndexError
  | _ :: _ =>
      let short_name := last (snd nf) [] in
      if ends_slash_hash name
      then Ok (mkEntry name (drop_last2 name) (drop_last2 short_name))
      else Ok (mkEntry name name short_name)
  end.

(* string equality with an explicit short-circuit (andb is strict under vm_compute and after extraction);
   convertible with Base.Str.str_eqb *)
Fixpoint seqb (a b : str) : bool :=
  match a, b with
  | [], [] => true
  | x :: a', y :: b' => if N.eqb x y then seqb a' b' else false
  | _, _ => false
  end.

Section Fold.
  Variable foldc : N -> str.

  Definition fold (s : str) : str := flat_map foldc s.

  (* dict lookup in long_form_tags: the most recent assignment wins (head of the list) *)
  Fixpoint lookup (k : str) (t : list (str * entry)) : option entry :=
    match t with
    | [] => None
    | (k', e) :: r => if seqb k k' then Some e else lookup k r
    end.

  Record table := mkTable {
    long_form_tags : list (str * entry);   (* folded form -> entry *)
    all_names : list str;                  (* registered names, most recent first *)
    duplicate_names : list (str * str)     (* (folded name_key, name of the refused entry), most recent first *)
  }.

  Definition empty_table : table := mkTable [] [] [].

  (* for tag_key in tag_forms: long_form_tags[tag_key.casefold()] = new_entry *)
  Definition add_forms (e : entry) (forms : list str) (l : list (str * entry)) : list (str * entry) :=
    fold_left (fun acc f => (fold f, e) :: acc) forms l.

  (* HedSchemaSection._add_to_dict + HedSchemaTagSection._check_if_duplicate (after _create_tag_entry).
     The code folds the whole name, cuts it into forms and folds each form again; the model cuts first and
     folds each form once -- the same keys for every per-code-point idempotent folding (the table
     correspondence checks it).  Duplicates are recorded under the folded last component. *)
  Definition add_tag (t : table) (name : str) : res table :=
    let* e := create_tag_entry name in
    let* nf := get_tag_forms name in
    match lookup (fold (fst nf)) (long_form_tags t) with
    | Some _ => Ok (mkTable (long_form_tags t) (all_names t) ((fold (fst nf), name) :: duplicate_names t))
    | None => Ok (mkTable (add_forms e (snd nf) (long_form_tags t)) (name :: all_names t) (duplicate_names t))
    end.

  Fixpoint add_all (t : table) (names : list str) : res table :=
    match names with
    | [] => Ok t
    | n :: r => let* t' := add_tag t n in add_all t' r
    end.

  (* the tag section after loading the names in registration order *)
  Definition build_table (names : list str) : res table := add_all empty_table names.

  (* HedSchemaTagSection.get *)
  Definition get_entry (t : table) (key : str) : option entry := lookup (fold key) (long_form_tags t).

  (* ---------------------------------------------------------------- well-formedness (boolean) *)

  Fixpoint mem (s : str) (l : list str) : bool :=
    match l with [] => false | x :: r => if seqb s x then true else mem s r end.

  Fixpoint nodupb (l : list str) : bool :=
    match l with [] => true | x :: r => negb (mem x r) && nodupb r end.

  Definition name_ok (n : str) : bool :=
    nonempty n && negb (N.eqb (last n 0%N) ch_slash) && negb (existsb (N.eqb ch_colon) n).

  (* the immediate parent (the longest proper slash-prefix) of a name is a name; all ancestors follow
     (Proofs/SchemaProofs.v, parents_closed).  Membership is tested on reversed strings: the names of one
     schema share long prefixes, not suffixes. *)
  Definition parent_closed (revS : list str) (n : str) : bool :=
    match rev (slash_prefixes n) with
    | _ :: p :: _ => mem (rev p) revS
    | _ => true
    end.

  (* the same for a vocabulary listed in document order (every bundled file): the parent of a name is the
     previous name or one of its ancestors -- no search through the whole vocabulary *)
  Definition parent_of (n : str) : option str :=
    match rev (slash_prefixes n) with _ :: p :: _ => Some p | _ => None end.

  Fixpoint preorder_ok (prev : option str) (l : list str) : bool :=
    match l with
    | [] => true
    | n :: r =>
        match parent_of n, prev with
        | None, _ => preorder_ok (Some n) r
        | Some p, Some pv => if mem p (slash_prefixes pv) then preorder_ok (Some n) r else false
        | Some _, None => false
        end
    end.

  Definition parents_ok (S : list str) : bool :=
    if preorder_ok None S then true else forallb (parent_closed (map (@rev N) S)) S.

  (* '#' only as the last component of a name, never as a whole name *)
  Definition hash_leaf (n : str) : bool :=
    negb (str_eqb n s_hash) &&
    forallb (fun q => str_eqb q n || negb (is_value q)) (slash_prefixes n).

  Definition short_keys (S : list str) : list str :=
    map (fun n => fold (last_comp n)) (filter (fun n => negb (is_value n)) S).

  Definition WFschema (S : list str) : bool :=
    forallb name_ok S && parents_ok S && forallb hash_leaf S && nodupb (short_keys S).
End Fold.

(* names that can stand in an annotation: no ',' '(' ')' anywhere, every component starts with a code point
   other than U+0020 (and is not empty), the name does not end with U+0020.  With parent closure no
   component ends with a blank either. *)
Definition name_clean (n : str) : bool :=
  forallb (fun c => negb (Parse.is_delim c)) n &&
  forallb (fun f => match f with c :: _ => negb (N.eqb c ch_space) | [] => false end) (n :: tails n) &&
  negb (N.eqb (last n 0%N) ch_space).

Definition names_clean (S : list str) : bool := forallb name_clean S.

(* ASCII lower-casing *)
Definition ascii_lower (c : N) : N :=
  if (N.leb 65 c && N.leb c 90)%bool then (c + 32)%N else c.

(* str.casefold of one code point given as a table for the non-ASCII code points that change
   (Gen/FoldTable.v: generated from CPython for every code point, translator T6) *)
Fixpoint assoc_n (c : N) (t : list (N * str)) : option str :=
  match t with
  | [] => None
  | (k, s) :: r => if N.eqb c k then Some s else assoc_n c r
  end.

Definition table_fold (tbl : list (N * str)) (c : N) : str :=
  if N.ltb c 128 then [ascii_lower c]
  else match assoc_n c tbl with Some s => s | None => [c] end.

(* what the theorems need of a folding table: no entry is empty or produces '/' or '#' *)
Definition table_ok (tbl : list (N * str)) : bool :=
  forallb (fun ks => nonempty (snd ks) && negb (existsb (N.eqb ch_slash) (snd ks))
                     && negb (existsb (N.eqb ch_hash) (snd ks))) tbl.
