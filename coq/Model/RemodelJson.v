(* JSON values and the JSON-schema keyword subset used by the PARAMS
   dictionaries of the remodeling operations
   (hed/tools/remodeling/operations/*_op.py: PARAMS, evaluated by
   jsonschema.Draft202012Validator in RemodelerValidator.validate).
   Models only -- proofs live in Proofs/RemodelProofs.v. *)
From Coq Require Import List NArith ZArith Arith Bool.
From HV Require Import Base.Res Base.Str.
Import ListNotations.

(* JSON numbers are restricted to integers (generators never draw a
   fraction); objects keep insertion order like Python dicts. *)
Inductive json :=
| JNull
| JBool (b : bool)
| JNum (z : Z)
| JStr (s : str)
| JArr (l : list json)
| JObj (kvs : list (str * json)).

Fixpoint json_eqb (a b : json) {struct a} : bool :=
  match a, b with
  | JNull, JNull => true
  | JBool x, JBool y => Bool.eqb x y
  | JNum x, JNum y => Z.eqb x y
  | JStr x, JStr y => str_eqb x y
  | JArr x, JArr y =>
      (fix go (x y : list json) {struct x} : bool :=
         match x, y with
         | [], [] => true
         | a :: x', b :: y' => json_eqb a b && go x' y'
         | _, _ => false
         end) x y
  | JObj x, JObj y =>
      (* only used on array items by uniqueItems; ordered comparison is
         enough for the generated cases (objects never occur in the arrays
         the eight PARAMS mark uniqueItems) *)
      (fix go (x y : list (str * json)) {struct x} : bool :=
         match x, y with
         | [], [] => true
         | (k, a) :: x', (k', b) :: y' => str_eqb k k' && json_eqb a b && go x' y'
         | _, _ => false
         end) x y
  | _, _ => false
  end.

Fixpoint lookup {A} (k : str) (kvs : list (str * A)) : option A :=
  match kvs with
  | [] => None
  | (k', v) :: r => if str_eqb k k' then Some v else lookup k r
  end.

Definition mem_str (k : str) (l : list str) : bool := existsb (str_eqb k) l.

(* parameters['k']  on a dict (KeyError) / non-dict (TypeError) *)
Definition jget_req (p : json) (k : str) : res json :=
  match p with
  | JObj kvs => match lookup k kvs with Some v => Ok v | None => Exn KeyError end
  | _ => Exn TypeError
  end.

(* parameters.get('k', d) *)
Definition jget_opt (p : json) (k : str) (d : json) : res json :=
  match p with
  | JObj kvs => match lookup k kvs with Some v => Ok v | None => Ok d end
  | _ => Exn AttributeError
  end.

Inductive jtype := TString | TNumber | TBoolean | TArray | TObject.

Definition has_type (t : jtype) (j : json) : bool :=
  match t, j with
  | TString, JStr _ => true
  | TNumber, JNum _ => true
  | TBoolean, JBool _ => true
  | TArray, JArr _ => true
  | TObject, JObj _ => true
  | _, _ => false
  end.

(* One schema node with exactly the keywords that occur in the eight PARAMS
   (the translator T5 fails closed on any other keyword). *)
Inductive schema :=
| Sch (types : list jtype)                  (* "type" (string or list); [] = absent *)
      (props : list (str * schema))         (* "properties" *)
      (pattern_all : option schema)         (* "patternProperties": {".*": s} *)
      (required : list str)                 (* "required" *)
      (additional_ok : bool)                (* false iff "additionalProperties": False *)
      (dependent : list (str * list str))   (* "dependentRequired" *)
      (items : option schema)               (* "items" *)
      (min_items : nat)                     (* "minItems" (0 = absent) *)
      (unique : bool)                       (* "uniqueItems" *)
      (min_props : nat).                    (* "minProperties" (0 = absent) *)

Fixpoint all_distinct (l : list json) : bool :=
  match l with
  | [] => true
  | x :: r => negb (existsb (json_eqb x) r) && all_distinct r
  end.

Definition sch_required (s : schema) : list str :=
  match s with Sch _ _ _ r _ _ _ _ _ _ => r end.
Definition sch_props (s : schema) : list (str * schema) :=
  match s with Sch _ p _ _ _ _ _ _ _ _ => p end.

(* jsonschema validity (True = no error).  Keywords apply only to instances
   of the matching JSON type, as in the specification. *)
Fixpoint check (s : schema) (j : json) {struct s} : bool :=
  match s with
  | Sch types props pat required additional_ok dependent items min_items unique min_props =>
      (match types with [] => true | _ => existsb (fun t => has_type t j) types end)
      &&
      match j with
      | JObj kvs =>
          forallb (fun k => match lookup k kvs with Some _ => true | None => false end) required
          && (additional_ok ||
              match pat with
              | Some _ => true
              | None => forallb (fun kv => match lookup (fst kv) props with Some _ => true | None => false end) kvs
              end)
          && forallb (fun d => match lookup (fst d) kvs with
                               | Some _ => forallb (fun k => match lookup k kvs with Some _ => true | None => false end) (snd d)
                               | None => true
                               end) dependent
          && Nat.leb min_props (length kvs)
          && (fix go (ps : list (str * schema)) : bool :=
                match ps with
                | [] => true
                | (k, sk) :: r =>
                    match lookup k kvs with
                    | Some v => check sk v
                    | None => true
                    end && go r
                end) props
          && match pat with
             | Some sp => forallb (fun kv => check sp (snd kv)) kvs
             | None => true
             end
      | JArr l =>
          Nat.leb min_items (length l)
          && (if unique then all_distinct l else true)
          && match items with
             | Some si => forallb (check si) l
             | None => true
             end
      | _ => true
      end
  end.
