(* Model of the value-class acceptance logic of
     hed/validator/util/class_util.py  UnitValueValidator._check_value_class / report_value_errors /
                                       report_value_char_errors
   on per-class verdicts (inputs: for every value class of the tag, in the order of tag.value_classes,
   whether CharRexValidator.is_valid_value accepts the word form and the list of problem characters
   returned by get_problem_chars, each flagged "is a curly brace").  Also the operation-sequence model of a
   HedValidator object.  Models only. *)
From Coq Require Import List NArith Arith Bool.
From HV Require Import Base.Res Base.Str Model.ValKinds Model.Validate.
Import ListNotations.

Record class_verdict := mkCV {
  cv_word : bool;            (* is_valid_value(stripped_value, class_name) *)
  cv_chars : list bool       (* get_problem_chars(stripped_value, class_name): one entry per bad character,
                                true = the character is '{' or '}' *)
}.

(* `if class_valid[class_name] and not char_errors[class_name]: return []` -- judged PER CLASS *)
Definition class_accepts (c : class_verdict) : bool :=
  cv_word c && match cv_chars c with [] => true | _ => false end.

(* report_value_errors / report_value_char_errors for one class *)
Definition class_issues (c : class_verdict) : list issue :=
  if class_accepts c then []
  else if negb (cv_word c) then [iss K_INVALID_VALUE_CLASS_VALUE]
  else map (fun curly : bool => if curly then iss K_CURLY_BRACE_UNSUPPORTED_HERE
                                else iss K_INVALID_VALUE_CLASS_CHARACTER) (cv_chars c).

(* _check_value_class(tag, stripped_value, report_as=None) *)
Definition value_class_issues (takes_value : bool) (cls : list class_verdict) : list issue :=
  if negb takes_value then []
  else match cls with
       | [] => []
       | _ => if existsb class_accepts cls then [] else flat_map class_issues cls
       end.

(* ---------- a HedValidator object used for a sequence of annotations ----------
   What the object keeps between calls: the schema-derived configuration and the definitions (inside the
   per-tag facts); nothing is written by validate.  One call = [vstep]. *)
Record vstate := mkVS { vs_cfg : config }.
Definition vinput := (str * list fnode)%type.
Definition vstep (st : vstate) (x : vinput) : vstate * res (list issue) :=
  (st, validate (vs_cfg st) (fst x) (snd x)).
Fixpoint vrun (st : vstate) (xs : list vinput) : vstate * list (res (list issue)) :=
  match xs with
  | [] => (st, [])
  | x :: xs' => let '(st1, r) := vstep st x in
                let '(st2, rs) := vrun st1 xs' in (st2, r :: rs)
  end.
