(* Model of the BIDS sidecar-inheritance code (property C16):
     hed/tools/util/io_util.py      check_filename, get_allowed, get_file_list,
                                    get_dir_dictionary, get_path_components,
                                    parse_bids_filename, _split_entity
     hed/tools/bids/bids_file.py    BidsFile.__init__
     hed/tools/bids/bids_sidecar_file.py  is_sidecar_for, set_contents
     hed/tools/bids/bids_file_group.py    __init__, get_sidecars_from_path,
                                    _get_sidecar_for_obj, validate_sidecars, validate_datafiles
     hed/models/sidecar.py          load_sidecar_file(s)
     hed/tools/bids/bids_dataset.py __init__ (one group per tabular type), validate
     hed/scripts/hed_validator.py   main (exit status)
   File and directory names are strings (code points); JSON column keys and the
   JSON value below a key are abstract ids.  Models only -- proofs live in
   Proofs/BidsProofs.v. *)
From Coq Require Import List NArith Arith Bool.
From HV Require Import Base.Res Base.Str.
Import ListNotations.

(* ------------------------------------------------------------------ strings *)

Definition ch_us : N := 95%N.    (* _ *)
Definition ch_hy : N := 45%N.    (* - *)
Definition ch_dot : N := 46%N.   (* . *)

(* str.lower() restricted to ASCII (generated names are ASCII plus caseless
   code points; stated in TRUSTED) *)
Definition lower_ch (c : N) : N := if ((65 <=? c) && (c <=? 90))%N then (c + 32)%N else c.
Definition lower (s : str) : str := map lower_ch s.

(* str.strip(): whitespace = str.isspace per code point *)
Fixpoint lstrip (s : str) : str :=
  match s with
  | [] => []
  | c :: r => if isspace c then lstrip r else s
  end.
Definition strip (s : str) : str := rev (lstrip (rev (lstrip s))).

(* str.split(sep) for a one-character separator *)
Fixpoint split_aux (sep : N) (s : str) (cur : str) : list str :=
  match s with
  | [] => [rev cur]
  | c :: r => if N.eqb c sep then rev cur :: split_aux sep r [] else split_aux sep r (c :: cur)
  end.
Definition split (sep : N) (s : str) : list str := split_aux sep s [].

Definition endswith (s suf : str) : bool := prefixb (rev suf) (rev s).

Definition is_empty {A} (l : list A) : bool := match l with [] => true | _ => false end.

(* os.path.splitext on a bare file name: the extension starts at the last dot
   unless only dots precede it *)
Fixpoint last_dot (s : str) : option (str * str) :=
  match s with
  | [] => None
  | c :: r =>
      match last_dot r with
      | Some (a, b) => Some (c :: a, b)
      | None => if N.eqb c ch_dot then Some ([], c :: r) else None
      end
  end.
Definition splitext (s : str) : str * str :=
  match last_dot s with
  | Some (a, b) => if forallb (fun c => N.eqb c ch_dot) a then (s, []) else (a, b)
  | None => (s, [])
  end.

(* ------------------------------------------------------------------ dicts *)

(* Python dict with insertion order: assignment keeps the position of an
   existing key, a new key goes last. *)
Section Dict.
  Context {K V : Type}.
  Variable keqb : K -> K -> bool.

  Fixpoint dget (k : K) (d : list (K * V)) : option V :=
    match d with
    | [] => None
    | (k', v) :: r => if keqb k k' then Some v else dget k r
    end.

  Fixpoint dset (k : K) (v : V) (d : list (K * V)) : list (K * V) :=
    match d with
    | [] => [(k, v)]
    | (k', v') :: r => if keqb k k' then (k', v) :: r else (k', v') :: dset k v r
    end.

  (* d.update(e) *)
  Definition dict_update (d e : list (K * V)) : list (K * V) :=
    fold_left (fun acc kv => dset (fst kv) (snd kv) acc) e d.
End Dict.

Definition edict := list (str * str).        (* entity_dict *)
Definition jdict := list (nat * nat).        (* loaded JSON: column key id -> value id *)

Definition eget := @dget str str str_eqb.
Definition eset := @dset str str str_eqb.
Definition jupdate := @dict_update nat nat Nat.eqb.

(* ------------------------------------------------------------------ io_util *)

(* get_allowed(value, allowed_values, starts_with=False): first allowed value
   (lower-cased) the lower-cased value ends with; None stands for the falsy []. *)
Definition get_allowed_end (value : str) (allowed : list str) : option str :=
  find (fun a => endswith (lower value) a) (map lower allowed).

(* check_filename(test_file, None, name_suffix, extensions) *)
Definition check_filename (test_file : str) (name_suffix : str) (extensions : list str) : bool :=
  let basename := lower test_file in
  match get_allowed_end basename extensions with
  | None => false
  | Some ext =>
      if is_empty ext then false
      else
        let basename' := firstn (length basename - length ext) basename in
        if is_empty name_suffix then true
        else match get_allowed_end basename' [name_suffix] with
             | None => false
             | Some r => negb (is_empty r)
             end
  end.

(* _split_entity(piece) *)
Inductive split_ent : Type :=
| SBad
| SSuffix (s : str)
| SKeyVal (k v : str).

Definition split_entity (piece : str) : split_ent :=
  let piece := strip piece in
  if is_empty piece then SBad
  else match split ch_hy piece with
       | [_] => SSuffix piece
       | [a; b] => SKeyVal (strip a) (strip b)
       | _ => SBad
       end.

(* the loop over reversed(entity_pieces[:-1]) *)
Fixpoint parse_pieces (rev_pieces : list str) (d : edict) : res edict :=
  match rev_pieces with
  | [] => Ok d
  | p :: r =>
      match split_entity p with
      | SKeyVal k v => parse_pieces r (eset k v d)
      | _ => Exn HedFileError                        (* BadKeyValue *)
      end
  end.

(* parse_bids_filename(file_path) on the file's base name:
   (suffix or None, lower-cased extension, entity dict) *)
Definition parse_bids_filename (name : str) : res (option str * str * edict) :=
  let (stem, ext0) := splitext name in
  let ext := lower ext0 in
  let basename := strip stem in
  if is_empty basename then Exn HedFileError         (* BlankFileName *)
  else
    let pieces := split ch_us basename in
    match split_entity (last pieces []) with
    | SBad => Exn HedFileError                       (* BadSuffixPiece *)
    | SSuffix s =>
        let* d := parse_pieces (rev (removelast pieces)) [] in Ok (Some s, ext, d)
    | SKeyVal k v =>
        let* d := parse_pieces (rev (removelast pieces)) (eset k v []) in Ok (None, ext, d)
    end.

(* ------------------------------------------------------------------ files *)

Definition path := list str.     (* directory components below the dataset root *)

Fixpoint path_eqb (a b : path) : bool :=
  match a, b with
  | [], [] => true
  | x :: a', y :: b' => str_eqb x y && path_eqb a' b'
  | _, _ => false
  end.

(* os.path.commonpath of two component lists *)
Fixpoint commonpath (a b : path) : path :=
  match a, b with
  | x :: a', y :: b' => if str_eqb x y then x :: commonpath a' b' else []
  | _, _ => []
  end.

(* BidsFile: file_path = (b_dir, b_name); b_raw = the parsed JSON object of the file
   (None: not parseable as JSON or not an object; irrelevant for .tsv files) *)
Record bfile := mkB {
  b_dir : path;
  b_name : str;
  b_suffix : option str;
  b_ext : str;
  b_ents : edict;
  b_raw : option jdict
}.

Definition full_path (f : bfile) : path := b_dir f ++ [b_name f].
Definition same_file (a b : bfile) : bool :=
  path_eqb (b_dir a) (b_dir b) && str_eqb (b_name a) (b_name b).

(* BidsFile.__init__ *)
Definition mk_bfile (dir : path) (name : str) (raw : option jdict) : res bfile :=
  let* r := parse_bids_filename name in
  let '(sfx, ext, ents) := r in
  Ok (mkB dir name sfx ext ents raw).

Definition osuffix_eqb (a b : option str) : bool :=
  match a, b with
  | None, None => true
  | Some x, Some y => str_eqb x y
  | _, _ => false
  end.

Definition ents_subset (s o : edict) : bool :=
  forallb (fun kv => match eget (fst kv) o with
                     | Some v => str_eqb v (snd kv)
                     | None => false
                     end) s.

(* BidsSidecarFile.is_sidecar_for(self, obj) *)
Definition is_sidecar_for (self obj : bfile) : bool :=
  if same_file obj self then true
  else if negb (osuffix_eqb (b_suffix obj) (b_suffix self)) then false
  else if negb (path_eqb (b_dir self) (commonpath (full_path obj) (full_path self))) then false
  else ents_subset (b_ents self) (b_ents obj).

(* the same BidsFile with its real (absolute) path: the root's components in front of the directory *)
Definition abs_file (rootp : path) (f : bfile) : bfile :=
  mkB (rootp ++ b_dir f) (b_name f) (b_suffix f) (b_ext f) (b_ents f) (b_raw f).

(* ------------------------------------------------------------------ directory tree and os.walk *)

(* a directory: its files (name, parsed JSON content) and its sub-directories,
   both in the order os.scandir lists them *)
Inductive tree : Type :=
| Node (files : list (str * option jdict)) (subs : forest)
with forest : Type :=
| FNil
| FCons (name : str) (t : tree) (rest : forest).

Definition in_names (n : str) (l : list str) : bool := existsb (str_eqb n) l.

(* os.walk(root, topdown=True) with  dirs[:] = [d for d in dirs if d not in exclude_dirs] :
   (directory path relative to the root, files) in visiting order *)
Fixpoint walk (excl : list str) (t : tree) : list (path * list (str * option jdict)) :=
  match t with
  | Node files subs => ([], files) :: walk_forest excl subs
  end
with walk_forest (excl : list str) (f : forest) : list (path * list (str * option jdict)) :=
  match f with
  | FNil => []
  | FCons n t r =>
      if in_names n excl then walk_forest excl r
      else map (fun e => (n :: fst e, snd e)) (walk excl t) ++ walk_forest excl r
  end.

(* The same walk as the code starts it, os.walk(root_path): the dataset root is given by its absolute
   components [cur] (the root's own name last), os.walk yields absolute directory paths, and the
   pruning statement looks at the names in [dirs] -- the directories BELOW the one being visited --
   never at the name of the start directory or of a component above it.  Proofs/BidsProofs.v shows
   that this is [walk] with every path prefixed by the root (os_walk_is_walk), so the group computed
   from paths relative to the root does not depend on where the dataset lies or what its root is called. *)
Fixpoint os_walk (excl : list str) (cur : path) (t : tree) : list (path * list (str * option jdict)) :=
  match t with
  | Node files subs => (cur, files) :: os_walk_forest excl cur subs
  end
with os_walk_forest (excl : list str) (cur : path) (f : forest) : list (path * list (str * option jdict)) :=
  match f with
  | FNil => []
  | FCons n t r =>
      if in_names n excl then os_walk_forest excl cur r
      else os_walk excl (cur ++ [n]) t ++ os_walk_forest excl cur r
  end.

(* get_file_list(root, name_suffix=suffix, extensions=[ext], exclude_dirs=excl) *)
Definition get_file_list (excl : list str) (sfx : str) (ext : str) (t : tree)
  : list (path * (str * option jdict)) :=
  flat_map (fun e => map (fun f => (fst e, f))
                         (filter (fun f => check_filename (fst f) sfx [ext]) (snd e)))
           (walk excl t).

Definition ext_json : str := [46; 106; 115; 111; 110]%N.   (* ".json" *)
Definition ext_tsv : str := [46; 116; 115; 118]%N.         (* ".tsv" *)

(* ------------------------------------------------------------------ BidsFileGroup *)

(* sidecar_dir_dict.get(current_path): get_dir_dictionary visits every directory
   once and lists the matching files in walk order, which is the order of
   sidecar_dict; so the entry of a directory is the sub-list of the sidecars
   lying in it (None/empty when there is none). *)
Definition dir_sidecars (sc : list bfile) (cur : path) : list bfile :=
  filter (fun s => path_eqb (b_dir s) cur) sc.

(* _get_sidecar_for_obj(obj, current_path) *)
Definition get_sidecar_for_obj (sc : list bfile) (obj : bfile) (cur : path) : option bfile :=
  find (fun s => is_sidecar_for s obj) (dir_sidecars sc cur).

(* get_sidecars_from_path(obj): the loop over [root] + get_path_components(root, obj.file_path),
   current_path growing by one component per iteration *)
Fixpoint chain_aux (sc : list bfile) (obj : bfile) (cur : path) (rest : path) : list bfile :=
  (match get_sidecar_for_obj sc obj cur with Some s => [s] | None => [] end)
  ++ match rest with
     | [] => []
     | c :: r => chain_aux sc obj (cur ++ [c]) r
     end.

Definition get_sidecars_from_path (sc : list bfile) (obj : bfile) : list bfile :=
  chain_aux sc obj [] (b_dir obj).

(* Sidecar.load_sidecar_file / the isinstance check in load_sidecar_files: a file that is not
   parseable JSON, or whose JSON document is not an object, raises HedFileError (b_raw = None) *)
Definition load_sidecar_file (f : bfile) : res jdict :=
  match b_raw f with
  | Some d => Ok d
  | None => Exn HedFileError
  end.

(* Sidecar.load_sidecar_files(files): merged_dict.update(loaded_json) left to right *)
Fixpoint load_loop (files : list bfile) (merged : jdict) : res jdict :=
  match files with
  | [] => Ok merged
  | f :: r => let* d := load_sidecar_file f in load_loop r (jupdate merged d)
  end.
Definition load_sidecar_files (files : list bfile) : res jdict :=
  if is_empty files then Ok [] else load_loop files [].

(* BidsSidecarFile.set_contents(content_info=x):  if not content_info: content_info = self.file_path *)
Definition set_contents (self : bfile) (x : list bfile) : res jdict :=
  load_sidecar_files (if is_empty x then [self] else x).

(* self.sidecar_dict[path] *)
Fixpoint lookup_contents (s : bfile) (conts : list (bfile * jdict)) : res jdict :=
  match conts with
  | [] => Exn KeyError
  | (s', d) :: r => if same_file s s' then Ok d else lookup_contents s r
  end.

(* the second loop of BidsFileGroup.__init__ for one data file.
   fixed = false (the behaviour before fix commit be9bad3, kept as the record of the repaired finding C16-F1):
     sidecar_list = get_sidecars_from_path(obj); obj.sidecar = sidecar_dict[sidecar_list[-1]]
   fixed = true (the code as it is now, since fix commit be9bad3):
     merged = BidsSidecarFile(sidecar_list[-1]); merged.set_contents(content_info=sidecar_list);
     obj.sidecar = merged *)
Definition data_sidecar (fixed : bool) (sc : list bfile) (conts : list (bfile * jdict)) (obj : bfile)
  : res (option jdict) :=
  let sidecar_list := get_sidecars_from_path sc obj in
  if is_empty sidecar_list then Ok None
  else if fixed then
    let deepest := last sidecar_list obj in
    let* merged := mk_bfile (b_dir deepest) (b_name deepest) (b_raw deepest) in
    let* d := set_contents merged sidecar_list in Ok (Some d)
  else let* d := lookup_contents (last sidecar_list obj) conts in Ok (Some d).

Record group := mkG {
  g_sidecars : list bfile;                       (* sidecar_dict.values() *)
  g_conts : list (bfile * jdict);                (* sidecar -> merged contents.loaded_dict *)
  g_data : list (bfile * option jdict)           (* data file -> merged sidecar, if any *)
}.

(* BidsFileGroup.__init__(root, suffix, "tabular", exclude_dirs) *)
Definition group_init (fixed : bool) (excl : list str) (sfx : str) (t : tree) : res group :=
  let* sc := mapM (fun e => mk_bfile (fst e) (fst (snd e)) (snd (snd e)))
                  (get_file_list excl sfx ext_json t) in
  let* conts := mapM (fun s => let* d := set_contents s (get_sidecars_from_path sc s) in Ok (s, d)) sc in
  let* dfs := mapM (fun e => mk_bfile (fst e) (fst (snd e)) None)
                   (get_file_list excl sfx ext_tsv t) in
  let* data := mapM (fun f => let* m := data_sidecar fixed sc conts f in Ok (f, m)) dfs in
  Ok (mkG sc conts data).

(* ------------------------------------------------------------------ validation driver *)

Section Validate.
  (* the validators themselves are properties C07/C08; here they are parameters:
     vs name merged   = SidecarValidator.validate(sidecar.contents, name=name)
     vf file merged   = TabularInput(file, sidecar=merged).validate(schema, name=basename) *)
  Variable issue : Type.
  Variable vs : str -> jdict -> list issue.
  Variable vf : bfile -> option jdict -> list issue.

  (* BidsFileGroup.validate_sidecars *)
  Definition validate_sidecars (g : group) : list issue :=
    flat_map (fun sd => vs (b_name (fst sd)) (snd sd)) (g_conts g).

  (* BidsFileGroup.validate_datafiles *)
  Definition validate_datafiles (g : group) : list issue :=
    flat_map (fun fm => vf (fst fm) (snd fm)) (g_data g).

  (* BidsDataset.validate with the single tabular type of the default constructor *)
  Definition dataset_validate (g : group) : list issue :=
    validate_sidecars g ++ validate_datafiles g.

  (* hed_validator.main: int(bool(issue_list)) *)
  Definition cli_exit (g : group) : nat :=
    if is_empty (dataset_validate g) then 0 else 1.
End Validate.

(* ------------------------------------------------------------------ specification (property statement) *)

Fixpoint is_prefixb (a b : path) : bool :=
  match a, b with
  | [], _ => true
  | x :: a', y :: b' => str_eqb x y && is_prefixb a' b'
  | _ :: _, [] => false
  end.

(* applicable s f: same suffix, dir s on the path root..dir f, entities of s occur in f with equal values *)
Definition applicableb (s f : bfile) : bool :=
  osuffix_eqb (b_suffix f) (b_suffix s) && is_prefixb (b_dir s) (b_dir f)
  && ents_subset (b_ents s) (b_ents f).

Definition raw_of (s : bfile) : jdict := match b_raw s with Some d => d | None => [] end.

(* top-down merge, deeper overriding shallower per column key *)
Definition merge_dicts (ds : list jdict) : jdict := fold_left jupdate ds [].

Definition depth (s : bfile) : nat := length (b_dir s).
