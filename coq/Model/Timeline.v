(* Model of the time-point construction used by file validation:
     hed/models/df_util.py: sort_dataframe_by_onsets, split_delay_tags,
       filter_series_by_onset, _indexed_dict_from_onsets, _filter_by_index_list
     hed/models/base_input.py: needs_sorting
     hed/validator/spreadsheet_validator.py: SpreadsheetValidator.validate (onset part),
       _run_onset_checks
   Times are exact (N, in units of 1/8 s): the 1e-9 tolerance of
   _indexed_dict_from_onsets, float parsing, NaN onsets and Delay values that have
   no conversion to seconds (the group then stays in its row) are not modelled;
   neither are infinite onsets / Delay values whose sum is NaN (such a group stays in its
   row since fix commit 3db4aba).
   Models only -- proofs live in Proofs/TimelineProofs.v. *)
From Coq Require Import List NArith Arith Bool.
From HV Require Import Base.Res Base.Str Model.Onset.
Import ListNotations.

(* One top-level group of an assembled row: its Delay tag (if any, with its value in
   seconds if the unit converts) and its temporal marker (if it holds Onset/Offset/Inset). *)
Inductive delay_tag : Set :=
| NoDelay                       (* the group holds no Delay tag *)
| Delay (v : option N).         (* tag.value_as_default_unit(): None = a unit without a conversion
                                   to seconds (Delay/1 year, Delay/1 month) *)
Definition group := (delay_tag * option marker)%type.

(* ErrorSeverity of an issue of HedValidator.run_basic_checks (ERROR = 1, WARNING = 10) *)
Inductive sev : Set := SevError | SevWarning.

(* check_for_any_errors(issues): some issue has severity < WARNING *)
Definition check_for_any_errors (issues : list sev) : bool :=
  existsb (fun x => match x with SevError => true | SevWarning => false end) issues.

Record row : Set := mkRow {
  r_onset : N;                 (* the onset column *)
  r_cells : list (list sev);   (* for every non-empty HED cell of the row, in column order: the severities of
                                  the issues run_basic_checks reported for it *)
  r_groups : list group        (* top-level groups of the assembled HED string, in order *)
}.

(* SpreadsheetValidator._run_checks: "if check_for_any_errors(new_column_issues):
   self.invalid_original_rows.add(row_number)" -- new_column_issues is what the LAST non-empty cell of the
   row left there ([] when the row has none): a row fails only on an ERROR there; warnings do not count. *)
Definition row_failed (r : row) : bool := check_for_any_errors (last (r_cells r) []).

(* a line of split_df: onset, original_index, the groups of its HED text *)
Record entry : Set := mkEntry {
  e_time : N;
  e_orig : nat;
  e_groups : list (option marker)
}.

(* ---------- sort_dataframe_by_onsets ----------
   df.sort_values(by=numeric onset).  Before fix commit 29fcd01 (finding C10-F1) pandas was called without
   kind=, so the order among equal keys was whatever the platform's quicksort
   produced; the model of the unrepaired code takes that order as an optional
   explicit argument [perm] (positions of the input, in output order) and
   otherwise uses the order-preserving (stable) insertion sort.  The repaired
   code (kind='stable') is the stable sort. *)
Section Sort.
  Context {A : Type} (key : A -> N).

  (* x stood before every element of l: it goes before the first element
     whose key is not smaller, so equal keys keep their order *)
  Fixpoint insert_by (x : A) (l : list A) : list A :=
    match l with
    | [] => [x]
    | y :: r => if (key x <=? key y)%N then x :: l else y :: insert_by x r
    end.

  Fixpoint stable_sort (l : list A) : list A :=
    match l with
    | [] => []
    | x :: r => insert_by x (stable_sort r)
    end.

  Fixpoint sortedb (l : list A) : bool :=
    match l with
    | [] => true
    | x :: r => match r with
                | [] => true
                | y :: _ => (key x <=? key y)%N && sortedb r
                end
    end.

  Fixpoint remove_nat (i : nat) (l : list nat) : option (list nat) :=
    match l with
    | [] => None
    | j :: r => if Nat.eqb i j then Some r
                else match remove_nat i r with Some r' => Some (j :: r') | None => None end
    end.

  (* p is a permutation of q *)
  Fixpoint is_perm (p q : list nat) : bool :=
    match p with
    | [] => match q with [] => true | _ => false end
    | i :: p' => match remove_nat i q with Some q' => is_perm p' q' | None => false end
    end.

  Definition reorder (p : list nat) (l : list A) : res (list A) :=
    mapM (fun i => match nth_error l i with Some x => Ok x | None => Exn IndexError end) p.

  Definition sort_by (perm : option (list nat)) (l : list A) : res (list A) :=
    match perm with
    | None => Ok (stable_sort l)
    | Some p =>
        if is_perm p (seq 0 (length l)) then
          let* out := reorder p l in
          if sortedb out then Ok out else Exn Unmodelled    (* not a sorting order *)
        else Exn Unmodelled
    end.

  (* sort_dataframe_by_onsets itself.  [fixed] = the repaired code
     (sort_values(..., kind='stable'), fix commit 29fcd01): the order among equal keys is
     the input order and the platform's choice [perm] plays no role. *)
  Definition sort_dataframe_by_onsets (fixed : bool) (perm : option (list nat)) (l : list A)
    : res (list A) :=
    if fixed then Ok (stable_sort l) else sort_by perm l.
End Sort.

(* ---------- BaseInput.needs_sorting: not onsets.is_monotonic_increasing ---------- *)
Definition needs_sorting (rows : list row) : bool := negb (sortedb r_onset rows).

(* ---------- split_delay_tags (before the sort) ---------- *)
Definition remaining_groups (r : row) : list (option marker) :=
  flat_map (fun g : group => match fst g with
                             | NoDelay => [snd g]
                             | Delay None => [snd g]      (* if delay is None: continue -- stays in its row *)
                             | Delay (Some _) => []       (* to_remove.append(group) *)
                             end) (r_groups r).

Definition delayed_entries (ir : nat * row) : list entry :=
  flat_map (fun g : group =>
              match fst g with
              | Delay (Some d) => [mkEntry (r_onset (snd ir) + d)%N (fst ir) [snd g]]
              | _ => []
              end) (r_groups (snd ir)).

(* split_df: one line per row (Delay groups removed), then one appended line
   per Delay group, in the order the rows / groups are visited *)
Definition split_entries (irows : list (nat * row)) : list entry :=
  map (fun ir => mkEntry (r_onset (snd ir)) (fst ir) (remaining_groups (snd ir))) irows
  ++ flat_map delayed_entries irows.

(* ---------- _indexed_dict_from_onsets ----------
   defaultdict(list) keyed by onset, insertion ordered.  With exact times
   "abs(onset - current_onset) > tol" is "onset <> current_onset", so
   current_onset always equals the onset just read. *)
Fixpoint dict_append (k : N) (i : nat) (d : list (N * list nat)) : list (N * list nat) :=
  match d with
  | [] => [(k, [i])]
  | (k', l) :: r => if N.eqb k k' then (k', l ++ [i]) :: r else (k', l) :: dict_append k i r
  end.

Fixpoint indexed_loop (i : nat) (onsets : list N) (d : list (N * list nat)) : list (N * list nat) :=
  match onsets with
  | [] => d
  | o :: r => indexed_loop (S i) r (dict_append o i d)
  end.

Definition indexed_dict_from_onsets (onsets : list N) : list (N * list nat) :=
  indexed_loop 0 onsets [].

(* ---------- _filter_by_index_list ----------
   new_series = [""] * n; new_series[indices[0]] = ",".join(data[i] for i in indices) *)
Fixpoint set_nth {B} (i : nat) (x : B) (l : list B) : list B :=
  match l, i with
  | [], _ => []
  | _ :: r, O => x :: r
  | y :: r, S i' => y :: set_nth i' x r
  end.

Definition join_groups (data : list entry) (indices : list nat) : res (list (option marker)) :=
  let* parts := mapM (fun i => match nth_error data i with
                               | Some e => Ok (e_groups e)
                               | None => Exn KeyError      (* data_series[i] *)
                               end) indices in
  Ok (concat parts).

Fixpoint filter_loop (data : list entry) (d : list (N * list nat))
                     (series : list (list (option marker))) : res (list (list (option marker))) :=
  match d with
  | [] => Ok series
  | (_, indices) :: r =>
      match indices with
      | [] => filter_loop data r series                   (* if indices: *)
      | first_index :: _ =>
          let* joined := join_groups data indices in
          filter_loop data r (set_nth first_index joined series)
      end
  end.

Definition filter_by_index_list (data : list entry) (d : list (N * list nat))
  : res (list (nat * list (option marker))) :=
  let* series := filter_loop data d (map (fun _ => []) data) in
  Ok (combine (map e_orig data) series).                  (* result_df["HED"] = new_series *)

(* ---------- SpreadsheetValidator._run_onset_checks ---------- *)
Definition temporal_markers (gs : list (option marker)) : list marker :=
  flat_map (fun g => match g with Some m => [m] | None => [] end) gs.

Fixpoint nat_mem (i : nat) (l : list nat) : bool :=
  match l with [] => false | j :: r => Nat.eqb i j || nat_mem i r end.

Fixpoint run_onset_checks (invalid : list nat) (st : state)
                          (lines : list (nat * list (option marker)))
  : state * list (nat * list issue) :=
  match lines with
  | [] => (st, [])
  | (orig, gs) :: rest =>
      if nat_mem orig invalid then run_onset_checks invalid st rest   (* skip rows that had issues *)
      else
        match gs with
        | [] => run_onset_checks invalid st rest                      (* if row_string: *)
        | _ =>
            let '(st1, iss) := validate_temporal_relations st (temporal_markers gs) in
            let '(st2, out) := run_onset_checks invalid st1 rest in
            (st2, (orig, iss) :: out)
        end
  end.

Fixpoint index_from {B} (i : nat) (l : list B) : list (nat * B) :=
  match l with [] => [] | x :: r => (i, x) :: index_from (S i) r end.

(* ---------- SpreadsheetValidator.validate, onset part ----------
   fixed: the repaired sort (fix commit 29fcd01, the code now in /repo).  perm1 / perm2: the tie orders chosen by
   the two sort_values calls of the unrepaired code (None = order-preserving). *)
(* [ov] = the _onsets of the OnsetValidator object that _run_onset_checks uses *)
Definition process_file_from (fixed : bool) (perm1 perm2 : option (list nat)) (ov : state) (rows : list row)
  : res (state * list (nat * list issue)) :=
  let irows := index_from 0 rows in
  let* irows' := if needs_sorting rows
                 then sort_dataframe_by_onsets (fun ir : nat * row => r_onset (snd ir)) fixed perm1 irows
                 else Ok irows in
  let entries := split_entries irows' in
  let* sorted := sort_dataframe_by_onsets e_time fixed perm2 entries in
  let d := indexed_dict_from_onsets (map e_time sorted) in
  let* lines := filter_by_index_list sorted d in
  let invalid := flat_map (fun ir : nat * row => if row_failed (snd ir) then [fst ir] else []) irows in
  Ok (run_onset_checks invalid ov lines).

(* "self._onset_validator = OnsetValidator()": every validate() call makes a fresh validator *)
Definition process_file (fixed : bool) (perm1 perm2 : option (list nat)) (rows : list row)
  : res (state * list (nat * list issue)) :=
  process_file_from fixed perm1 perm2 state0 rows.

(* ---------- one SpreadsheetValidator object validating several files ----------
   Modelling decision (tested on the implementation, see harness): validate() overwrites
   self._onset_validator with a fresh OnsetValidator(), so sv_validate ignores [sv].
   [sv] = self._onset_validator left behind by the previous validate() call
   (None before the first call): its _onsets, i.e. the scopes the previous file left open. *)
Definition sv_state := option state.

Definition sv_validate (fixed : bool) (sv : sv_state) (rows : list row)
  : sv_state * res (state * list (nat * list issue)) :=
  let ov := state0 in                         (* self._onset_validator = OnsetValidator() *)
  match process_file_from fixed None None ov rows with
  | Ok (st, out) => (Some st, Ok (st, out))   (* the object keeps the validator with its final _onsets *)
  | Exn e => (Some ov, Exn e)
  end.

Fixpoint validate_seq (fixed : bool) (sv : sv_state) (files : list (list row))
  : list (res (state * list (nat * list issue))) :=
  match files with
  | [] => []
  | rows :: rest =>
      let '(sv', out) := sv_validate fixed sv rows in
      out :: validate_seq fixed sv' rest
  end.
