(* Operation-sequence model of ONE TabularInput object (property C06):
   hed/models/tabular_input.py: reset_column_mapper(sidecar), get_column_refs;
   hed/models/base_input.py: series_a (via Model/Assemble.v), set_cell, and the
   dtype side effect of _handle_transforms (astype('category') on self._dataframe).
   Models only -- proofs live in Proofs/AssembleOpsProofs.v. *)
From Coq Require Import List NArith Arith Bool.
From HV Require Import Base.Res Base.Str Model.RefSplice Model.Assemble.
Import ListNotations.

(* the object: the TabularInput state of Model/Assemble.v plus, for every column of
   self._dataframe that an assembly converted to the pandas 'category' dtype, the
   categories it got at that moment (the values the column then held) *)
Record obj := { o_tab : tabular; o_cats : list (str * list str) }.

Inductive op :=
| OAssemble (ord : list str)          (* x.series_a; ord = iteration order of the reference set *)
| OReset (sc : sidecar)               (* x.reset_column_mapper(Sidecar(sc)) *)
| OSetCell (r c : nat) (v : str).     (* x.set_cell(r, c, text) *)

(* what the caller sees *)
Inductive outcome :=
| RRows (rows : list str)
| RExn (e : exn)
| RNone.

Fixpoint set_nth {A} (n : nat) (x : A) (l : list A) : list A :=
  match l, n with
  | [], _ => []
  | _ :: l', 0 => x :: l'
  | y :: l', S n' => y :: set_nth n' x l'
  end.

(* self._dataframe.iloc[row_number, column_number] = new_text ; None = out of range *)
Definition set_cell_df (r c : nat) (v : str) (df : table) : option table :=
  match nth_error (t_cols df) c with
  | Some (name, cells) =>
      if Nat.ltb r (length cells)
      then Some {| t_cols := set_nth c (name, set_nth r v cells) (t_cols df); t_rows := t_rows df |}
      else None
  | None => None
  end.

(* need_categorical of ColumnMapper.get_transformers for the current sidecar *)
Definition need_categorical (st : tabular) : list str :=
  snd (get_transformers (final_column_map (map fst (t_cols (tb_df st))) (tb_sidecar st))).

(* all_columns[need_categorical] = all_columns[need_categorical].astype('category') on
   self._dataframe: a column that is not yet categorical gets its current values as categories *)
Fixpoint record_cats (cols : list (str * list str)) (cats : list (str * list str)) (need : list str)
  : list (str * list str) :=
  match need with
  | [] => cats
  | c :: need' =>
      match assoc c cats, assoc c cols with
      | None, Some vals => record_cats cols (cats ++ [(c, vals)]) need'
      | _, _ => record_cats cols cats need'
      end
  end.

(* keepcat = false: the code as it is since fix commit 220dc27 (_handle_transforms works on
   a copy, the stored frame keeps its dtype); keepcat = true: the behaviour BEFORE that commit
   (the 'category' dtype stayed on the object's frame), kept as the record of the repaired
   defect C06-F7. *)
Definition step (fixed keepcat : bool) (o : obj) (p : op) : obj * outcome :=
  let st := o_tab o in
  match p with
  | OAssemble ord =>
      match series_a fixed st ord with
      | Ok (st', rows) =>
          ({| o_tab := st';
              o_cats := if keepcat then record_cats (t_cols (tb_df st)) (o_cats o) (need_categorical st)
                        else o_cats o |}, RRows rows)
      | Exn e => (o, RExn e)
      end
  | OReset sc =>
      ({| o_tab := {| tb_df := tb_df st; tb_cat := tb_cat st; tb_sidecar := sc |};
          o_cats := o_cats o |}, RNone)
  | OSetCell r c v =>
      match set_cell_df r c v (tb_df st), nth_error (t_cols (tb_df st)) c with
      | Some df', Some (name, _) =>
          let ok := match (if keepcat then assoc name (o_cats o) else None) with
                    | Some cs => mem v cs          (* a Categorical refuses a new category *)
                    | None => true
                    end in
          if ok then ({| o_tab := {| tb_df := df'; tb_cat := tb_cat st; tb_sidecar := tb_sidecar st |};
                         o_cats := o_cats o |}, RNone)
          else (o, RExn TypeError)
      | _, _ => (o, RExn IndexError)
      end
  end.

Fixpoint run (fixed keepcat : bool) (o : obj) (ops : list op) : list outcome :=
  match ops with
  | [] => []
  | p :: ops' => let '(o', r) := step fixed keepcat o p in r :: run fixed keepcat o' ops'
  end.

(* ---------- specification: the object's state is just (table, current sidecar) ---------- *)
Definition fresh (df : table) (sc : sidecar) : tabular :=
  {| tb_df := df; tb_cat := []; tb_sidecar := sc |}.

Definition answer (fixed : bool) (df : table) (sc : sidecar) (ord : list str) : outcome :=
  match series_a fixed (fresh df sc) ord with
  | Ok (_, rows) => RRows rows
  | Exn e => RExn e
  end.

Fixpoint run_spec (fixed : bool) (df : table) (sc : sidecar) (ops : list op) : list outcome :=
  match ops with
  | [] => []
  | OAssemble ord :: ops' => answer fixed df sc ord :: run_spec fixed df sc ops'
  | OReset sc' :: ops' => RNone :: run_spec fixed df sc' ops'
  | OSetCell r c v :: ops' =>
      match set_cell_df r c v df with
      | Some df' => RNone :: run_spec fixed df' sc ops'
      | None => RExn IndexError :: run_spec fixed df sc ops'
      end
  end.

Definition is_setcell (p : op) : bool := match p with OSetCell _ _ _ => true | _ => false end.
