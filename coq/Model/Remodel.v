(* Model of the eight non-summary remodeling operations, of the Dispatcher
   loop and of RemodelerValidator.validate:
     hed/tools/remodeling/dispatcher.py
       Dispatcher.parse_operations / run_operations / prep_data / post_proc_data
     hed/tools/remodeling/remodeler_validator.py  RemodelerValidator.validate
     hed/tools/remodeling/operations/{remove_rows,remove_columns,rename_columns,
       reorder_columns,factor_column,remap_columns,merge_consecutive,split_rows}_op.py
       __init__ / do_op / validate_input_data
     hed/tools/analysis/key_map.py  KeyMap.update / remap / _remap
   Tables are columns + rows of typed cells (string, integer-valued number,
   NaN); pandas dtype inference and float formatting are NOT modelled.
   The operation object is an explicit value [opstate] returned by every
   [do_op], so that attribute mutation across files is visible.
   [fixes] has one boolean per defect that has since been repaired in /repo:
   true = the code as it is now, false = the behaviour BEFORE the fix commit
   (kept only as the record of the repaired defect):
     fx_reorder  C17-F1 e8c17b3   fx_factor C17-F2 192568b   fx_match C17-F3 b484e3c
     fx_copy     C17-F4 adebd46   fx_gaps   C17-F6 b5c611b   fx_disjoint C17-F7 6cfe711
     fx_nan      C17-F10 67be5b4
   (C17-F5 e888c67, C17-F8 55a866d and C17-F9 0437d48 concern pandas dtype /
   hash-seed / float64-representation effects the model never contained: they
   have no switch, their repair is tested only.)
   [all_fixes] is the CURRENT /repo.  Models only -- proofs in Proofs/RemodelProofs.v. *)
From Coq Require Import List NArith ZArith Arith Bool.
From HV Require Import Base.Res Base.Str Model.RemodelJson Gen.RemodelParams.
Import ListNotations.

(* ------------------------------------------------------------------ cells *)

Inductive cell :=
| CStr (s : str)
| CNum (z : Z)
| CNa.                                 (* np.nan *)

Record table := { cols : list str; rows : list (list cell) }.

(* a JSON string-or-number parameter value *)
Inductive pval := PStr (s : str) | PNum (z : Z).

Definition s_na : str := [110; 47; 97]%N.          (* "n/a" *)
Definition s_nan : str := [110; 97; 110]%N.        (* "nan" = str(np.nan) *)
Definition s_onset : str := [111; 110; 115; 101; 116]%N.
Definition s_duration : str := [100; 117; 114; 97; 116; 105; 111; 110]%N.
Definition ch_dot : N := 46%N.
Definition ch_minus : N := 45%N.

(* str(int) *)
Fixpoint digits_fuel (fuel : nat) (n : N) (acc : str) : str :=
  match fuel with
  | O => acc
  | S f =>
      let d := (48 + N.modulo n 10)%N in
      let q := N.div n 10 in
      if N.eqb q 0 then d :: acc else digits_fuel f q (d :: acc)
  end.
Definition str_of_N (n : N) : str := digits_fuel (S (N.size_nat n)) n [].
Definition str_of_Z (z : Z) : str :=
  match z with
  | Z0 => [48%N]
  | Zpos p => str_of_N (Npos p)
  | Zneg p => ch_minus :: str_of_N (Npos p)
  end.

(* pd.to_numeric on the integer fragment: optional '-' and ASCII digits *)
Fixpoint parse_digits (s : str) (acc : N) : option N :=
  match s with
  | [] => Some acc
  | c :: r => if (48 <=? c)%N && (c <=? 57)%N then parse_digits r (acc * 10 + (c - 48))%N else None
  end.
Definition parse_int (s : str) : option Z :=
  match s with
  | [] => None
  | c :: r =>
      if N.eqb c ch_minus then
        match r with
        | [] => None
        | _ => match parse_digits r 0%N with Some n => Some (Z.opp (Z.of_N n)) | None => None end
        end
      else match parse_digits s 0%N with Some n => Some (Z.of_N n) | None => None end
  end.

(* str(x) of a cell value (Series.map(str)) *)
Definition cell_str (c : cell) : str :=
  match c with CStr s => s | CNum z => str_of_Z z | CNa => s_nan end.
Definition pval_str (v : pval) : str :=
  match v with PStr s => s | PNum z => str_of_Z z end.
Definition pval_cell (v : pval) : cell :=
  match v with PStr s => CStr s | PNum z => CNum z end.

(* element-wise  series == value  *)
Definition cell_eq_pval (c : cell) (v : pval) : bool :=
  match c, v with
  | CStr s, PStr p => str_eqb s p
  | CNum z, PNum n => Z.eqb z n
  | _, _ => false
  end.

(* Series.equals on one position: NaN equals NaN *)
Definition cell_eqb (a b : cell) : bool :=
  match a, b with
  | CStr x, CStr y => str_eqb x y
  | CNum x, CNum y => Z.eqb x y
  | CNa, CNa => true
  | _, _ => false
  end.

(* pd.to_numeric(..., errors='coerce') *)
Definition to_num_coerce (c : cell) : option Z :=
  match c with CNum z => Some z | CStr s => parse_int s | CNa => None end.

(* ------------------------------------------------------------ table tools *)

Fixpoint index_of (c : str) (cs : list str) : option nat :=
  match cs with
  | [] => None
  | x :: r => if str_eqb c x then Some 0 else option_map S (index_of c r)
  end.

Definition has_col (t : table) (c : str) : bool := mem_str c (cols t).

Fixpoint nodupb (l : list str) : bool :=
  match l with
  | [] => true
  | x :: r => negb (mem_str x r) && nodupb r
  end.

(* distinct column names, rectangular rows *)
Definition wfb (t : table) : bool :=
  nodupb (cols t) && forallb (fun r => Nat.eqb (length r) (length (cols t))) (rows t).

Definition get_cell (i : nat) (r : list cell) : cell := nth i r CNa.

Fixpoint filter_mask {A} (m : list bool) (l : list A) : list A :=
  match m, l with
  | b :: m', x :: l' => if b then x :: filter_mask m' l' else filter_mask m' l'
  | _, _ => []
  end.

Fixpoint set_nth {A} (i : nat) (v : A) (l : list A) : list A :=
  match l, i with
  | [], _ => []
  | _ :: r, O => v :: r
  | x :: r, S j => x :: set_nth j v r
  end.

(* df[name] = values  (one value per row): overwrite in place or append *)
Fixpoint zip_with {A B C} (f : A -> B -> C) (l : list A) (m : list B) : list C :=
  match l, m with
  | x :: l', y :: m' => f x y :: zip_with f l' m'
  | _, _ => []
  end.

Definition set_col (name : str) (vals : list cell) (t : table) : table :=
  match index_of name (cols t) with
  | Some i => {| cols := cols t; rows := zip_with (fun r v => set_nth i v r) (rows t) vals |}
  | None => {| cols := cols t ++ [name]; rows := zip_with (fun r v => r ++ [v]) (rows t) vals |}
  end.

(* df.loc[:, names] *)
Definition select_cols (names : list str) (t : table) : res table :=
  let* idx := mapM (fun c => match index_of c (cols t) with Some i => Ok i | None => Exn KeyError end) names in
  Ok {| cols := names; rows := map (fun r => map (fun i => get_cell i r) idx) (rows t) |}.

(* ------------------------------------------------------------- operations *)

Record new_event := {
  onset_source : list pval;
  duration_source : list pval;
  copy_columns : option (list str)      (* None: key absent from the dict *)
}.

Inductive opstate :=
| RemoveRows (column_name : str) (remove_values : list pval)
| RemoveColumns (column_names : list str) (ignore_missing : bool)
| RenameColumns (column_mapping : list (str * str)) (ignore_missing : bool)
| ReorderColumns (column_order : list str) (ignore_missing keep_others : bool)
| FactorColumn (column_name : str) (factor_values factor_names : option (list str))
| RemapColumns (source_columns destination_columns : list str) (map_list : list (list pval))
               (ignore_missing : bool) (integer_sources : list str)
| MergeConsecutive (column_name : str) (event_code : pval) (set_durations ignore_missing : bool)
                   (match_columns : option (list str))
| SplitRows (anchor_column : str) (new_events : list (str * new_event)) (remove_parent_row : bool).

(* per repaired defect: true = the current code, false = the behaviour before the fix commit named above *)
Record fixes := {
  fx_reorder : bool;   (* e8c17b3 reorder_columns: ordered = list(self.column_order) *)
  fx_factor : bool;    (* 192568b factor_column: defaults for absent factor_values / factor_names *)
  fx_match : bool;     (* b484e3c merge_consecutive: absent match_columns = [] *)
  fx_copy : bool;      (* adebd46 split_rows: absent copy_columns = [] *)
  fx_gaps : bool;      (* b5c611b merge_consecutive._update_durations: skip unused group numbers *)
  fx_disjoint : bool;  (* 6cfe711 remap_columns.validate_input_data: names of source+destination distinct *)
  fx_nan : bool        (* 67be5b4 factor_column: a missing cell equals no factor value (not even "nan") *)
}.
(* the behaviour before ALL the fix commits (record only) / the current code *)
Definition no_fixes : fixes := Build_fixes false false false false false false false.
Definition all_fixes : fixes := Build_fixes true true true true true true true.

(* --- remove_rows_op.py: RemoveRowsOp.do_op *)
Definition do_remove_rows (cn : str) (vals : list pval) (t : table) : res table :=
  match index_of cn (cols t) with
  | None => Ok t
  | Some i =>
      Ok {| cols := cols t;
            rows := fold_left (fun rs v => filter (fun r => negb (cell_eq_pval (get_cell i r) v)) rs)
                              vals (rows t) |}
  end.

(* --- remove_columns_op.py: RemoveColumnsOp.do_op  (df.drop(names, axis=1, errors=...)) *)
Definition do_remove_columns (names : list str) (ignore : bool) (t : table) : res table :=
  if negb ignore && existsb (fun c => negb (has_col t c)) names then Exn KeyError
  else
    let m := map (fun c => negb (mem_str c names)) (cols t) in
    Ok {| cols := filter_mask m (cols t); rows := map (filter_mask m) (rows t) |}.

(* --- rename_columns_op.py: RenameColumnsOp.do_op  (df.rename(columns=mapping, errors=...)) *)
Definition rename_one (mapping : list (str * str)) (c : str) : str :=
  match lookup c mapping with Some n => n | None => c end.
Definition do_rename_columns (mapping : list (str * str)) (ignore : bool) (t : table) : res table :=
  if negb ignore && existsb (fun kv => negb (has_col t (fst kv))) mapping then Exn KeyError
  else Ok {| cols := map (rename_one mapping) (cols t); rows := rows t |}.

(* --- reorder_columns_op.py: ReorderColumnsOp.do_op.
   `ordered = self.column_order` aliases the attribute (and the caller's
   parameter list); `ordered += [...]` extends it in place. *)
Definition do_reorder_columns (fx : fixes) (order : list str) (ignore keep : bool) (t : table)
  : opstate * res table :=
  let st := ReorderColumns order ignore keep in
  let missing := filter (fun c => negb (has_col t c)) order in
  match missing with
  | _ :: _ =>
      if negb ignore then (st, Exn ValueError)
      else
        let ordered := filter (fun c => negb (mem_str c missing)) order in
        let ordered' := if keep then ordered ++ filter (fun c => negb (mem_str c ordered)) (cols t) else ordered in
        (st, select_cols ordered' t)
  | [] =>
      let ordered' := if keep then order ++ filter (fun c => negb (mem_str c order)) (cols t) else order in
      let st' := if keep && negb (fx_reorder fx) then ReorderColumns ordered' ignore keep else st in
      (st', select_cols ordered' t)
  end.

(* --- factor_column_op.py: FactorColumnOp.do_op *)
Fixpoint uniq_strs (l : list str) : list str :=     (* first-occurrence order *)
  match l with
  | [] => []
  | x :: r => x :: filter (fun y => negb (str_eqb x y)) (uniq_strs r)
  end.

Definition col_cells (i : nat) (t : table) : list cell := map (get_cell i) (rows t).

(* factor_column_op.py: df_new[col].notna() & df_new[col].map(str).isin([str(value)])
   (before 67be5b4 without the notna(): str(NaN) = "nan" equalled the value "nan") *)
Definition factor_hit (fx : fixes) (v : str) (c : cell) : bool :=
  match c with
  | CNa => if fx_nan fx then false else str_eqb (cell_str c) v
  | _ => str_eqb (cell_str c) v
  end.

Fixpoint factor_loop (fx : fixes) (cn : str) (values : list str) (names : option (list str)) (idx : nat) (t : table)
  : res table :=
  match values with
  | [] => Ok t
  | v :: vs =>
      match index_of cn (cols t) with
      | None => Exn KeyError                            (* df_new[self.column_name] *)
      | Some i =>
          match names with
          | None => Exn TypeError                       (* None[index] *)
          | Some ns =>
              match nth_error ns idx with
              | None => Exn IndexError
              | Some column =>
                  let f := map (fun c => if factor_hit fx v c then CNum 1 else CNum 0) (col_cells i t) in
                  factor_loop fx cn vs names (S idx) (set_col column f t)
              end
          end
      end
  end.

Definition dot_name (cn v : str) : str := cn ++ [ch_dot] ++ v.

Definition do_factor_column (fx : fixes) (cn : str) (values names : option (list str)) (t : table)
  : res table :=
  if fx_factor fx then
    (* current code (since 192568b): if not factor_values: values = df[col].dropna().unique();
                 if not factor_names: names = [col + '.' + str(v) for v in values] *)
    let* values1 :=
      match values with
      | Some (v :: vs) => Ok (v :: vs)
      | _ => match index_of cn (cols t) with
             | None => Exn KeyError
             | Some i => Ok (uniq_strs (map cell_str (filter (fun c => negb (cell_eqb c CNa)) (col_cells i t))))
             end
      end in
    let names1 := match names with
                  | Some (n :: ns) => n :: ns
                  | _ => map (dot_name cn) values1
                  end in
    factor_loop fx cn values1 (Some names1) 0 t
  else
    match values with
    | None => Exn TypeError                             (* len(None) *)
    | Some [] =>
        match index_of cn (cols t) with
        | None => Exn KeyError
        | Some i =>
            let vs := uniq_strs (map cell_str (col_cells i t)) in
            factor_loop fx cn vs (Some (map (dot_name cn) vs)) 0 t
        end
    | Some vs => factor_loop fx cn vs names 0 t
    end.

(* --- remap_columns_op.py: RemapColumnsOp.do_op with KeyMap.remap/_remap.
   The key map is the first map_list row whose stringified key columns match. *)
Definition src_str (c : cell) : str :=
  match c with CStr s => s | CNum z => str_of_Z z | CNa => s_na end.

Fixpoint list_str_eqb (a b : list str) : bool :=
  match a, b with
  | [], [] => true
  | x :: a', y :: b' => str_eqb x y && list_str_eqb a' b'
  | _, _ => false
  end.

Fixpoint map_find (m : nat) (key : list str) (ml : list (list pval)) : option (list pval) :=
  match ml with
  | [] => None
  | row :: r => if list_str_eqb (map pval_str (firstn m row)) key then Some (skipn m row) else map_find m key r
  end.

Fixpoint set_cells (idx : list nat) (vals : list cell) (r : list cell) : list cell :=
  match idx, vals with
  | i :: idx', v :: vals' => set_cells idx' vals' (set_nth i v r)
  | _, _ => r
  end.

Definition do_remap_columns (src dst : list str) (ml : list (list pval)) (ignore : bool)
           (ints : list str) (t : table) : res table :=
  let* sidx := mapM (fun c => match index_of c (cols t) with Some i => Ok i | None => Exn KeyError end) src in
  (* integer_sources: .astype(int) is modelled on numeric cells only *)
  let int_idx := flat_map (fun c => match index_of c (cols t) with Some i => [i] | None => [] end) ints in
  if existsb (fun r => existsb (fun i => match get_cell i r with CStr _ => true | _ => false end) int_idx) (rows t)
  then Exn Unmodelled
  else
    (* df1[source] = ....astype(str) *)
    let rows1 := map (fun r => set_cells sidx (map (fun i => CStr (src_str (get_cell i r))) sidx) r) (rows t) in
    (* df_new[target_cols] = 'n/a' *)
    let t1 := fold_left (fun tt d => set_col d (map (fun _ => CStr s_na) (rows tt)) tt) dst
                        {| cols := cols t; rows := rows1 |} in
    let didx := flat_map (fun c => match index_of c (cols t1) with Some i => [i] | None => [] end) dst in
    let m := length src in
    let look := fun r => map_find m (map (fun i => src_str (get_cell i r)) sidx) ml in
    let rows2 := map (fun r => match look r with
                               | Some vals => set_cells didx (map pval_cell vals) r
                               | None => r
                               end) (rows t1) in
    let missing := existsb (fun r => match look r with Some _ => false | None => true end) (rows t1) in
    if missing && negb ignore then Exn ValueError
    else Ok {| cols := cols t1; rows := rows2 |}.

(* --- merge_consecutive_op.py *)
(* MergeConsecutiveOp._get_remove_groups: returns the group number per row *)
Fixpoint remove_groups_loop (key : list cell -> list cell) (code : list cell -> bool)
         (prev : list cell) (in_group : bool) (count : nat) (rs : list (list cell)) : list nat :=
  match rs with
  | [] => []
  | r :: rest =>
      if negb (code r) then 0 :: remove_groups_loop key code r false count rest
      else if negb in_group then 0 :: remove_groups_loop key code r true (S count) rest
      else if forallb (fun p => cell_eqb (fst p) (snd p)) (combine (key r) (key prev))
      then count :: remove_groups_loop key code r true count rest
      else 0 :: remove_groups_loop key code r true (S count) rest
  end.

Definition num_or_zero (c : cell) : res Z :=
  match c with CNum z => Ok z | CNa => Ok 0%Z | CStr _ => Exn Unmodelled end.

(* onset + duration of a row, NaN skipped *)
Definition row_extent (io id : nat) (r : list cell) : res Z :=
  let* a := num_or_zero (get_cell io r) in
  let* b := num_or_zero (get_cell id r) in
  Ok (a + b)%Z.

Fixpoint first_index (g : nat) (groups : list nat) : option nat :=
  match groups with
  | [] => None
  | x :: r => if Nat.eqb x g then Some 0 else option_map S (first_index g r)
  end.

(* one iteration of the loop in MergeConsecutiveOp._update_durations *)
Definition update_group (io id : nat) (groups : list nat) (g : nat) (rs : list (list cell))
  : res (list (list cell)) :=
  match first_index g groups with
  | None => Exn IndexError                      (* df_group.index[0] on an empty group *)
  | Some O => Exn Unmodelled                    (* unreachable: row 0 is never removed *)
  | Some (S anchor) =>
      let grp := filter_mask (map (Nat.eqb g) groups) rs in
      let* exts := mapM (row_extent io id) grp in
      let max_group := fold_left Z.max exts (hd 0%Z exts) in
      let arow := nth anchor rs [] in
      let* max_anchor := row_extent io id arow in
      let newdur := match get_cell io arow with
                    | CNum o => CNum (Z.max max_group max_anchor - o)
                    | _ => CNa                  (* x - NaN *)
                    end in
      match get_cell io arow with
      | CStr _ => Exn Unmodelled
      | _ => Ok (set_nth anchor (set_nth id newdur arow) rs)
      end
  end.

Fixpoint update_durations (io id : nat) (groups : list nat) (gs : list nat) (rs : list (list cell))
  : res (list (list cell)) :=
  match gs with
  | [] => Ok rs
  | g :: r => let* rs' := update_group io id groups g rs in update_durations io id groups r rs'
  end.

Definition do_merge_consecutive (fx : fixes) (cn : str) (code : pval) (setd ignore : bool)
           (mc : option (list str)) (t : table) : res table :=
  if negb ignore && negb (has_col t cn) then Exn ValueError
  else if setd && negb (has_col t s_onset) then Exn ValueError
  else if setd && negb (has_col t s_duration) then Exn ValueError
  else
    let* mcols := match mc with
                  | Some l => Ok l
                  | None => if fx_match fx then Ok [] else Exn TypeError     (* set(None) *)
                  end in
    if negb ignore && existsb (fun c => negb (has_col t c)) mcols then Exn ValueError
    else
      match index_of cn (cols t) with
      | None => Exn KeyError                                                 (* df_new[self.column_name] *)
      | Some ic =>
          let codef := fun r => cell_eq_pval (get_cell ic r) code in
          if negb (existsb codef (rows t)) then Ok t
          else
            let kidx := flat_map (fun c => match index_of c (cols t) with Some i => [i] | None => [] end) mcols
                        ++ [ic] in
            let key := fun r => map (fun i => get_cell i r) kidx in
            let groups := remove_groups_loop key codef [] false 0 (rows t) in
            let maxg := fold_left Nat.max groups 0 in
            let* rows1 :=
              if setd && Nat.ltb 0 maxg then
                match index_of s_onset (cols t), index_of s_duration (cols t) with
                | Some io, Some id =>
                    let gs := if fx_gaps fx
                              then filter (fun g => existsb (Nat.eqb g) groups) (seq 1 maxg)
                              else seq 1 maxg in
                    update_durations io id groups gs (rows t)
                | _, _ => Exn Unmodelled
                end
              else Ok (rows t) in
            Ok {| cols := cols t; rows := filter_mask (map (Nat.eqb 0) groups) rows1 |}
      end.

(* --- split_rows_op.py *)
(* _create_onsets / _add_durations: add the sources to a start value per row *)
Definition opt_add (a b : option Z) : option Z :=
  match a, b with Some x, Some y => Some (x + y)%Z | _, _ => None end.

Fixpoint add_sources (t : table) (srcs : list pval) (acc : list (option Z)) : res (list (option Z)) :=
  match srcs with
  | [] => Ok acc
  | PNum z :: r => add_sources t r (map (fun a => opt_add a (Some z)) acc)
  | PStr c :: r =>
      match index_of c (cols t) with
      | Some i => add_sources t r (zip_with (fun a row => opt_add a (to_num_coerce (get_cell i row))) acc (rows t))
      | None => Exn TypeError                        (* BadOnsetInModel / BadDurationInModel *)
      end
  end.

Definition num_cell (o : option Z) : cell := match o with Some z => CNum z | None => CNa end.

(* the rows added for one entry of new_events (SplitRowsOp._split_rows) *)
Definition split_event (fx : fixes) (anchor : str) (t : table) (out_cols : list str)
           (ev : str * new_event) : res (list (list cell)) :=
  let (name, e) := ev in
  match index_of s_onset (cols t), index_of s_onset out_cols, index_of anchor out_cols,
        index_of s_duration out_cols with
  | Some io, Some oo, Some oa, Some od =>
      let* onsets := add_sources t (onset_source e) (map (fun r => to_num_coerce (get_cell io r)) (rows t)) in
      let* durs := add_sources t (duration_source e) (map (fun _ => Some 0%Z) (rows t)) in
      let* copy := match copy_columns e with
                   | Some l => Ok l
                   | None => if fx_copy fx then Ok [] else Exn KeyError   (* event_params['copy_columns'] *)
                   end in
      let* cidx := mapM (fun c => match index_of c (cols t), index_of c out_cols with
                                  | Some i, Some o => Ok (i, o)
                                  | _, _ => Exn KeyError                   (* df[column] *)
                                  end) copy in
      let blank := map (fun _ => CNa) out_cols in
      let mk := fun (p : (option Z * option Z) * list cell) =>
                  let '(on, du, r) := p in
                  let r1 := set_nth oo (num_cell on) blank in
                  let r2 := set_nth oa (CStr name) r1 in
                  let r3 := set_nth od (num_cell du) r2 in
                  fold_left (fun acc io' => set_nth (snd io') (get_cell (fst io') r) acc) cidx r3 in
      let added := map mk (combine (combine onsets durs) (rows t)) in
      (* add_events.dropna(axis='rows', subset=['onset']) *)
      Ok (filter (fun r => negb (cell_eqb (get_cell oo r) CNa)) added)
  | _, _, _, _ => Exn Unmodelled
  end.

Fixpoint split_events (fx : fixes) (anchor : str) (t : table) (out_cols : list str)
         (evs : list (str * new_event)) : res (list (list cell)) :=
  match evs with
  | [] => Ok []
  | ev :: r =>
      let* a := split_event fx anchor t out_cols ev in
      let* b := split_events fx anchor t out_cols r in
      Ok (a ++ b)
  end.

(* df_ret["onset"].apply(pd.to_numeric) : strict *)
Definition to_num_strict (c : cell) : res cell :=
  match c with
  | CStr s => match parse_int s with Some z => Ok (CNum z) | None => Exn ValueError end
  | _ => Ok c
  end.

(* sort_values('onset'): NaN last; ties keep the model's order (pandas' default
   quicksort leaves the order of ties unspecified -- compared as multisets) *)
Definition onset_leb (io : nat) (a b : list cell) : bool :=
  match get_cell io a, get_cell io b with
  | CNum x, CNum y => Z.leb x y
  | CNum _, _ => true
  | _, CNum _ => false
  | _, _ => true
  end.
Fixpoint insert_row (io : nat) (r : list cell) (l : list (list cell)) : list (list cell) :=
  match l with
  | [] => [r]
  | x :: l' => if onset_leb io r x then r :: l else x :: insert_row io r l'
  end.
Definition sort_rows (io : nat) (l : list (list cell)) : list (list cell) :=
  fold_right (insert_row io) [] l.

Definition do_split_rows (fx : fixes) (anchor : str) (evs : list (str * new_event)) (remove_parent : bool)
           (t : table) : res table :=
  if negb (has_col t s_onset) then Exn ValueError
  else if negb (has_col t s_duration) then Exn ValueError
  else
    let t_new := if has_col t anchor then t
                 else {| cols := cols t ++ [anchor]; rows := map (fun r => r ++ [CNa]) (rows t) |} in
    let* added := split_events fx anchor t (cols t_new) evs in
    let all := (if remove_parent then [] else rows t_new) ++ added in
    match index_of s_onset (cols t_new) with
    | None => Exn Unmodelled
    | Some io =>
        let* all1 := mapM (fun r => let* c := to_num_strict (get_cell io r) in Ok (set_nth io c r)) all in
        Ok {| cols := cols t_new; rows := sort_rows io all1 |}
    end.

(* BaseOp.do_op dispatch; returns the operation object after the call *)
Definition do_op (fx : fixes) (st : opstate) (t : table) : opstate * res table :=
  match st with
  | RemoveRows cn vals => (st, do_remove_rows cn vals t)
  | RemoveColumns names ig => (st, do_remove_columns names ig t)
  | RenameColumns m ig => (st, do_rename_columns m ig t)
  | ReorderColumns order ig keep => do_reorder_columns fx order ig keep t
  | FactorColumn cn vs ns => (st, do_factor_column fx cn vs ns t)
  | RemapColumns s d ml ig ints => (st, do_remap_columns s d ml ig ints t)
  | MergeConsecutive cn code sd ig mc => (st, do_merge_consecutive fx cn code sd ig mc t)
  | SplitRows a evs rp => (st, do_split_rows fx a evs rp t)
  end.

(* -------------------------------------------------------------- dispatcher *)

(* Dispatcher.prep_data: df.replace('n/a', np.nan) *)
Definition prep_cell (c : cell) : cell :=
  match c with CStr s => if str_eqb s s_na then CNa else c | _ => c end.
Definition prep_data (t : table) : table :=
  {| cols := cols t; rows := map (map prep_cell) (rows t) |}.

(* Dispatcher.post_proc_data: df.fillna('n/a') *)
Definition post_cell (c : cell) : cell :=
  match c with CNa => CStr s_na | _ => c end.
Definition post_proc_data (t : table) : table :=
  {| cols := cols t; rows := map (map post_cell) (rows t) |}.

(* Dispatcher.get_data_file on a FILE PATH:
     pd.read_csv(path, sep='\t', header=0, keep_default_na=False, na_values=",null")
   on the modelled fragment: a column all of whose cells are integers is read as
   numbers, every other column keeps the text of its cells -- in particular
   None, NA, null, nan, NULL and the empty cell stay ordinary text; nothing is
   turned into a missing value at load time (the only NA spelling, the cell
   ",null", is outside the fragment). *)
Definition is_int_text (s : str) : bool :=
  match parse_int s with Some _ => true | None => false end.
Definition read_cell (numeric : bool) (s : str) : cell :=
  if numeric then match parse_int s with Some z => CNum z | None => CStr s end else CStr s.
Definition read_table (cs : list str) (rs : list (list str)) : table :=
  let numeric := map (fun j => forallb (fun r => is_int_text (nth j r [])) rs) (seq 0 (length cs)) in
  {| cols := cs; rows := map (fun r => zip_with read_cell numeric r) rs |}.

(* Dispatcher.run_operations on a DataFrame (get_data_file copies it).
   A table with duplicate column names is outside the modelled fragment. *)
Fixpoint run_operations (fx : fixes) (sts : list opstate) (t : table) : list opstate * res table :=
  match sts with
  | [] => ([], Ok t)
  | st :: rest =>
      let (st', o) := do_op fx st (prep_data t) in
      match o with
      | Exn e => (st' :: rest, Exn e)
      | Ok t1 =>
          let t2 := post_proc_data t1 in
          if wfb t2 then
            let (rest', o') := run_operations fx rest t2 in (st' :: rest', o')
          else (st' :: rest, Exn Unmodelled)
      end
  end.

(* several files through ONE dispatcher object *)
Fixpoint run_tables (fx : fixes) (sts : list opstate) (ts : list table) : list opstate * list (res table) :=
  match ts with
  | [] => (sts, [])
  | t :: r =>
      let (sts1, o) := run_operations fx sts t in
      let (sts2, os) := run_tables fx sts1 r in
      (sts2, o :: os)
  end.

(* ------------------------------------------------ parameters -> operation *)

Definition as_str (j : json) : res str := match j with JStr s => Ok s | _ => Exn Unmodelled end.
Definition as_bool (j : json) : res bool := match j with JBool b => Ok b | _ => Exn Unmodelled end.
Definition as_pval (j : json) : res pval :=
  match j with JStr s => Ok (PStr s) | JNum z => Ok (PNum z) | _ => Exn Unmodelled end.
Definition as_list {A} (f : json -> res A) (j : json) : res (list A) :=
  match j with JArr l => mapM f l | _ => Exn Unmodelled end.
Definition as_opt_list {A} (f : json -> res A) (j : json) : res (option (list A)) :=
  match j with JNull => Ok None | JArr l => let* x := mapM f l in Ok (Some x) | _ => Exn Unmodelled end.
Definition attr (k : str) (a : list (str * json)) : res json :=
  match lookup k a with Some v => Ok v | None => Exn Unmodelled end.

Definition as_event (kv : str * json) : res (str * new_event) :=
  let (name, ev) := kv in
  match ev with
  | JObj kvs =>
      let* os := match lookup k_onset_source kvs with Some v => as_list as_pval v | None => Exn Unmodelled end in
      let* ds := match lookup k_duration kvs with Some v => as_list as_pval v | None => Exn Unmodelled end in
      (* the access made at do_op time, as translated from _split_rows *)
      let* cc := match split_rows_event_fetch ev with
                 | Ok a => let* v := attr k_copy_columns a in as_opt_list as_str v
                 | Exn _ => Ok None
                 end in
      Ok (name, {| onset_source := os; duration_source := ds; copy_columns := cc |})
  | _ => Exn Unmodelled
  end.

(* attribute values (fetched by the translated __init__) -> typed operation *)
Definition to_opstate (name : str) (a : list (str * json)) : res opstate :=
  if str_eqb name n_remove_rows then
    let* cn := attr k_column_name a in let* cn := as_str cn in
    let* rv := attr k_remove_values a in let* rv := as_list as_pval rv in
    Ok (RemoveRows cn rv)
  else if str_eqb name n_remove_columns then
    let* cs := attr k_column_names a in let* cs := as_list as_str cs in
    let* ig := attr k_ignore_missing a in let* ig := as_bool ig in
    Ok (RemoveColumns cs ig)
  else if str_eqb name n_rename_columns then
    let* m := attr k_column_mapping a in
    let* m := match m with
              | JObj kvs => mapM (fun kv => let* v := as_str (snd kv) in Ok (fst kv, v)) kvs
              | _ => Exn Unmodelled
              end in
    let* ig := attr k_ignore_missing a in let* ig := as_bool ig in
    Ok (RenameColumns m ig)
  else if str_eqb name n_reorder_columns then
    let* co := attr k_column_order a in let* co := as_list as_str co in
    let* ig := attr k_ignore_missing a in let* ig := as_bool ig in
    let* ko := attr k_keep_others a in let* ko := as_bool ko in
    Ok (ReorderColumns co ig ko)
  else if str_eqb name n_factor_column then
    let* cn := attr k_column_name a in let* cn := as_str cn in
    let* fv := attr k_factor_values a in let* fv := as_opt_list as_str fv in
    let* fn := attr k_factor_names a in let* fn := as_opt_list as_str fn in
    Ok (FactorColumn cn fv fn)
  else if str_eqb name n_remap_columns then
    let* s := attr k_source_columns a in let* s := as_list as_str s in
    let* d := attr k_destination_columns a in let* d := as_list as_str d in
    let* ml := attr k_map_list a in let* ml := as_list (as_list as_pval) ml in
    let* ig := attr k_ignore_missing a in let* ig := as_bool ig in
    let* ints := attr k_integer_sources a in let* ints := as_list as_str ints in
    Ok (RemapColumns s d ml ig ints)
  else if str_eqb name n_merge_consecutive then
    let* cn := attr k_column_name a in let* cn := as_str cn in
    let* ec := attr k_event_code a in let* ec := as_pval ec in
    let* sd := attr k_set_durations a in let* sd := as_bool sd in
    let* ig := attr k_ignore_missing a in let* ig := as_bool ig in
    let* mc := attr k_match_columns a in let* mc := as_opt_list as_str mc in
    Ok (MergeConsecutive cn ec sd ig mc)
  else if str_eqb name n_split_rows then
    let* an := attr k_anchor_column a in let* an := as_str an in
    let* ne := attr k_new_events a in
    let* ne := match ne with JObj kvs => mapM as_event kvs | _ => Exn Unmodelled end in
    let* rp := attr k_remove_parent_row a in let* rp := as_bool rp in
    Ok (SplitRows an ne rp)
  else Exn Unmodelled.

(* work done by a constructor beyond storing attributes:
   RemapColumnsOp._make_key_map -> pd.DataFrame(map_list, columns=...), KeyMap.__init__ *)
Definition ctor_check (st : opstate) : res opstate :=
  match st with
  | RemapColumns s d ml _ _ =>
      if negb (forallb (fun row => Nat.eqb (length row) (length s + length d)) ml) then Exn Unmodelled
      else if negb (nodupb (s ++ d)) then Exn ValueError      (* not disjoint / duplicated names *)
      else Ok st
  | _ => Ok st
  end.

(* valid_operations[item["operation"]](item["parameters"]) *)
Definition parse_operation (item : json) : res opstate :=
  let* nm := jget_req item k_operation in
  let* ps := jget_req item k_parameters in
  match nm with
  | JStr name =>
      match lookup name op_table with
      | Some (_, init) =>
          let* a := init ps in
          let* st := to_opstate name a in
          ctor_check st
      | None => if mem_str name valid_operation_names then Exn Unmodelled else Exn KeyError
      end
  | _ => Exn Unmodelled
  end.

(* Dispatcher.parse_operations *)
Definition parse_operations (ops : json) : res (list opstate) :=
  match ops with
  | JArr l => mapM parse_operation l
  | _ => Exn Unmodelled
  end.

(* ---------------------------------------------------------------- validator *)

(* <Op>.validate_input_data(parameters): true = no error strings *)
Definition input_data_ok (fx : fixes) (st : opstate) : bool :=
  match st with
  | FactorColumn _ vs ns =>
      match ns, vs with
      | Some (n0 :: n), Some (v0 :: v) => Nat.eqb (length n) (length v)
      | Some (_ :: _), _ => false
      | _, _ => true
      end
  | RemapColumns s d ml _ ints =>
      (if fx_disjoint fx then nodupb (s ++ d) else true)
      && forallb (fun row => Nat.eqb (length row) (length s + length d)) ml
      && forallb (fun c => mem_str c s) ints
  | MergeConsecutive cn _ _ _ (Some mc) => negb (mem_str cn mc)
  | _ => true
  end.

(* one element of the operation list against OPERATION_DICT + the if/then of
   its operation: Ok true = no jsonschema error *)
Definition item_schema_ok (item : json) : res bool :=
  match item with
  | JObj kvs =>
      let keys_ok := forallb (fun kv => mem_str (fst kv) [k_operation; k_description; k_parameters]) kvs in
      let desc_ok := match lookup k_description kvs with Some (JStr _) => true | _ => false end in
      let par := lookup k_parameters kvs in
      let par_ok := match par with Some (JObj _) => true | _ => false end in
      match lookup k_operation kvs with
      | Some (JStr name) =>
          if negb (mem_str name valid_operation_names) then Ok false
          else if negb (keys_ok && desc_ok && par_ok) then Ok false
          else match lookup name op_table, par with
               | Some (sch, _), Some p => Ok (check sch p)
               | _, _ => Exn Unmodelled               (* an operation outside the eight *)
               end
      | _ => Ok false
      end
  | _ => Ok false
  end.

(* RemodelerValidator.validate: Ok true = the returned message list is EMPTY *)
Definition validate (fx : fixes) (ops : json) : res bool :=
  match ops with
  | JArr [] => Ok false
  | JArr l =>
      let* oks := mapM item_schema_ok l in
      if negb (forallb (fun b => b) oks) then Ok false
      else
        let* sts := mapM (fun item =>
                            let* nm := jget_req item k_operation in
                            let* ps := jget_req item k_parameters in
                            match nm with
                            | JStr name =>
                                match lookup name op_table with
                                | Some (_, init) => let* a := init ps in to_opstate name a
                                | None => Exn Unmodelled
                                end
                            | _ => Exn Unmodelled
                            end) l in
        Ok (forallb (input_data_ok fx) sts)
  | _ => Ok false
  end.

(* the guarded pipeline (cli/run_remodel.py: validate, stop on messages, else
   build ONE dispatcher and run every file through it) *)
Inductive outcome :=
| Rejected                                          (* messages reported, nothing executed *)
| CtorFailed (e : exn)                              (* Dispatcher(...) raised *)
| Ran (final : list opstate) (results : list (res table)).

Definition remodel (fx : fixes) (ops : json) (ts : list table) : res outcome :=
  let* ok := validate fx ops in
  if negb ok then Ok Rejected
  else match parse_operations ops with
       | Exn Unmodelled => Exn Unmodelled
       | Exn e => Ok (CtorFailed e)
       | Ok sts => let (sts', os) := run_tables fx sts ts in Ok (Ran sts' os)
       end.

(* the user's parameter list as it reads after the run: only column_order is
   aliased by a mutable attribute *)
Definition observed_order (st : opstate) : list str :=
  match st with ReorderColumns o _ _ => o | _ => [] end.
