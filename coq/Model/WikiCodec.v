(* C05 (c): one MediaWiki schema line, writer and reader.  Model only.

   Python sources (hed/schema/schema_io):
     schema2wiki.py  Schema2Wiki._write_tag_entry / _write_entry /
                     _format_props_and_desc / _flush_current_tag
     wiki2schema.py  SchemaLoaderWiki._split_lines_into_sections (per line) /
                     _remove_nowiki_tag_from_line / _get_tag_level / _get_tag_name
                     (tag_name_expression as a hand scanner) / _get_line_section /
                     _get_tag_attributes / _create_entry / _create_tag_entry /
                     the per-row part of _read_schema
     hed_schema_section.py  HedSchemaTagSection._create_tag_entry (short_tag_name) *)
From Coq Require Import List NArith ZArith Arith Bool.
From HV Require Import Base.Res Base.Str Base.StrOps Model.AttrCodec.
Import ListNotations.

Definition s_nowiki_open : str := [60;110;111;119;105;107;105;62]%N.
Definition s_nowiki_close : str := [60;47;110;111;119;105;107;105;62]%N.
Definition s_extend_here : str := [101;120;116;101;110;100;32;104;101;114;101]%N.
Definition s_zw : str := [38;35;56;50;48;51;59]%N.          (* invalid_characters_to_strip *)
Definition s_root : str := [39;39;39]%N.                     (* ROOT_TAG, three apostrophes *)
Definition ch_star : N := 42%N.
Definition ch_lt : N := 60%N.

(* ------------------------------------------------------------------ writer *)

(* Schema2Wiki._format_props_and_desc; description None or '' gives no [..] part *)
Definition format_props_and_desc (disallowed : str -> bool) (a : attrs) (desc : option str) : str :=
  let attribute_string := format_tag_attributes disallowed a in
  let extras1 := if nonempty attribute_string
                 then ch_lbrace :: attribute_string ++ [ch_rbrace] else [] in
  match desc with
  | Some (c :: d') =>
      extras1 ++ (if nonempty attribute_string then [ch_space] else [])
              ++ ch_lbrack :: (c :: d') ++ [ch_rbrack]
  | _ => extras1
  end.

(* Schema2Wiki._flush_current_tag: the line appended to the output (None = nothing) *)
Definition flush_current_tag (current_tag_string current_tag_extra : str) : option str :=
  if nonempty current_tag_string || nonempty current_tag_extra then
    Some (if nonempty current_tag_extra
          then current_tag_string ++ ch_space :: s_nowiki_open ++ current_tag_extra ++ s_nowiki_close
          else current_tag_string)
  else None.

(* tag.split('/')[-1] *)
Definition last_component (tag : str) : str := last (split_on ch_slash tag) [].

(* HedSchemaTagSection._create_tag_entry: short_tag_name (a trailing /# removed first) *)
Definition short_tag_name (name : str) : str :=
  let long := if endswith [ch_slash; ch_hash] name
              then firstn (length name - 2) name else name in
  last_component long.

(* Schema2Wiki._write_tag_entry followed by the flush *)
Definition write_tag_line (disallowed : str -> bool) (tag : str) (level : nat)
           (a : attrs) (desc : option str) : option str :=
  let props := format_props_and_desc disallowed a desc in
  match level with
  | O =>
      let tag' := if memb ch_slash tag then short_tag_name tag else tag in
      flush_current_tag (s_root ++ tag' ++ s_root) props
  | _ =>
      let short_tag := last_component tag in
      if endswith [ch_hash] short_tag
      then flush_current_tag (repeat_ch ch_star level ++ [ch_space]) (short_tag ++ ch_space :: props)
      else flush_current_tag (repeat_ch ch_star level ++ ch_space :: short_tag) props
  end.

(* Schema2Wiki._write_entry followed by the flush (depth 1, or 2 for units) *)
Definition write_entry_line (disallowed : str -> bool) (entry_name : str) (depth : nat)
           (include_props : bool) (a : attrs) (desc : option str) : option str :=
  flush_current_tag (repeat_ch ch_star depth ++ ch_space :: entry_name)
                    (if include_props then format_props_and_desc disallowed a desc else []).

(* ------------------------------------------------------------------ reader *)

(* re.sub('</?nowiki>', '', row): single pass, leftmost, non-overlapping *)
Fixpoint remove_nowiki_go (skip : nat) (s : str) : str :=
  match s with
  | [] => []
  | c :: t =>
      match skip with
      | S k => remove_nowiki_go k t
      | O => if prefixb s_nowiki_open s then remove_nowiki_go 7 t
             else if prefixb s_nowiki_close s then remove_nowiki_go 8 t
             else c :: remove_nowiki_go 0 t
      end
  end.
Definition remove_nowiki (s : str) : str := remove_nowiki_go 0 s.

(* _remove_nowiki_tag_from_line: (a fatal error was recorded, new row).
   The first condition is Python's  index1 == -1 ^ index2 == -1 , which parses as the
   chain  index1 == (-1 ^ index2) == -1  (bitwise xor binds tighter than ==). *)
Definition remove_nowiki_tag_from_line (row : str) : bool * str :=
  let index1 := finds s_nowiki_open row in
  let index2 := finds s_nowiki_close row in
  let x := (-1 - index2)%Z in                      (* -1 ^ index2 *)
  let fatal :=
      if Z.eqb index1 x && Z.eqb x (-1) then true
      else negb (Z.eqb index1 (-1)) && Z.leb index2 index1 in
  (fatal, remove_nowiki row).

(* _get_tag_level: row[count] past the end raises IndexError *)
Definition get_tag_level (row : str) : res nat :=
  let count := count_leading ch_star row in
  if Nat.eqb count (length row) then Exn IndexError
  else Ok (if Nat.eqb count 0 then 1 else count).

(* --- tag_name_expression = (\*+|'{3})(.*?)('{3})?\s*([\[\{]|$)+  by hand --- *)

Definition is_open_br (c : N) : bool := N.eqb c ch_lbrack || N.eqb c ch_lbrace.

Fixpoint count_leading_br (s : str) : nat :=
  match s with
  | c :: t => if is_open_br c then S (count_leading_br t) else 0
  | [] => 0
  end.

(* \s*([\[\{]|$)+ anchored at s: offset of the start of the LAST iteration of
   group 4 (match.regs[4][0]).  Backtracking \s* never helps. *)
Definition ws_then_end (s : str) : option nat :=
  let s' := lstrip s in
  let nws := length s - length s' in
  match s' with
  | [] => Some nws
  | c :: _ =>
      if is_open_br c then
        let k := count_leading_br s' in
        match skipn k s' with
        | [] => Some (nws + k)                       (* a final empty $ iteration *)
        | [x] => if N.eqb x ch_nl then Some (nws + k) else Some (nws + k - 1)
        | _ => Some (nws + k - 1)
        end
      else None
  end.

(* ('{3})?\s*([\[\{]|$)+ anchored at s *)
Definition tail_match (s : str) : option nat :=
  if prefixb s_root s then
    match ws_then_end (skipn 3 s) with
    | Some o => Some (3 + o)
    | None => ws_then_end s
    end
  else ws_then_end s.

(* (.*?) followed by the tail: (length of group 2, offset of regs[4][0]) *)
Fixpoint lazy2 (s : str) : option (nat * nat) :=
  match tail_match s with
  | Some o => Some (0, o)
  | None =>
      match s with
      | [] => None
      | c :: t =>
          if N.eqb c ch_nl then None
          else match lazy2 t with
               | Some (l, o) => Some (S l, S o)
               | None => None
               end
      end
  end.

(* the whole expression anchored at s: (length of group 1, length of group 2, regs[4][0]) *)
Definition match_at (s : str) : option (nat * nat * nat) :=
  match s with
  | [] => None
  | c :: _ =>
      if N.eqb c ch_star then
        let k := count_leading ch_star s in
        match lazy2 (skipn k s) with
        | Some (l, o) => Some (k, l, k + o)
        | None => None
        end
      else if prefixb s_root s then
        match lazy2 (skipn 3 s) with
        | Some (l, o) => Some (3, l, 3 + o)
        | None => None
        end
      else None
  end.

(* tag_name_re.search(row): (start of group 2, length of group 2, regs[4][0]) *)
Fixpoint search_from (s : str) (off : nat) : option (nat * nat * nat) :=
  match match_at s with
  | Some (k, l, o) => Some (off + k, l, off + o)
  | None => match s with
            | [] => None
            | _ :: t => search_from t (S off)
            end
  end.

(* _get_tag_name: (None | Some name, index).
   [fixed] = false: the code before fix commit 784517a (finding C05-F3) (the words 'extend here' anywhere
   in the row reject the row); [fixed] = true: the repaired code looks for the words in the name part
   (group 2) only, and in the whole row when the row does not have the shape of a node line. *)
Definition get_tag_name (fixed : bool) (row : str) : option str * Z :=
  if negb fixed && contains s_extend_here row then (Some [], 0%Z)
  else
    let row' := remove_all s_zw row in
    match search_from row' 0 with
    | Some (st, l, idx) =>
        let name_part := sub row' st (st + l) in
        if fixed && contains s_extend_here name_part then (Some [], 0%Z)
        else
          let tag_name := strip name_part in
          if nonempty tag_name then (Some tag_name, Z.of_nat idx) else (None, 0%Z)
    | None =>
        if fixed && contains s_extend_here row' then (Some [], 0%Z) else (None, 0%Z)
    end.

(* Python index normalisation for slices *)
Definition py_norm (len : nat) (i : Z) : nat :=
  if Z.ltb i 0 then Z.to_nat (Z.max 0 (i + Z.of_nat len)) else Z.to_nat i.
Definition py_from (s : str) (a : Z) : str := skipn (py_norm (length s) a) s.
Definition py_slice (s : str) (a b : Z) : str :=
  sub s (py_norm (length s) a) (py_norm (length s) b).

(* _get_line_section: (None | Some text, index) *)
Definition get_line_section (row : str) (starting_index : Z) (start_delim end_delim : N)
  : option str * Z :=
  let count1 := count start_delim row in
  let count2 := count end_delim row in
  if negb (Nat.eqb count1 count2) || Nat.ltb 1 count1 || Nat.ltb 1 count2 then (None, 0%Z)
  else
    let row' := py_from row starting_index in
    let index1 := findc start_delim row' in
    let index2 := findc end_delim row' in
    if Z.ltb index2 index1 then (None, 0%Z)
    else if Nat.eqb count1 0 then (Some [], starting_index)
    else (Some (py_slice row' (index1 + 1) index2), (index2 + starting_index)%Z).

Record parsed : Set := mkParsed {
  p_root : bool;            (* row starts with the root marker *)
  p_level : nat;            (* number of leading stars (1 when none); 0 for a root *)
  p_name : str;
  p_attrs : attrs;
  p_desc : option str }.

(* _create_entry without the schema object: (fatal recorded, entry fields);
   an uncaught exception (TypeError from a boolean-then-valued duplicate) is Exn *)
Definition create_entry (fixed : bool) (row : str) (full_tag_name : option str)
  : res (bool * option (str * attrs * option str)) :=
  let '(node_name, index) := get_tag_name fixed row in
  match node_name with
  | None => Ok (true, None)
  | Some nm =>
      let node_name := match full_tag_name with
                       | Some (c :: f) => c :: f
                       | _ => nm
                       end in
      (* _get_tag_attributes *)
      let '(attr_string, index) := get_line_section row index ch_lbrace ch_rbrace in
      match attr_string with
      | None => Ok (true, None)                  (* parse(None) is None: mismatched delimiters *)
      | Some astr =>
          let* fa :=
             match parse_attribute_string astr with
             | Ok a => Ok (false, a)
             | Exn ValueError => Ok (true, [])    (* caught: fatal error recorded, {} returned *)
             | Exn e => Exn e
             end in
          let '(fatal_a, node_attributes) := fa in
          let '(node_desc, _) := get_line_section row index ch_lbrack ch_rbrack in
          match node_desc with
          | None => Ok (true, None)
          | Some d =>
              let description := match d with [] => None | _ => Some (strip d) end in
              (* _set_attribute_value ignores falsy values *)
              let kept := filter (fun kv => match snd kv with AStr [] => false | _ => true end)
                                 node_attributes in
              Ok (fatal_a, Some (node_name, kept, description))
          end
      end
  end.

(* one line of the schema section: line.strip(), nowiki removal, then the row part of
   _read_schema with no parents.  Ok None = the line is dropped (blank).  A recorded
   fatal error surfaces as HedFileError at the end of the load. *)
Definition read_tag_line (fixed : bool) (line : str) : res (option parsed) :=
  let '(fatal0, row) := remove_nowiki_tag_from_line (strip line) in
  match row with
  | [] => if fatal0 then Exn HedFileError else Ok None
  | _ =>
      let root := startswith s_root row in
      let* level := if root then Ok 0 else get_tag_level row in
      (* _create_tag_entry *)
      let '(tag_name, _) := get_tag_name fixed row in
      match tag_name with
      | Some (c :: nm) =>
          let* r := create_entry fixed row (Some (c :: nm)) in
          match r with
          | (false, Some (n, a, d)) =>
              if fatal0 then Exn HedFileError else Ok (Some (mkParsed root level n a d))
          | _ => Exn HedFileError
          end
      | _ => Exn HedFileError
      end
  end.

(* one line of a unit class / unit / modifier / value class / attribute / property
   section: _read_section / _read_unit_classes *)
Definition read_entry_line (fixed : bool) (line : str) : res (option parsed) :=
  let '(fatal0, row) := remove_nowiki_tag_from_line (strip line) in
  match row with
  | [] => if fatal0 then Exn HedFileError else Ok None
  | _ =>
      let* level := get_tag_level row in
      let* r := create_entry fixed row None in
      match r with
      | (false, Some (n, a, d)) =>
          if fatal0 then Exn HedFileError else Ok (Some (mkParsed false level n a d))
      | _ => Exn HedFileError
      end
  end.

(* ------------------------------------------------------------------ side conditions *)

(* every '<' is followed by a character other than 'n' and '/' (so that no
   <nowiki> or </nowiki> can start there); a final '<' is not allowed *)
Fixpoint lt_clean (s : str) : bool :=
  match s with
  | [] => true
  | c :: t =>
      (if N.eqb c ch_lt
       then match t with
            | [] => false
            | d :: _ => negb (N.eqb d 110) && negb (N.eqb d ch_slash)
            end
       else true) && lt_clean t
  end.

(* the same when the text is followed by a separator that is not 'n', '/' or '<' *)
Definition lt_ok (s : str) : bool := lt_clean (s ++ [ch_space]).

Definition ch_apos : N := 39%N.
Definition brackets : list N := [ch_lbrack; ch_rbrack; ch_lbrace; ch_rbrace; ch_nl].

(* text that may sit inside {..} or [..]: no brackets/braces/LF, no nowiki opener *)
Definition wiki_text_ok (s : str) : bool := none_of brackets s && lt_ok s.

(* the name of a non-tag entry (unit, unit class, unit modifier, value class, attribute, property) is one
   opaque term: a slash or a final '#' -- admitted e.g. through the entry's own allowedCharacter attribute, as
   in m/s, km/h -- are ordinary characters of it *)
Definition ename_ok (n : str) : bool :=
  nonempty n && no_outer_ws n && none_of brackets n && negb (memb ch_lt n) && negb (memb ch_apos n).

(* Schema2XML: the text of the name element.  _write_tag_entry writes the last term of the long name of a
   tag; _write_entry writes the name of any other entry as it is. *)
Definition xml_name_text (is_tag : bool) (name : str) : str :=
  if is_tag then last_component name else name.

(* NameOK: the schema name class has no apostrophe, slash, '<' or blank ends; a final '#'
   selects the value-taking layout of the writer and is treated separately *)
Definition name_ok (n : str) : bool :=
  nonempty n && no_outer_ws n && none_of brackets n && negb (memb ch_lt n) && negb (memb ch_apos n)
  && negb (endswith [ch_hash] n) && negb (memb ch_slash n).

(* the text class schema compliance allows in descriptions (character_types text + comma):
   printable ASCII except brackets and braces, or any non-ASCII code point *)
Definition schema_text_char (c : N) : bool :=
  ((32 <=? c) && (c <=? 126) && negb (memb c [ch_lbrack; ch_rbrack; ch_lbrace; ch_rbrace]) || (127 <? c))%N.
Definition schema_text_ok (s : str) : bool := forallb schema_text_char s.

(* DescOK (None = no description) *)
Definition desc_ok (d : option str) : bool :=
  match d with
  | None => true
  | Some s => nonempty s && no_outer_ws s && wiki_text_ok s
  end.

(* AttrOK at the MediaWiki level *)
Definition wiki_attr_ok (a : attrs) : bool :=
  attr_ok a && wiki_text_ok (format_tag_attributes (fun _ => false) a).

(* reserved literals of the reader.  Before fix commit 784517a (C05-F3) a row containing 'extend here'
   anywhere is refused; after it only a NAME containing the words is.  The zero-width-space entity is
   deleted from the row before the name expression runs (the proofs assume it is absent). *)
Definition row_free_of_reserved (fixed : bool) (n line : str) : bool :=
  (if fixed then negb (contains s_extend_here n)
   else negb (contains s_extend_here (remove_nowiki line)))
  && negb (contains s_zw (remove_nowiki line)).

(* xml2schema._parse_node, description part: the element text ('' = no description element).
   [fixed] = true is fix commit 4719ff8 (C05-F1), the current code: outer white space is dropped as the MediaWiki and TSV
   readers do, and a description of white space only counts as absent. *)
Definition xml_read_desc (fixed : bool) (text : str) : option str :=
  match text with
  | [] => None
  | _ => if fixed then (match strip text with [] => None | s => Some s end) else Some text
  end.

(* SchemaLoaderWiki._open_file: the lines of the source.  wiki_file.readlines() on a text file and
   schema_as_string.split(LF) on a string end a line at U+000A and NOWHERE ELSE: U+0085, U+2028, U+2029,
   VT, FF, FS, GS, RS are ordinary characters of a line (str.splitlines would also cut there).  Every
   per-line statement of this development rests on this; the harness clause lines-split-only-at-LF
   compares the lines the real reader sees with the LF-separated lines of the saved text. *)
Definition open_file_lines (text : str) : list str := split_on ch_nl text.

(* xml2schema._get_element_tag_value for a name element ('' = no text); [fixed] = true is fix commit 4b4f5c6
   (finding C05-F5), the current code (names lose their outer white space, as in a MediaWiki line) *)
Definition xml_read_name (fixed : bool) (text : str) : str := if fixed then strip text else text.

(* what may stand inside [..]: DescOK without the requirements the repaired XML reader guarantees *)
Definition desc_text_ok (d : option str) : bool :=
  match d with None => true | Some s => wiki_text_ok s end.

(* ------------------------------------------------------------------ the tag section of a merged MediaWiki file *)

(* a tag entry as the schema holds it: the terms of its long name, its attributes, its description *)
Record tag_item : Set := mkItem { ti_path : list str; ti_attrs : attrs; ti_desc : option str }.

(* Schema2Base._output_tags (merged save: level = number of slashes of the long name, no level adjustment) with
   Schema2Wiki._write_tag_entry: one line per entry, in the order of the entry list; the writer takes the last
   term of the long name (tag.split('/')[-1]) -- here the last element of the path *)
Definition write_tag_section (disallowed : str -> bool) (es : list tag_item) : list (option str) :=
  map (fun e => write_tag_line disallowed (last (ti_path e) []) (length (ti_path e) - 1) (ti_attrs e) (ti_desc e)) es.

(* SchemaLoaderWiki._read_schema on the lines of the section of a MERGED file (no rooted re-parenting, level_adj
   stays 0): a root line starts a new tree, any other line keeps the first `level` terms of the previous tag's
   long name; a level that skips a generation, or any line the per-line reader rejects, fails the load *)
Fixpoint read_tag_section (fixed : bool) (parent_tags : list str) (lines : list str) : res (list tag_item) :=
  match lines with
  | [] => Ok []
  | l :: rest =>
      let* p := read_tag_line fixed l in
      match p with
      | None => read_tag_section fixed parent_tags rest
      | Some r =>
          if p_root r then
            let name := [p_name r] in
            let* items := read_tag_section fixed name rest in
            Ok (mkItem name (p_attrs r) (p_desc r) :: items)
          else if Nat.ltb (length parent_tags) (p_level r) then Exn HedFileError
          else
            let name := firstn (p_level r) parent_tags ++ [p_name r] in
            let* items := read_tag_section fixed name rest in
            Ok (mkItem name (p_attrs r) (p_desc r) :: items)
      end
  end.

(* the entry list is parents-first: every entry directly follows its parent or a node of its parent's subtree *)
Fixpoint paths_parents_first (previous : list str) (paths : list (list str)) : Prop :=
  match paths with
  | [] => True
  | p :: rest =>
      p <> [] /\ length p - 1 <= length previous /\ removelast p = firstn (length p - 1) previous
      /\ paths_parents_first p rest
  end.
