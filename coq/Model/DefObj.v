(* C09 object layer (ownership trees): the reachable part of the heap of
   Model/DefStore.v read as a tree in which every Def/Def-expand tag carries its
   own object state (cached expansion, _expanded flag) and its position:
     OT t     the tag object sits directly in its parent group
     OX t c   the tag's cached expansion group g_t = [t] ++ c sits in the tree
              (t._parent = g_t); c = [] or [content group]
     OCyc     the group that is its own first child (g._replace(t, g) with
              t._parent = g): what the second expand_defs built before fix commit 60986da
              (fx = false)
   Same operations, same [fx] switch as the heap model.  The cached content is
   kept as pure nodes: under [wf_dict] no operation can change it.
   Models only -- no proofs. *)
From Coq Require Import List NArith Arith Bool.
From HV Require Import Base.Res Base.Str Model.Defs Model.DefStore.
Import ListNotations.

Record otag : Set := mkOTag {
  otg : tag;
  ocache : option (list node);   (* _expandable: the children after the tag itself *)
  oexp : bool;                   (* _expanded *)
  ohd : bool                     (* a _def_entry lookup was made at construction *)
}.

Inductive onode : Set :=
| OT (t : otag)
| OG (ch : list onode)
| OX (t : otag) (c : list node)
| OCyc.

Definition oforest := list onode.

Definition defy (b : base) : bool := is_def b || is_defexpand b.

Fixpoint load_node (n : node) : onode :=
  match n with
  | T t => OT (mkOTag t None false (defy (tbase t)))
  | G ch => OG (map load_node ch)
  end.
Definition load_o (f : forest) : oforest := map load_node f.

(* str() / tree shape *)
Fixpoint abs_o (n : onode) : res node :=
  match n with
  | OT t => Ok (T (otg t))
  | OG ch =>
      let* l := (fix go (l : list onode) : res (list node) :=
                   match l with
                   | [] => Ok []
                   | x :: l' => let* y := abs_o x in let* ys := go l' in Ok (y :: ys)
                   end) ch in
      Ok (G l)
  | OX t c => Ok (G (T (otg t) :: c))
  | OCyc => Exn RecursionError
  end.
Definition abs_of (f : oforest) : res forest := mapM abs_o f.

(* HedTag.expandable *)
Definition expandable_o (D : dict) (t : otag) : res otag :=
  match ocache t with
  | Some _ => Ok t
  | None =>
      if ohd t then
        match def_entry D (otg t) with
        | None => Ok t
        | Some e =>
            let* r := get_definition e (otg t) (def_placeholder (otg t)) in
            match r with
            | None => Ok t
            | Some ch => Ok (mkOTag (otg t) (Some (tl ch)) (is_defexpand (tbase (otg t))) (ohd t))
            end
        end
      else Ok t
  end.

Definition set_obase (t : otag) (b : base) (x : bool) : otag :=
  mkOTag (set_base (otg t) b) (ocache t) x (ohd t).

(* HedString.expand_defs; [top] = the node is a direct child of the HedString
   (find_def_tags does not see Def-expand tags there) *)
Fixpoint expand_o (fx : bool) (D : dict) (top : bool) (n : onode) : res onode :=
  match n with
  | OT t =>
      let b := tbase (otg t) in
      if is_def b || (is_defexpand b && negb top) then
        let* t' := expandable_o D t in
        match ocache t' with
        | Some c => if oexp t' then Ok (OT t')
                    else Ok (OX (set_obase t' BDefExpand (if fx then true else oexp t')) c)
        | None => Ok (OT t')
        end
      else Ok (OT t)
  | OG ch =>
      let* l := (fix go (l : list onode) : res (list onode) :=
                   match l with
                   | [] => Ok []
                   | x :: l' => let* y := expand_o fx D false x in let* ys := go l' in Ok (y :: ys)
                   end) ch in
      Ok (OG l)
  | OX t c =>
      if defy (tbase (otg t)) then
        if oexp t then Ok (OX t c) else Ok OCyc
      else Ok (OX t c)
  | OCyc => Exn Unmodelled
  end.
Definition expand_of (fx : bool) (D : dict) (f : oforest) : res oforest :=
  mapM (expand_o fx D true) f.

Definition de_otags (ch : list onode) : list otag :=
  flat_map (fun n => match n with
                     | OT t => if is_defexpand (tbase (otg t)) then [t] else []
                     | _ => []
                     end) ch.

Fixpoint multi_o (n : onode) : bool :=
  match n with
  | OT _ => false
  | OG ch => (2 <=? length (de_otags ch)) || existsb multi_o ch
  | OX t c => multi_de (G (T (otg t) :: c))
  | OCyc => false
  end.

Fixpoint has_cyc (n : onode) : bool :=
  match n with
  | OT _ => false
  | OG ch => existsb has_cyc ch
  | OX _ _ => false
  | OCyc => true
  end.

(* HedString.shrink_defs below a non-root group *)
Fixpoint shrink_o (fx : bool) (n : onode) : onode :=
  match n with
  | OT t => OT t
  | OG ch =>
      match de_otags ch with
      | t :: _ => OT (set_obase t BDef (if fx then false else oexp t))
      | [] => OG (map (shrink_o fx) ch)
      end
  | OX t c =>
      if is_defexpand (tbase (otg t)) then OT (set_obase t BDef (if fx then false else oexp t))
      else OX t c
  | OCyc => OCyc
  end.

Definition shrink_of (fx : bool) (f : oforest) : res oforest :=
  if existsb has_cyc f then Exn Unmodelled
  else if existsb multi_o f then Exn KeyError
  else Ok (map (shrink_o fx) f).

(* the working object and the saved ones; a deep copy of an ownership tree is the
   same tree *)
Definition ostate := (oforest * list oforest)%type.

Definition step_os (fx : bool) (D : dict) (o : op) (st : ostate) : res ostate :=
  let '(f, sv) := st in
  match o with
  | OpExpand => let* f' := expand_of fx D f in Ok (f', sv)
  | OpShrink => let* f' := shrink_of fx f in Ok (f', sv)
  | OpCopy => Ok (f, f :: sv)
  | OpValidate => Ok (f, sv)
  | OpSwap => match sv with [] => Ok (f, sv) | g :: r => Ok (g, f :: r) end
  end.

Fixpoint run_os (fx : bool) (D : dict) (ops : list op) (st : ostate) : res ostate :=
  match ops with
  | [] => Ok st
  | o :: ops' => let* st' := step_os fx D o st in run_os fx D ops' st'
  end.

Definition run_o (fx : bool) (D : dict) (ops : list op) (f : oforest) : res oforest :=
  let* st := run_os fx D ops (f, []) in Ok (fst st).

(* per tag in get_all_tags order: (short_tag, has cache, _expanded) *)
Fixpoint flags_o (n : onode) : list (str * (bool * bool)) :=
  match n with
  | OT t => [(short_tag (otg t), (match ocache t with Some _ => true | None => false end, oexp t))]
  | OG ch => flat_map flags_o ch
  | OX t c => (short_tag (otg t), (true, oexp t))
              :: map (fun x => (short_tag x, (false, false))) (all_tags_f c)
  | OCyc => []
  end.

